/-
C04 — mask_password hides every supported secret and changes nothing else.

Property theorems only (helper lemmas live in OsloProofs/Lemmas/C04*.lean).
The model is OsloModel/Mask.lean over the *generated* tables
(OsloModel/Generated/Mask.lean, written from the live strutils on every run).
-/
import OsloModel.Mask
import OsloProofs.Lemmas.C04Flat
import OsloProofs.Lemmas.C04Mask
namespace Oslo.Mask
open Oslo.Flat

/-! ### the tables -/

/-- the 35 keys named by the property (strutils.py:69-79 at the pinned commit) -/
def specKeys : List String :=
  ["adminpass", "admin_pass", "password", "admin_password", "auth_token", "new_pass", "auth_password",
   "secret_uuid", "secret", "sys_pswd", "token", "configdrive", "chappassword", "encrypted_key",
   "private_key", "fernetkey", "sslkey", "passphrase", "cephclusterfsid", "octaviaheartbeatkey",
   "rabbitcookie", "cephmanilaclientkey", "pacemakerremoteauthkey", "designaterndckey", "cephadminkey",
   "heatauthencryptionkey", "cephclientkey", "keystonecredential", "barbicansimplecryptokek", "cephrgwkey",
   "swifthashsuffix", "migrationsshkey", "cephmdskey", "cephmonkey", "chapsecret"]

/-- every key the property names is in the list the code uses -/
theorem sanitize_keys_cover_spec : ∀ k ∈ specKeys, k.toList ∈ Gen.sanitizeKeys := by decide

/-! The reviewed templates: what the twelve patterns of strutils.py:91-108 compile to, with the key
abstracted, case-insensitivity folded in and `\s` = `Gen.wsRanges`. -/

def digitC : Cls := cls [(48, 57)]                                   -- [0-9]
def wsC : Cls := cls Gen.wsRanges                                     -- \s
def eqC : Cls := cls [(61, 61)]                                       -- [=]
def quoteC : Cls := cls [(34, 34), (39, 39)]                          -- ["']
def dqC : Cls := cls [(34, 34)]
def sqC : Cls := cls [(39, 39)]
def nquoteC : Cls := ncls [(34, 34), (39, 39)]                        -- [^"']
def bareC : Cls := ncls (Gen.wsRanges ++ [(34, 34), (39, 39)])        -- [^\s'"]
def dashValC : Cls := ncls (Gen.wsRanges ++ [(34, 34), (39, 39), (61, 61)])  -- [^'"=\s]
def dashC : Cls := cls [(45, 45)]
def uC : Cls := cls [(85, 85), (117, 117)]                            -- u under IGNORECASE
def flagC : Cls := cls [(65, 122), (304, 305), (383, 383), (8490, 8490)]  -- [A-z] under IGNORECASE
def colonC : Cls := cls [(58, 58)]
def commaC : Cls := cls [(44, 44)]
def ltC : Cls := cls [(60, 60)]
def gtC : Cls := cls [(62, 62)]
def slashC : Cls := cls [(47, 47)]

def tplEqQuoted : Template := ⟨[.key, star digitC, star wsC, one eqC, star wsC, one quoteC], [star nquoteC], [one quoteC]⟩
def tplEqDq : Template := ⟨[.key, star digitC, star wsC, one eqC, star wsC, one dqC], [star (ncls [(34, 34)])], [one dqC]⟩
def tplEqSq : Template := ⟨[.key, star digitC, star wsC, one eqC, star wsC, one sqC], [star (ncls [(39, 39)])], [one sqC]⟩
def tplKeyQuoted : Template := ⟨[.key, star digitC, plus wsC, one quoteC], [star nquoteC], [one quoteC]⟩
def tplDashDash : Template := ⟨[rep dashC 2 (some 2), .key, star digitC, plus wsC], [plus dashValC], [star wsC]⟩
def tplXml : Template := ⟨[one ltC, .key, star digitC, one gtC], [star (ncls [(60, 60)])],
                          [one ltC, one slashC, .key, star digitC, one gtC]⟩
def tplColonQuoted : Template :=
  ⟨[one quoteC, .key, star digitC, one quoteC, star wsC, one colonC, star wsC, one quoteC], [star nquoteC], [one quoteC]⟩
def tplColonPrefixed : Template :=
  ⟨[one quoteC, star nquoteC, .key, star digitC, one quoteC, star wsC, one colonC, star wsC, opt uC, one quoteC],
   [star nquoteC], [one quoteC]⟩
def tplCmdList : Template :=
  ⟨[one quoteC, star nquoteC, .key, star digitC, one quoteC, star wsC, one commaC, star wsC, one sqC, one dashC,
    opt dashC, plus flagC, one sqC, star wsC, one commaC, star wsC, opt uC, one quoteC],
   [star nquoteC], [one quoteC]⟩
def tplCmdFlag : Template :=
  ⟨[.key, star digitC, star wsC, one dashC, opt dashC, plus flagC, star wsC], [plus (ncls Gen.wsRanges)], [star wsC]⟩
def tplEqBare : Template := ⟨[.key, star digitC, star wsC, one eqC, star wsC], [plus bareC], []⟩
def tplWildcard : Template :=
  ⟨[one quoteC, star nquoteC, .key, star digitC, one quoteC, star wsC, one colonC, star wsC, opt uC, one quoteC,
    star (ncls []), one quoteC],
   [star nquoteC], [one quoteC]⟩

/-- the generated templates (from the live compiled patterns) are the reviewed ones, in the code's order;
    an edited, added, removed or reordered pattern breaks this -/
theorem templates_as_reviewed :
    Gen.patterns2 = [tplEqQuoted, tplEqDq, tplEqSq, tplKeyQuoted, tplDashDash, tplXml, tplColonQuoted,
                     tplColonPrefixed, tplCmdList, tplCmdFlag] ∧
    Gen.patterns1 = [tplEqBare] ∧ Gen.patternsWildcard = [tplWildcard] ∧
    Gen.ignoreCase = true ∧ Gen.foldExtra = [(105, [304, 305]), (107, [8490]), (115, [383])] := by
  decide

/-! ### no key, no change -/

theorem lemma_maskWith_nokey (mask msg : List Char) : ∀ (keys : List (List Char)),
    (∀ key ∈ keys, isInfix key (pyLower msg) = false) → maskWith keys mask msg = msg := by
  intro keys
  induction keys with
  | nil => intro _; rfl
  | cons k keys ih =>
    intro h
    have hk : isInfix k (pyLower msg) = false := h k (by simp)
    have : maskStep mask msg k = msg := by simp [maskStep, hk]
    simp only [maskWith, List.foldl_cons, this]
    exact ih (fun key hkey => h key (by simp [hkey]))

/-- a message in whose lower-casing no sanitize key occurs is returned unchanged (every message, every mask) -/
theorem mask_nokey_id (msg mask : List Char)
    (h : ∀ key ∈ Gen.sanitizeKeys, isInfix key (pyLower msg) = false) : maskPassword msg mask = msg :=
  lemma_maskWith_nokey mask msg Gen.sanitizeKeys h

example : ∀ key ∈ Gen.sanitizeKeys, isInfix key (pyLower "user=bob pass word=1 ſecret=2".toList) = false := by
  decide

/-! ### rendering `key=value` (bare): the pattern of `_FORMAT_PATTERNS_1` -/

theorem lemma_inRanges_append (n : Nat) : ∀ (a b : List (Nat × Nat)), inRanges n (a ++ b) = (inRanges n a || inRanges n b) := by
  intro a
  induction a with
  | nil => intro b; simp [inRanges]
  | cons x a ih => intro b; obtain ⟨lo, hi⟩ := x; simp [inRanges, ih, Bool.or_assoc]

theorem lemma_ws_not_digit (c : Char) (h : wsC.test c = true) : digitC.test c = false := by
  simp only [wsC, digitC, cls, Cls.test, Gen.wsRanges, inRanges] at h ⊢
  simp at h ⊢
  omega

theorem lemma_bare_not_ws (c : Char) (h : bareC.test c = true) : wsC.test c = false := by
  simp only [bareC, wsC, ncls, cls, Cls.test, lemma_inRanges_append] at h ⊢
  simp at h ⊢
  exact h.1

theorem lemma_matchPat_eq_bare (K K' ds w1 w2 secret post : List Char)
    (hK : keyMatch K K' = true) (hds : ∀ c ∈ ds, digitC.test c = true) (hw1 : ∀ c ∈ w1, wsC.test c = true)
    (hw2 : ∀ c ∈ w2, wsC.test c = true) (hsec : secret ≠ []) (hsecV : ∀ c ∈ secret, bareC.test c = true)
    (hpost : ∀ c, post.head? = some c → bareC.test c = false) :
    matchPat (tplEqBare.inst (keyItems K)) (K' ++ (ds ++ (w1 ++ ('=' :: (w2 ++ (secret ++ post)))))) =
      some ⟨(secret ++ post).length, post.length, post.length⟩ := by
  unfold matchPat
  simp only [tplEqBare, Template.inst, instItems, star, one, plus]
  rw [matchSeq_keyItems, keyPrefix_of_keyMatch K K' _ hK, if_pos rfl]
  rw [← keyMatch_length K K' hK, List.drop_left]
  -- [0-9]*
  apply matchSeq_cons_greedy _ _ _ ds _ _ rfl (Nat.zero_le _) hds
  · apply head_append_of_all _ w1 _ (fun c hc => lemma_ws_not_digit c (hw1 c hc))
    intro c hc; simp at hc; subst hc; decide
  -- \s*
  apply matchSeq_cons_greedy _ _ _ w1 _ _ rfl (Nat.zero_le _) hw1
  · intro c hc; simp at hc; subst hc; decide
  -- [=]
  rw [matchSeq_one]
  simp only [show eqC.test '=' = true by decide, if_true]
  -- \s*
  apply matchSeq_cons_greedy _ _ _ w2 _ _ rfl (Nat.zero_le _) hw2
  · intro c hc
    cases secret with
    | nil => exact absurd rfl hsec
    | cons x xs => simp at hc; subst hc; exact lemma_bare_not_ws _ (hsecV _ (by simp))
  -- [^\s'"]+ , end of pattern
  apply matchSeq_cons_greedy _ _ _ secret post _ rfl _ hsecV hpost
  · simp [matchSeq]
  · cases secret with
    | nil => exact absurd rfl hsec
    | cons x xs => simp

/-- **Rendering `key = value` (bare), one pattern.**  For every key `K`, every spelling `K'` of it that the
compiled pattern accepts (any letter case, and the non-ASCII characters IGNORECASE equates), every digit
suffix, any whitespace around `=`, every non-empty secret over the value class of the generated template
(`[^\s'"]`, so regex metacharacters, `=`, `^`, non-ASCII … included), every mask, every prefix in which the
key does not start before the rendering, every suffix that does not continue the value and does not contain
the key: `re.sub` of the `_FORMAT_PATTERNS_1` pattern of `K` replaces exactly the value by the mask.

This is the statement about the *one* substitution that is responsible for the rendering, at full generality
in key, spelling, secret, mask and surroundings (greedy-first lemma for the match, leftmost lemma for the
prefix, no-key lemma for the suffix).  `mask_rendering_eq_bare_partial` below lifts it to `mask_password` as a
whole. -/
theorem sub_rendering_eq_bare (K K' ds w1 w2 secret pre post mask : List Char)
    (hK : keyMatch K K' = true) (hds : ∀ c ∈ ds, digitC.test c = true) (hw1 : ∀ c ∈ w1, wsC.test c = true)
    (hw2 : ∀ c ∈ w2, wsC.test c = true) (hsec : secret ≠ []) (hsecV : ∀ c ∈ secret, bareC.test c = true)
    (hpost : ∀ c, post.head? = some c → bareC.test c = false)
    (hpre : ∀ j, j < pre.length →
      keyPrefix K (pre.drop j ++ (K' ++ ds ++ w1 ++ ['='] ++ w2 ++ secret ++ post)) = false)
    (hpostK : occursCI K post = false) :
    subPat (tplEqBare.inst (keyItems K)) rep1 mask (pre ++ (K' ++ ds ++ w1 ++ ['='] ++ w2 ++ secret ++ post))
      = pre ++ (K' ++ ds ++ w1 ++ ['='] ++ w2 ++ mask ++ post) := by
  have hkey : TItem.key ∈ tplEqBare.g1 := by simp [tplEqBare]
  unfold subPat
  rw [subAux_prefix]
  · congr 1
    -- the match at the rendering
    have hassoc : K' ++ ds ++ w1 ++ ['='] ++ w2 ++ secret ++ post
        = (K' ++ ds ++ w1 ++ ['='] ++ w2 ++ secret) ++ post := by simp
    have hm := lemma_matchPat_eq_bare K K' ds w1 w2 secret post hK hds hw1 hw2 hsec hsecV hpost
    have hflat : K' ++ (ds ++ (w1 ++ ('=' :: (w2 ++ (secret ++ post)))))
        = (K' ++ ds ++ w1 ++ ['='] ++ w2 ++ secret) ++ post := by simp
    rw [hflat] at hm
    rw [hassoc, subAux_match _ (K' ++ ds ++ w1 ++ ['='] ++ w2 ++ secret) post (K' ++ ds ++ w1 ++ ['='] ++ w2 ++ mask)]
    · have := subPat_noKey tplEqBare rep1 K mask post hkey hpostK
      unfold subPat at this
      rw [this]
    · simp
    · simp only [matchRepl, hm]
      have h1 : (K' ++ ds ++ w1 ++ ['='] ++ w2 ++ secret ++ post).length - post.length
          = (K' ++ ds ++ w1 ++ ['='] ++ w2 ++ secret).length := by
        simp only [List.length_append, List.length_cons, List.length_nil]; omega
      have h2 : K' ++ ds ++ w1 ++ ['='] ++ w2 ++ secret ++ post
          = (K' ++ ds ++ w1 ++ ['='] ++ w2) ++ (secret ++ post) := by simp
      rw [h1]
      congr 2
      rw [h2, take_length_sub]
      simp [rep1, expand]
  · intro j hj
    apply matchRepl_none
    unfold matchPat
    simp only [tplEqBare, Template.inst, instItems]
    rw [matchSeq_keyItems, hpre j hj]
    simp

/-- non-vacuity: a concrete instance of every hypothesis (mixed-case key with a digit suffix, a secret made of
    regex metacharacters and a non-ASCII case-fold character, neutral surroundings) -/
example :
    let K := "password".toList; let K' := "PassWord".toList; let ds := "12".toList
    let w1 := " ".toList; let w2 : List Char := []; let secret := "a^b$c.*ſ=".toList
    let pre := "user=x pass ".toList; let post := " and more".toList
    keyMatch K K' = true ∧ (∀ c ∈ ds, digitC.test c = true) ∧ (∀ c ∈ w1, wsC.test c = true) ∧
    (∀ c ∈ w2, wsC.test c = true) ∧ secret ≠ [] ∧ (∀ c ∈ secret, bareC.test c = true) ∧
    (∀ c, post.head? = some c → bareC.test c = false) ∧
    (∀ j, j < pre.length → keyPrefix K (pre.drop j ++ (K' ++ ds ++ w1 ++ ['='] ++ w2 ++ secret ++ post)) = false) ∧
    occursCI K post = false := by
  decide

/-- … and the whole model on that message (all patterns of all keys) -/
example : maskPassword "user=x pass PassWord12 =a^b$c.*ſ= and more".toList "***".toList
    = "user=x pass PassWord12 =*** and more".toList := by decide +kernel

/-- the same substitution applied to an already masked `key=value` message changes nothing, for every
    non-empty mask over the value class -/
theorem sub_idempotent_on_masked_eq_bare (K K' ds w1 w2 pre post mask : List Char)
    (hK : keyMatch K K' = true) (hds : ∀ c ∈ ds, digitC.test c = true) (hw1 : ∀ c ∈ w1, wsC.test c = true)
    (hw2 : ∀ c ∈ w2, wsC.test c = true) (hmask : mask ≠ []) (hmaskV : ∀ c ∈ mask, bareC.test c = true)
    (hpost : ∀ c, post.head? = some c → bareC.test c = false)
    (hpre : ∀ j, j < pre.length →
      keyPrefix K (pre.drop j ++ (K' ++ ds ++ w1 ++ ['='] ++ w2 ++ mask ++ post)) = false)
    (hpostK : occursCI K post = false) :
    subPat (tplEqBare.inst (keyItems K)) rep1 mask (pre ++ (K' ++ ds ++ w1 ++ ['='] ++ w2 ++ mask ++ post))
      = pre ++ (K' ++ ds ++ w1 ++ ['='] ++ w2 ++ mask ++ post) :=
  sub_rendering_eq_bare K K' ds w1 w2 mask pre post mask hK hds hw1 hw2 hmask hmaskV hpost hpre hpostK

/-! ### helper lemmas for the lift from one substitution to `mask_password` -/

theorem lemma_instItems_mem (ki : List Item) (i : Item) : ∀ (ts : List TItem), TItem.it i ∈ ts → i ∈ instItems ki ts := by
  intro ts
  induction ts with
  | nil => intro h; simp at h
  | cons t ts ih =>
    intro h
    cases t with
    | key =>
      have : TItem.it i ∈ ts := by simpa using h
      simp [instItems, ih this]
    | it i' =>
      rcases List.mem_cons.1 h with h | h
      · cases h; simp [instItems]
      · simp [instItems, ih h]

/-- a template with a mandatory quote item in its first group cannot match a text without quotes -/
theorem lemma_sub_noquote (t : Template) (qc : Cls) (rep : List RepTok) (ki : List Item) (mask M : List Char)
    (hq : one qc ∈ t.g1) (hqc : ∀ c, quoteC.test c = false → qc.test c = false)
    (hM : ∀ c ∈ M, quoteC.test c = false) : subPat (t.inst ki) rep mask M = M := by
  unfold subPat
  apply subAux_none
  intro j _
  apply matchRepl_none
  apply matchPat_none_of_missing _ _ ⟨qc, 1, some 1⟩
  · simp only [Template.inst]
    exact List.mem_append_left _ (lemma_instItems_mem ki _ t.g1 hq)
  · exact Nat.le_refl 1
  · intro c hc
    exact hqc c (hM c (List.mem_of_mem_drop hc))

theorem lemma_Consumes_keyItems_inv (rest : List Item) : ∀ (K s s' : List Char),
    Consumes (keyItems K ++ rest) s s' → keyPrefix K s = true ∧ Consumes rest (s.drop K.length) s' := by
  intro K
  induction K with
  | nil => intro s s' h; exact ⟨rfl, by simpa [keyItems] using h⟩
  | cons c K ih =>
    intro s s' h
    have hki : keyItems (c :: K) = ⟨keyCls c, 1, some 1⟩ :: keyItems K := by simp [keyItems]
    rw [hki, List.cons_append] at h
    obtain ⟨a, t, hs, ha, hr⟩ := h.one_inv
    obtain ⟨h1, h2⟩ := ih t s' hr
    subst hs
    exact ⟨by simp [keyPrefix, ha, h1], by simpa using h2⟩

/-- the key occurs (as `re` reads it) at exactly one place of `M`: after `n` characters -/
def UniqueAt (K M : List Char) (n : Nat) : Prop :=
  ∀ a b, M = a ++ b → keyPrefix K b = true → a.length = n

theorem lemma_uniqueAt_of_drop (K M : List Char) (n : Nat)
    (h : ∀ j, j ≤ M.length → keyPrefix K (M.drop j) = true → j = n) : UniqueAt K M n := by
  intro a b hM hk
  have := h a.length (by rw [hM]; simp) (by rw [hM]; simpa using hk)
  exact this


/-- `--KEY value` cannot match when the only occurrence of the key is not preceded by `-` -/
theorem lemma_nomatch_dashdash (K M pre R : List Char) (hM : M = pre ++ R)
    (hu : UniqueAt K M pre.length) (hlast : ∀ c, pre.getLast? = some c → dashC.test c = false)
    (a b : List Char) (hab : M = a ++ b) : matchPat (tplDashDash.inst (keyItems K)) b = none := by
  cases hm : matchPat (tplDashDash.inst (keyItems K)) b with
  | none => rfl
  | some bd =>
    exfalso
    obtain ⟨s1, s2, s3, c1, _, _, _⟩ := matchPat_some _ _ _ hm
    simp only [tplDashDash, Template.inst, instItems, rep, star, plus] at c1
    cases c1 with
    | cons _ _ seg t _ hseg hlo hhi hrest =>
      obtain ⟨hk, _⟩ := lemma_Consumes_keyItems_inv _ K t s1 hrest
      have hlen : (a ++ seg).length = pre.length := hu (a ++ seg) t (by rw [hab]; simp) hk
      have hpre : pre = a ++ seg := by
        have h1 : pre ++ R = (a ++ seg) ++ t := by rw [← hM, hab]; simp
        exact (List.append_inj_left h1 hlen.symm)
      have h2 : seg.length = 2 := by have := hhi 2 rfl; simp at hlo; omega
      match seg, h2 with
      | [x, y], _ =>
        have := hlast y (by rw [hpre]; simp)
        rw [hseg y (by simp)] at this
        cases this

/-- `<KEY>…</KEY>` needs the key twice -/
theorem lemma_nomatch_xml (K M : List Char) (n : Nat) (hu : UniqueAt K M n)
    (a b : List Char) (hab : M = a ++ b) : matchPat (tplXml.inst (keyItems K)) b = none := by
  cases hm : matchPat (tplXml.inst (keyItems K)) b with
  | none => rfl
  | some bd =>
    exfalso
    obtain ⟨s1, s2, s3, c1, c2, c3, _⟩ := matchPat_some _ _ _ hm
    simp only [tplXml, Template.inst, instItems, one, star] at c1 c3
    obtain ⟨x, b', hb, _, c1'⟩ := c1.one_inv
    obtain ⟨hk1, c1''⟩ := lemma_Consumes_keyItems_inv _ K b' s1 c1'
    obtain ⟨y, t1, ht1, _, c3'⟩ := c3.one_inv
    obtain ⟨z, t2, ht2, _, c3''⟩ := c3'.one_inv
    obtain ⟨hk2, _⟩ := lemma_Consumes_keyItems_inv _ K t2 s3 c3''
    obtain ⟨u, hu1⟩ := c1''.suffix
    obtain ⟨v, hv⟩ := c2.suffix
    have e1 : (a ++ [x]).length = n := hu (a ++ [x]) b' (by rw [hab, hb]; simp) hk1
    have hb' : b' = b'.take K.length ++ (u ++ (v ++ (y :: z :: t2))) := by
      conv => lhs; rw [← List.take_append_drop K.length b', hu1, hv, ht1, ht2]
    have e2 : (a ++ [x] ++ b'.take K.length ++ u ++ v ++ [y, z]).length = n :=
      hu _ t2 (by rw [hab, hb]; (conv => lhs; rw [hb']); simp [List.append_assoc]) hk2
    simp at e1 e2
    omega

theorem lemma_ws_not_dash (c : Char) (h : wsC.test c = true) : dashC.test c = false := by
  simp only [wsC, dashC, cls, Cls.test, Gen.wsRanges, inRanges] at h ⊢
  simp at h ⊢
  omega

theorem lemma_digit_not_dash (c : Char) (h : digitC.test c = true) : dashC.test c = false := by
  simp only [digitC, dashC, cls, Cls.test, inRanges] at h ⊢
  simp at h ⊢
  omega

theorem lemma_digit_not_ws (c : Char) (h : digitC.test c = true) : wsC.test c = false := by
  simp only [wsC, digitC, cls, Cls.test, Gen.wsRanges, inRanges] at h ⊢
  simp at h ⊢
  omega

/-- after `KEY digits ws*` comes `=`, not the `-` of `key --flag value` -/
theorem lemma_nomatch_cmdflag_eq (K K' ds w1 X s1 : List Char) (hK : keyMatch K K' = true)
    (hds : ∀ c ∈ ds, digitC.test c = true) (hw1 : ∀ c ∈ w1, wsC.test c = true) :
    ¬ Consumes (instItems (keyItems K) tplCmdFlag.g1) (K' ++ (ds ++ (w1 ++ ('=' :: X)))) s1 := by
  intro c1
  simp only [tplCmdFlag, instItems, one, star, plus, opt] at c1
  obtain ⟨_, c2⟩ := lemma_Consumes_keyItems_inv _ K _ s1 c1
  rw [← keyMatch_length K K' hK, List.drop_left] at c2
  obtain ⟨j, _, _, c3⟩ := c2.star_inv (by
    apply head_append_of_all _ w1 _ (fun c hc => lemma_ws_not_digit c (hw1 c hc))
    intro c hc; simp at hc; subst hc; decide)
  cases hd : ds.drop j with
  | nil =>
    rw [hd, List.nil_append] at c3
    obtain ⟨j2, _, _, c4⟩ := c3.star_inv (by intro c hc; simp at hc; subst hc; decide)
    obtain ⟨x, t, hx, hxd, _⟩ := c4.one_inv
    cases hw : w1.drop j2 with
    | nil =>
      rw [hw, List.nil_append] at hx
      have hxe : x = '=' := (List.cons.inj hx).1.symm
      subst hxe
      revert hxd; decide
    | cons y ys =>
      rw [hw, List.cons_append] at hx
      have hxe : x = y := (List.cons.inj hx).1.symm
      subst hxe
      have hmem : x ∈ w1.drop j2 := by rw [hw]; simp
      rw [lemma_ws_not_dash _ (hw1 _ (List.mem_of_mem_drop hmem))] at hxd; cases hxd
  | cons d ds' =>
    have hdm' : d ∈ ds.drop j := by rw [hd]; simp
    have hdm : d ∈ ds := List.mem_of_mem_drop hdm'
    rw [hd] at c3
    obtain ⟨j2, _, hj2, c4⟩ := Consumes.star_inv (r := []) (t := d :: ds' ++ (w1 ++ '=' :: X)) c3 (by
      intro c hc; simp at hc; subst hc; exact lemma_digit_not_ws _ (hds _ hdm))
    have : j2 = 0 := by simpa using hj2
    subst this
    obtain ⟨x, t, hx, hxd, _⟩ := c4.one_inv
    simp at hx
    rw [← hx.1, lemma_digit_not_dash _ (hds _ hdm)] at hxd; cases hxd


theorem lemma_ws_not_quote (c : Char) (h : wsC.test c = true) : quoteC.test c = false := by
  simp only [wsC, quoteC, cls, Cls.test, Gen.wsRanges, inRanges] at h ⊢
  simp at h ⊢
  omega

theorem lemma_digit_not_quote (c : Char) (h : digitC.test c = true) : quoteC.test c = false := by
  simp only [digitC, quoteC, cls, Cls.test, inRanges] at h ⊢
  simp at h ⊢
  omega

theorem lemma_bare_not_quote (c : Char) (h : bareC.test c = true) : quoteC.test c = false := by
  simp only [bareC, quoteC, ncls, cls, Cls.test, lemma_inRanges_append] at h ⊢
  simp at h ⊢
  simp [inRanges] at h ⊢
  omega

theorem lemma_noquote_dq (c : Char) (h : quoteC.test c = false) : dqC.test c = false := by
  simp only [dqC, quoteC, cls, Cls.test, inRanges] at h ⊢
  simp at h ⊢
  omega

theorem lemma_noquote_sq (c : Char) (h : quoteC.test c = false) : sqC.test c = false := by
  simp only [sqC, quoteC, cls, Cls.test, inRanges] at h ⊢
  simp at h ⊢
  omega

theorem lemma_occursCI_exists (K : List Char) : ∀ (s : List Char), occursCI K s = true →
    ∃ j, j ≤ s.length ∧ keyPrefix K (s.drop j) = true := by
  intro s
  induction s with
  | nil => intro h; exact ⟨0, by simp, by simpa [occursCI] using h⟩
  | cons c s ih =>
    intro h
    simp only [occursCI, Bool.or_eq_true] at h
    rcases h with h | h
    · exact ⟨0, by simp, by simpa using h⟩
    · obtain ⟨j, hj, hk⟩ := ih h
      exact ⟨j + 1, by simp; omega, by simpa using hk⟩

/-- the whole `if key in message.lower():` body on a bare `key=value` message: only the
    `_FORMAT_PATTERNS_1` pattern fires -/
theorem lemma_applyKey_eq_bare (K K' ds w1 w2 secret pre post mask : List Char)
    (hK : keyMatch K K' = true) (hds : ∀ c ∈ ds, digitC.test c = true) (hw1 : ∀ c ∈ w1, wsC.test c = true)
    (hw2 : ∀ c ∈ w2, wsC.test c = true) (hsec : secret ≠ []) (hsecV : ∀ c ∈ secret, bareC.test c = true)
    (hpost : ∀ c, post.head? = some c → bareC.test c = false)
    (hKq : ∀ c ∈ K', quoteC.test c = false)
    (hpreq : ∀ c ∈ pre, quoteC.test c = false) (hpostq : ∀ c ∈ post, quoteC.test c = false)
    (hmaskq : ∀ c ∈ mask, quoteC.test c = false)
    (hlast : ∀ c, pre.getLast? = some c → dashC.test c = false)
    (hu : ∀ j, j ≤ (pre ++ (K' ++ ds ++ w1 ++ ['='] ++ w2 ++ secret ++ post)).length →
      keyPrefix K ((pre ++ (K' ++ ds ++ w1 ++ ['='] ++ w2 ++ secret ++ post)).drop j) = true → j = pre.length) :
    applyKey K mask (pre ++ (K' ++ ds ++ w1 ++ ['='] ++ w2 ++ secret ++ post))
      = pre ++ (K' ++ ds ++ w1 ++ ['='] ++ w2 ++ mask ++ post) := by
  have hU := lemma_uniqueAt_of_drop K _ _ hu
  -- no quote anywhere in the message, nor in the masked message
  have hMq : ∀ c ∈ pre ++ (K' ++ ds ++ w1 ++ ['='] ++ w2 ++ secret ++ post), quoteC.test c = false := by
    intro c hc
    simp only [List.mem_append, List.mem_cons, List.not_mem_nil, or_false] at hc
    rcases hc with h | ((((((h | h) | h) | h) | h) | h) | h)
    · exact hpreq c h
    · exact hKq c h
    · exact lemma_digit_not_quote c (hds c h)
    · exact lemma_ws_not_quote c (hw1 c h)
    · subst h; decide
    · exact lemma_ws_not_quote c (hw2 c h)
    · exact lemma_bare_not_quote c (hsecV c h)
    · exact hpostq c h
  have hM'q : ∀ c ∈ pre ++ (K' ++ ds ++ w1 ++ ['='] ++ w2 ++ mask ++ post), quoteC.test c = false := by
    intro c hc
    simp only [List.mem_append, List.mem_cons, List.not_mem_nil, or_false] at hc
    rcases hc with h | ((((((h | h) | h) | h) | h) | h) | h)
    · exact hpreq c h
    · exact hKq c h
    · exact lemma_digit_not_quote c (hds c h)
    · exact lemma_ws_not_quote c (hw1 c h)
    · subst h; decide
    · exact lemma_ws_not_quote c (hw2 c h)
    · exact hmaskq c h
    · exact hpostq c h
  -- positional patterns
  have hdash : subPat (tplDashDash.inst (keyItems K)) rep2 mask
      (pre ++ (K' ++ ds ++ w1 ++ ['='] ++ w2 ++ secret ++ post))
      = pre ++ (K' ++ ds ++ w1 ++ ['='] ++ w2 ++ secret ++ post) := by
    unfold subPat
    apply subAux_none
    intro j _
    apply matchRepl_none
    exact lemma_nomatch_dashdash K _ pre _ rfl hU hlast _ _ (List.take_append_drop j _).symm
  have hxml : subPat (tplXml.inst (keyItems K)) rep2 mask
      (pre ++ (K' ++ ds ++ w1 ++ ['='] ++ w2 ++ secret ++ post))
      = pre ++ (K' ++ ds ++ w1 ++ ['='] ++ w2 ++ secret ++ post) := by
    unfold subPat
    apply subAux_none
    intro j _
    apply matchRepl_none
    exact lemma_nomatch_xml K _ _ hU _ _ (List.take_append_drop j _).symm
  have hflag : subPat (tplCmdFlag.inst (keyItems K)) rep2 mask
      (pre ++ (K' ++ ds ++ w1 ++ ['='] ++ w2 ++ secret ++ post))
      = pre ++ (K' ++ ds ++ w1 ++ ['='] ++ w2 ++ secret ++ post) := by
    unfold subPat
    apply subAux_none
    intro j hj
    apply matchRepl_none
    cases hm : matchPat (tplCmdFlag.inst (keyItems K)) (List.drop j (pre ++ (K' ++ ds ++ w1 ++ ['='] ++ w2 ++ secret ++ post))) with
    | none => rfl
    | some bd =>
      exfalso
      obtain ⟨s1, s2, s3, c1, _, _, _⟩ := matchPat_some _ _ _ hm
      have c1' := c1
      simp only [Template.inst] at c1
      have hkp : keyPrefix K (List.drop j (pre ++ (K' ++ ds ++ w1 ++ ['='] ++ w2 ++ secret ++ post))) = true := by
        have c1'' := c1
        simp only [tplCmdFlag, instItems] at c1''
        exact (lemma_Consumes_keyItems_inv _ K _ s1 c1'').1
      have hjp := hu j hj hkp
      subst hjp
      rw [List.drop_left] at c1
      have hflat : K' ++ ds ++ w1 ++ ['='] ++ w2 ++ secret ++ post
          = K' ++ (ds ++ (w1 ++ ('=' :: (w2 ++ secret ++ post)))) := by simp
      rw [hflat] at c1
      exact lemma_nomatch_cmdflag_eq K K' ds w1 _ s1 hK hds hw1 c1
  -- the bare pattern
  have hbare := sub_rendering_eq_bare K K' ds w1 w2 secret pre post mask hK hds hw1 hw2 hsec hsecV hpost
    (by
      intro j hj
      cases hk : keyPrefix K (List.drop j pre ++ (K' ++ ds ++ w1 ++ ['='] ++ w2 ++ secret ++ post)) with
      | false => rfl
      | true =>
        exfalso
        have := hu j (by simp; omega) (by rw [List.drop_append_of_le_length (by omega)]; exact hk)
        omega)
    (by
      cases ho : occursCI K post with
      | false => rfl
      | true =>
        exfalso
        obtain ⟨j, hj, hk⟩ := lemma_occursCI_exists K post ho
        have hd : List.drop (pre.length + ((K' ++ ds ++ w1 ++ ['='] ++ w2 ++ secret).length + j))
            (pre ++ (K' ++ ds ++ w1 ++ ['='] ++ w2 ++ secret ++ post)) = post.drop j := by
          have e : pre ++ (K' ++ ds ++ w1 ++ ['='] ++ w2 ++ secret ++ post)
              = pre ++ ((K' ++ ds ++ w1 ++ ['='] ++ w2 ++ secret) ++ post) := by simp
          rw [e, ← List.drop_drop, List.drop_left, ← List.drop_drop, List.drop_left]
        have := hu (pre.length + ((K' ++ ds ++ w1 ++ ['='] ++ w2 ++ secret).length + j))
          (by simp only [List.length_append, List.length_cons, List.length_nil] at hj ⊢; omega)
          (by rw [hd]; exact hk)
        simp only [List.length_append, List.length_cons, List.length_nil] at this
        omega)
  unfold applyKey
  rw [templates_as_reviewed.1, templates_as_reviewed.2.1, templates_as_reviewed.2.2.1]
  simp only [subAll, List.foldl]
  rw [lemma_sub_noquote tplEqQuoted quoteC _ _ _ _ (by simp [tplEqQuoted]) (fun _ h => h) hMq,
      lemma_sub_noquote tplEqDq dqC _ _ _ _ (by simp [tplEqDq]) lemma_noquote_dq hMq,
      lemma_sub_noquote tplEqSq sqC _ _ _ _ (by simp [tplEqSq]) lemma_noquote_sq hMq,
      lemma_sub_noquote tplKeyQuoted quoteC _ _ _ _ (by simp [tplKeyQuoted]) (fun _ h => h) hMq,
      hdash, hxml,
      lemma_sub_noquote tplColonQuoted quoteC _ _ _ _ (by simp [tplColonQuoted]) (fun _ h => h) hMq,
      lemma_sub_noquote tplColonPrefixed quoteC _ _ _ _ (by simp [tplColonPrefixed]) (fun _ h => h) hMq,
      lemma_sub_noquote tplCmdList quoteC _ _ _ _ (by simp [tplCmdList]) (fun _ h => h) hMq,
      hflag, hbare,
      lemma_sub_noquote tplWildcard quoteC _ _ _ _ (by simp [tplWildcard]) (fun _ h => h) hM'q]


/-! ### from one key to the loop over all keys -/

theorem lemma_pyLower_append : ∀ (a b : List Char), pyLower (a ++ b) = pyLower a ++ pyLower b := by
  intro a
  induction a with
  | nil => intro b; rfl
  | cons c a ih => intro b; simp [pyLower, ih]

theorem lemma_isInfix_append_left (K : List Char) : ∀ (a s : List Char), isInfix K s = true → isInfix K (a ++ s) = true := by
  intro a
  induction a with
  | nil => intro s h; exact h
  | cons c a ih => intro s h; simp [isInfix, ih s h]

theorem lemma_isInfix_self_append (K B : List Char) : isInfix K (K ++ B) = true := by
  have hp : K.isPrefixOf (K ++ B) = true := by
    rw [List.isPrefixOf_iff_prefix]; exact List.prefix_append K B
  cases h : K ++ B with
  | nil =>
    have : K = [] := by
      cases K with
      | nil => rfl
      | cons x xs => simp at h
    subst this; simp [isInfix]
  | cons c s => rw [h] at hp; simp [isInfix, hp]

theorem lemma_keytest (K K' pre rest : List Char) (hlow : pyLower K' = K) :
    isInfix K (pyLower (pre ++ (K' ++ rest))) = true := by
  rw [lemma_pyLower_append, lemma_pyLower_append, hlow]
  exact lemma_isInfix_append_left K _ _ (lemma_isInfix_self_append K _)

theorem lemma_fold_others (mask M : List Char) : ∀ (keys : List (List Char)),
    (∀ k ∈ keys, maskStep mask M k = M) → keys.foldl (maskStep mask) M = M := by
  intro keys
  induction keys with
  | nil => intro _; rfl
  | cons k keys ih =>
    intro h
    simp only [List.foldl_cons, h k (by simp)]
    exact ih (fun k' hk' => h k' (by simp [hk']))

/-- exactly one key of the list acts on the message -/
theorem lemma_fold_single (mask M M' K : List Char) : ∀ (keys : List (List Char)),
    keys.Nodup → K ∈ keys → maskStep mask M K = M' →
    (∀ k ∈ keys, k ≠ K → maskStep mask M k = M ∧ maskStep mask M' k = M') →
    keys.foldl (maskStep mask) M = M' := by
  intro keys
  induction keys with
  | nil => intro _ h; simp at h
  | cons k keys ih =>
    intro hnd hmem hK hoth
    simp only [List.nodup_cons] at hnd
    simp only [List.foldl_cons]
    by_cases hk : k = K
    · subst hk
      rw [hK]
      apply lemma_fold_others
      intro k' hk'
      exact (hoth k' (by simp [hk']) (fun e => hnd.1 (e ▸ hk'))).2
    · rw [(hoth k (by simp) hk).1]
      have hmem' : K ∈ keys := by
        rcases List.mem_cons.1 hmem with h | h
        · exact absurd h.symm hk
        · exact h
      exact ih hnd.2 hmem' hK (fun k' hk' hne => hoth k' (by simp [hk']) hne)

/-- no character class of a sanitize-key character accepts a quote -/
def keyNoQuote (k : Char) : Bool :=
  !(keyCls k).neg && !inRanges 34 (keyCls k).ranges && !inRanges 39 (keyCls k).ranges

theorem lemma_keys_no_quote : ∀ K ∈ Gen.sanitizeKeys, ∀ k ∈ K, keyNoQuote k = true := by decide

theorem lemma_keyMatch_no_quote : ∀ (K K' : List Char), (∀ k ∈ K, keyNoQuote k = true) → keyMatch K K' = true →
    ∀ c ∈ K', quoteC.test c = false := by
  intro K
  induction K with
  | nil => intro K' _ h c hc; cases K' <;> simp_all [keyMatch]
  | cons k K ih =>
    intro K' hq h c hc
    cases K' with
    | nil => simp at hc
    | cons x xs =>
      simp only [keyMatch, Bool.and_eq_true] at h
      rcases List.mem_cons.1 hc with hc | hc
      · subst hc
        have hk := hq k (by simp)
        simp only [keyNoQuote, Bool.and_eq_true, Bool.not_eq_true'] at hk
        have ht := h.1
        simp only [Cls.test, hk.1.1] at ht
        cases hq' : quoteC.test c with
        | false => rfl
        | true =>
          exfalso
          simp only [quoteC, cls, Cls.test, inRanges] at hq'
          simp at hq' ht
          rcases hq' with e | e
          · have : c.toNat = 34 := by omega
            rw [this, hk.1.2] at ht; cases ht
          · have : c.toNat = 39 := by omega
            rw [this, hk.2] at ht; cases ht
      · exact ih xs (fun k' hk' => hq k' (by simp [hk'])) h.2 c hc

theorem lemma_keys_nodup : Gen.sanitizeKeys.Nodup := by decide


/-! ### rendering `key=value` (bare): `mask_password` as a whole -/

/-- **`mask_password` on a bare `key = value` rendering.**  For every key `K` of the generated list, every
spelling `K'` of it whose lower-casing is `K` (any mix of letter cases, U+212A for `k`) with any digit suffix,
any whitespace around `=`, every non-empty secret over the value class of the generated template
(`[^\s'"]`: regex metacharacters, `=`, `^`, `-`, `<`, non-ASCII … included), every mask without quote
characters, and neutral surroundings: `mask_password` returns the message with exactly the value replaced
by the mask.  All twelve patterns of `K` and the loop over all 35 keys are accounted for.

`_partial` — what is missing with respect to the property:
* *single key*: no other sanitize key occurs in the lower-cased message, before or after masking (so keys
  that contain another key — `admin_password`, `auth_password`, `chappassword` ⊃ `password`, `auth_token` ⊃
  `token`, `secret_uuid`, `chapsecret` ⊃ `secret`, `admin_password` ⊃ `admin_pass` — and messages with several
  secrets are not covered by this theorem);
* the key (as the patterns read it) occurs only at the rendering: in particular not inside the secret
  (`hu`; this is the exclusion of the listed class KF_C04_NESTED);
* neutral surroundings are stronger than the patterns need: no quote character in prefix, suffix or mask, the
  prefix does not end with `-`, the suffix does not continue the value. -/
theorem mask_rendering_eq_bare_partial (K K' ds w1 w2 secret pre post mask : List Char)
    (hKmem : K ∈ Gen.sanitizeKeys) (hK : keyMatch K K' = true) (hlow : pyLower K' = K)
    (hds : ∀ c ∈ ds, digitC.test c = true) (hw1 : ∀ c ∈ w1, wsC.test c = true)
    (hw2 : ∀ c ∈ w2, wsC.test c = true) (hsec : secret ≠ []) (hsecV : ∀ c ∈ secret, bareC.test c = true)
    (hpost : ∀ c, post.head? = some c → bareC.test c = false)
    (hpreq : ∀ c ∈ pre, quoteC.test c = false) (hpostq : ∀ c ∈ post, quoteC.test c = false)
    (hmaskq : ∀ c ∈ mask, quoteC.test c = false)
    (hlast : ∀ c, pre.getLast? = some c → dashC.test c = false)
    (hu : ∀ j, j ≤ (pre ++ (K' ++ ds ++ w1 ++ ['='] ++ w2 ++ secret ++ post)).length →
      keyPrefix K ((pre ++ (K' ++ ds ++ w1 ++ ['='] ++ w2 ++ secret ++ post)).drop j) = true → j = pre.length)
    (hother : ∀ k ∈ Gen.sanitizeKeys, k ≠ K →
      isInfix k (pyLower (pre ++ (K' ++ ds ++ w1 ++ ['='] ++ w2 ++ secret ++ post))) = false ∧
      isInfix k (pyLower (pre ++ (K' ++ ds ++ w1 ++ ['='] ++ w2 ++ mask ++ post))) = false) :
    maskPassword (pre ++ (K' ++ ds ++ w1 ++ ['='] ++ w2 ++ secret ++ post)) mask
      = pre ++ (K' ++ ds ++ w1 ++ ['='] ++ w2 ++ mask ++ post) := by
  unfold maskPassword maskWith
  apply lemma_fold_single mask _ _ K Gen.sanitizeKeys lemma_keys_nodup hKmem
  · have hkt : isInfix K (pyLower (pre ++ (K' ++ ds ++ w1 ++ ['='] ++ w2 ++ secret ++ post))) = true := by
      have e : K' ++ ds ++ w1 ++ ['='] ++ w2 ++ secret ++ post
          = K' ++ (ds ++ w1 ++ ['='] ++ w2 ++ secret ++ post) := by simp
      rw [e]; exact lemma_keytest K K' pre _ hlow
    simp only [maskStep, hkt, if_true]
    exact lemma_applyKey_eq_bare K K' ds w1 w2 secret pre post mask hK hds hw1 hw2 hsec hsecV hpost
      (lemma_keyMatch_no_quote K K' (lemma_keys_no_quote K hKmem) hK) hpreq hpostq hmaskq hlast hu
  · intro k hk hne
    obtain ⟨h1, h2⟩ := hother k hk hne
    exact ⟨by simp only [maskStep, h1, Bool.false_eq_true, if_false],
           by simp only [maskStep, h2, Bool.false_eq_true, if_false]⟩

/-- non-vacuity of `mask_rendering_eq_bare_partial`: every hypothesis holds of a concrete message (mixed-case key
    with digit suffix, secret of regex metacharacters with `=`, `^`, `<`, `-` and a non-ASCII case-fold character) -/
example :
    let K := "password".toList; let K' := "PassWord".toList; let ds := "12".toList
    let w1 := " ".toList; let w2 : List Char := []; let secret := "a^b$c.*ſ=<-x".toList
    let pre := "user=x pass ".toList; let post := " and more".toList; let mask := "***".toList
    K ∈ Gen.sanitizeKeys ∧ keyMatch K K' = true ∧ pyLower K' = K ∧
    (∀ c ∈ ds, digitC.test c = true) ∧ (∀ c ∈ w1, wsC.test c = true) ∧
    (∀ c ∈ w2, wsC.test c = true) ∧ secret ≠ [] ∧ (∀ c ∈ secret, bareC.test c = true) ∧
    (∀ c, post.head? = some c → bareC.test c = false) ∧
    (∀ c ∈ pre, quoteC.test c = false) ∧ (∀ c ∈ post, quoteC.test c = false) ∧ (∀ c ∈ mask, quoteC.test c = false) ∧
    (∀ c, pre.getLast? = some c → dashC.test c = false) ∧
    (∀ j, j ≤ (pre ++ (K' ++ ds ++ w1 ++ ['='] ++ w2 ++ secret ++ post)).length →
      keyPrefix K ((pre ++ (K' ++ ds ++ w1 ++ ['='] ++ w2 ++ secret ++ post)).drop j) = true → j = pre.length) ∧
    (∀ k ∈ Gen.sanitizeKeys, k ≠ K →
      isInfix k (pyLower (pre ++ (K' ++ ds ++ w1 ++ ['='] ++ w2 ++ secret ++ post))) = false ∧
      isInfix k (pyLower (pre ++ (K' ++ ds ++ w1 ++ ['='] ++ w2 ++ mask ++ post))) = false) := by
  decide +kernel

/-- masking an already masked bare `key=value` message changes nothing (`mask_password` as a whole; same
    restrictions as `mask_rendering_eq_bare_partial`, mask non-empty and over the value class) -/
theorem mask_idempotent_on_masked_eq_bare_partial (K K' ds w1 w2 pre post mask : List Char)
    (hKmem : K ∈ Gen.sanitizeKeys) (hK : keyMatch K K' = true) (hlow : pyLower K' = K)
    (hds : ∀ c ∈ ds, digitC.test c = true) (hw1 : ∀ c ∈ w1, wsC.test c = true)
    (hw2 : ∀ c ∈ w2, wsC.test c = true) (hmask : mask ≠ []) (hmaskV : ∀ c ∈ mask, bareC.test c = true)
    (hpost : ∀ c, post.head? = some c → bareC.test c = false)
    (hpreq : ∀ c ∈ pre, quoteC.test c = false) (hpostq : ∀ c ∈ post, quoteC.test c = false)
    (hlast : ∀ c, pre.getLast? = some c → dashC.test c = false)
    (hu : ∀ j, j ≤ (pre ++ (K' ++ ds ++ w1 ++ ['='] ++ w2 ++ mask ++ post)).length →
      keyPrefix K ((pre ++ (K' ++ ds ++ w1 ++ ['='] ++ w2 ++ mask ++ post)).drop j) = true → j = pre.length)
    (hother : ∀ k ∈ Gen.sanitizeKeys, k ≠ K →
      isInfix k (pyLower (pre ++ (K' ++ ds ++ w1 ++ ['='] ++ w2 ++ mask ++ post))) = false) :
    maskPassword (pre ++ (K' ++ ds ++ w1 ++ ['='] ++ w2 ++ mask ++ post)) mask
      = pre ++ (K' ++ ds ++ w1 ++ ['='] ++ w2 ++ mask ++ post) :=
  mask_rendering_eq_bare_partial K K' ds w1 w2 mask pre post mask hKmem hK hlow hds hw1 hw2 hmask hmaskV hpost
    hpreq hpostq (fun c hc => lemma_bare_not_quote c (hmaskV c hc)) hlast hu
    (fun k hk hne => ⟨hother k hk hne, hother k hk hne⟩)

/-! ### the other renderings: one substitution each, full generality

Each `mask_rendering_<r>_partial` below is the statement about the *one* `re.sub` that is responsible for the
rendering `r`, at full generality in key, spelling, digit suffix, whitespace, quotes, secret (over the value
class of the generated template), mask and surroundings.  `_partial` = *one pattern only*: what is missing with
respect to `mask_password` as a whole is that the other eleven patterns of the key and the patterns of the other
keys present leave the message alone (they do not in the listed classes KF_C04_WILDCARD / KF_C04_FLAGVALUE /
KF_C04_NESTED).  For the bare `key=value` and the quoted `key="value"` renderings that lift is done
(`mask_rendering_eq_bare_partial`, `mask_rendering_eq_quoted_partial`); for the others the composition is covered by
the correspondence and the failing-input search only. -/

/-- `key = 'value'` for any quote class `qc` and value class `vc` that excludes the closing quote -/
theorem lemma_matchPat_eq_q (qc vc : Cls) (K K' ds w1 w2 secret post : List Char) (q1 q2 : Char)
    (hK : keyMatch K K' = true) (hds : ∀ c ∈ ds, digitC.test c = true) (hw1 : ∀ c ∈ w1, wsC.test c = true)
    (hw2 : ∀ c ∈ w2, wsC.test c = true) (hq1 : qc.test q1 = true) (hq1ws : wsC.test q1 = false)
    (hq2 : qc.test q2 = true) (hq2v : vc.test q2 = false) (hsecV : ∀ c ∈ secret, vc.test c = true) :
    matchPat ((⟨[.key, star digitC, star wsC, one eqC, star wsC, one qc], [star vc], [one qc]⟩ : Template).inst
        (keyItems K))
      ((K' ++ (ds ++ (w1 ++ ('=' :: (w2 ++ [q1]))))) ++ (secret ++ ([q2] ++ post))) =
      some ⟨(secret ++ ([q2] ++ post)).length, ([q2] ++ post).length, post.length⟩ := by
  unfold matchPat
  simp only [Template.inst, instItems, star, one]
  have e : (K' ++ (ds ++ (w1 ++ ('=' :: (w2 ++ [q1]))))) ++ (secret ++ ([q2] ++ post))
      = K' ++ (ds ++ (w1 ++ ('=' :: (w2 ++ (q1 :: (secret ++ (q2 :: post))))))) := by simp
  rw [e, matchSeq_keyItems, keyPrefix_of_keyMatch K K' _ hK, if_pos rfl]
  rw [← keyMatch_length K K' hK, List.drop_left]
  apply matchSeq_cons_greedy _ _ _ ds _ _ rfl (Nat.zero_le _) hds
  · apply head_append_of_all _ w1 _ (fun c hc => lemma_ws_not_digit c (hw1 c hc))
    intro c hc; simp at hc; subst hc; decide
  apply matchSeq_cons_greedy _ _ _ w1 _ _ rfl (Nat.zero_le _) hw1
  · intro c hc; simp at hc; subst hc; decide
  rw [matchSeq_one]
  simp only [show eqC.test '=' = true by decide, if_true]
  apply matchSeq_cons_greedy _ _ _ w2 _ _ rfl (Nat.zero_le _) hw2
  · intro c hc; simp at hc; subst hc; exact hq1ws
  rw [matchSeq_one]
  simp only [hq1, if_true]
  -- the value and the closing quote
  show matchSeq [⟨vc, 0, none⟩] _ (secret ++ (q2 :: post)) = _
  apply matchSeq_cons_greedy _ _ _ secret (q2 :: post) _ rfl (Nat.zero_le _) hsecV
  · intro c hc; simp at hc; subst hc; exact hq2v
  show matchSeq [⟨qc, 1, some 1⟩] _ (q2 :: post) = _
  rw [matchSeq_one]
  simp [hq2, matchSeq]

theorem lemma_sub_eq_q (qc vc : Cls) (rep : List RepTok) (K K' ds w1 w2 secret pre post mask : List Char) (q1 q2 : Char)
    (hK : keyMatch K K' = true) (hds : ∀ c ∈ ds, digitC.test c = true) (hw1 : ∀ c ∈ w1, wsC.test c = true)
    (hw2 : ∀ c ∈ w2, wsC.test c = true) (hq1 : qc.test q1 = true) (hq1ws : wsC.test q1 = false)
    (hq2 : qc.test q2 = true) (hq2v : vc.test q2 = false) (hsecV : ∀ c ∈ secret, vc.test c = true)
    (hpre : ∀ j, j < pre.length → keyPrefix K (pre.drop j ++
      ((K' ++ (ds ++ (w1 ++ ('=' :: (w2 ++ [q1]))))) ++ (secret ++ ([q2] ++ post)))) = false)
    (hpostK : occursCI K post = false) :
    subPat ((⟨[.key, star digitC, star wsC, one eqC, star wsC, one qc], [star vc], [one qc]⟩ : Template).inst
        (keyItems K)) rep mask
      (pre ++ ((K' ++ (ds ++ (w1 ++ ('=' :: (w2 ++ [q1]))))) ++ (secret ++ ([q2] ++ post))))
      = pre ++ (expand rep (K' ++ (ds ++ (w1 ++ ('=' :: (w2 ++ [q1]))))) [q2] mask ++ post) := by
  apply subPat_rendering
  · simp
  · intro j hj
    unfold matchPat
    simp only [Template.inst, instItems]
    rw [matchSeq_keyItems, hpre j hj]
    simp
  · exact lemma_matchPat_eq_q qc vc K K' ds w1 w2 secret post q1 q2 hK hds hw1 hw2 hq1 hq1ws hq2 hq2v hsecV
  · exact subPat_noKey _ rep K mask post (by simp) hpostK

theorem lemma_quote_not_ws (c : Char) (h : quoteC.test c = true) : wsC.test c = false := by
  cases hw : wsC.test c with
  | false => rfl
  | true => rw [lemma_ws_not_quote c hw] at h; cases h

theorem lemma_quote_not_nquote (c : Char) (h : quoteC.test c = true) : nquoteC.test c = false := by
  simp only [quoteC, nquoteC, cls, ncls, Cls.test] at h ⊢
  simp at h ⊢
  simpa using h

/-- **Rendering `key = "value"` / `key = 'value'`, the pattern `_FORMAT_PATTERNS_2[0]`.**  For every key, every
spelling of it the pattern accepts, digit suffix, whitespace around `=`, opening and closing quote (either kind,
not necessarily the same), every secret over the value class of the generated template (`[^"']*`: spaces,
Unicode whitespace, `=`, `<`, regex metacharacters, the empty secret included), every mask, every prefix in
which the key does not start before the rendering and every suffix that does not contain the key: this one
`re.sub` replaces exactly the value by the mask (full generality for the one substitution; the other patterns
and keys are not part of this statement). -/
theorem sub_rendering_eq_quoted (K K' ds w1 w2 secret pre post mask : List Char) (q1 q2 : Char)
    (hK : keyMatch K K' = true) (hds : ∀ c ∈ ds, digitC.test c = true) (hw1 : ∀ c ∈ w1, wsC.test c = true)
    (hw2 : ∀ c ∈ w2, wsC.test c = true) (hq1 : quoteC.test q1 = true) (hq2 : quoteC.test q2 = true)
    (hsecV : ∀ c ∈ secret, nquoteC.test c = true)
    (hpre : ∀ j, j < pre.length → keyPrefix K (pre.drop j ++
      (K' ++ ds ++ w1 ++ ['='] ++ w2 ++ [q1] ++ secret ++ [q2] ++ post)) = false)
    (hpostK : occursCI K post = false) :
    subPat (tplEqQuoted.inst (keyItems K)) rep2 mask
      (pre ++ (K' ++ ds ++ w1 ++ ['='] ++ w2 ++ [q1] ++ secret ++ [q2] ++ post))
      = pre ++ (K' ++ ds ++ w1 ++ ['='] ++ w2 ++ [q1] ++ mask ++ [q2] ++ post) := by
  have e1 : K' ++ ds ++ w1 ++ ['='] ++ w2 ++ [q1] ++ secret ++ [q2] ++ post
      = (K' ++ (ds ++ (w1 ++ ('=' :: (w2 ++ [q1]))))) ++ (secret ++ ([q2] ++ post)) := by simp
  have h := lemma_sub_eq_q quoteC nquoteC rep2 K K' ds w1 w2 secret pre post mask q1 q2 hK hds hw1 hw2 hq1
    (lemma_quote_not_ws q1 hq1) hq2 (lemma_quote_not_nquote q2 hq2) hsecV (by rw [← e1]; exact hpre) hpostK
  rw [e1]
  simp only [tplEqQuoted]
  rw [h]
  simp [rep2, expand]


/-- an item with an exact count `{m,m}` on `r ++ t`, `|r| = m`, `r` in the class -/
theorem lemma_matchSeq_exact {α} (it : Item) (rest : List Item) (k : List Char → Option α) (r t : List Char)
    (v : α) (m : Nat) (hhi : it.hi = some m) (hlo : it.lo ≤ m) (hlen : r.length = m)
    (hr : ∀ c ∈ r, it.cls.test c = true) (hk : matchSeq rest k t = some v) :
    matchSeq (it :: rest) k (r ++ t) = some v := by
  simp only [matchSeq]
  have hrun : it.run (r ++ t) = m := by
    unfold Item.run
    simp only [hhi]
    have : r.length ≤ ((r ++ t).takeWhile it.cls.test).length := by
      have hp : (r ++ t).takeWhile it.cls.test = r ++ t.takeWhile it.cls.test := by
        clear hlen hk
        induction r with
        | nil => rfl
        | cons a r ih =>
          simp only [List.cons_append, List.takeWhile, hr a (by simp)]
          rw [ih (fun c hc => hr c (by simp [hc]))]
      rw [hp]; simp
    omega
  rw [hrun]
  apply tryDown_first _ _ _ _ _ hlo
  rw [← hlen]; simpa using hk

/-- a pattern that starts with an exact-count item followed by the key cannot match where the key does not
    follow after that many characters -/
theorem lemma_matchSeq_fixed_key_none {α} (it : Item) (rest : List Item) (k : List Char → Option α)
    (K s : List Char) (m : Nat) (hhi : it.hi = some m) (hlo : it.lo = m)
    (hk : keyPrefix K (s.drop m) = false) : matchSeq (it :: (keyItems K ++ rest)) k s = none := by
  simp only [matchSeq]
  apply tryDown_none
  intro j h1 h2
  have hle : it.run s ≤ m := by unfold Item.run; simp only [hhi]; omega
  have : j = m := by omega
  subst this
  rw [matchSeq_keyItems, hk]; simp


/-! ### `key "value"` -/

theorem lemma_matchPat_key_quoted (K K' ds w1 secret post : List Char) (q1 q2 : Char)
    (hK : keyMatch K K' = true) (hds : ∀ c ∈ ds, digitC.test c = true) (hw1 : ∀ c ∈ w1, wsC.test c = true)
    (hw1ne : w1 ≠ []) (hq1 : quoteC.test q1 = true) (hq2 : quoteC.test q2 = true)
    (hsecV : ∀ c ∈ secret, nquoteC.test c = true) :
    matchPat (tplKeyQuoted.inst (keyItems K))
      ((K' ++ (ds ++ (w1 ++ [q1]))) ++ (secret ++ ([q2] ++ post))) =
      some ⟨(secret ++ ([q2] ++ post)).length, ([q2] ++ post).length, post.length⟩ := by
  unfold matchPat
  simp only [tplKeyQuoted, Template.inst, instItems, star, one, plus]
  have e : (K' ++ (ds ++ (w1 ++ [q1]))) ++ (secret ++ ([q2] ++ post))
      = K' ++ (ds ++ (w1 ++ (q1 :: (secret ++ (q2 :: post))))) := by simp
  rw [e, matchSeq_keyItems, keyPrefix_of_keyMatch K K' _ hK, if_pos rfl]
  rw [← keyMatch_length K K' hK, List.drop_left]
  apply matchSeq_cons_greedy _ _ _ ds _ _ rfl (Nat.zero_le _) hds
  · apply head_append_of_all _ w1 _ (fun c hc => lemma_ws_not_digit c (hw1 c hc))
    intro c hc; simp at hc; subst hc
    cases hd : digitC.test q1 with
    | false => rfl
    | true => rw [lemma_digit_not_quote q1 hd] at hq1; cases hq1
  apply matchSeq_cons_greedy _ _ _ w1 _ _ rfl _ hw1
  · intro c hc; simp at hc; subst hc; exact lemma_quote_not_ws q1 hq1
  · rw [matchSeq_one]
    simp only [hq1, if_true]
    show matchSeq [⟨nquoteC, 0, none⟩] _ (secret ++ (q2 :: post)) = _
    apply matchSeq_cons_greedy _ _ _ secret (q2 :: post) _ rfl (Nat.zero_le _) hsecV
    · intro c hc; simp at hc; subst hc; exact lemma_quote_not_nquote q2 hq2
    show matchSeq [⟨quoteC, 1, some 1⟩] _ (q2 :: post) = _
    rw [matchSeq_one]
    simp [hq2, matchSeq]
  · cases w1 with
    | nil => exact absurd rfl hw1ne
    | cons x xs => simp

/-- **Rendering `key "value"`, the pattern `_FORMAT_PATTERNS_2[3]`** (one substitution, full generality: any key,
spelling, digit suffix, non-empty whitespace, either quote on either side, every secret over `[^"']*`) -/
theorem mask_rendering_key_quoted_partial (K K' ds w1 secret pre post mask : List Char) (q1 q2 : Char)
    (hK : keyMatch K K' = true) (hds : ∀ c ∈ ds, digitC.test c = true) (hw1 : ∀ c ∈ w1, wsC.test c = true)
    (hw1ne : w1 ≠ []) (hq1 : quoteC.test q1 = true) (hq2 : quoteC.test q2 = true)
    (hsecV : ∀ c ∈ secret, nquoteC.test c = true)
    (hpre : ∀ j, j < pre.length → keyPrefix K (pre.drop j ++
      (K' ++ ds ++ w1 ++ [q1] ++ secret ++ [q2] ++ post)) = false)
    (hpostK : occursCI K post = false) :
    subPat (tplKeyQuoted.inst (keyItems K)) rep2 mask (pre ++ (K' ++ ds ++ w1 ++ [q1] ++ secret ++ [q2] ++ post))
      = pre ++ (K' ++ ds ++ w1 ++ [q1] ++ mask ++ [q2] ++ post) := by
  have e1 : K' ++ ds ++ w1 ++ [q1] ++ secret ++ [q2] ++ post
      = (K' ++ (ds ++ (w1 ++ [q1]))) ++ (secret ++ ([q2] ++ post)) := by simp
  rw [e1]
  rw [subPat_rendering _ rep2 mask pre (K' ++ (ds ++ (w1 ++ [q1]))) secret [q2] post]
  · simp [rep2, expand]
  · simp
  · intro j hj
    unfold matchPat
    simp only [tplKeyQuoted, Template.inst, instItems]
    rw [matchSeq_keyItems, ← e1, hpre j hj]
    simp
  · exact lemma_matchPat_key_quoted K K' ds w1 secret post q1 q2 hK hds hw1 hw1ne hq1 hq2 hsecV
  · exact subPat_noKey tplKeyQuoted rep2 K mask post (by simp [tplKeyQuoted]) hpostK


/-! ### `--key value` -/

theorem lemma_ws_not_dashVal (c : Char) (h : wsC.test c = true) : dashValC.test c = false := by
  simp only [dashValC, wsC, ncls, cls, Cls.test, lemma_inRanges_append] at h ⊢
  have h' : inRanges c.toNat Gen.wsRanges = true := by simpa using h
  simp [h']

theorem lemma_dashVal_not_ws (c : Char) (h : dashValC.test c = true) : wsC.test c = false := by
  cases hw : wsC.test c with
  | false => rfl
  | true => rw [lemma_ws_not_dashVal c hw] at h; cases h

theorem lemma_matchPat_dashdash (K K' dd ds w1 secret w3 post : List Char)
    (hK : keyMatch K K' = true) (hdd : ∀ c ∈ dd, dashC.test c = true) (hddlen : dd.length = 2)
    (hds : ∀ c ∈ ds, digitC.test c = true) (hw1 : ∀ c ∈ w1, wsC.test c = true) (hw1ne : w1 ≠ [])
    (hsec : secret ≠ []) (hsecV : ∀ c ∈ secret, dashValC.test c = true)
    (hw3 : ∀ c ∈ w3, wsC.test c = true)
    (hstop : ∀ c, post.head? = some c → wsC.test c = false ∧ (w3 = [] → dashValC.test c = false)) :
    matchPat (tplDashDash.inst (keyItems K))
      ((dd ++ (K' ++ (ds ++ w1))) ++ (secret ++ (w3 ++ post))) =
      some ⟨(secret ++ (w3 ++ post)).length, (w3 ++ post).length, post.length⟩ := by
  unfold matchPat
  simp only [tplDashDash, Template.inst, instItems, star, plus, rep]
  have e : (dd ++ (K' ++ (ds ++ w1))) ++ (secret ++ (w3 ++ post))
      = dd ++ (K' ++ (ds ++ (w1 ++ (secret ++ (w3 ++ post))))) := by simp
  rw [e]
  apply lemma_matchSeq_exact _ _ _ dd _ _ 2 rfl (Nat.le_refl 2) hddlen hdd
  rw [matchSeq_keyItems, keyPrefix_of_keyMatch K K' _ hK, if_pos rfl]
  rw [← keyMatch_length K K' hK, List.drop_left]
  have hsec0 : ∀ c, (secret ++ (w3 ++ post)).head? = some c → wsC.test c = false := by
    intro c hc
    cases secret with
    | nil => exact absurd rfl hsec
    | cons x xs => simp at hc; subst hc; exact lemma_dashVal_not_ws _ (hsecV _ (by simp))
  apply matchSeq_cons_greedy _ _ _ ds _ _ rfl (Nat.zero_le _) hds
  · intro c hc
    cases w1 with
    | nil => exact absurd rfl hw1ne
    | cons x xs => simp at hc; subst hc; exact lemma_ws_not_digit _ (hw1 _ (by simp))
  apply matchSeq_cons_greedy _ _ _ w1 _ _ rfl _ hw1 hsec0
  · show matchSeq [⟨dashValC, 1, none⟩] _ (secret ++ (w3 ++ post)) = _
    apply matchSeq_cons_greedy _ _ _ secret (w3 ++ post) _ rfl _ hsecV
    · intro c hc
      cases w3 with
      | nil => exact (hstop c (by simpa using hc)).2 rfl
      | cons x xs => simp at hc; subst hc; exact lemma_ws_not_dashVal _ (hw3 _ (by simp))
    · show matchSeq [⟨wsC, 0, none⟩] _ (w3 ++ post) = _
      apply matchSeq_cons_greedy _ _ _ w3 post _ rfl (Nat.zero_le _) hw3 (fun c hc => (hstop c hc).1)
      simp [matchSeq]
    · cases secret with
      | nil => exact absurd rfl hsec
      | cons x xs => simp
  · cases w1 with
    | nil => exact absurd rfl hw1ne
    | cons x xs => simp

/-- **Rendering `--key value`, the pattern `_FORMAT_PATTERNS_2[4]`** (one substitution, full generality: any key,
spelling, digit suffix, non-empty whitespace, every non-empty secret over the value class of the generated
template `[^'"=\s]`, trailing whitespace kept) -/
theorem mask_rendering_dashdash_partial (K K' dd ds w1 secret w3 pre post mask : List Char)
    (hK : keyMatch K K' = true) (hdd : ∀ c ∈ dd, dashC.test c = true) (hddlen : dd.length = 2)
    (hds : ∀ c ∈ ds, digitC.test c = true) (hw1 : ∀ c ∈ w1, wsC.test c = true) (hw1ne : w1 ≠ [])
    (hsec : secret ≠ []) (hsecV : ∀ c ∈ secret, dashValC.test c = true)
    (hw3 : ∀ c ∈ w3, wsC.test c = true)
    (hstop : ∀ c, post.head? = some c → wsC.test c = false ∧ (w3 = [] → dashValC.test c = false))
    (hpre : ∀ j, j < pre.length → keyPrefix K ((pre.drop j ++
      (dd ++ K' ++ ds ++ w1 ++ secret ++ w3 ++ post)).drop 2) = false)
    (hpostK : occursCI K post = false) :
    subPat (tplDashDash.inst (keyItems K)) rep2 mask (pre ++ (dd ++ K' ++ ds ++ w1 ++ secret ++ w3 ++ post))
      = pre ++ (dd ++ K' ++ ds ++ w1 ++ mask ++ w3 ++ post) := by
  have e1 : dd ++ K' ++ ds ++ w1 ++ secret ++ w3 ++ post
      = (dd ++ (K' ++ (ds ++ w1))) ++ (secret ++ (w3 ++ post)) := by simp
  rw [e1]
  rw [subPat_rendering _ rep2 mask pre (dd ++ (K' ++ (ds ++ w1))) secret w3 post]
  · simp [rep2, expand]
  · cases secret with
    | nil => exact absurd rfl hsec
    | cons x xs => simp
  · intro j hj
    unfold matchPat
    simp only [tplDashDash, Template.inst, instItems, rep]
    apply lemma_matchSeq_fixed_key_none _ _ _ K _ 2 rfl rfl
    rw [← e1]; exact hpre j hj
  · exact lemma_matchPat_dashdash K K' dd ds w1 secret w3 post hK hdd hddlen hds hw1 hw1ne hsec hsecV hw3 hstop
  · exact subPat_noKey tplDashDash rep2 K mask post (by simp [tplDashDash]) hpostK


/-! ### `<key>value</key>` -/

def nltC : Cls := ncls [(60, 60)]                                     -- [^<]

theorem lemma_matchPat_xml (K K' K'' ds ds' secret post : List Char)
    (hK : keyMatch K K' = true) (hK2 : keyMatch K K'' = true)
    (hds : ∀ c ∈ ds, digitC.test c = true) (hds' : ∀ c ∈ ds', digitC.test c = true)
    (hsecV : ∀ c ∈ secret, nltC.test c = true) :
    matchPat (tplXml.inst (keyItems K))
      (('<' :: (K' ++ (ds ++ ['>']))) ++ (secret ++ (('<' :: '/' :: (K'' ++ (ds' ++ ['>']))) ++ post))) =
      some ⟨(secret ++ (('<' :: '/' :: (K'' ++ (ds' ++ ['>']))) ++ post)).length,
            (('<' :: '/' :: (K'' ++ (ds' ++ ['>']))) ++ post).length, post.length⟩ := by
  unfold matchPat
  simp only [tplXml, Template.inst, instItems, star, one]
  have e : ('<' :: (K' ++ (ds ++ ['>']))) ++ (secret ++ (('<' :: '/' :: (K'' ++ (ds' ++ ['>']))) ++ post))
      = '<' :: (K' ++ (ds ++ ('>' :: (secret ++ ('<' :: '/' :: (K'' ++ (ds' ++ ('>' :: post)))))))) := by simp
  rw [e, matchSeq_one]
  simp only [show ltC.test '<' = true by decide, if_true]
  rw [matchSeq_keyItems, keyPrefix_of_keyMatch K K' _ hK, if_pos rfl]
  rw [← keyMatch_length K K' hK, List.drop_left]
  apply matchSeq_cons_greedy _ _ _ ds _ _ rfl (Nat.zero_le _) hds
  · intro c hc; simp at hc; subst hc; decide
  rw [matchSeq_one]
  simp only [show gtC.test '>' = true by decide, if_true]
  show matchSeq [⟨ncls [(60, 60)], 0, none⟩] _ (secret ++ ('<' :: '/' :: (K'' ++ (ds' ++ ('>' :: post))))) = _
  apply matchSeq_cons_greedy _ _ _ secret _ _ rfl (Nat.zero_le _) hsecV
  · intro c hc; simp at hc; subst hc; decide
  show matchSeq (⟨ltC, 1, some 1⟩ :: ⟨slashC, 1, some 1⟩ :: (keyItems K ++ _)) _
    ('<' :: '/' :: (K'' ++ (ds' ++ ('>' :: post)))) = _
  rw [matchSeq_one]
  simp only [show ltC.test '<' = true by decide, if_true]
  rw [matchSeq_one]
  simp only [show slashC.test '/' = true by decide, if_true]
  rw [matchSeq_keyItems, keyPrefix_of_keyMatch K K'' _ hK2, if_pos rfl]
  rw [← keyMatch_length K K'' hK2, List.drop_left]
  apply matchSeq_cons_greedy _ _ _ ds' _ _ rfl (Nat.zero_le _) hds'
  · intro c hc; simp at hc; subst hc; decide
  rw [matchSeq_one]
  simp [show gtC.test '>' = true by decide, matchSeq]

/-- **Rendering `<key>value</key>`, the pattern `_FORMAT_PATTERNS_2[5]`** (one substitution, full generality: any
key, independent spellings and digit suffixes in the two tags, every secret over `[^<]*` — quotes, spaces,
`=`, `>` included) -/
theorem mask_rendering_xml_partial (K K' K'' ds ds' secret pre post mask : List Char)
    (hK : keyMatch K K' = true) (hK2 : keyMatch K K'' = true)
    (hds : ∀ c ∈ ds, digitC.test c = true) (hds' : ∀ c ∈ ds', digitC.test c = true)
    (hsecV : ∀ c ∈ secret, nltC.test c = true)
    (hpre : ∀ j, j < pre.length → keyPrefix K ((pre.drop j ++
      (['<'] ++ K' ++ ds ++ ['>'] ++ secret ++ ['<', '/'] ++ K'' ++ ds' ++ ['>'] ++ post)).drop 1) = false)
    (hpostK : occursCI K post = false) :
    subPat (tplXml.inst (keyItems K)) rep2 mask
      (pre ++ (['<'] ++ K' ++ ds ++ ['>'] ++ secret ++ ['<', '/'] ++ K'' ++ ds' ++ ['>'] ++ post))
      = pre ++ (['<'] ++ K' ++ ds ++ ['>'] ++ mask ++ ['<', '/'] ++ K'' ++ ds' ++ ['>'] ++ post) := by
  have e1 : ['<'] ++ K' ++ ds ++ ['>'] ++ secret ++ ['<', '/'] ++ K'' ++ ds' ++ ['>'] ++ post
      = ('<' :: (K' ++ (ds ++ ['>']))) ++ (secret ++ (('<' :: '/' :: (K'' ++ (ds' ++ ['>']))) ++ post)) := by simp
  rw [e1]
  rw [subPat_rendering _ rep2 mask pre ('<' :: (K' ++ (ds ++ ['>']))) secret ('<' :: '/' :: (K'' ++ (ds' ++ ['>']))) post]
  · simp [rep2, expand]
  · simp
  · intro j hj
    unfold matchPat
    simp only [tplXml, Template.inst, instItems, one]
    apply lemma_matchSeq_fixed_key_none _ _ _ K _ 1 rfl rfl
    rw [← e1]; exact hpre j hj
  · exact lemma_matchPat_xml K K' K'' ds ds' secret post hK hK2 hds hds' hsecV
  · exact subPat_noKey tplXml rep2 K mask post (by simp [tplXml]) hpostK

/-! ### `"key": "value"` -/

theorem lemma_matchPat_colon_quoted (K K' ds w1 w2 secret post : List Char) (q0 q1 q2 q3 : Char)
    (hK : keyMatch K K' = true) (hds : ∀ c ∈ ds, digitC.test c = true) (hw1 : ∀ c ∈ w1, wsC.test c = true)
    (hw2 : ∀ c ∈ w2, wsC.test c = true) (hq0 : quoteC.test q0 = true) (hq1 : quoteC.test q1 = true)
    (hq2 : quoteC.test q2 = true) (hq3 : quoteC.test q3 = true) (hsecV : ∀ c ∈ secret, nquoteC.test c = true) :
    matchPat (tplColonQuoted.inst (keyItems K))
      ((q0 :: (K' ++ (ds ++ (q1 :: (w1 ++ (':' :: (w2 ++ [q2]))))))) ++ (secret ++ ([q3] ++ post))) =
      some ⟨(secret ++ ([q3] ++ post)).length, ([q3] ++ post).length, post.length⟩ := by
  unfold matchPat
  simp only [tplColonQuoted, Template.inst, instItems, star, one]
  have e : (q0 :: (K' ++ (ds ++ (q1 :: (w1 ++ (':' :: (w2 ++ [q2]))))))) ++ (secret ++ ([q3] ++ post))
      = q0 :: (K' ++ (ds ++ (q1 :: (w1 ++ (':' :: (w2 ++ (q2 :: (secret ++ (q3 :: post))))))))) := by simp
  rw [e, matchSeq_one]
  simp only [hq0, if_true]
  rw [matchSeq_keyItems, keyPrefix_of_keyMatch K K' _ hK, if_pos rfl]
  rw [← keyMatch_length K K' hK, List.drop_left]
  apply matchSeq_cons_greedy _ _ _ ds _ _ rfl (Nat.zero_le _) hds
  · intro c hc; simp at hc; subst hc
    cases hd : digitC.test q1 with
    | false => rfl
    | true => rw [lemma_digit_not_quote q1 hd] at hq1; cases hq1
  rw [matchSeq_one]
  simp only [hq1, if_true]
  apply matchSeq_cons_greedy _ _ _ w1 _ _ rfl (Nat.zero_le _) hw1
  · intro c hc; simp at hc; subst hc; decide
  rw [matchSeq_one]
  simp only [show colonC.test ':' = true by decide, if_true]
  apply matchSeq_cons_greedy _ _ _ w2 _ _ rfl (Nat.zero_le _) hw2
  · intro c hc; simp at hc; subst hc; exact lemma_quote_not_ws q2 hq2
  rw [matchSeq_one]
  simp only [hq2, if_true]
  show matchSeq [⟨nquoteC, 0, none⟩] _ (secret ++ (q3 :: post)) = _
  apply matchSeq_cons_greedy _ _ _ secret (q3 :: post) _ rfl (Nat.zero_le _) hsecV
  · intro c hc; simp at hc; subst hc; exact lemma_quote_not_nquote q3 hq3
  show matchSeq [⟨quoteC, 1, some 1⟩] _ (q3 :: post) = _
  rw [matchSeq_one]
  simp [hq3, matchSeq]

/-- **Rendering `"key": "value"`, the pattern `_FORMAT_PATTERNS_2[6]`** (one substitution, full generality: any key,
spelling, digit suffix, either quote in each of the four places, whitespace around `:`, every secret over
`[^"']*`).  What `mask_password` as a whole does to this rendering when a further quote character follows
later in the message is the listed finding KF_C04_WILDCARD (`known_finding_wildcard_witness`). -/
theorem mask_rendering_colon_quoted_partial (K K' ds w1 w2 secret pre post mask : List Char) (q0 q1 q2 q3 : Char)
    (hK : keyMatch K K' = true) (hds : ∀ c ∈ ds, digitC.test c = true) (hw1 : ∀ c ∈ w1, wsC.test c = true)
    (hw2 : ∀ c ∈ w2, wsC.test c = true) (hq0 : quoteC.test q0 = true) (hq1 : quoteC.test q1 = true)
    (hq2 : quoteC.test q2 = true) (hq3 : quoteC.test q3 = true) (hsecV : ∀ c ∈ secret, nquoteC.test c = true)
    (hpre : ∀ j, j < pre.length → keyPrefix K ((pre.drop j ++
      ([q0] ++ K' ++ ds ++ [q1] ++ w1 ++ [':'] ++ w2 ++ [q2] ++ secret ++ [q3] ++ post)).drop 1) = false)
    (hpostK : occursCI K post = false) :
    subPat (tplColonQuoted.inst (keyItems K)) rep2 mask
      (pre ++ ([q0] ++ K' ++ ds ++ [q1] ++ w1 ++ [':'] ++ w2 ++ [q2] ++ secret ++ [q3] ++ post))
      = pre ++ ([q0] ++ K' ++ ds ++ [q1] ++ w1 ++ [':'] ++ w2 ++ [q2] ++ mask ++ [q3] ++ post) := by
  have e1 : [q0] ++ K' ++ ds ++ [q1] ++ w1 ++ [':'] ++ w2 ++ [q2] ++ secret ++ [q3] ++ post
      = (q0 :: (K' ++ (ds ++ (q1 :: (w1 ++ (':' :: (w2 ++ [q2]))))))) ++ (secret ++ ([q3] ++ post)) := by simp
  rw [e1]
  rw [subPat_rendering _ rep2 mask pre (q0 :: (K' ++ (ds ++ (q1 :: (w1 ++ (':' :: (w2 ++ [q2]))))))) secret [q3] post]
  · simp [rep2, expand]
  · simp
  · intro j hj
    unfold matchPat
    simp only [tplColonQuoted, Template.inst, instItems, one]
    apply lemma_matchSeq_fixed_key_none _ _ _ K _ 1 rfl rfl
    rw [← e1]; exact hpre j hj
  · exact lemma_matchPat_colon_quoted K K' ds w1 w2 secret post q0 q1 q2 q3 hK hds hw1 hw2 hq0 hq1 hq2 hq3 hsecV
  · exact subPat_noKey tplColonQuoted rep2 K mask post (by simp [tplColonQuoted]) hpostK


/-! ### `key --flag value` -/

def nwsC : Cls := ncls Gen.wsRanges                                   -- \S

theorem lemma_flag_not_dash (c : Char) (h : flagC.test c = true) : dashC.test c = false := by
  simp only [flagC, dashC, cls, Cls.test, inRanges] at h ⊢
  simp at h ⊢
  omega

theorem lemma_ws_not_flag (c : Char) (h : wsC.test c = true) : flagC.test c = false := by
  simp only [flagC, wsC, cls, Cls.test, Gen.wsRanges, inRanges] at h ⊢
  simp at h ⊢
  omega

theorem lemma_dash_not_ws (c : Char) (h : dashC.test c = true) : wsC.test c = false := by
  cases hw : wsC.test c with
  | false => rfl
  | true => rw [lemma_ws_not_dash c hw] at h; cases h

theorem lemma_dash_not_digit (c : Char) (h : dashC.test c = true) : digitC.test c = false := by
  cases hw : digitC.test c with
  | false => rfl
  | true => rw [lemma_digit_not_dash c hw] at h; cases h

theorem lemma_nws_not_ws (c : Char) (h : nwsC.test c = true) : wsC.test c = false := by
  simp only [nwsC, wsC, ncls, cls, Cls.test] at h ⊢
  simpa using h

theorem lemma_ws_not_nws (c : Char) (h : wsC.test c = true) : nwsC.test c = false := by
  simp only [nwsC, wsC, ncls, cls, Cls.test] at h ⊢
  simpa using h

theorem lemma_matchPat_cmd_flag (K K' ds w1 dd flag w2 secret w3 post : List Char) (d1 : Char)
    (hK : keyMatch K K' = true) (hds : ∀ c ∈ ds, digitC.test c = true) (hw1 : ∀ c ∈ w1, wsC.test c = true)
    (hd1 : dashC.test d1 = true) (hdd : dd = [] ∨ ∃ d2, dd = [d2] ∧ dashC.test d2 = true)
    (hflag : ∀ c ∈ flag, flagC.test c = true) (hflagne : flag ≠ [])
    (hw2 : ∀ c ∈ w2, wsC.test c = true) (hw2ne : w2 ≠ [])
    (hsec : secret ≠ []) (hsecV : ∀ c ∈ secret, nwsC.test c = true) (hw3 : ∀ c ∈ w3, wsC.test c = true)
    (hstop : ∀ c, post.head? = some c → wsC.test c = false ∧ (w3 = [] → nwsC.test c = false)) :
    matchPat (tplCmdFlag.inst (keyItems K))
      ((K' ++ (ds ++ (w1 ++ (d1 :: (dd ++ (flag ++ w2)))))) ++ (secret ++ (w3 ++ post))) =
      some ⟨(secret ++ (w3 ++ post)).length, (w3 ++ post).length, post.length⟩ := by
  unfold matchPat
  simp only [tplCmdFlag, Template.inst, instItems, star, one, plus, opt]
  have e : (K' ++ (ds ++ (w1 ++ (d1 :: (dd ++ (flag ++ w2)))))) ++ (secret ++ (w3 ++ post))
      = K' ++ (ds ++ (w1 ++ (d1 :: (dd ++ (flag ++ (w2 ++ (secret ++ (w3 ++ post)))))))) := by simp
  rw [e, matchSeq_keyItems, keyPrefix_of_keyMatch K K' _ hK, if_pos rfl]
  rw [← keyMatch_length K K' hK, List.drop_left]
  apply matchSeq_cons_greedy _ _ _ ds _ _ rfl (Nat.zero_le _) hds
  · apply head_append_of_all _ w1 _ (fun c hc => lemma_ws_not_digit c (hw1 c hc))
    intro c hc; simp at hc; subst hc; exact lemma_dash_not_digit d1 hd1
  apply matchSeq_cons_greedy _ _ _ w1 _ _ rfl (Nat.zero_le _) hw1
  · intro c hc; simp at hc; subst hc; exact lemma_dash_not_ws d1 hd1
  rw [matchSeq_one]
  simp only [hd1, if_true]
  -- what follows the optional second dash
  have hrest : matchSeq [⟨flagC, 1, none⟩, ⟨wsC, 0, none⟩]
      (fun s1 => matchSeq [⟨ncls Gen.wsRanges, 1, none⟩]
        (fun s2 => matchSeq [⟨wsC, 0, none⟩] (fun s3 => some (Bounds.mk s1.length s2.length s3.length)) s2) s1)
      (flag ++ (w2 ++ (secret ++ (w3 ++ post))))
      = some (Bounds.mk (secret ++ (w3 ++ post)).length (w3 ++ post).length post.length) := by
    apply matchSeq_cons_greedy _ _ _ flag _ _ rfl _ hflag
    · intro c hc
      cases w2 with
      | nil => exact absurd rfl hw2ne
      | cons x xs => simp at hc; subst hc; exact lemma_ws_not_flag _ (hw2 _ (by simp))
    · apply matchSeq_cons_greedy _ _ _ w2 _ _ rfl (Nat.zero_le _) hw2
      · intro c hc
        cases secret with
        | nil => exact absurd rfl hsec
        | cons x xs => simp at hc; subst hc; exact lemma_nws_not_ws _ (hsecV _ (by simp))
      show matchSeq [⟨ncls Gen.wsRanges, 1, none⟩] _ (secret ++ (w3 ++ post)) = _
      apply matchSeq_cons_greedy _ _ _ secret (w3 ++ post) _ rfl _ hsecV
      · intro c hc
        cases w3 with
        | nil => exact (hstop c (by simpa using hc)).2 rfl
        | cons x xs => simp at hc; subst hc; exact lemma_ws_not_nws _ (hw3 _ (by simp))
      · show matchSeq [⟨wsC, 0, none⟩] _ (w3 ++ post) = _
        apply matchSeq_cons_greedy _ _ _ w3 post _ rfl (Nat.zero_le _) hw3 (fun c hc => (hstop c hc).1)
        simp [matchSeq]
      · cases secret with
        | nil => exact absurd rfl hsec
        | cons x xs => simp
    · cases flag with
      | nil => exact absurd rfl hflagne
      | cons x xs => simp
  rcases hdd with hdd | ⟨d2, hdd, hd2⟩
  · subst hdd
    rw [List.nil_append, matchSeq_opt_skip]
    · exact hrest
    · intro c hc
      cases flag with
      | nil => exact absurd rfl hflagne
      | cons x xs => simp at hc; subst hc; exact lemma_flag_not_dash _ (hflag _ (by simp))
  · subst hdd
    exact matchSeq_opt_take _ _ _ d2 _ _ hd2 hrest

/-- **Rendering `key --flag value` / `key -f value`, the pattern `_FORMAT_PATTERNS_2[9]`** (one substitution, full
generality: any key, spelling, digit suffix, optional whitespace before the flag, one or two dashes, every flag
over `[A-z]+` as compiled with IGNORECASE, non-empty whitespace before the value, every non-empty secret over
`\S+`, trailing whitespace kept) -/
theorem mask_rendering_cmd_flag_partial (K K' ds w1 dd flag w2 secret w3 pre post mask : List Char) (d1 : Char)
    (hK : keyMatch K K' = true) (hds : ∀ c ∈ ds, digitC.test c = true) (hw1 : ∀ c ∈ w1, wsC.test c = true)
    (hd1 : dashC.test d1 = true) (hdd : dd = [] ∨ ∃ d2, dd = [d2] ∧ dashC.test d2 = true)
    (hflag : ∀ c ∈ flag, flagC.test c = true) (hflagne : flag ≠ [])
    (hw2 : ∀ c ∈ w2, wsC.test c = true) (hw2ne : w2 ≠ [])
    (hsec : secret ≠ []) (hsecV : ∀ c ∈ secret, nwsC.test c = true) (hw3 : ∀ c ∈ w3, wsC.test c = true)
    (hstop : ∀ c, post.head? = some c → wsC.test c = false ∧ (w3 = [] → nwsC.test c = false))
    (hpre : ∀ j, j < pre.length → keyPrefix K (pre.drop j ++
      (K' ++ ds ++ w1 ++ [d1] ++ dd ++ flag ++ w2 ++ secret ++ w3 ++ post)) = false)
    (hpostK : occursCI K post = false) :
    subPat (tplCmdFlag.inst (keyItems K)) rep2 mask
      (pre ++ (K' ++ ds ++ w1 ++ [d1] ++ dd ++ flag ++ w2 ++ secret ++ w3 ++ post))
      = pre ++ (K' ++ ds ++ w1 ++ [d1] ++ dd ++ flag ++ w2 ++ mask ++ w3 ++ post) := by
  have e1 : K' ++ ds ++ w1 ++ [d1] ++ dd ++ flag ++ w2 ++ secret ++ w3 ++ post
      = (K' ++ (ds ++ (w1 ++ (d1 :: (dd ++ (flag ++ w2)))))) ++ (secret ++ (w3 ++ post)) := by simp
  rw [e1]
  rw [subPat_rendering _ rep2 mask pre (K' ++ (ds ++ (w1 ++ (d1 :: (dd ++ (flag ++ w2)))))) secret w3 post]
  · simp [rep2, expand]
  · simp
  · intro j hj
    unfold matchPat
    simp only [tplCmdFlag, Template.inst, instItems]
    rw [matchSeq_keyItems, ← e1, hpre j hj]
    simp
  · exact lemma_matchPat_cmd_flag K K' ds w1 dd flag w2 secret w3 post d1 hK hds hw1 hd1 hdd hflag hflagne hw2
      hw2ne hsec hsecV hw3 hstop
  · exact subPat_noKey tplCmdFlag rep2 K mask post (by simp [tplCmdFlag]) hpostK


/-! ### backtracking: `[^"']*` in front of the key -/

theorem lemma_tryDown_backtrack {α} (k : List Char → Option α) (s : List Char) (lo m : Nat) (v : α)
    (hlo : lo ≤ m) (hk : k (s.drop m) = some v) :
    ∀ (n : Nat), m ≤ n → (∀ j, m < j → j ≤ n → k (s.drop j) = none) → tryDown k s lo n = some v := by
  intro n
  induction n with
  | zero =>
    intro hmn _
    have : m = 0 := by omega
    subst this
    exact tryDown_first k s lo 0 v hlo hk
  | succ n ih =>
    intro hmn hnone
    by_cases hm : m = n + 1
    · subst hm; exact tryDown_first k s lo _ v hlo hk
    · have h1 : k (s.drop (n + 1)) = none := hnone (n + 1) (by omega) (Nat.le_refl _)
      have h2 : ¬ (n + 1 < lo) := by omega
      simp only [tryDown, h2, if_false, h1]
      exact ih (by omega) (fun j hj1 hj2 => hnone j hj1 (by omega))

/-- a greedy repeat that has to give back characters: the continuation fails after every longer run and
    succeeds after `m` characters -/
theorem lemma_matchSeq_cons_backtrack {α} (it : Item) (rest : List Item) (k : List Char → Option α)
    (r t : List Char) (v : α) (m : Nat) (hhi : it.hi = none) (hlo : it.lo ≤ m) (hm : m ≤ r.length)
    (hr : ∀ c ∈ r, it.cls.test c = true) (ht : ∀ c, t.head? = some c → it.cls.test c = false)
    (hnone : ∀ j, m < j → j ≤ r.length → matchSeq rest k ((r ++ t).drop j) = none)
    (hk : matchSeq rest k ((r ++ t).drop m) = some v) : matchSeq (it :: rest) k (r ++ t) = some v := by
  simp only [matchSeq]
  rw [run_unbounded it r t hhi hr ht]
  exact lemma_tryDown_backtrack _ _ _ m v hlo hk r.length hm hnone

theorem lemma_dq_not_ws (c : Char) (h : dqC.test c = true) : wsC.test c = false := by
  simp only [wsC, dqC, cls, Cls.test, Gen.wsRanges, inRanges] at h ⊢
  simp at h ⊢
  omega

theorem lemma_sq_not_ws (c : Char) (h : sqC.test c = true) : wsC.test c = false := by
  simp only [wsC, sqC, cls, Cls.test, Gen.wsRanges, inRanges] at h ⊢
  simp at h ⊢
  omega

def ndqC : Cls := ncls [(34, 34)]                                     -- [^"]
def nsqC : Cls := ncls [(39, 39)]                                     -- [^']

/-- **Rendering `key = "value"`, the pattern `_FORMAT_PATTERNS_2[1]`** (one substitution; secret over `[^"]*`, so
single quotes allowed) -/
theorem mask_rendering_eq_dquoted_partial (K K' ds w1 w2 secret pre post mask : List Char)
    (hK : keyMatch K K' = true) (hds : ∀ c ∈ ds, digitC.test c = true) (hw1 : ∀ c ∈ w1, wsC.test c = true)
    (hw2 : ∀ c ∈ w2, wsC.test c = true) (hsecV : ∀ c ∈ secret, ndqC.test c = true)
    (hpre : ∀ j, j < pre.length → keyPrefix K (pre.drop j ++
      (K' ++ ds ++ w1 ++ ['='] ++ w2 ++ ['"'] ++ secret ++ ['"'] ++ post)) = false)
    (hpostK : occursCI K post = false) :
    subPat (tplEqDq.inst (keyItems K)) rep2 mask
      (pre ++ (K' ++ ds ++ w1 ++ ['='] ++ w2 ++ ['"'] ++ secret ++ ['"'] ++ post))
      = pre ++ (K' ++ ds ++ w1 ++ ['='] ++ w2 ++ ['"'] ++ mask ++ ['"'] ++ post) := by
  have e1 : K' ++ ds ++ w1 ++ ['='] ++ w2 ++ ['"'] ++ secret ++ ['"'] ++ post
      = (K' ++ (ds ++ (w1 ++ ('=' :: (w2 ++ ['"']))))) ++ (secret ++ (['"'] ++ post)) := by simp
  have h := lemma_sub_eq_q dqC ndqC rep2 K K' ds w1 w2 secret pre post mask '"' '"' hK hds hw1 hw2 (by decide)
    (by decide) (by decide) (by decide) hsecV (by rw [← e1]; exact hpre) hpostK
  rw [e1]
  simp only [tplEqDq]
  simp only [ndqC] at h
  rw [h]
  simp [rep2, expand]

/-- **Rendering `key = 'value'`, the pattern `_FORMAT_PATTERNS_2[2]`** (one substitution; secret over `[^']*`, so
double quotes allowed) -/
theorem mask_rendering_eq_squoted_partial (K K' ds w1 w2 secret pre post mask : List Char)
    (hK : keyMatch K K' = true) (hds : ∀ c ∈ ds, digitC.test c = true) (hw1 : ∀ c ∈ w1, wsC.test c = true)
    (hw2 : ∀ c ∈ w2, wsC.test c = true) (hsecV : ∀ c ∈ secret, nsqC.test c = true)
    (hpre : ∀ j, j < pre.length → keyPrefix K (pre.drop j ++
      (K' ++ ds ++ w1 ++ ['='] ++ w2 ++ ['\''] ++ secret ++ ['\''] ++ post)) = false)
    (hpostK : occursCI K post = false) :
    subPat (tplEqSq.inst (keyItems K)) rep2 mask
      (pre ++ (K' ++ ds ++ w1 ++ ['='] ++ w2 ++ ['\''] ++ secret ++ ['\''] ++ post))
      = pre ++ (K' ++ ds ++ w1 ++ ['='] ++ w2 ++ ['\''] ++ mask ++ ['\''] ++ post) := by
  have e1 : K' ++ ds ++ w1 ++ ['='] ++ w2 ++ ['\''] ++ secret ++ ['\''] ++ post
      = (K' ++ (ds ++ (w1 ++ ('=' :: (w2 ++ ['\'']))))) ++ (secret ++ (['\''] ++ post)) := by simp
  have h := lemma_sub_eq_q sqC nsqC rep2 K K' ds w1 w2 secret pre post mask '\'' '\'' hK hds hw1 hw2 (by decide)
    (by decide) (by decide) (by decide) hsecV (by rw [← e1]; exact hpre) hpostK
  rw [e1]
  simp only [tplEqSq]
  simp only [nsqC] at h
  rw [h]
  simp [rep2, expand]


/-! ### `"prefix_key": u"value"` -/

theorem lemma_digit_nquote (c : Char) (h : digitC.test c = true) : nquoteC.test c = true := by
  simp only [digitC, nquoteC, cls, ncls, Cls.test, inRanges] at h ⊢
  simp at h ⊢
  omega

theorem lemma_u_not_ws (c : Char) (h : uC.test c = true) : wsC.test c = false := by
  simp only [wsC, uC, cls, Cls.test, Gen.wsRanges, inRanges] at h ⊢
  simp at h ⊢
  omega

theorem lemma_quote_not_u (c : Char) (h : quoteC.test c = true) : uC.test c = false := by
  simp only [quoteC, uC, cls, Cls.test, inRanges] at h ⊢
  simp at h ⊢
  omega

theorem lemma_quote_not_digit (c : Char) (h : quoteC.test c = true) : digitC.test c = false := by
  cases hd : digitC.test c with
  | false => rfl
  | true => rw [lemma_digit_not_quote c hd] at h; cases h

/-- no match of a pattern that starts with a quote begins inside a text without quotes -/
theorem lemma_quote_first_none {α} (rest : List Item) (k : List Char → Option α) (pre R : List Char)
    (hpreq : ∀ c ∈ pre, quoteC.test c = false) (j : Nat) (hj : j < pre.length) :
    matchSeq (⟨quoteC, 1, some 1⟩ :: rest) k (pre.drop j ++ R) = none := by
  rw [matchSeq_one]
  cases hd : pre.drop j with
  | nil =>
    have : (pre.drop j).length = 0 := by rw [hd]; rfl
    simp at this; omega
  | cons c cs =>
    have hc : c ∈ pre := List.mem_of_mem_drop (by rw [hd]; simp)
    simp [hpreq c hc]

/-- the part of the colon patterns after the key: `[0-9]*["']\s*:\s*u?["'][^"']*["']` -/
theorem lemma_colon_tail (ds w1 w2 uu secret post : List Char) (q1 q2 q3 : Char)
    (hds : ∀ c ∈ ds, digitC.test c = true) (hw1 : ∀ c ∈ w1, wsC.test c = true)
    (hw2 : ∀ c ∈ w2, wsC.test c = true) (hq1 : quoteC.test q1 = true)
    (hq2 : quoteC.test q2 = true) (hq3 : quoteC.test q3 = true)
    (huu : uu = [] ∨ ∃ u, uu = [u] ∧ uC.test u = true) (hsecV : ∀ c ∈ secret, nquoteC.test c = true) :
    matchSeq [⟨digitC, 0, none⟩, ⟨quoteC, 1, some 1⟩, ⟨wsC, 0, none⟩, ⟨colonC, 1, some 1⟩, ⟨wsC, 0, none⟩,
        ⟨uC, 0, some 1⟩, ⟨quoteC, 1, some 1⟩]
      (fun s1 => matchSeq [⟨nquoteC, 0, none⟩]
        (fun s2 => matchSeq [⟨quoteC, 1, some 1⟩] (fun s3 => some (Bounds.mk s1.length s2.length s3.length)) s2) s1)
      (ds ++ (q1 :: (w1 ++ (':' :: (w2 ++ (uu ++ (q2 :: (secret ++ (q3 :: post)))))))))
      = some (Bounds.mk (secret ++ ([q3] ++ post)).length ([q3] ++ post).length post.length) := by
  apply matchSeq_cons_greedy _ _ _ ds _ _ rfl (Nat.zero_le _) hds
  · intro c hc; simp at hc; subst hc; exact lemma_quote_not_digit q1 hq1
  rw [matchSeq_one]
  simp only [hq1, if_true]
  apply matchSeq_cons_greedy _ _ _ w1 _ _ rfl (Nat.zero_le _) hw1
  · intro c hc; simp at hc; subst hc; decide
  rw [matchSeq_one]
  simp only [show colonC.test ':' = true by decide, if_true]
  have hfin : matchSeq [⟨quoteC, 1, some 1⟩]
      (fun s1 => matchSeq [⟨nquoteC, 0, none⟩]
        (fun s2 => matchSeq [⟨quoteC, 1, some 1⟩] (fun s3 => some (Bounds.mk s1.length s2.length s3.length)) s2) s1)
      (q2 :: (secret ++ (q3 :: post)))
      = some (Bounds.mk (secret ++ ([q3] ++ post)).length ([q3] ++ post).length post.length) := by
    rw [matchSeq_one]
    simp only [hq2, if_true]
    show matchSeq [⟨nquoteC, 0, none⟩] _ (secret ++ (q3 :: post)) = _
    apply matchSeq_cons_greedy _ _ _ secret (q3 :: post) _ rfl (Nat.zero_le _) hsecV
    · intro c hc; simp at hc; subst hc; exact lemma_quote_not_nquote q3 hq3
    show matchSeq [⟨quoteC, 1, some 1⟩] _ (q3 :: post) = _
    rw [matchSeq_one]
    simp [hq3, matchSeq]
  rcases huu with huu | ⟨u, huu, hu⟩
  · subst huu
    apply matchSeq_cons_greedy _ _ _ w2 _ _ rfl (Nat.zero_le _) hw2
    · intro c hc; simp at hc; subst hc; exact lemma_quote_not_ws q2 hq2
    rw [List.nil_append, matchSeq_opt_skip]
    · exact hfin
    · intro c hc; simp at hc; subst hc; exact lemma_quote_not_u q2 hq2
  · subst huu
    apply matchSeq_cons_greedy _ _ _ w2 _ _ rfl (Nat.zero_le _) hw2
    · intro c hc; simp at hc; subst hc; exact lemma_u_not_ws u hu
    exact matchSeq_opt_take _ _ _ u _ _ hu hfin

theorem lemma_matchPat_colon_prefixed (K K' px ds w1 w2 uu secret post : List Char) (q0 q1 q2 q3 : Char)
    (hK : keyMatch K K' = true) (hKnq : ∀ c ∈ K', nquoteC.test c = true)
    (hpx : ∀ c ∈ px, nquoteC.test c = true)
    (hds : ∀ c ∈ ds, digitC.test c = true) (hw1 : ∀ c ∈ w1, wsC.test c = true)
    (hw2 : ∀ c ∈ w2, wsC.test c = true) (hq0 : quoteC.test q0 = true) (hq1 : quoteC.test q1 = true)
    (hq2 : quoteC.test q2 = true) (hq3 : quoteC.test q3 = true)
    (huu : uu = [] ∨ ∃ u, uu = [u] ∧ uC.test u = true) (hsecV : ∀ c ∈ secret, nquoteC.test c = true)
    (hmid : ∀ j, px.length < j → j ≤ (px ++ (K' ++ ds)).length →
      keyPrefix K (((px ++ (K' ++ ds)) ++ (q1 :: (w1 ++ (':' :: (w2 ++ (uu ++ (q2 :: (secret ++ (q3 :: post))))))))).drop j)
        = false) :
    matchPat (tplColonPrefixed.inst (keyItems K))
      ((q0 :: (px ++ (K' ++ (ds ++ (q1 :: (w1 ++ (':' :: (w2 ++ (uu ++ [q2]))))))))) ++ (secret ++ ([q3] ++ post))) =
      some ⟨(secret ++ ([q3] ++ post)).length, ([q3] ++ post).length, post.length⟩ := by
  unfold matchPat
  simp only [tplColonPrefixed, Template.inst, instItems, star, one, opt]
  have e : (q0 :: (px ++ (K' ++ (ds ++ (q1 :: (w1 ++ (':' :: (w2 ++ (uu ++ [q2]))))))))) ++ (secret ++ ([q3] ++ post))
      = q0 :: ((px ++ (K' ++ ds)) ++ (q1 :: (w1 ++ (':' :: (w2 ++ (uu ++ (q2 :: (secret ++ (q3 :: post))))))))) := by
    simp
  rw [e, matchSeq_one]
  simp only [hq0, if_true]
  apply lemma_matchSeq_cons_backtrack _ _ _ (px ++ (K' ++ ds)) _ _ px.length rfl (Nat.zero_le _) (by simp)
  · intro c hc
    simp only [List.mem_append] at hc
    rcases hc with h | h | h
    · exact hpx c h
    · exact hKnq c h
    · exact lemma_digit_nquote c (hds c h)
  · intro c hc; simp at hc; subst hc; exact lemma_quote_not_nquote q1 hq1
  · intro j h1 h2
    rw [matchSeq_keyItems, hmid j h1 h2]
    simp
  · have ed : ((px ++ (K' ++ ds)) ++ (q1 :: (w1 ++ (':' :: (w2 ++ (uu ++ (q2 :: (secret ++ (q3 :: post))))))))).drop px.length
        = K' ++ (ds ++ (q1 :: (w1 ++ (':' :: (w2 ++ (uu ++ (q2 :: (secret ++ (q3 :: post))))))))) := by
      rw [List.append_assoc, List.drop_left]; simp
    rw [ed, matchSeq_keyItems, keyPrefix_of_keyMatch K K' _ hK, if_pos rfl]
    rw [← keyMatch_length K K' hK, List.drop_left]
    exact lemma_colon_tail ds w1 w2 uu secret post q1 q2 q3 hds hw1 hw2 hq1 hq2 hq3 huu hsecV

/-- **Rendering `"prefix_key": u"value"`, the pattern `_FORMAT_PATTERNS_2[7]`** (one substitution, full generality:
any key, spelling, digit suffix, any quote-free text between the opening quote and the key, either quote in each
place, whitespace around `:`, optional `u`/`U`, every secret over `[^"']*`).  The greedy `[^"']*` in front of the
key has to give characters back: `hmid` says the key does not start again inside `key digits`. -/
theorem mask_rendering_colon_prefixed_partial (K K' px ds w1 w2 uu secret pre post mask : List Char) (q0 q1 q2 q3 : Char)
    (hK : keyMatch K K' = true) (hKnq : ∀ c ∈ K', nquoteC.test c = true)
    (hpx : ∀ c ∈ px, nquoteC.test c = true)
    (hds : ∀ c ∈ ds, digitC.test c = true) (hw1 : ∀ c ∈ w1, wsC.test c = true)
    (hw2 : ∀ c ∈ w2, wsC.test c = true) (hq0 : quoteC.test q0 = true) (hq1 : quoteC.test q1 = true)
    (hq2 : quoteC.test q2 = true) (hq3 : quoteC.test q3 = true)
    (huu : uu = [] ∨ ∃ u, uu = [u] ∧ uC.test u = true) (hsecV : ∀ c ∈ secret, nquoteC.test c = true)
    (hmid : ∀ j, px.length < j → j ≤ (px ++ (K' ++ ds)).length →
      keyPrefix K (((px ++ (K' ++ ds)) ++ (q1 :: (w1 ++ (':' :: (w2 ++ (uu ++ (q2 :: (secret ++ (q3 :: post))))))))).drop j)
        = false)
    (hpreq : ∀ c ∈ pre, quoteC.test c = false) (hpostK : occursCI K post = false) :
    subPat (tplColonPrefixed.inst (keyItems K)) rep2 mask
      (pre ++ ([q0] ++ px ++ K' ++ ds ++ [q1] ++ w1 ++ [':'] ++ w2 ++ uu ++ [q2] ++ secret ++ [q3] ++ post))
      = pre ++ ([q0] ++ px ++ K' ++ ds ++ [q1] ++ w1 ++ [':'] ++ w2 ++ uu ++ [q2] ++ mask ++ [q3] ++ post) := by
  have e1 : [q0] ++ px ++ K' ++ ds ++ [q1] ++ w1 ++ [':'] ++ w2 ++ uu ++ [q2] ++ secret ++ [q3] ++ post
      = (q0 :: (px ++ (K' ++ (ds ++ (q1 :: (w1 ++ (':' :: (w2 ++ (uu ++ [q2]))))))))) ++ (secret ++ ([q3] ++ post)) := by
    simp
  rw [e1]
  rw [subPat_rendering _ rep2 mask pre (q0 :: (px ++ (K' ++ (ds ++ (q1 :: (w1 ++ (':' :: (w2 ++ (uu ++ [q2]))))))))) secret [q3] post]
  · simp [rep2, expand]
  · simp
  · intro j hj
    unfold matchPat
    simp only [tplColonPrefixed, Template.inst, instItems, one]
    exact lemma_quote_first_none _ _ pre _ hpreq j hj
  · exact lemma_matchPat_colon_prefixed K K' px ds w1 w2 uu secret post q0 q1 q2 q3 hK hKnq hpx hds hw1 hw2 hq0 hq1
      hq2 hq3 huu hsecV hmid
  · exact subPat_noKey tplColonPrefixed rep2 K mask post (by simp [tplColonPrefixed]) hpostK


/-! ### `'key', '--flag', 'value'` -/

theorem lemma_matchPat_cmd_list (K K' px ds w1 w2 dd flag w3 w4 uu secret post : List Char) (q0 q1 q2 q3 d1 : Char)
    (hK : keyMatch K K' = true) (hKnq : ∀ c ∈ K', nquoteC.test c = true)
    (hpx : ∀ c ∈ px, nquoteC.test c = true)
    (hds : ∀ c ∈ ds, digitC.test c = true) (hw1 : ∀ c ∈ w1, wsC.test c = true)
    (hw2 : ∀ c ∈ w2, wsC.test c = true) (hw3 : ∀ c ∈ w3, wsC.test c = true) (hw4 : ∀ c ∈ w4, wsC.test c = true)
    (hq0 : quoteC.test q0 = true) (hq1 : quoteC.test q1 = true)
    (hq2 : quoteC.test q2 = true) (hq3 : quoteC.test q3 = true)
    (hd1 : dashC.test d1 = true) (hdd : dd = [] ∨ ∃ d2, dd = [d2] ∧ dashC.test d2 = true)
    (hflag : ∀ c ∈ flag, flagC.test c = true) (hflagne : flag ≠ [])
    (huu : uu = [] ∨ ∃ u, uu = [u] ∧ uC.test u = true) (hsecV : ∀ c ∈ secret, nquoteC.test c = true)
    (hmid : ∀ j, px.length < j → j ≤ (px ++ (K' ++ ds)).length →
      keyPrefix K (((px ++ (K' ++ ds)) ++ (q1 :: (w1 ++ (',' :: (w2 ++ ('\'' :: d1 :: (dd ++ (flag ++
        ('\'' :: (w3 ++ (',' :: (w4 ++ (uu ++ (q2 :: (secret ++ (q3 :: post)))))))))))))))).drop j) = false) :
    matchPat (tplCmdList.inst (keyItems K))
      ((q0 :: (px ++ (K' ++ (ds ++ (q1 :: (w1 ++ (',' :: (w2 ++ ('\'' :: d1 :: (dd ++ (flag ++
        ('\'' :: (w3 ++ (',' :: (w4 ++ (uu ++ [q2])))))))))))))))) ++ (secret ++ ([q3] ++ post))) =
      some ⟨(secret ++ ([q3] ++ post)).length, ([q3] ++ post).length, post.length⟩ := by
  unfold matchPat
  simp only [tplCmdList, Template.inst, instItems, star, one, opt, plus]
  have e : (q0 :: (px ++ (K' ++ (ds ++ (q1 :: (w1 ++ (',' :: (w2 ++ ('\'' :: d1 :: (dd ++ (flag ++
        ('\'' :: (w3 ++ (',' :: (w4 ++ (uu ++ [q2])))))))))))))))) ++ (secret ++ ([q3] ++ post))
      = q0 :: ((px ++ (K' ++ ds)) ++ (q1 :: (w1 ++ (',' :: (w2 ++ ('\'' :: d1 :: (dd ++ (flag ++
        ('\'' :: (w3 ++ (',' :: (w4 ++ (uu ++ (q2 :: (secret ++ (q3 :: post)))))))))))))))) := by
    simp
  rw [e, matchSeq_one]
  simp only [hq0, if_true]
  apply lemma_matchSeq_cons_backtrack _ _ _ (px ++ (K' ++ ds)) _ _ px.length rfl (Nat.zero_le _) (by simp)
  · intro c hc
    simp only [List.mem_append] at hc
    rcases hc with h | h | h
    · exact hpx c h
    · exact hKnq c h
    · exact lemma_digit_nquote c (hds c h)
  · intro c hc; simp at hc; subst hc; exact lemma_quote_not_nquote q1 hq1
  · intro j h1 h2
    rw [matchSeq_keyItems, hmid j h1 h2]
    simp
  · have ed : ((px ++ (K' ++ ds)) ++ (q1 :: (w1 ++ (',' :: (w2 ++ ('\'' :: d1 :: (dd ++ (flag ++
          ('\'' :: (w3 ++ (',' :: (w4 ++ (uu ++ (q2 :: (secret ++ (q3 :: post)))))))))))))))).drop px.length
        = K' ++ (ds ++ (q1 :: (w1 ++ (',' :: (w2 ++ ('\'' :: d1 :: (dd ++ (flag ++
          ('\'' :: (w3 ++ (',' :: (w4 ++ (uu ++ (q2 :: (secret ++ (q3 :: post)))))))))))))))) := by
      rw [List.append_assoc, List.drop_left]; simp
    rw [ed, matchSeq_keyItems, keyPrefix_of_keyMatch K K' _ hK, if_pos rfl]
    rw [← keyMatch_length K K' hK, List.drop_left]
    apply matchSeq_cons_greedy _ _ _ ds _ _ rfl (Nat.zero_le _) hds
    · intro c hc; simp at hc; subst hc; exact lemma_quote_not_digit q1 hq1
    rw [matchSeq_one]
    simp only [hq1, if_true]
    apply matchSeq_cons_greedy _ _ _ w1 _ _ rfl (Nat.zero_le _) hw1
    · intro c hc; simp at hc; subst hc; decide
    rw [matchSeq_one]
    simp only [show commaC.test ',' = true by decide, if_true]
    apply matchSeq_cons_greedy _ _ _ w2 _ _ rfl (Nat.zero_le _) hw2
    · intro c hc; simp at hc; subst hc; decide
    rw [matchSeq_one]
    simp only [show sqC.test '\'' = true by decide, if_true]
    rw [matchSeq_one]
    simp only [hd1, if_true]
    -- after the optional second dash
    have htail : matchSeq [⟨flagC, 1, none⟩, ⟨sqC, 1, some 1⟩, ⟨wsC, 0, none⟩, ⟨commaC, 1, some 1⟩, ⟨wsC, 0, none⟩,
          ⟨uC, 0, some 1⟩, ⟨quoteC, 1, some 1⟩]
        (fun s1 => matchSeq [⟨nquoteC, 0, none⟩]
          (fun s2 => matchSeq [⟨quoteC, 1, some 1⟩] (fun s3 => some (Bounds.mk s1.length s2.length s3.length)) s2) s1)
        (flag ++ ('\'' :: (w3 ++ (',' :: (w4 ++ (uu ++ (q2 :: (secret ++ (q3 :: post)))))))))
        = some (Bounds.mk (secret ++ ([q3] ++ post)).length ([q3] ++ post).length post.length) := by
      apply matchSeq_cons_greedy _ _ _ flag _ _ rfl _ hflag
      · intro c hc; simp at hc; subst hc; decide
      · rw [matchSeq_one]
        simp only [show sqC.test '\'' = true by decide, if_true]
        apply matchSeq_cons_greedy _ _ _ w3 _ _ rfl (Nat.zero_le _) hw3
        · intro c hc; simp at hc; subst hc; decide
        rw [matchSeq_one]
        simp only [show commaC.test ',' = true by decide, if_true]
        have hfin : matchSeq [⟨quoteC, 1, some 1⟩]
            (fun s1 => matchSeq [⟨nquoteC, 0, none⟩]
              (fun s2 => matchSeq [⟨quoteC, 1, some 1⟩] (fun s3 => some (Bounds.mk s1.length s2.length s3.length)) s2) s1)
            (q2 :: (secret ++ (q3 :: post)))
            = some (Bounds.mk (secret ++ ([q3] ++ post)).length ([q3] ++ post).length post.length) := by
          rw [matchSeq_one]
          simp only [hq2, if_true]
          show matchSeq [⟨nquoteC, 0, none⟩] _ (secret ++ (q3 :: post)) = _
          apply matchSeq_cons_greedy _ _ _ secret (q3 :: post) _ rfl (Nat.zero_le _) hsecV
          · intro c hc; simp at hc; subst hc; exact lemma_quote_not_nquote q3 hq3
          show matchSeq [⟨quoteC, 1, some 1⟩] _ (q3 :: post) = _
          rw [matchSeq_one]
          simp [hq3, matchSeq]
        rcases huu with huu | ⟨u, huu, hu⟩
        · subst huu
          apply matchSeq_cons_greedy _ _ _ w4 _ _ rfl (Nat.zero_le _) hw4
          · intro c hc; simp at hc; subst hc; exact lemma_quote_not_ws q2 hq2
          rw [List.nil_append, matchSeq_opt_skip]
          · exact hfin
          · intro c hc; simp at hc; subst hc; exact lemma_quote_not_u q2 hq2
        · subst huu
          apply matchSeq_cons_greedy _ _ _ w4 _ _ rfl (Nat.zero_le _) hw4
          · intro c hc; simp at hc; subst hc; exact lemma_u_not_ws u hu
          exact matchSeq_opt_take _ _ _ u _ _ hu hfin
      · cases flag with
        | nil => exact absurd rfl hflagne
        | cons x xs => simp
    rcases hdd with hdd | ⟨d2, hdd, hd2⟩
    · subst hdd
      rw [List.nil_append, matchSeq_opt_skip]
      · exact htail
      · intro c hc
        cases flag with
        | nil => exact absurd rfl hflagne
        | cons x xs => simp at hc; subst hc; exact lemma_flag_not_dash _ (hflag _ (by simp))
    · subst hdd
      exact matchSeq_opt_take _ _ _ d2 _ _ hd2 htail

/-- **Rendering `'prefix_key', '--flag', u'value'`, the pattern `_FORMAT_PATTERNS_2[8]`** (one substitution, full
generality: any key, spelling, digit suffix, quote-free prefix, either quote around key and value, whitespace
around the commas, one or two dashes, every flag over `[A-z]+` as compiled, optional `u`, every secret over
`[^"']*`) -/
theorem mask_rendering_cmd_list_partial (K K' px ds w1 w2 dd flag w3 w4 uu secret pre post mask : List Char)
    (q0 q1 q2 q3 d1 : Char)
    (hK : keyMatch K K' = true) (hKnq : ∀ c ∈ K', nquoteC.test c = true)
    (hpx : ∀ c ∈ px, nquoteC.test c = true)
    (hds : ∀ c ∈ ds, digitC.test c = true) (hw1 : ∀ c ∈ w1, wsC.test c = true)
    (hw2 : ∀ c ∈ w2, wsC.test c = true) (hw3 : ∀ c ∈ w3, wsC.test c = true) (hw4 : ∀ c ∈ w4, wsC.test c = true)
    (hq0 : quoteC.test q0 = true) (hq1 : quoteC.test q1 = true)
    (hq2 : quoteC.test q2 = true) (hq3 : quoteC.test q3 = true)
    (hd1 : dashC.test d1 = true) (hdd : dd = [] ∨ ∃ d2, dd = [d2] ∧ dashC.test d2 = true)
    (hflag : ∀ c ∈ flag, flagC.test c = true) (hflagne : flag ≠ [])
    (huu : uu = [] ∨ ∃ u, uu = [u] ∧ uC.test u = true) (hsecV : ∀ c ∈ secret, nquoteC.test c = true)
    (hmid : ∀ j, px.length < j → j ≤ (px ++ (K' ++ ds)).length →
      keyPrefix K (((px ++ (K' ++ ds)) ++ (q1 :: (w1 ++ (',' :: (w2 ++ ('\'' :: d1 :: (dd ++ (flag ++
        ('\'' :: (w3 ++ (',' :: (w4 ++ (uu ++ (q2 :: (secret ++ (q3 :: post)))))))))))))))).drop j) = false)
    (hpreq : ∀ c ∈ pre, quoteC.test c = false) (hpostK : occursCI K post = false) :
    subPat (tplCmdList.inst (keyItems K)) rep2 mask
      (pre ++ ([q0] ++ px ++ K' ++ ds ++ [q1] ++ w1 ++ [','] ++ w2 ++ ['\'', d1] ++ dd ++ flag ++ ['\''] ++ w3 ++
        [','] ++ w4 ++ uu ++ [q2] ++ secret ++ [q3] ++ post))
      = pre ++ ([q0] ++ px ++ K' ++ ds ++ [q1] ++ w1 ++ [','] ++ w2 ++ ['\'', d1] ++ dd ++ flag ++ ['\''] ++ w3 ++
        [','] ++ w4 ++ uu ++ [q2] ++ mask ++ [q3] ++ post) := by
  have e1 : [q0] ++ px ++ K' ++ ds ++ [q1] ++ w1 ++ [','] ++ w2 ++ ['\'', d1] ++ dd ++ flag ++ ['\''] ++ w3 ++
        [','] ++ w4 ++ uu ++ [q2] ++ secret ++ [q3] ++ post
      = (q0 :: (px ++ (K' ++ (ds ++ (q1 :: (w1 ++ (',' :: (w2 ++ ('\'' :: d1 :: (dd ++ (flag ++
        ('\'' :: (w3 ++ (',' :: (w4 ++ (uu ++ [q2])))))))))))))))) ++ (secret ++ ([q3] ++ post)) := by
    simp
  rw [e1]
  rw [subPat_rendering _ rep2 mask pre (q0 :: (px ++ (K' ++ (ds ++ (q1 :: (w1 ++ (',' :: (w2 ++ ('\'' :: d1 :: (dd ++ (flag ++
        ('\'' :: (w3 ++ (',' :: (w4 ++ (uu ++ [q2])))))))))))))))) secret [q3] post]
  · simp [rep2, expand]
  · simp
  · intro j hj
    unfold matchPat
    simp only [tplCmdList, Template.inst, instItems, one]
    exact lemma_quote_first_none _ _ pre _ hpreq j hj
  · exact lemma_matchPat_cmd_list K K' px ds w1 w2 dd flag w3 w4 uu secret post q0 q1 q2 q3 d1 hK hKnq hpx hds hw1
      hw2 hw3 hw4 hq0 hq1 hq2 hq3 hd1 hdd hflag hflagne huu hsecV hmid
  · exact subPat_noKey tplCmdList rep2 K mask post (by simp [tplCmdList]) hpostK


/-! ### masking an already masked message (one substitution per rendering) -/

/-- `key = "***"` stays as it is under the eq_quoted substitution, for every mask over `[^"']*` -/
theorem sub_idempotent_on_masked_eq_quoted (K K' ds w1 w2 pre post mask : List Char) (q1 q2 : Char)
    (hK : keyMatch K K' = true) (hds : ∀ c ∈ ds, digitC.test c = true) (hw1 : ∀ c ∈ w1, wsC.test c = true)
    (hw2 : ∀ c ∈ w2, wsC.test c = true) (hq1 : quoteC.test q1 = true) (hq2 : quoteC.test q2 = true)
    (hmaskV : ∀ c ∈ mask, nquoteC.test c = true)
    (hpre : ∀ j, j < pre.length → keyPrefix K (pre.drop j ++
      (K' ++ ds ++ w1 ++ ['='] ++ w2 ++ [q1] ++ mask ++ [q2] ++ post)) = false)
    (hpostK : occursCI K post = false) :
    subPat (tplEqQuoted.inst (keyItems K)) rep2 mask
      (pre ++ (K' ++ ds ++ w1 ++ ['='] ++ w2 ++ [q1] ++ mask ++ [q2] ++ post))
      = pre ++ (K' ++ ds ++ w1 ++ ['='] ++ w2 ++ [q1] ++ mask ++ [q2] ++ post) :=
  sub_rendering_eq_quoted K K' ds w1 w2 mask pre post mask q1 q2 hK hds hw1 hw2 hq1 hq2 hmaskV hpre hpostK

/-- `<key>***</key>` stays as it is under the xml substitution, for every mask over `[^<]*` -/
theorem mask_idempotent_on_masked_xml_partial (K K' K'' ds ds' pre post mask : List Char)
    (hK : keyMatch K K' = true) (hK2 : keyMatch K K'' = true)
    (hds : ∀ c ∈ ds, digitC.test c = true) (hds' : ∀ c ∈ ds', digitC.test c = true)
    (hmaskV : ∀ c ∈ mask, nltC.test c = true)
    (hpre : ∀ j, j < pre.length → keyPrefix K ((pre.drop j ++
      (['<'] ++ K' ++ ds ++ ['>'] ++ mask ++ ['<', '/'] ++ K'' ++ ds' ++ ['>'] ++ post)).drop 1) = false)
    (hpostK : occursCI K post = false) :
    subPat (tplXml.inst (keyItems K)) rep2 mask
      (pre ++ (['<'] ++ K' ++ ds ++ ['>'] ++ mask ++ ['<', '/'] ++ K'' ++ ds' ++ ['>'] ++ post))
      = pre ++ (['<'] ++ K' ++ ds ++ ['>'] ++ mask ++ ['<', '/'] ++ K'' ++ ds' ++ ['>'] ++ post) :=
  mask_rendering_xml_partial K K' K'' ds ds' mask pre post mask hK hK2 hds hds' hmaskV hpre hpostK

/-- `"key": "***"` stays as it is under the colon_quoted substitution, for every mask over `[^"']*` -/
theorem mask_idempotent_on_masked_colon_quoted_partial (K K' ds w1 w2 pre post mask : List Char) (q0 q1 q2 q3 : Char)
    (hK : keyMatch K K' = true) (hds : ∀ c ∈ ds, digitC.test c = true) (hw1 : ∀ c ∈ w1, wsC.test c = true)
    (hw2 : ∀ c ∈ w2, wsC.test c = true) (hq0 : quoteC.test q0 = true) (hq1 : quoteC.test q1 = true)
    (hq2 : quoteC.test q2 = true) (hq3 : quoteC.test q3 = true) (hmaskV : ∀ c ∈ mask, nquoteC.test c = true)
    (hpre : ∀ j, j < pre.length → keyPrefix K ((pre.drop j ++
      ([q0] ++ K' ++ ds ++ [q1] ++ w1 ++ [':'] ++ w2 ++ [q2] ++ mask ++ [q3] ++ post)).drop 1) = false)
    (hpostK : occursCI K post = false) :
    subPat (tplColonQuoted.inst (keyItems K)) rep2 mask
      (pre ++ ([q0] ++ K' ++ ds ++ [q1] ++ w1 ++ [':'] ++ w2 ++ [q2] ++ mask ++ [q3] ++ post))
      = pre ++ ([q0] ++ K' ++ ds ++ [q1] ++ w1 ++ [':'] ++ w2 ++ [q2] ++ mask ++ [q3] ++ post) :=
  mask_rendering_colon_quoted_partial K K' ds w1 w2 mask pre post mask q0 q1 q2 q3 hK hds hw1 hw2 hq0 hq1 hq2 hq3 hmaskV
    hpre hpostK

/-! ### `key = "value"`: `mask_password` as a whole -/

theorem lemma_Consumes_cons_inv {it : Item} {rest : List Item} {s s' : List Char}
    (h : Consumes (it :: rest) s s') : ∃ seg s1, s = seg ++ s1 ∧ (∀ c ∈ seg, it.cls.test c = true) ∧
      it.lo ≤ seg.length ∧ (∀ m, it.hi = some m → seg.length ≤ m) ∧ Consumes rest s1 s' := by
  cases h with
  | cons _ _ seg s1 _ hseg hlo hhi hrest => exact ⟨seg, s1, rfl, hseg, hlo, hhi, hrest⟩

/-- `key "value"` cannot match where `=` follows the key -/
theorem lemma_nomatch_keyquoted_eq (K K' ds w1 X s1 : List Char) (hK : keyMatch K K' = true)
    (hds : ∀ c ∈ ds, digitC.test c = true) (hw1 : ∀ c ∈ w1, wsC.test c = true) :
    ¬ Consumes (instItems (keyItems K) tplKeyQuoted.g1) (K' ++ (ds ++ (w1 ++ ('=' :: X)))) s1 := by
  intro c1
  simp only [tplKeyQuoted, instItems, one, star, plus] at c1
  obtain ⟨_, c2⟩ := lemma_Consumes_keyItems_inv _ K _ s1 c1
  rw [← keyMatch_length K K' hK, List.drop_left] at c2
  obtain ⟨j, _, _, c3⟩ := c2.star_inv (by
    apply head_append_of_all _ w1 _ (fun c hc => lemma_ws_not_digit c (hw1 c hc))
    intro c hc; simp at hc; subst hc; decide)
  cases hd : ds.drop j with
  | nil =>
    rw [hd, List.nil_append] at c3
    obtain ⟨j2, _, _, c4⟩ := c3.star_inv (by intro c hc; simp at hc; subst hc; decide)
    obtain ⟨x, t, hx, hxd, _⟩ := c4.one_inv
    cases hw : w1.drop j2 with
    | nil =>
      rw [hw, List.nil_append] at hx
      have hxe : x = '=' := (List.cons.inj hx).1.symm
      subst hxe
      revert hxd; decide
    | cons y ys =>
      rw [hw, List.cons_append] at hx
      have hxe : x = y := (List.cons.inj hx).1.symm
      subst hxe
      have hmem : x ∈ w1.drop j2 := by rw [hw]; simp
      rw [lemma_ws_not_quote _ (hw1 _ (List.mem_of_mem_drop hmem))] at hxd; cases hxd
  | cons d ds' =>
    have hdm' : d ∈ ds.drop j := by rw [hd]; simp
    have hdm : d ∈ ds := List.mem_of_mem_drop hdm'
    rw [hd] at c3
    -- `\s+` needs a whitespace character but a digit follows
    obtain ⟨seg, t, heq, hseg, hlo, _, _⟩ := lemma_Consumes_cons_inv c3
    cases seg with
    | nil => simp at hlo
    | cons y ys =>
      have hy : d = y := by
        have := congrArg List.head? heq
        simpa using this
      subst hy
      have := hseg d (by simp)
      rw [lemma_digit_not_ws _ (hds _ hdm)] at this
      cases this


/-- the patterns that need a quote before the key (`"key":…`, `"…key":…`, `'…key', '--flag', …`, WILDCARD) cannot
    match when the only occurrence of the key is preceded by text without quotes -/
theorem lemma_nomatch_quote_before_key (p : Pattern) (K M pre R : List Char) (hM : M = pre ++ R)
    (hu : UniqueAt K M pre.length) (hpreq : ∀ c ∈ pre, quoteC.test c = false)
    (hg1 : (∃ rest, p.g1 = ⟨quoteC, 1, some 1⟩ :: (keyItems K ++ rest)) ∨
           (∃ rest, p.g1 = ⟨quoteC, 1, some 1⟩ :: ⟨nquoteC, 0, none⟩ :: (keyItems K ++ rest)))
    (a b : List Char) (hab : M = a ++ b) : matchPat p b = none := by
  cases hm : matchPat p b with
  | none => rfl
  | some bd =>
    exfalso
    obtain ⟨s1, s2, s3, c1, _, _, _⟩ := matchPat_some _ _ _ hm
    rcases hg1 with ⟨rest, hg⟩ | ⟨rest, hg⟩
    · rw [hg] at c1
      obtain ⟨x, b', hb, hx, c2⟩ := c1.one_inv
      obtain ⟨hk, _⟩ := lemma_Consumes_keyItems_inv _ K b' s1 c2
      have hlen : (a ++ [x]).length = pre.length := hu (a ++ [x]) b' (by rw [hab, hb]; simp) hk
      have hpre : pre = a ++ [x] := by
        have h1 : pre ++ R = (a ++ [x]) ++ b' := by rw [← hM, hab, hb]; simp
        exact List.append_inj_left h1 hlen.symm
      have := hpreq x (by rw [hpre]; simp)
      rw [hx] at this; cases this
    · rw [hg] at c1
      obtain ⟨x, b', hb, hx, c2⟩ := c1.one_inv
      obtain ⟨seg, b2, hb2, _, _, _, c3⟩ := lemma_Consumes_cons_inv c2
      obtain ⟨hk, _⟩ := lemma_Consumes_keyItems_inv _ K b2 s1 c3
      have hlen : (a ++ x :: seg).length = pre.length :=
        hu (a ++ x :: seg) b2 (by rw [hab, hb, hb2]; simp) hk
      have hpre : pre = a ++ x :: seg := by
        have h1 : pre ++ R = (a ++ x :: seg) ++ b2 := by rw [← hM, hab, hb, hb2]; simp
        exact List.append_inj_left h1 hlen.symm
      have := hpreq x (by rw [hpre]; simp)
      rw [hx] at this; cases this

theorem lemma_Consumes_nil_inv {s s' : List Char} (h : Consumes [] s s') : s = s' := by
  cases h; rfl

theorem lemma_digit_not_eq (c : Char) (h : digitC.test c = true) : eqC.test c = false := by
  simp only [digitC, eqC, cls, Cls.test, inRanges] at h ⊢
  simp at h ⊢
  omega

theorem lemma_ws_not_eq (c : Char) (h : wsC.test c = true) : eqC.test c = false := by
  simp only [wsC, eqC, cls, Cls.test, Gen.wsRanges, inRanges] at h ⊢
  simp at h ⊢
  omega

theorem lemma_ws_not_bare (c : Char) (h : wsC.test c = true) : bareC.test c = false := by
  cases hb : bareC.test c with
  | false => rfl
  | true => rw [lemma_bare_not_ws c hb] at h; cases h

theorem lemma_quote_not_bare (c : Char) (h : quoteC.test c = true) : bareC.test c = false := by
  cases hb : bareC.test c with
  | false => rfl
  | true => rw [lemma_bare_not_quote c hb] at h; cases h

/-- the bare pattern `key=value` cannot match where a quote follows `=` -/
theorem lemma_nomatch_bare_on_quoted (K K' ds w1 w2 Y s1 s2 : List Char) (q : Char) (hK : keyMatch K K' = true)
    (hds : ∀ c ∈ ds, digitC.test c = true) (hw1 : ∀ c ∈ w1, wsC.test c = true)
    (hw2 : ∀ c ∈ w2, wsC.test c = true) (hq : quoteC.test q = true)
    (c1 : Consumes (instItems (keyItems K) tplEqBare.g1) (K' ++ (ds ++ (w1 ++ ('=' :: (w2 ++ (q :: Y)))))) s1)
    (cm : Consumes (instItems (keyItems K) tplEqBare.mid) s1 s2) : False := by
  simp only [tplEqBare, instItems, one, star, plus] at c1 cm
  obtain ⟨_, c2⟩ := lemma_Consumes_keyItems_inv _ K _ s1 c1
  rw [← keyMatch_length K K' hK, List.drop_left] at c2
  obtain ⟨j, _, _, c3⟩ := c2.star_inv (by
    apply head_append_of_all _ w1 _ (fun c hc => lemma_ws_not_digit c (hw1 c hc))
    intro c hc; simp at hc; subst hc; decide)
  cases hd : ds.drop j with
  | cons d ds' =>
    have hdm' : d ∈ ds.drop j := by rw [hd]; simp
    have hdm : d ∈ ds := List.mem_of_mem_drop hdm'
    rw [hd] at c3
    obtain ⟨j2, _, hj2, c4⟩ := Consumes.star_inv (r := []) (t := d :: ds' ++ (w1 ++ '=' :: (w2 ++ q :: Y))) c3 (by
      intro c hc; simp at hc; subst hc; exact lemma_digit_not_ws _ (hds _ hdm))
    have : j2 = 0 := by simpa using hj2
    subst this
    obtain ⟨x, t, hx, hxd, _⟩ := c4.one_inv
    simp at hx
    rw [← hx.1, lemma_digit_not_eq _ (hds _ hdm)] at hxd; cases hxd
  | nil =>
    rw [hd, List.nil_append] at c3
    obtain ⟨j2, _, _, c4⟩ := c3.star_inv (by intro c hc; simp at hc; subst hc; decide)
    obtain ⟨x, t, hx, hxd, c5⟩ := c4.one_inv
    cases hw : w1.drop j2 with
    | cons y ys =>
      rw [hw, List.cons_append] at hx
      have hxe : x = y := (List.cons.inj hx).1.symm
      subst hxe
      have hmem : x ∈ w1.drop j2 := by rw [hw]; simp
      rw [lemma_ws_not_eq _ (hw1 _ (List.mem_of_mem_drop hmem))] at hxd; cases hxd
    | nil =>
      rw [hw, List.nil_append] at hx
      have ht : t = w2 ++ (q :: Y) := (List.cons.inj hx).2.symm
      subst ht
      obtain ⟨j3, _, _, c6⟩ := c5.star_inv (by intro c hc; simp at hc; subst hc; exact lemma_quote_not_ws q hq)
      have hs1 := lemma_Consumes_nil_inv c6
      subst hs1
      obtain ⟨seg, t2, heq, hseg, hlo, _, _⟩ := lemma_Consumes_cons_inv cm
      cases seg with
      | nil => simp at hlo
      | cons z zs =>
        have hz := hseg z (by simp)
        cases hw2d : w2.drop j3 with
        | nil =>
          rw [hw2d] at heq
          have : q = z := by
            have := congrArg List.head? heq
            simpa using this
          subst this
          rw [lemma_quote_not_bare _ hq] at hz; cases hz
        | cons y ys =>
          rw [hw2d] at heq
          have : y = z := by
            have := congrArg List.head? heq
            simpa using this
          subst this
          have hmem : y ∈ w2.drop j3 := by rw [hw2d]; simp
          rw [lemma_ws_not_bare _ (hw2 _ (List.mem_of_mem_drop hmem))] at hz; cases hz


/-! ### assembling `key = "value"` -/

theorem lemma_sub_missing (t : Template) (qc : Cls) (rep : List RepTok) (ki : List Item) (mask M : List Char)
    (hq : one qc ∈ t.g1) (hM : ∀ c ∈ M, qc.test c = false) : subPat (t.inst ki) rep mask M = M := by
  unfold subPat
  apply subAux_none
  intro j _
  apply matchRepl_none
  apply matchPat_none_of_missing _ _ ⟨qc, 1, some 1⟩
  · simp only [Template.inst]
    exact List.mem_append_left _ (lemma_instItems_mem ki _ t.g1 hq)
  · exact Nat.le_refl 1
  · intro c hc
    exact hM c (List.mem_of_mem_drop hc)

theorem lemma_sub_none_of (p : Pattern) (rep : List RepTok) (mask M : List Char)
    (h : ∀ a b, M = a ++ b → matchPat p b = none) : subPat p rep mask M = M := by
  unfold subPat
  apply subAux_none
  intro j _
  apply matchRepl_none
  exact h _ _ (List.take_append_drop j M).symm

theorem lemma_unique_suffix (K M pre R a b : List Char) (hM : M = pre ++ R) (hu : UniqueAt K M pre.length)
    (hab : M = a ++ b) (hk : keyPrefix K b = true) : b = R := by
  have hlen := hu a b hab hk
  have h1 : pre ++ R = a ++ b := by rw [← hM, hab]
  exact (List.append_inj_right h1 hlen.symm).symm

theorem lemma_pre_noKey (K pre R : List Char)
    (hu : ∀ j, j ≤ (pre ++ R).length → keyPrefix K ((pre ++ R).drop j) = true → j = pre.length) :
    ∀ j, j < pre.length → keyPrefix K (pre.drop j ++ R) = false := by
  intro j hj
  cases hk : keyPrefix K (List.drop j pre ++ R) with
  | false => rfl
  | true =>
    exfalso
    have := hu j (by simp; omega) (by rw [List.drop_append_of_le_length (by omega)]; exact hk)
    omega

theorem lemma_post_noKey (K pre mid post : List Char) (hmid : mid ≠ [])
    (hu : ∀ j, j ≤ (pre ++ (mid ++ post)).length → keyPrefix K ((pre ++ (mid ++ post)).drop j) = true →
      j = pre.length) : occursCI K post = false := by
  cases ho : occursCI K post with
  | false => rfl
  | true =>
    exfalso
    obtain ⟨j, hj, hk⟩ := lemma_occursCI_exists K post ho
    have hd : List.drop (pre.length + (mid.length + j)) (pre ++ (mid ++ post)) = post.drop j := by
      rw [← List.drop_drop, List.drop_left, ← List.drop_drop, List.drop_left]
    have := hu (pre.length + (mid.length + j))
      (by simp only [List.length_append]; omega) (by rw [hd]; exact hk)
    have hml : 0 < mid.length := by
      cases mid with
      | nil => exact absurd rfl hmid
      | cons x xs => simp
    omega

/-- the `if key in message.lower():` body on `key = "value"` / `key = 'value'` (same quote on both sides) -/
theorem lemma_applyKey_eq_quoted (K K' ds w1 w2 secret pre post mask : List Char) (q : Char)
    (hK : keyMatch K K' = true) (hds : ∀ c ∈ ds, digitC.test c = true) (hw1 : ∀ c ∈ w1, wsC.test c = true)
    (hw2 : ∀ c ∈ w2, wsC.test c = true) (hq : q = '"' ∨ q = '\'')
    (hsecV : ∀ c ∈ secret, nquoteC.test c = true)
    (hKq : ∀ c ∈ K', quoteC.test c = false)
    (hpreq : ∀ c ∈ pre, quoteC.test c = false) (hpostq : ∀ c ∈ post, quoteC.test c = false)
    (hmaskq : ∀ c ∈ mask, quoteC.test c = false)
    (hlast : ∀ c, pre.getLast? = some c → dashC.test c = false)
    (hu : ∀ j, j ≤ (pre ++ (K' ++ ds ++ w1 ++ ['='] ++ w2 ++ [q] ++ secret ++ [q] ++ post)).length →
      keyPrefix K ((pre ++ (K' ++ ds ++ w1 ++ ['='] ++ w2 ++ [q] ++ secret ++ [q] ++ post)).drop j) = true →
      j = pre.length)
    (hu' : ∀ j, j ≤ (pre ++ (K' ++ ds ++ w1 ++ ['='] ++ w2 ++ [q] ++ mask ++ [q] ++ post)).length →
      keyPrefix K ((pre ++ (K' ++ ds ++ w1 ++ ['='] ++ w2 ++ [q] ++ mask ++ [q] ++ post)).drop j) = true →
      j = pre.length) :
    applyKey K mask (pre ++ (K' ++ ds ++ w1 ++ ['='] ++ w2 ++ [q] ++ secret ++ [q] ++ post))
      = pre ++ (K' ++ ds ++ w1 ++ ['='] ++ w2 ++ [q] ++ mask ++ [q] ++ post) := by
  have hqq : quoteC.test q = true := by rcases hq with rfl | rfl <;> decide
  have hU' := lemma_uniqueAt_of_drop K _ _ hu'
  have hmaskV : ∀ c ∈ mask, nquoteC.test c = true := by
    intro c hc
    have := hmaskq c hc
    simp only [quoteC, nquoteC, cls, ncls, Cls.test] at this ⊢
    simpa using this
  -- shapes
  have eM : K' ++ ds ++ w1 ++ ['='] ++ w2 ++ [q] ++ secret ++ [q] ++ post
      = (K' ++ ds ++ w1 ++ ['='] ++ w2 ++ [q] ++ secret ++ [q]) ++ post := by simp
  have eM' : K' ++ ds ++ w1 ++ ['='] ++ w2 ++ [q] ++ mask ++ [q] ++ post
      = (K' ++ ds ++ w1 ++ ['='] ++ w2 ++ [q] ++ mask ++ [q]) ++ post := by simp
  have eR' : K' ++ ds ++ w1 ++ ['='] ++ w2 ++ [q] ++ mask ++ [q] ++ post
      = K' ++ (ds ++ (w1 ++ ('=' :: (w2 ++ (q :: (mask ++ q :: post)))))) := by simp
  have hpostK : occursCI K post = false :=
    lemma_post_noKey K pre (K' ++ ds ++ w1 ++ ['='] ++ w2 ++ [q] ++ secret ++ [q]) post (by simp)
      (by rw [← eM]; exact hu)
  have hpostK' : occursCI K post = false := hpostK
  -- P2[0]
  have h0 := sub_rendering_eq_quoted K K' ds w1 w2 secret pre post mask q q hK hds hw1 hw2 hqq hqq hsecV
    (lemma_pre_noKey K pre _ hu) hpostK
  -- the two single-quote-kind patterns on the masked message
  have h12 : subPat (tplEqSq.inst (keyItems K)) rep2 mask (subPat (tplEqDq.inst (keyItems K)) rep2 mask
      (pre ++ (K' ++ ds ++ w1 ++ ['='] ++ w2 ++ [q] ++ mask ++ [q] ++ post)))
      = pre ++ (K' ++ ds ++ w1 ++ ['='] ++ w2 ++ [q] ++ mask ++ [q] ++ post) := by
    have hparts : ∀ (qc : Cls), (∀ c, quoteC.test c = false → qc.test c = false) → qc.test q = false →
        ∀ c ∈ pre ++ (K' ++ ds ++ w1 ++ ['='] ++ w2 ++ [q] ++ mask ++ [q] ++ post), qc.test c = false := by
      intro qc hqc hqn c hc
      simp only [List.mem_append, List.mem_cons, List.not_mem_nil, or_false] at hc
      rcases hc with h | ((((((((h | h) | h) | h) | h) | h) | h) | h) | h)
      · exact hqc c (hpreq c h)
      · exact hqc c (hKq c h)
      · exact hqc c (lemma_digit_not_quote c (hds c h))
      · exact hqc c (lemma_ws_not_quote c (hw1 c h))
      · subst h; exact hqc _ (by decide)
      · exact hqc c (lemma_ws_not_quote c (hw2 c h))
      · subst h; exact hqn
      · exact hqc c (hmaskq c h)
      · subst h; exact hqn
      · exact hqc c (hpostq c h)
    rcases hq with rfl | rfl
    · -- double quotes: the `"` pattern re-masks the mask, the `'` pattern has no `'` to start from
      have hd := mask_rendering_eq_dquoted_partial K K' ds w1 w2 mask pre post mask hK hds hw1 hw2
        (by intro c hc
            have := hmaskq c hc
            simp only [quoteC, ndqC, cls, ncls, Cls.test, inRanges] at this ⊢
            simp at this ⊢; omega)
        (lemma_pre_noKey K pre _ hu') hpostK
      rw [hd]
      exact lemma_sub_missing tplEqSq sqC rep2 _ mask _ (by simp [tplEqSq]) (hparts sqC lemma_noquote_sq (by decide))
    · have hs := mask_rendering_eq_squoted_partial K K' ds w1 w2 mask pre post mask hK hds hw1 hw2
        (by intro c hc
            have := hmaskq c hc
            simp only [quoteC, nsqC, cls, ncls, Cls.test, inRanges] at this ⊢
            simp at this ⊢; omega)
        (lemma_pre_noKey K pre _ hu') hpostK
      rw [lemma_sub_missing tplEqDq dqC rep2 _ mask _ (by simp [tplEqDq]) (hparts dqC lemma_noquote_dq (by decide))]
      exact hs
  -- positional patterns on the masked message
  have hkq : subPat (tplKeyQuoted.inst (keyItems K)) rep2 mask
      (pre ++ (K' ++ ds ++ w1 ++ ['='] ++ w2 ++ [q] ++ mask ++ [q] ++ post))
      = pre ++ (K' ++ ds ++ w1 ++ ['='] ++ w2 ++ [q] ++ mask ++ [q] ++ post) := by
    apply lemma_sub_none_of
    intro a b hab
    cases hm : matchPat (tplKeyQuoted.inst (keyItems K)) b with
    | none => rfl
    | some bd =>
      exfalso
      obtain ⟨s1, s2, s3, c1, _, _, _⟩ := matchPat_some _ _ _ hm
      simp only [Template.inst] at c1
      have hkp : keyPrefix K b = true := by
        have c1' := c1
        simp only [tplKeyQuoted, instItems] at c1'
        exact (lemma_Consumes_keyItems_inv _ K _ s1 c1').1
      have hb := lemma_unique_suffix K _ pre _ a b rfl hU' hab hkp
      rw [hb, eR'] at c1
      exact lemma_nomatch_keyquoted_eq K K' ds w1 _ s1 hK hds hw1 c1
  have hdash : subPat (tplDashDash.inst (keyItems K)) rep2 mask
      (pre ++ (K' ++ ds ++ w1 ++ ['='] ++ w2 ++ [q] ++ mask ++ [q] ++ post))
      = pre ++ (K' ++ ds ++ w1 ++ ['='] ++ w2 ++ [q] ++ mask ++ [q] ++ post) :=
    lemma_sub_none_of _ _ _ _ (fun a b hab => lemma_nomatch_dashdash K _ pre _ rfl hU' hlast a b hab)
  have hxml : subPat (tplXml.inst (keyItems K)) rep2 mask
      (pre ++ (K' ++ ds ++ w1 ++ ['='] ++ w2 ++ [q] ++ mask ++ [q] ++ post))
      = pre ++ (K' ++ ds ++ w1 ++ ['='] ++ w2 ++ [q] ++ mask ++ [q] ++ post) :=
    lemma_sub_none_of _ _ _ _ (fun a b hab => lemma_nomatch_xml K _ _ hU' a b hab)
  have hcolon : ∀ (t : Template) (rp : List RepTok),
      ((∃ rest, (t.inst (keyItems K)).g1 = ⟨quoteC, 1, some 1⟩ :: (keyItems K ++ rest)) ∨
       (∃ rest, (t.inst (keyItems K)).g1 = ⟨quoteC, 1, some 1⟩ :: ⟨nquoteC, 0, none⟩ :: (keyItems K ++ rest))) →
      subPat (t.inst (keyItems K)) rp mask (pre ++ (K' ++ ds ++ w1 ++ ['='] ++ w2 ++ [q] ++ mask ++ [q] ++ post))
        = pre ++ (K' ++ ds ++ w1 ++ ['='] ++ w2 ++ [q] ++ mask ++ [q] ++ post) := by
    intro t rp hg
    exact lemma_sub_none_of _ _ _ _
      (fun a b hab => lemma_nomatch_quote_before_key _ K _ pre _ rfl hU' hpreq hg a b hab)
  have hflag : subPat (tplCmdFlag.inst (keyItems K)) rep2 mask
      (pre ++ (K' ++ ds ++ w1 ++ ['='] ++ w2 ++ [q] ++ mask ++ [q] ++ post))
      = pre ++ (K' ++ ds ++ w1 ++ ['='] ++ w2 ++ [q] ++ mask ++ [q] ++ post) := by
    apply lemma_sub_none_of
    intro a b hab
    cases hm : matchPat (tplCmdFlag.inst (keyItems K)) b with
    | none => rfl
    | some bd =>
      exfalso
      obtain ⟨s1, s2, s3, c1, _, _, _⟩ := matchPat_some _ _ _ hm
      simp only [Template.inst] at c1
      have hkp : keyPrefix K b = true := by
        have c1' := c1
        simp only [tplCmdFlag, instItems] at c1'
        exact (lemma_Consumes_keyItems_inv _ K _ s1 c1').1
      have hb := lemma_unique_suffix K _ pre _ a b rfl hU' hab hkp
      rw [hb, eR'] at c1
      exact lemma_nomatch_cmdflag_eq K K' ds w1 _ s1 hK hds hw1 c1
  have hbare : subPat (tplEqBare.inst (keyItems K)) rep1 mask
      (pre ++ (K' ++ ds ++ w1 ++ ['='] ++ w2 ++ [q] ++ mask ++ [q] ++ post))
      = pre ++ (K' ++ ds ++ w1 ++ ['='] ++ w2 ++ [q] ++ mask ++ [q] ++ post) := by
    apply lemma_sub_none_of
    intro a b hab
    cases hm : matchPat (tplEqBare.inst (keyItems K)) b with
    | none => rfl
    | some bd =>
      exfalso
      obtain ⟨s1, s2, s3, c1, cm, _, _⟩ := matchPat_some _ _ _ hm
      simp only [Template.inst] at c1 cm
      have hkp : keyPrefix K b = true := by
        have c1' := c1
        simp only [tplEqBare, instItems] at c1'
        exact (lemma_Consumes_keyItems_inv _ K _ s1 c1').1
      have hb := lemma_unique_suffix K _ pre _ a b rfl hU' hab hkp
      rw [hb, eR'] at c1
      exact lemma_nomatch_bare_on_quoted K K' ds w1 w2 _ s1 s2 q hK hds hw1 hw2 hqq c1 cm
  unfold applyKey
  rw [templates_as_reviewed.1, templates_as_reviewed.2.1, templates_as_reviewed.2.2.1]
  simp only [subAll, List.foldl]
  rw [h0, h12, hkq, hdash, hxml,
      hcolon tplColonQuoted rep2 (Or.inl ⟨_, by simp [tplColonQuoted, Template.inst, instItems, one]; rfl⟩),
      hcolon tplColonPrefixed rep2 (Or.inr ⟨_, by simp [tplColonPrefixed, Template.inst, instItems, one, star]; rfl⟩),
      hcolon tplCmdList rep2 (Or.inr ⟨_, by simp [tplCmdList, Template.inst, instItems, one, star]; rfl⟩),
      hflag, hbare,
      hcolon tplWildcard repW (Or.inr ⟨_, by simp [tplWildcard, Template.inst, instItems, one, star]; rfl⟩)]


/-- **`mask_password` on `key = "value"` / `key = 'value'`.**  For every key `K` of the generated list, every
spelling `K'` whose lower-casing is `K`, any digit suffix and whitespace around `=`, either quote kind (the same
on both sides), every secret over the value class of the generated template (`[^"']*`: the empty secret, spaces,
Unicode whitespace, `=`, `<`, `-`, regex metacharacters, non-ASCII … included), every mask without quote
characters, neutral surroundings: `mask_password` returns the message with exactly the value replaced by the
mask.  All twelve patterns of `K` are accounted for (the first replaces the value, the pattern of the same quote
kind re-masks the mask to itself, the other ten do not match) and so is the loop over all 35 keys.

`_partial` — what is missing with respect to the property:
* *single key*: no other sanitize key occurs in the lower-cased message, before or after masking (keys that
  contain another key and messages with several secrets are not covered by this theorem);
* the key (as the patterns read it) occurs only at the rendering, before and after masking (`hu`, `hu'`: the
  exclusion of the listed class KF_C04_NESTED);
* opening and closing quote are the same character; neutral surroundings are stronger than the patterns need
  (no quote character in prefix, suffix or mask; the prefix does not end with `-`). -/
theorem mask_rendering_eq_quoted_partial (K K' ds w1 w2 secret pre post mask : List Char) (q : Char)
    (hKmem : K ∈ Gen.sanitizeKeys) (hK : keyMatch K K' = true) (hlow : pyLower K' = K)
    (hds : ∀ c ∈ ds, digitC.test c = true) (hw1 : ∀ c ∈ w1, wsC.test c = true)
    (hw2 : ∀ c ∈ w2, wsC.test c = true) (hq : q = '"' ∨ q = '\'')
    (hsecV : ∀ c ∈ secret, nquoteC.test c = true)
    (hpreq : ∀ c ∈ pre, quoteC.test c = false) (hpostq : ∀ c ∈ post, quoteC.test c = false)
    (hmaskq : ∀ c ∈ mask, quoteC.test c = false)
    (hlast : ∀ c, pre.getLast? = some c → dashC.test c = false)
    (hu : ∀ j, j ≤ (pre ++ (K' ++ ds ++ w1 ++ ['='] ++ w2 ++ [q] ++ secret ++ [q] ++ post)).length →
      keyPrefix K ((pre ++ (K' ++ ds ++ w1 ++ ['='] ++ w2 ++ [q] ++ secret ++ [q] ++ post)).drop j) = true →
      j = pre.length)
    (hu' : ∀ j, j ≤ (pre ++ (K' ++ ds ++ w1 ++ ['='] ++ w2 ++ [q] ++ mask ++ [q] ++ post)).length →
      keyPrefix K ((pre ++ (K' ++ ds ++ w1 ++ ['='] ++ w2 ++ [q] ++ mask ++ [q] ++ post)).drop j) = true →
      j = pre.length)
    (hother : ∀ k ∈ Gen.sanitizeKeys, k ≠ K →
      isInfix k (pyLower (pre ++ (K' ++ ds ++ w1 ++ ['='] ++ w2 ++ [q] ++ secret ++ [q] ++ post))) = false ∧
      isInfix k (pyLower (pre ++ (K' ++ ds ++ w1 ++ ['='] ++ w2 ++ [q] ++ mask ++ [q] ++ post))) = false) :
    maskPassword (pre ++ (K' ++ ds ++ w1 ++ ['='] ++ w2 ++ [q] ++ secret ++ [q] ++ post)) mask
      = pre ++ (K' ++ ds ++ w1 ++ ['='] ++ w2 ++ [q] ++ mask ++ [q] ++ post) := by
  unfold maskPassword maskWith
  apply lemma_fold_single mask _ _ K Gen.sanitizeKeys lemma_keys_nodup hKmem
  · have hkt : isInfix K (pyLower (pre ++ (K' ++ ds ++ w1 ++ ['='] ++ w2 ++ [q] ++ secret ++ [q] ++ post))) = true := by
      have e : K' ++ ds ++ w1 ++ ['='] ++ w2 ++ [q] ++ secret ++ [q] ++ post
          = K' ++ (ds ++ w1 ++ ['='] ++ w2 ++ [q] ++ secret ++ [q] ++ post) := by simp
      rw [e]; exact lemma_keytest K K' pre _ hlow
    simp only [maskStep, hkt, if_true]
    exact lemma_applyKey_eq_quoted K K' ds w1 w2 secret pre post mask q hK hds hw1 hw2 hq hsecV
      (lemma_keyMatch_no_quote K K' (lemma_keys_no_quote K hKmem) hK) hpreq hpostq hmaskq hlast hu hu'
  · intro k hk hne
    obtain ⟨h1, h2⟩ := hother k hk hne
    exact ⟨by simp only [maskStep, h1, Bool.false_eq_true, if_false],
           by simp only [maskStep, h2, Bool.false_eq_true, if_false]⟩

/-- non-vacuity of `mask_rendering_eq_quoted_partial` (secret with spaces, Unicode whitespace, `=`, `<`, `-`, regex
    metacharacters and a non-ASCII case-fold character; upper-case key) -/
example :
    let K := "token".toList; let K' := "TOKEN".toList; let ds := "7".toList
    let w1 : List Char := []; let w2 := " ".toList; let secret := "a b\u2003=<c>-.*ſ".toList
    let pre := "GET /v3 user=x ".toList; let post := " done".toList; let mask := "***".toList; let q := '\''
    K ∈ Gen.sanitizeKeys ∧ keyMatch K K' = true ∧ pyLower K' = K ∧
    (∀ c ∈ ds, digitC.test c = true) ∧ (∀ c ∈ w1, wsC.test c = true) ∧ (∀ c ∈ w2, wsC.test c = true) ∧
    (q = '"' ∨ q = '\'') ∧ (∀ c ∈ secret, nquoteC.test c = true) ∧
    (∀ c ∈ pre, quoteC.test c = false) ∧ (∀ c ∈ post, quoteC.test c = false) ∧ (∀ c ∈ mask, quoteC.test c = false) ∧
    (∀ c, pre.getLast? = some c → dashC.test c = false) ∧
    (∀ j, j ≤ (pre ++ (K' ++ ds ++ w1 ++ ['='] ++ w2 ++ [q] ++ secret ++ [q] ++ post)).length →
      keyPrefix K ((pre ++ (K' ++ ds ++ w1 ++ ['='] ++ w2 ++ [q] ++ secret ++ [q] ++ post)).drop j) = true →
      j = pre.length) ∧
    (∀ j, j ≤ (pre ++ (K' ++ ds ++ w1 ++ ['='] ++ w2 ++ [q] ++ mask ++ [q] ++ post)).length →
      keyPrefix K ((pre ++ (K' ++ ds ++ w1 ++ ['='] ++ w2 ++ [q] ++ mask ++ [q] ++ post)).drop j) = true →
      j = pre.length) ∧
    (∀ k ∈ Gen.sanitizeKeys, k ≠ K →
      isInfix k (pyLower (pre ++ (K' ++ ds ++ w1 ++ ['='] ++ w2 ++ [q] ++ secret ++ [q] ++ post))) = false ∧
      isInfix k (pyLower (pre ++ (K' ++ ds ++ w1 ++ ['='] ++ w2 ++ [q] ++ mask ++ [q] ++ post))) = false) := by
  decide +kernel

/-- masking an already masked `key = "***"` message changes nothing (`mask_password` as a whole; same
    restrictions as `mask_rendering_eq_quoted_partial`) -/
theorem mask_idempotent_on_masked_eq_quoted_partial (K K' ds w1 w2 pre post mask : List Char) (q : Char)
    (hKmem : K ∈ Gen.sanitizeKeys) (hK : keyMatch K K' = true) (hlow : pyLower K' = K)
    (hds : ∀ c ∈ ds, digitC.test c = true) (hw1 : ∀ c ∈ w1, wsC.test c = true)
    (hw2 : ∀ c ∈ w2, wsC.test c = true) (hq : q = '"' ∨ q = '\'')
    (hpreq : ∀ c ∈ pre, quoteC.test c = false) (hpostq : ∀ c ∈ post, quoteC.test c = false)
    (hmaskq : ∀ c ∈ mask, quoteC.test c = false)
    (hlast : ∀ c, pre.getLast? = some c → dashC.test c = false)
    (hu : ∀ j, j ≤ (pre ++ (K' ++ ds ++ w1 ++ ['='] ++ w2 ++ [q] ++ mask ++ [q] ++ post)).length →
      keyPrefix K ((pre ++ (K' ++ ds ++ w1 ++ ['='] ++ w2 ++ [q] ++ mask ++ [q] ++ post)).drop j) = true →
      j = pre.length)
    (hother : ∀ k ∈ Gen.sanitizeKeys, k ≠ K →
      isInfix k (pyLower (pre ++ (K' ++ ds ++ w1 ++ ['='] ++ w2 ++ [q] ++ mask ++ [q] ++ post))) = false) :
    maskPassword (pre ++ (K' ++ ds ++ w1 ++ ['='] ++ w2 ++ [q] ++ mask ++ [q] ++ post)) mask
      = pre ++ (K' ++ ds ++ w1 ++ ['='] ++ w2 ++ [q] ++ mask ++ [q] ++ post) :=
  mask_rendering_eq_quoted_partial K K' ds w1 w2 mask pre post mask q hKmem hK hlow hds hw1 hw2 hq
    (by intro c hc
        have := hmaskq c hc
        simp only [quoteC, nquoteC, cls, ncls, Cls.test] at this ⊢
        simpa using this)
    hpreq hpostq hmaskq hlast hu hu (fun k hk hne => ⟨hother k hk hne, hother k hk hne⟩)

/-! ### the listed findings, reproduced by the model on their witnesses -/

/-- KF_C04_WILDCARD, reproduced by the model: the greedy `.*` of the WILDCARD pattern deletes `bob"` -/
theorem known_finding_wildcard_witness :
    maskPassword "{\"password\": \"abc\", \"user\": \"bob\"}".toList "***".toList
      = "{\"password\": \"***\", \"user\": \"}".toList := by decide +kernel

/-- KF_C04_FLAGVALUE, reproduced by the model: `-b` is taken for a flag by the earlier key `password` -/
theorem known_finding_flagvalue_witness :
    maskPassword "--admin_password -b T".toList "***".toList = "--admin_password *** ***".toList := by
  decide +kernel

/-- KF_C04_NESTED, reproduced by the model: the value `token=b` is taken for a rendering of `token` -/
theorem known_finding_nested_witness :
    maskPassword "<sslkey>token=b</sslkey>".toList "***".toList = "<sslkey>token=***".toList := by
  decide +kernel

/-! ### non-vacuity: each rendering theorem's hypotheses on a concrete message, and the whole model on it -/

example : maskPassword "login PASSWORD = 'p w=<d>' ok".toList "***".toList
    = "login PASSWORD = '***' ok".toList := by decide +kernel
example : maskPassword "run --Token9 \t a+b(c)[d] next".toList "???".toList
    = "run --Token9 \t ??? next".toList := by decide +kernel
example : maskPassword "<AdminPass>it's \"x\" = y</adminpass2> tail".toList "#".toList
    = "<AdminPass>#</adminpass2> tail".toList := by decide +kernel
example : maskPassword "{'original_password' : u'a b=c'}".toList "***".toList
    = "{'original_password' : u'***'}".toList := by decide +kernel
example : maskPassword "['nova', 'boot', '--secret_uuid', '--x', 'p$^w']".toList "***".toList
    = "['nova', 'boot', '--secret_uuid', '--x', '***']".toList := by decide +kernel
example : maskPassword "cmd sys_pswd --value s3cr3t! rest".toList "***".toList
    = "cmd sys_pswd --value *** rest".toList := by decide +kernel
example : maskPassword "fernetkey \"abc def\" x".toList "***".toList = "fernetkey \"***\" x".toList := by
  decide +kernel

example :
    let K := "token".toList; let K' := "ToKen".toList
    keyMatch K K' = true ∧ keyMatch K "toKen".toList = true ∧ keyMatch "secret".toList "ſecret".toList = true ∧
    (∀ c ∈ "a b=<c>".toList, nquoteC.test c = true) ∧ (∀ c ∈ "it's \"x\"".toList, nltC.test c = true) ∧
    (∀ c ∈ "a+b(c)[d]".toList, dashValC.test c = true) ∧ (∀ c ∈ "s3cr3t!".toList, nwsC.test c = true) ∧
    (∀ c ∈ "valueX_`".toList, flagC.test c = true) ∧ quoteC.test '"' = true ∧ quoteC.test '\'' = true := by
  decide

end Oslo.Mask
