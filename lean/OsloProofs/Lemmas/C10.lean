/-
Helper lemmas for C10 (parser of OsloModel/Units.lean): spans, the number /
prefix / unit parsers in both directions.  Nothing here is a property theorem.
-/
import OsloModel.Units
namespace Oslo.Units

deriving instance DecidableEq for Except

/-! ### spans -/

theorem lemma_takeP_dropP (p : Char → Bool) (s : List Char) : takeP p s ++ dropP p s = s := by
  induction s with
  | nil => simp [takeP, dropP]
  | cons c cs ih => by_cases h : p c <;> simp [takeP, dropP, h, ih]

theorem lemma_takeP_all (p : Char → Bool) (s : List Char) : ∀ c ∈ takeP p s, p c = true := by
  induction s with
  | nil => simp [takeP]
  | cons c cs ih =>
    by_cases h : p c
    · simp [takeP, h]; exact ih
    · simp [takeP, h]

theorem lemma_dropP_head (p : Char → Bool) (s : List Char) (c : Char) (r : List Char)
    (h : dropP p s = c :: r) : p c = false := by
  induction s with
  | nil => simp [dropP] at h
  | cons x xs ih =>
    by_cases hx : p x
    · simp [dropP, hx] at h; exact ih h
    · simp [dropP, hx] at h; obtain ⟨rfl, _⟩ := h; simpa using hx

/-- `rest` does not start with a character satisfying `p` -/
def NoHead (p : Char → Bool) (rest : List Char) : Prop := ∀ c r, rest = c :: r → p c = false

theorem lemma_span_append (p : Char → Bool) (a rest : List Char) (ha : ∀ c ∈ a, p c = true)
    (hr : NoHead p rest) : takeP p (a ++ rest) = a ∧ dropP p (a ++ rest) = rest := by
  induction a with
  | nil =>
    cases rest with
    | nil => simp [takeP, dropP]
    | cons c r => have := hr c r rfl; simp [takeP, dropP, this]
  | cons x xs ih =>
    have hx : p x = true := ha x (by simp)
    have := ih (fun c hc => ha c (by simp [hc]))
    simp [takeP, dropP, hx, this]

theorem lemma_dropP_noHead (p : Char → Bool) (s : List Char) : NoHead p (dropP p s) :=
  fun c r h => lemma_dropP_head p s c r h

/-! ### the number -/

/-- `.` followed by the fraction digits, when there are any -/
def dotFrac : Option (List Char) → List Char
  | none => []
  | some f => '.' :: f

def AllDigits (l : List Char) : Prop := ∀ c ∈ l, isDigit c = true

/-- well-formed `\d*\.?\d+` pieces: integer digits, optional fraction digits -/
def NumWF (ip : List Char) (fp : Option (List Char)) : Prop :=
  AllDigits ip ∧ match fp with
    | none => ip ≠ []
    | some f => f ≠ [] ∧ AllDigits f

instance (l : List Char) : Decidable (AllDigits l) := by unfold AllDigits; infer_instance
instance (ip : List Char) (fp : Option (List Char)) : Decidable (NumWF ip fp) := by
  unfold NumWF; cases fp <;> infer_instance

/-- `rest` starts neither with a digit nor with a dot -/
def NumEnd (rest : List Char) : Prop := ∀ c r, rest = c :: r → isDigit c = false ∧ c ≠ '.'

theorem lemma_isDigit_dot : isDigit '.' = false := by decide

theorem lemma_parseNumber_render (ip : List Char) (fp : Option (List Char)) (rest : List Char)
    (hwf : NumWF ip fp) (hrest : NumEnd rest) :
    parseNumber (ip ++ dotFrac fp ++ rest) = some (ip, fp, rest) := by
  obtain ⟨hip, hfp⟩ := hwf
  cases fp with
  | none =>
    simp only [dotFrac, List.append_nil]
    have h1 := lemma_span_append isDigit ip rest hip (fun c r h => (hrest c r h).1)
    simp only at hfp
    unfold parseNumber
    rw [h1.1, h1.2]
    cases rest with
    | nil => simp [parseNumberAux, hfp]
    | cons c r =>
      have hc := (hrest c r rfl).2
      unfold parseNumberAux
      split
      · next r2 heq => simp at heq; exact absurd heq.1 hc
      · simp [hfp]
  | some f =>
    obtain ⟨hne, hf⟩ := hfp
    have h1 := lemma_span_append isDigit ip ('.' :: (f ++ rest)) hip
      (fun c r h => by simp at h; rw [← h.1]; exact lemma_isDigit_dot)
    have h2 := lemma_span_append isDigit f rest hf (fun c r h => (hrest c r h).1)
    have e : ip ++ dotFrac (some f) ++ rest = ip ++ '.' :: (f ++ rest) := by simp [dotFrac]
    unfold parseNumber
    rw [e, h1.1, h1.2]
    simp [parseNumberAux, h2.1, h2.2, hne]

theorem lemma_parseNumber_inv (s d1 : List Char) (d2 : Option (List Char)) (r : List Char)
    (h : parseNumber s = some (d1, d2, r)) :
    s = d1 ++ dotFrac d2 ++ r ∧ NumWF d1 d2 := by
  unfold parseNumber at h
  have hs := lemma_takeP_dropP isDigit s
  have hd : AllDigits (takeP isDigit s) := lemma_takeP_all isDigit s
  generalize takeP isDigit s = a at *
  generalize dropP isDigit s = b at *
  unfold parseNumberAux at h
  split at h
  · next r2 =>
    split at h
    · next hne =>
      simp only [Option.some.injEq, Prod.mk.injEq] at h
      obtain ⟨rfl, rfl, rfl⟩ := h
      refine ⟨?_, hd, hne, lemma_takeP_all isDigit r2⟩
      have := lemma_takeP_dropP isDigit r2
      simp only [dotFrac, List.append_assoc, List.cons_append]
      rw [this, hs]
    · split at h
      · next hne =>
        simp only [Option.some.injEq, Prod.mk.injEq] at h
        obtain ⟨rfl, rfl, rfl⟩ := h
        exact ⟨by simp [dotFrac, hs], hd, hne⟩
      · simp at h
  · split at h
    · next hne =>
      simp only [Option.some.injEq, Prod.mk.injEq] at h
      obtain ⟨rfl, rfl, rfl⟩ := h
      exact ⟨by simp [dotFrac, hs], hd, hne⟩
    · simp at h

/-! ### prefix and unit -/

theorem lemma_parsePrefix_none (letters : List Char) (optI : Bool) (rest : List Char)
    (h : NoHead letters.contains rest) : parsePrefix letters optI rest = ([], rest) := by
  cases rest with
  | nil => rfl
  | cons c r => simp only [parsePrefix, h c r rfl, Bool.false_eq_true, ↓reduceIte]

theorem lemma_parsePrefix_one (letters : List Char) (optI : Bool) (c : Char) (rest : List Char)
    (hc : letters.contains c = true) (h : optI = false ∨ NoHead (· == 'i') rest) :
    parsePrefix letters optI (c :: rest) = ([c], rest) := by
  simp only [parsePrefix, hc, ↓reduceIte]
  split
  · next r' =>
    rcases h with h | h
    · simp_all
    · have := h 'i' r' rfl; simp at this
  · rfl

theorem lemma_parsePrefix_two (letters : List Char) (c : Char) (rest : List Char)
    (hc : letters.contains c = true) :
    parsePrefix letters true (c :: 'i' :: rest) = ([c, 'i'], rest) := by
  simp only [parsePrefix, hc, ↓reduceIte]

theorem lemma_parsePrefix_inv (letters : List Char) (optI : Bool) (r1 p r2 : List Char)
    (h : parsePrefix letters optI r1 = (p, r2)) :
    r1 = p ++ r2 ∧
      (p = [] ∨ ∃ c, letters.contains c = true ∧ (p = [c] ∨ (optI = true ∧ p = [c, 'i']))) := by
  cases r1 with
  | nil => simp [parsePrefix] at h; simp [h.1, h.2]
  | cons c r =>
    by_cases hc : letters.contains c = true
    · simp only [parsePrefix, hc, ↓reduceIte] at h
      split at h
      · next r' =>
        simp only [Prod.mk.injEq] at h
        obtain ⟨rfl, rfl⟩ := h
        exact ⟨by simp, Or.inr ⟨c, hc, Or.inr ⟨rfl, rfl⟩⟩⟩
      · simp only [Prod.mk.injEq] at h
        obtain ⟨rfl, rfl⟩ := h
        exact ⟨by simp, Or.inr ⟨c, hc, Or.inl rfl⟩⟩
    · simp only [parsePrefix, hc] at h
      simp only [Bool.false_eq_true, ↓reduceIte, Prod.mk.injEq] at h
      obtain ⟨rfl, rfl⟩ := h
      exact ⟨by simp, Or.inl rfl⟩

/-- the three unit spellings -/
inductive UnitText | b | bit | B
  deriving DecidableEq, Repr

def UnitText.chars : UnitText → List Char
  | .b => ['b']
  | .bit => ['b', 'i', 't']
  | .B => ['B']

def UnitText.kind : UnitText → UnitKind
  | .b => .bit
  | .bit => .bit
  | .B => .byte

/-- with the strict end anchor (`\\Z`, `nlOk = false`) the unit must be the whole rest -/
theorem lemma_parseUnit_render (u : UnitText) : parseUnit false u.chars = some u.kind := by
  cases u <;> rfl

theorem lemma_parseUnit_inv (r : List Char) (k : UnitKind) (h : parseUnit false r = some k) :
    ∃ u, r = UnitText.chars u ∧ k = u.kind := by
  unfold parseUnit at h
  split at h
  · exact ⟨.b, rfl, by simp at h; subst h; rfl⟩
  · simp at h
  · exact ⟨.bit, rfl, by simp at h; subst h; rfl⟩
  · simp at h
  · exact ⟨.B, rfl, by simp at h; subst h; rfl⟩
  · simp at h
  · simp at h

/-! ### qemu: character classes and the "(N bytes)" group -/

open Oslo.Generated.C10 in
theorem lemma_space_cases (c : Char) (h : isSpace c = true) :
    isDigit c = false ∧ isWord c = false ∧ c ≠ '+' ∧ c ≠ '-' ∧ c ≠ '.' := by
  have hn : c.toNat ∈ reSpaceAscii := by simpa [isSpace] using h
  have hlt : c.toNat ≤ 32 := by
    simp [reSpaceAscii] at hn; omega
  refine ⟨?_, ?_, ?_, ?_, ?_⟩
  · simp [isDigit]; omega
  · have : c ≠ '_' := by rintro rfl; revert hlt; decide
    simp [isWord, isDigit, this]; omega
  · rintro rfl; revert hlt; decide
  · rintro rfl; revert hlt; decide
  · rintro rfl; revert hlt; decide

theorem lemma_word_cases (c : Char) (h : isWord c = true) :
    isSpace c = false ∧ c ≠ '+' ∧ c ≠ '-' ∧ c ≠ '.' ∧ c ≠ '(' := by
  refine ⟨?_, ?_, ?_, ?_, ?_⟩
  · cases hs : isSpace c with
    | false => rfl
    | true => have := (lemma_space_cases c hs).2.1; simp [this] at h
  · rintro rfl; revert h; decide
  · rintro rfl; revert h; decide
  · rintro rfl; revert h; decide
  · rintro rfl; revert h; decide

theorem lemma_digit_word (c : Char) (h : isDigit c = true) : isWord c = true := by
  simp [isWord, h]

theorem lemma_dropP_all (p : Char → Bool) (a b : List Char) (ha : ∀ c ∈ a, p c = true) :
    dropP p (a ++ b) = dropP p b := by
  induction a with
  | nil => rfl
  | cons x xs ih =>
    have hx : p x = true := ha x (by simp)
    simp only [List.cons_append, dropP, hx, if_true]
    exact ih (fun c hc => ha c (by simp [hc]))

theorem lemma_dropP_id (p : Char → Bool) (c : Char) (r : List Char) (h : p c = false) :
    dropP p (c :: r) = c :: r := by simp [dropP, h]

def AllSpace (l : List Char) : Prop := ∀ c ∈ l, isSpace c = true
def AllWord (l : List Char) : Prop := ∀ c ∈ l, isWord c = true

/-- the five letters of `bytes`, in either case -/
def IsBytesWord (b y t e s : Char) : Prop :=
  (b = 'b' ∨ b = 'B') ∧ (y = 'y' ∨ y = 'Y') ∧ (t = 't' ∨ t = 'T') ∧ (e = 'e' ∨ e = 'E') ∧ (s = 's' ∨ s = 'S')

/-- the text of group 3 after its opening parenthesis: `ws3 N ws4 bytes ws5 ) tail` -/
def bytesTail (ws3 n ws4 : List Char) (b y t e s : Char) (ws5 tl : List Char) : List Char :=
  ws3 ++ (n ++ (ws4 ++ (b :: y :: t :: e :: s :: (ws5 ++ ')' :: tl))))

theorem lemma_parseBytesInfo (ws0 ws3 n ws4 : List Char) (b y t e s : Char) (ws5 tl : List Char)
    (h0 : AllSpace ws0) (h3 : AllSpace ws3) (hn : AllDigits n) (hne : n ≠ [])
    (h4 : AllSpace ws4) (h4ne : ws4 ≠ []) (hb : IsBytesWord b y t e s) (h5 : AllSpace ws5) :
    parseBytesInfo (ws0 ++ '(' :: bytesTail ws3 n ws4 b y t e s ws5 tl) = some n := by
  unfold parseBytesInfo bytesTail
  have e0 : dropP isSpace (ws0 ++ '(' :: (ws3 ++ (n ++ (ws4 ++ (b :: y :: t :: e :: s :: (ws5 ++ ')' :: tl)))))) =
      '(' :: (ws3 ++ (n ++ (ws4 ++ (b :: y :: t :: e :: s :: (ws5 ++ ')' :: tl))))) := by
    rw [lemma_dropP_all isSpace ws0 _ h0]; exact lemma_dropP_id _ _ _ (by decide)
  rw [e0]
  simp only
  obtain ⟨d, ds, rfl⟩ := List.exists_cons_of_ne_nil hne
  obtain ⟨w, ws, rfl⟩ := List.exists_cons_of_ne_nil h4ne
  have hd : isDigit d = true := hn d (by simp)
  have hw : isSpace w = true := h4 w (by simp)
  have e1 : dropP isSpace (ws3 ++ (d :: ds ++ (w :: ws ++ (b :: y :: t :: e :: s :: (ws5 ++ ')' :: tl))))) =
      d :: ds ++ (w :: ws ++ (b :: y :: t :: e :: s :: (ws5 ++ ')' :: tl))) := by
    rw [lemma_dropP_all isSpace ws3 _ h3]
    cases hs : isSpace d with
    | false => exact lemma_dropP_id _ _ _ hs
    | true => have := (lemma_space_cases d hs).1; simp [hd] at this
  rw [e1]
  have e2 := lemma_span_append isDigit (d :: ds) (w :: ws ++ (b :: y :: t :: e :: s :: (ws5 ++ ')' :: tl))) hn
    (fun c r h => by simp at h; rw [← h.1]; exact (lemma_space_cases w hw).1)
  rw [e2.1, e2.2]
  have hbsp : isSpace b = false := by rcases hb.1 with rfl | rfl <;> decide
  have e3 := lemma_span_append isSpace (w :: ws) (b :: y :: t :: e :: s :: (ws5 ++ ')' :: tl)) h4
    (fun c r h => by simp at h; rw [← h.1]; exact hbsp)
  rw [e3.1, e3.2]
  have e4 : stripBytesWord (b :: y :: t :: e :: s :: (ws5 ++ ')' :: tl)) = some (ws5 ++ ')' :: tl) := by
    simp only [stripBytesWord]; exact if_pos hb
  have e5 : dropP isSpace (ws5 ++ ')' :: tl) = ')' :: tl := by
    rw [lemma_dropP_all isSpace ws5 _ h5]; exact lemma_dropP_id _ _ _ (by decide)
  simp only [e4, e5]
  simp

/-! ### qemu: locating group 1 -/

theorem lemma_parseMag_nonstart (c : Char) (r : List Char) (h1 : isDigit c = false) (h2 : c ≠ '.') :
    parseMag (c :: r) = none := by
  have e1 : takeP isDigit (c :: r) = [] := by simp [takeP, h1]
  have e2 : dropP isDigit (c :: r) = c :: r := by simp [dropP, h1]
  have e3 : parseSci [] (c :: r) = none := by
    unfold parseSci; split <;> simp
  have e4 : parseNumber (c :: r) = none := by
    unfold parseNumber; rw [e1, e2]; unfold parseNumberAux
    split
    · next r2 heq => simp at heq; exact absurd heq.1 h2
    · simp
  unfold parseMag
  rw [e1, e2, e3, e4]

theorem lemma_findMag_skip (pre X : List Char) (hpre : ∀ c ∈ pre, isDigit c = false ∧ c ≠ '.') :
    findMag (pre ++ X) = findMag X := by
  induction pre with
  | nil => rfl
  | cons c cs ih =>
    have hc := hpre c (by simp)
    simp only [List.cons_append, findMag, lemma_parseMag_nonstart c _ hc.1 hc.2]
    exact ih (fun x hx => hpre x (by simp [hx]))

/-- `r` does not continue a digit run into e-notation (`[eE][-+]`) -/
def NoSci (r : List Char) : Prop :=
  ∀ e sg r2, r = e :: sg :: r2 → ¬ ((e = 'e' ∨ e = 'E') ∧ (sg = '-' ∨ sg = '+'))

theorem lemma_parseSci_none (d r : List Char) (h : NoSci r) : parseSci d r = none := by
  unfold parseSci
  split
  · next e sg r2 =>
    have := h e sg r2 rfl
    rw [if_neg]
    rintro ⟨_, h1, h2, _⟩
    exact this ⟨h1, h2⟩
  · rfl

theorem lemma_noSci_of_prefix (L T : List Char) (hL : ∀ c ∈ L, c ≠ '+' ∧ c ≠ '-') (hlen : 2 ≤ L.length) :
    NoSci (L ++ T) := by
  intro e sg r2 heq
  match L, hL, hlen with
  | a :: b :: L', hL, _ =>
    simp at heq
    have := hL b (by simp)
    rintro ⟨_, h2⟩
    rw [← heq.2.1] at h2
    rcases h2 with h2 | h2
    · exact this.2 h2
    · exact this.1 h2

theorem lemma_noSci_all (L : List Char) (hL : ∀ c ∈ L, c ≠ '+' ∧ c ≠ '-') : NoSci L := by
  intro e sg r2 heq
  subst heq
  have := hL sg (by simp)
  rintro ⟨_, h2⟩
  rcases h2 with h2 | h2
  · exact this.2 h2
  · exact this.1 h2

theorem lemma_findMag_dec (ip : List Char) (fp : Option (List Char)) (R : List Char)
    (hwf : NumWF ip fp) (hend : NumEnd R) (hsci : NoSci R) :
    findMag (ip ++ dotFrac fp ++ R) = some (.dec ip fp, R) := by
  have hnum := lemma_parseNumber_render ip fp R hwf hend
  have hsci' : parseSci (takeP isDigit (ip ++ dotFrac fp ++ R)) (dropP isDigit (ip ++ dotFrac fp ++ R)) = none := by
    apply lemma_parseSci_none
    cases fp with
    | none =>
      simp only [dotFrac, List.append_nil]
      rw [(lemma_span_append isDigit ip R hwf.1 (fun c r h => (hend c r h).1)).2]
      exact hsci
    | some f =>
      have e : ip ++ dotFrac (some f) ++ R = ip ++ '.' :: (f ++ R) := by simp [dotFrac]
      rw [e, (lemma_span_append isDigit ip ('.' :: (f ++ R)) hwf.1
        (fun c r h => by simp at h; rw [← h.1]; exact lemma_isDigit_dot)).2]
      intro e' sg r2 heq
      simp at heq
      rintro ⟨h1, _⟩
      rw [← heq.1] at h1
      rcases h1 with h1 | h1 <;> exact absurd h1 (by decide)
  have hmag : parseMag (ip ++ dotFrac fp ++ R) = some (.dec ip fp, R) := by
    unfold parseMag; rw [hsci', hnum]
  cases hX : ip ++ dotFrac fp ++ R with
  | nil =>
    rw [hX] at hnum
    simp [parseNumber, takeP, dropP, parseNumberAux] at hnum
  | cons c r =>
    rw [hX] at hmag
    simp only [findMag, hmag]

end Oslo.Units
