/-
Model of the scalar parsers and validators of oslo.utils (property C14):

  strutils.py:60-61     TRUE_STRINGS / FALSE_STRINGS          (generated: Gen.trueStrings/falseStrings)
  strutils.py:129-140   int_from_bool_as_string
  strutils.py:143-177   bool_from_string
  strutils.py:180-190   is_valid_boolstr
  strutils.py:461-473   is_int_like
  strutils.py:476-507   check_string_length
  strutils.py:510-537   validate_integer
  uuidutils.py:37-58    _format_uuid_string / is_uuid_like     (+ CPython uuid.UUID(hex=…), UUID.__str__)

Text is `List Char`.  The CPython primitives the code calls are re-implemented here and are the
trusted part: `str.strip()`, `str.lower()`, `str.replace(x, '')`, `str.strip('{}')`, `len`,
`int(str)` / `int(str, 16)` (`_PyUnicode_TransformDecimalAndSpaceToASCII` then PyLong_FromString:
surrounding whitespace, sign, `0x` prefix for base 16, single underscores between digits, Unicode
decimal digits, the int/str digit limit), `str(int)`, `uuid.UUID(hex=…)`, `UUID.__str__`.

Character domain on which the correspondence is claimed: ASCII, the `str.isspace()` code points
(Gen.spaceCodes), the Unicode decimal digits (category Nd, Gen.ndRuns) and the non-ASCII characters
that lower()/upper()/casefold()/title()/NFKC relate to ASCII letters (Gen.lowerTable, 167 code
points: long s, Kelvin sign, dotted/dotless i, ligatures, sharp s, fullwidth and circled letters …).
Outside it the model's `str.lower()` is the identity whereas Python's is not (the other cased
non-ASCII characters, none of which lowers to or from ASCII) — those characters are excluded from
the correspondence and exercised by the implementation-only search.  (`int()`, `strip()`, `replace`, `len` are modelled for every character.)

A Python value is a `PyVal`: a `str`, a `bool`, an `int`, or any other object, of which the model only
knows what the runtime says about it: its `str()` text and the outcome of `int(obj)`.
-/
import OsloModel.Generated.C14
namespace Oslo.Scalars

inductive ErrKind | valueError | typeError | overflowError | invalidOperation
  deriving DecidableEq, Repr

deriving instance DecidableEq for Except

inductive PyVal
  | str (s : List Char)
  | bool (b : Bool)
  | int (n : Int)
  /-- any other object (None, float, bytes, list, …): `str(obj)` and the outcome of `int(obj)`
      are supplied by the runtime; the object has no `replace` attribute or is not a `str` for it
      (uuid.UUID(obj) raises TypeError/AttributeError) -/
  | other (text : List Char) (toInt : Except ErrKind Int)

/-! ### CPython primitives -/

/-- `str.isspace()` for one character -/
def isSpace (c : Char) : Bool := Gen.spaceCodes.contains c.toNat

/-- `str.strip(chars)` with the set of characters given as a predicate -/
def stripChars (p : Char → Bool) (s : List Char) : List Char :=
  ((s.dropWhile p).reverse.dropWhile p).reverse

/-- `str.strip()` -/
def pyStrip (s : List Char) : List Char := stripChars isSpace s

/-- `str.lower()` for one ASCII character; the identity elsewhere -/
def lowerChar (c : Char) : Char :=
  if 65 ≤ c.toNat ∧ c.toNat ≤ 90 then Char.ofNat (c.toNat + 32) else c

/-- `str.lower()` for one character: the generated table for the non-ASCII characters that case
    operations relate to ASCII letters (long s, Kelvin sign, dotted I -> 2 code points, ligatures,
    fullwidth letters, ...), `lowerChar` otherwise (exact on the character domain of this file) -/
def lowerChars (c : Char) : List Char :=
  match Gen.lowerTable.find? (fun e => e.1 == c.toNat) with
  | some e => e.2.map Char.ofNat
  | none => [lowerChar c]

/-- `str.lower()` -/
def pyLower (s : List Char) : List Char := s.flatMap lowerChars

/-- is the int/str conversion limit exceeded by this many digits?  (sys.get_int_max_str_digits()) -/
def overLimit (digits : Nat) : Bool := decide (0 < Gen.maxStrDigits ∧ Gen.maxStrDigits < digits)

/-- the canonical base-10 rendering of an integer: what `str(n)` returns when it returns -/
def render (n : Int) : List Char :=
  if n < 0 then '-' :: Nat.toDigits 10 n.natAbs else Nat.toDigits 10 n.natAbs

/-- number of decimal digits of an integer -/
def numDigits (n : Int) : Nat := (Nat.toDigits 10 n.natAbs).length

/-- `str(n)` for an int: ValueError beyond the digit limit -/
def pyStrInt (n : Int) : Except ErrKind (List Char) :=
  if overLimit (numDigits n) then .error .valueError else .ok (render n)

/-- a non-ASCII Unicode decimal digit (category Nd) and its value -/
def ndDigit (c : Char) : Option Nat :=
  let n := c.toNat
  (Gen.ndRuns.find? (fun r => r.1 ≤ n ∧ n < r.1 + r.2)).map (fun r => (n - r.1) % 10)

/-- `_PyUnicode_TransformDecimalAndSpaceToASCII`, one character: code points below 127 are kept,
    Unicode whitespace becomes a space, a Unicode decimal digit becomes `0`-`9`, anything else `?`
    (CPython also truncates after the first `?`; the literal is rejected either way) -/
def intAscii (c : Char) : Char :=
  if c.toNat < 127 then c
  else if isSpace c then ' '
  else match ndDigit c with
       | some d => Char.ofNat (48 + d)
       | none => '?'

/-- C `isspace` in the "C" locale (Py_ISSPACE): what PyLong_FromString skips around the literal -/
def isIntSpace (c : Char) : Bool := (9 ≤ c.toNat && c.toNat ≤ 13) || c.toNat == 32

/-- value of an (already ASCII) character as a digit, `_PyLong_DigitValue`: `0-9a-zA-Z` -/
def digitVal (c : Char) : Option Nat :=
  let n := c.toNat
  if 48 ≤ n ∧ n ≤ 57 then some (n - 48)
  else if 97 ≤ n ∧ n ≤ 122 then some (n - 87)
  else if 65 ≤ n ∧ n ≤ 90 then some (n - 55)
  else none

def isDigitIn (base : Nat) (c : Char) : Bool :=
  match digitVal c with
  | some d => decide (d < base)
  | none => false

/-- characters `long_from_string_base` scans over: digits below the base, and underscores -/
def isBodyChar (base : Nat) (c : Char) : Bool := isDigitIn base c || c == '_'

def hasDoubleUnderscore : List Char → Bool
  | [] => false
  | [_] => false
  | a :: b :: rest => (a == '_' && b == '_') || hasDoubleUnderscore (b :: rest)

/-- the scanned run is not empty, has no leading, trailing or doubled underscore -/
def bodyOk (body : List Char) : Bool :=
  !body.isEmpty && body.head? != some '_' && body.getLast? != some '_' && !hasDoubleUnderscore body

/-- one step of the value accumulation: a digit is appended, an underscore skipped -/
def bodyStep (base : Nat) (acc : Nat) (c : Char) : Nat :=
  match digitVal c with
  | some d => acc * base + d
  | none => acc

/-- value of a scanned run -/
def bodyValue (base : Nat) (body : List Char) : Nat := body.foldl (bodyStep base) 0

def digitCount (body : List Char) : Nat := (body.filter (fun c => c != '_')).length

/-- base 16 only: an optional `0x`/`0X`, after which one underscore is allowed -/
def skipHexPrefix : List Char → List Char
  | a :: x :: r =>
    if a = '0' ∧ (x = 'x' ∨ x = 'X') then
      (match r with
       | u :: r' => if u = '_' then r' else u :: r'
       | [] => [])
    else a :: x :: r
  | s => s

def skipSign : List Char → List Char
  | c :: r => if c = '-' ∨ c = '+' then r else c :: r
  | [] => []

/-- PyLong_FromString on the ASCII-transformed text, `base` ∈ {10, 16}: leading whitespace, sign,
    prefix (base 16), digit/underscore run, trailing whitespace, nothing else; for base 10 (not a
    power of two) the digit limit.  `none` = ValueError. -/
def pyIntParseAscii (base : Nat) (t : List Char) : Option Int :=
  let s1 := t.dropWhile isIntSpace
  let neg := s1.head? == some '-'
  let s2 := skipSign s1
  let s3 := if base = 16 then skipHexPrefix s2 else s2
  let body := s3.takeWhile (isBodyChar base)
  let rest := s3.dropWhile (isBodyChar base)
  if !bodyOk body then none
  else if !rest.all isIntSpace then none
  else if base = 10 ∧ overLimit (digitCount body) then none
  else
    let v : Int := Int.ofNat (bodyValue base body)
    some (if neg then -v else v)

/-- `int(s, base)` for a str (`_PyLong_FromUnicodeObject`): ASCII transform, then PyLong_FromString -/
def pyIntParse (base : Nat) (s : List Char) : Option Int := pyIntParseAscii base (s.map intAscii)

/-- `str(v)` -/
def pyStr : PyVal → Except ErrKind (List Char)
  | .str s => .ok s
  | .bool true => .ok ['T', 'r', 'u', 'e']
  | .bool false => .ok ['F', 'a', 'l', 's', 'e']
  | .int n => pyStrInt n
  | .other t _ => .ok t

/-- `int(v)` -/
def pyInt : PyVal → Except ErrKind Int
  | .str s => match pyIntParse 10 s with
              | some n => .ok n
              | none => .error .valueError
  | .bool b => .ok (if b then 1 else 0)
  | .int n => .ok n
  | .other _ r => r

/-! ### bool_from_string, is_valid_boolstr, int_from_bool_as_string -/

/-- what `bool_from_string` returned: a bool of its own, or the caller's `default` object -/
inductive BoolOut | val (b : Bool) | dflt
  deriving DecidableEq, Repr

/-- strutils.py:143-177, with the public module tables `TRUE_STRINGS` / `FALSE_STRINGS` that are in
    force at the time of the call as parameters (a caller may rebind them) -/
def boolFromStringT (trueStrings falseStrings : List (List Char)) (subject : PyVal) (strict : Bool) :
    Except ErrKind BoolOut :=
  match subject with
  | .bool b => .ok (.val b)                                   -- isinstance(subject, bool)
  | _ =>
    match pyStr subject with                                  -- str(subject) for a non-str
    | .error e => .error e
    | .ok text =>
      let lowered := pyLower (pyStrip text)
      if trueStrings.contains lowered then .ok (.val true)
      else if falseStrings.contains lowered then .ok (.val false)
      else if strict then .error .valueError
      else .ok .dflt

/-- `bool_from_string` with the tables as shipped (generated from the working tree) -/
def boolFromString (subject : PyVal) (strict : Bool) : Except ErrKind BoolOut :=
  boolFromStringT Gen.trueStrings Gen.falseStrings subject strict

/-- strutils.py:180-190: `str(value).lower() in TRUE_STRINGS + FALSE_STRINGS`, tables in force -/
def isValidBoolstrT (trueStrings falseStrings : List (List Char)) (value : PyVal) : Except ErrKind Bool :=
  match pyStr value with
  | .error e => .error e
  | .ok text => .ok ((trueStrings ++ falseStrings).contains (pyLower text))

def isValidBoolstr (value : PyVal) : Except ErrKind Bool :=
  isValidBoolstrT Gen.trueStrings Gen.falseStrings value

/-- strutils.py:129-140: `int(bool_from_string(subject))` (strict=False, default=False) -/
def intFromBoolAsStringT (trueStrings falseStrings : List (List Char)) (subject : PyVal) : Except ErrKind Nat :=
  match boolFromStringT trueStrings falseStrings subject false with
  | .error e => .error e
  | .ok (.val true) => .ok 1
  | .ok (.val false) => .ok 0
  | .ok .dflt => .ok 0

def intFromBoolAsString (subject : PyVal) : Except ErrKind Nat :=
  intFromBoolAsStringT Gen.trueStrings Gen.falseStrings subject

/-! ### is_int_like, validate_integer, check_string_length -/

/-- strutils.py:461-473: `str(int(val)) == str(val)`, False on TypeError/ValueError/OverflowError -/
def isIntLike (val : PyVal) : Bool :=
  match pyInt val with
  | .error _ => false
  | .ok n =>
    match pyStrInt n with
    | .error _ => false
    | .ok a =>
      match pyStr val with
      | .error _ => false
      | .ok b => a == b

/-- A numeric bound (`min_value`, `max_value`, `min_length`, `max_length`) as Python compares it with
    an int.  Comparisons of an int with an int, bool, float, Decimal or Fraction are exact in Python,
    so a finite bound is its exact rational value `p / q` (`q > 0`; the harness converts with
    `fractions.Fraction(bound)`), compared by cross-multiplication. -/
inductive Bound
  | fin (p : Int) (q : Nat)   -- int, bool, finite float, finite Decimal, Fraction
  | posInf | negInf           -- float / Decimal infinities
  | nan                       -- float nan: every comparison is False
  | decNan                    -- Decimal NaN: every ordering comparison raises decimal.InvalidOperation
  deriving DecidableEq, Repr

/-- `n < b` for an int `n` -/
def intLtBound (n : Int) : Bound → Except ErrKind Bool
  | .fin p q => .ok (decide (n * q < p))
  | .posInf => .ok true
  | .negInf => .ok false
  | .nan => .ok false
  | .decNan => .error .invalidOperation

/-- `n > b` for an int `n` -/
def intGtBound (n : Int) : Bound → Except ErrKind Bool
  | .fin p q => .ok (decide (n * q > p))
  | .posInf => .ok false
  | .negInf => .ok true
  | .nan => .ok false
  | .decNan => .error .invalidOperation

/-- `msg = _('… %d') % {…: bound}; raise ValueError(msg)`: `%d` of an infinity raises OverflowError
    before the ValueError is built (strutils.py:526-534) -/
def rejectD : Bound → Except ErrKind Int
  | .posInf => .error .overflowError
  | .negInf => .error .overflowError
  | _ => .error .valueError

def checkMax (n : Int) (maxValue : Option Bound) : Except ErrKind Int :=
  match maxValue with
  | none => .ok n
  | some hi =>
    match intGtBound n hi with                                 -- `value > max_value`
    | .error e => .error e
    | .ok true => rejectD hi
    | .ok false => .ok n

def checkMinMax (n : Int) (minValue maxValue : Option Bound) : Except ErrKind Int :=
  match minValue with
  | none => checkMax n maxValue
  | some lo =>
    match intLtBound n lo with                                 -- `value < min_value`
    | .error e => .error e
    | .ok true => rejectD lo
    | .ok false => checkMax n maxValue

/-- strutils.py:510-537 -/
def validateInteger (value : PyVal) (minValue maxValue : Option Bound) : Except ErrKind Int :=
  match pyStr value with                                       -- str(value) inside the try
  | .error _ => .error .valueError
  | .ok text =>
    match pyIntParse 10 text with
    | none => .error .valueError
    | some n => checkMinMax n minValue maxValue

/-- `bool(bound)` is False -/
def boundFalsy : Bound → Bool
  | .fin p _ => p == 0
  | _ => false

/-- `if max_length and length > max_length: raise ValueError` -/
def checkMaxLength (length : Int) (maxLength : Option Bound) : Except ErrKind Unit :=
  match maxLength with
  | none => .ok ()
  | some m =>
    if boundFalsy m then .ok ()
    else
      match intGtBound length m with
      | .error e => .error e
      | .ok true => .error .valueError
      | .ok false => .ok ()

/-- strutils.py:476-507; `.ok ()` = returned None.  (The messages use `%s`, which never fails.) -/
def checkStringLength (value : PyVal) (minLength : Bound) (maxLength : Option Bound) : Except ErrKind Unit :=
  match value with
  | .str s =>
    let length : Int := Int.ofNat s.length
    match intLtBound length minLength with                     -- `length < min_length`
    | .error e => .error e
    | .ok true => .error .valueError
    | .ok false => checkMaxLength length maxLength
  | _ => .error .typeError

/-! ### is_uuid_like -/

/-- the hexadecimal digits (vocabulary of the statements; `int(_, 16)` digits below 16) -/
def hexChars : List Char :=
  ['0', '1', '2', '3', '4', '5', '6', '7', '8', '9', 'a', 'b', 'c', 'd', 'e', 'f',
   'A', 'B', 'C', 'D', 'E', 'F']

/-- `s.replace('urn:', '')` -/
def removeUrn : List Char → List Char
  | 'u' :: 'r' :: 'n' :: ':' :: rest => removeUrn rest
  | c :: rest => c :: removeUrn rest
  | [] => []

/-- `s.replace('uuid:', '')` -/
def removeUuid : List Char → List Char
  | 'u' :: 'u' :: 'i' :: 'd' :: ':' :: rest => removeUuid rest
  | c :: rest => c :: removeUuid rest
  | [] => []

def isBrace (c : Char) : Bool := c == '{' || c == '}'

/-- `s.replace('-', '')` -/
def removeHyphens (s : List Char) : List Char := s.filter (fun c => c != '-')

/-- the decoration removal shared by `_format_uuid_string` (uuidutils.py:37-42, before `.lower()`)
    and `uuid.UUID.__init__(hex=…)`:
    `.replace('urn:', '').replace('uuid:', '').strip('{}').replace('-', '')` -/
def uuidUndecorate (s : List Char) : List Char :=
  removeHyphens (stripChars isBrace (removeUuid (removeUrn s)))

/-- `'%0<w>x' % n` for `n < 16^w` -/
def hexFixed : Nat → Nat → List Char
  | 0, _ => []
  | w + 1, n => hexFixed w (n / 16) ++ [Nat.digitChar (n % 16)]

/-- `uuid.UUID(hex=s).int`; every failure is a ValueError -/
def uuidOfHex (s : List Char) : Except ErrKind Nat :=
  let h := uuidUndecorate s
  if h.length ≠ 32 then .error .valueError
  else
    match pyIntParse 16 h with
    | none => .error .valueError
    | some v => if 0 ≤ v ∧ v < 2 ^ 128 then .ok v.toNat else .error .valueError

/-- `UUID.__str__`: `'%032x' % int` cut 8-4-4-4-12 -/
def hyphenate (h : List Char) : List Char :=
  h.take 8 ++ '-' :: (h.drop 8).take 4 ++ '-' :: (h.drop 12).take 4 ++ '-' :: (h.drop 16).take 4
    ++ '-' :: h.drop 20

def uuidStr (n : Nat) : List Char := hyphenate (hexFixed 32 n)

/-- uuidutils.py:45-58: `str(uuid.UUID(val)).replace('-', '') == _format_uuid_string(val)`,
    False on TypeError/ValueError/AttributeError (every non-str lands there) -/
def isUuidLike : PyVal → Bool
  | .str s =>
    match uuidOfHex s with
    | .error _ => false
    | .ok n => removeHyphens (uuidStr n) == pyLower (uuidUndecorate s)
  | _ => false

/-! ### vocabulary of the theorem statements (not used by the executable functions above) -/

/-- the ASCII decimal digits -/
def decChars : List Char := ['0', '1', '2', '3', '4', '5', '6', '7', '8', '9']

/-- one or more groups of decimal digits joined by single underscores -/
def DigitGroups (body : List Char) : Prop :=
  body ≠ [] ∧ (∀ c ∈ body, c ∈ decChars ∨ c = '_') ∧
  body.head? ≠ some '_' ∧ body.getLast? ≠ some '_' ∧ ∀ l r, body ≠ l ++ '_' :: '_' :: r

/-- the decimal value of the digits of a body, underscores dropped -/
def decValue (body : List Char) : Nat := Nat.ofDigitChars 10 (body.filter (fun c => c != '_')) 0

end Oslo.Scalars
