"""Access to private details of the implementation that survives harmless renames.

The correspondence compares more than the public API shows (retained regions, the set of errored
inspectors, a stop watch's timestamps).  Those details live in underscore attributes that a
maintainer may rename at any time without changing behaviour.  Every such access goes through this
module: it first tries the name the pinned tree uses and otherwise DISCOVERS the attribute by what it
does on a scratch object (the dict that gains an entry when `new_region` is called, the set that
gains an inspector when that inspector fails, the flag that flips on `finish()` ...).  When a detail
cannot be found any more the caller gets `HarnessBlind`: the check then reports that the
correspondence no longer checks (no-failing-input-found) — it is never turned into a failing input.
"""
import io


class HarnessBlind(Exception):
    """a private detail the harness observes cannot be located in this tree"""


_cache = {}


def _fi():
    from oslo_utils.imageutils import format_inspector
    return format_inspector


def _vars(obj):
    try:
        return dict(vars(obj))
    except TypeError:
        return {}


def _discover(key, preferred, finder):
    """attribute name: the preferred one if the finder confirms it exists, else whatever the finder
    finds; cached per run"""
    if key in _cache:
        return _cache[key]
    try:
        name = finder(preferred)
    except HarnessBlind:
        raise
    except Exception as e:      # discovery itself failed
        raise HarnessBlind('%s: discovery failed (%s: %s)' % (key, type(e).__name__, e))
    if name is None:
        raise HarnessBlind('%s: no attribute behaves like %s' % (key, preferred))
    _cache[key] = name
    return name


# ---- FileInspector ---------------------------------------------------------

def _find_regions(preferred):
    F = _fi()
    probe = F.RawFileInspector()
    before = {k: dict(v) for k, v in _vars(probe).items() if isinstance(v, dict)}
    probe.new_region('__whitebox_probe__', F.CaptureRegion(0, 1))
    hits = [k for k, v in _vars(probe).items()
            if isinstance(v, dict) and '__whitebox_probe__' in v and '__whitebox_probe__' not in before.get(k, {})]
    if preferred in hits:
        return preferred
    return hits[0] if len(hits) == 1 else None


def regions(insp):
    """name -> CaptureRegion (the inspector's own dict, not a copy)"""
    return getattr(insp, _discover('insp.regions', '_capture_regions', _find_regions))


def _find_checks(preferred):
    F = _fi()
    probe = F.QcowInspector()
    hits = [k for k, v in _vars(probe).items()
            if isinstance(v, dict) and v and all(isinstance(x, F.SafetyCheck) for x in v.values())]
    if preferred in hits:
        return preferred
    return hits[0] if len(hits) == 1 else None


def safety_checks(insp):
    return getattr(insp, _discover('insp.checks', '_safety_checks', _find_checks))


def total_count(insp):
    """bytes presented so far: the public `actual_size` (the pinned tree returns _total_count)"""
    return insp.actual_size


def _find_finished_insp(preferred):
    F = _fi()
    probe = F.RawFileInspector()
    a = {k: v for k, v in _vars(probe).items() if isinstance(v, bool)}
    probe.finish()
    hits = [k for k, v in _vars(probe).items() if isinstance(v, bool) and a.get(k) is False and v is True]
    if preferred in hits:
        return preferred
    return hits[0] if len(hits) == 1 else None


def insp_finished(insp):
    return getattr(insp, _discover('insp.finished', '_finished', _find_finished_insp))


# ---- InspectWrapper ----------------------------------------------------------

def _coll_of_inspectors(v):
    F = _fi()
    if isinstance(v, dict):
        v = list(v.values())
    return isinstance(v, (set, frozenset, list, tuple)) and len(v) > 0 and \
        all(isinstance(x, F.FileInspector) for x in v)


def _find_w_inspectors(preferred):
    F = _fi()
    w = F.InspectWrapper(io.BytesIO(b''))
    n = len(F.ALL_FORMATS)
    hits = [k for k, v in _vars(w).items() if _coll_of_inspectors(v) and len(v) == n]
    if preferred in hits:
        return preferred
    return hits[0] if len(hits) == 1 else None


def w_inspectors(w):
    v = getattr(w, _discover('wrap.inspectors', '_inspectors', _find_w_inspectors))
    return list(v.values()) if isinstance(v, dict) else v


def _find_w_errored(preferred):
    F = _fi()
    w = F.InspectWrapper(io.BytesIO(b'x' * 8))
    insps = w_inspectors(w)
    victim = [i for i in insps if i.NAME != 'raw'][0]

    def boom(chunk):
        raise RuntimeError('whitebox probe')
    victim.eat_chunk = boom
    main = _cache['wrap.inspectors']
    empty_before = {k for k, v in _vars(w).items()
                    if isinstance(v, (set, frozenset, list, tuple, dict)) and len(v) == 0}
    w.read(8)
    hits = []
    for k, v in _vars(w).items():
        if k == main:
            continue
        items = list(v.values()) if isinstance(v, dict) else v
        # the victim must be in it; other inspectors may have failed on the probe bytes as well (that is
        # the tree's business, judged by the correspondence, not a reason to go blind)
        if isinstance(items, (set, frozenset, list, tuple)) and len(items) >= 1 and \
                k in empty_before and (victim in items or victim.NAME in items):
            hits.append(k)
    if preferred in hits:
        return preferred
    return hits[0] if len(hits) == 1 else None


def w_errored(w):
    """the inspectors the wrapper has given up on (as inspector objects)"""
    v = getattr(w, _discover('wrap.errored', '_errored_inspectors', _find_w_errored))
    items = list(v.values()) if isinstance(v, dict) else list(v)
    if items and isinstance(items[0], str):
        return [i for i in w_inspectors(w) if i.NAME in items]
    return items


def _find_w_finished(preferred):
    F = _fi()
    w = F.InspectWrapper(io.BytesIO(b''))
    a = {k: v for k, v in _vars(w).items() if isinstance(v, bool)}
    w.close()
    hits = [k for k, v in _vars(w).items() if isinstance(v, bool) and a.get(k) is False and v is True]
    if preferred in hits:
        return preferred
    return hits[0] if len(hits) == 1 else None


def w_finished(w):
    return getattr(w, _discover('wrap.finished', '_finished', _find_w_finished))


def w_finish(w):
    """what `close()` does to the inspectors, without touching the source"""
    f = getattr(w, '_finish', None)
    if callable(f):
        return f()
    return w.close()


# ---- StopWatch ---------------------------------------------------------------

class WatchView:
    """the five private fields of a StopWatch, located by behaviour"""

    def __init__(self):
        from oslo_utils import timeutils
        saved = timeutils.now
        ticks = iter([101.5, 205.25, 309.125, 400.0, 500.0])
        timeutils.now = lambda: next(ticks)
        try:
            def snap(o):
                # containers are copied: an implementation may keep one and mutate it in place
                return {k: (list(v) if isinstance(v, list) else dict(v) if isinstance(v, dict) else v)
                        for k, v in _vars(o).items()}
            w = timeutils.StopWatch(duration=7.75)
            v0 = snap(w)
            w.start()
            v1 = snap(w)
            w.split()
            v2 = snap(w)
            w.stop()
            v3 = snap(w)
        finally:
            timeutils.now = saved

        def one(cands, pref, what):
            if pref in cands:
                return pref
            if len(cands) == 1:
                return cands[0]
            raise HarnessBlind('StopWatch: cannot locate %s (candidates %s)' % (what, cands))
        self.duration = one([k for k, v in v0.items() if v == 7.75 and not isinstance(v, bool)], '_duration', 'duration')
        self.started_at = one([k for k, v in v1.items() if v == 101.5 and v0.get(k) is None], '_started_at', 'start time')
        self.stopped_at = one([k for k, v in v3.items() if v == 309.125 and v1.get(k) is None], '_stopped_at', 'stop time')
        self.splits = one([k for k, v in v2.items() if isinstance(v, (tuple, list)) and len(v) == 1
                           and len(v0.get(k, ())) == 0], '_splits', 'splits')
        self.state = one([k for k in v0 if k not in (self.duration, self.started_at, self.stopped_at, self.splits)
                          and v0[k] is None and v1[k] is not None and v3[k] is not None and v3[k] != v1[k]],
                         '_state', 'state')
        # canonical state names from the values observed
        self.state_names = {v0[self.state]: None, v1[self.state]: 'STARTED', v3[self.state]: 'STOPPED'}

    def snapshot(self, w):
        st = getattr(w, self.state)
        if st not in self.state_names:
            raise HarnessBlind('StopWatch: unknown state value %r' % (st,))
        return (self.state_names[st], getattr(w, self.started_at), getattr(w, self.stopped_at),
                tuple(getattr(w, self.splits)), getattr(w, self.duration))


def watch_view():
    if 'watch' not in _cache:
        try:
            _cache['watch'] = WatchView()
        except HarnessBlind:
            raise
        except Exception as e:
            raise HarnessBlind('StopWatch: discovery failed (%s: %s)' % (type(e).__name__, e))
    return _cache['watch']


# ---- uuidutils (C14) ----------------------------------------------------------

_UUID_NORMALIZER_PROBES = [('{urn:uuid:AB-CD}', 'abcd'), ('uuurn:id:-{x}-', '{x}'), ('', ''),
                           ('}{0F-urn:-}', '0f'), ('URN:UUID:Ab', 'urn:uuid:ab')]


def uuid_normalizer():
    """The private helper of uuidutils that removes a UUID's decoration and lower-cases it (pinned name
    `_format_uuid_string`), located by behaviour: a module-level function other than the public ones that
    maps '{urn:uuid:AB-CD}' to 'abcd' (and agrees on the other probes).  Returns None when the tree has no
    such helper (e.g. it was inlined) — the caller then observes the normalisation through `is_uuid_like`."""
    if 'uuid_normalizer' in _cache:
        return _cache['uuid_normalizer']
    import inspect
    from oslo_utils import uuidutils

    def behaves(f):
        try:
            return all(f(a) == b for a, b in _UUID_NORMALIZER_PROBES)
        except Exception:
            return False
    found = None
    pinned = getattr(uuidutils, '_format_uuid_string', None)
    if callable(pinned) and behaves(pinned):
        found = pinned
    else:
        for name, f in sorted(_vars(uuidutils).items()):
            if name in ('generate_uuid', 'is_uuid_like') or not inspect.isfunction(f):
                continue
            if getattr(f, '__module__', None) != uuidutils.__name__:
                continue
            if behaves(f):
                found = f
                break
    _cache['uuid_normalizer'] = found
    return found


def public_function(module, name):
    """a documented public function; HarnessBlind (never an implementation outcome) if it is gone"""
    f = getattr(module, name, None)
    if not callable(f):
        raise HarnessBlind('%s.%s: public function not found' % (getattr(module, '__name__', module), name))
    return f
