/-
C14 — scalar parsers and validators classify every input exactly.

Property theorems only (helper lemmas live in OsloProofs/Lemmas/C14.lean).  Every theorem
quantifies over all strings `s : List Char` (any Unicode scalar values), all integers, all
settings.  The word lists, whitespace set and the interpreter's int<->str digit limit are the
generated definitions `Gen.*`, so a changed table re-checks every theorem below.

Reading notes
* `boolKey s` is `s.strip().lower()`, the key the code looks up.
* `render n` is the canonical base-10 rendering of the integer `n` (`-` sign, no leading zeros).
* CPython refuses int<->str conversions of more than `Gen.maxStrDigits` (4300) digits; the model
  has that limit and the theorems about `is_int_like` / `validate_integer` state it explicitly
  (`overLimit (numDigits n) = false`).  Without the limit clause the property is false on the real
  code (known finding C14-F2), see `intlike_beyond_limit`.
* `check_string_length`: `max_length` 0 or None means "no maximum" (the code's reading).
-/
import OsloModel.Scalars
import OsloProofs.Lemmas.C14
import OsloProofs.Lemmas.C14Literal
namespace Oslo.Scalars

/-! ### vocabulary of the statements -/

/-- the words documented as true in the docstring of `bool_from_string` -/
def docTrue : List (List Char) :=
  [['t'], ['t', 'r', 'u', 'e'], ['o', 'n'], ['y'], ['y', 'e', 's'], ['1']]

/-- the words documented as false -/
def docFalse : List (List Char) :=
  [['f'], ['f', 'a', 'l', 's', 'e'], ['o', 'f', 'f'], ['n'], ['n', 'o'], ['0']]

/-- `s.strip().lower()` -/
def boolKey (s : List Char) : List Char := pyLower (pyStrip s)

/-- 32 hexadecimal digits -/
def IsHex32 (h : List Char) : Prop := h.length = 32 ∧ ∀ c ∈ h, c ∈ hexChars

/-- the four spellings of a UUID -/
inductive Spelling | plain | hyphenated | braced | urn
  deriving DecidableEq, Repr

def spell : Spelling → List Char → List Char
  | .plain, h => h
  | .hyphenated, h => hyphenate h
  | .braced, h => ['{'] ++ hyphenate h ++ ['}']
  | .urn, h => ['u', 'r', 'n', ':', 'u', 'u', 'i', 'd', ':'] ++ hyphenate h

/-! ### generated tables -/

/-- the code's word tuples are exactly the documented words -/
theorem words_are_documented :
    (∀ w ∈ Gen.trueStrings, w ∈ docTrue) ∧ (∀ w ∈ docTrue, w ∈ Gen.trueStrings) ∧
    (∀ w ∈ Gen.falseStrings, w ∈ docFalse) ∧ (∀ w ∈ docFalse, w ∈ Gen.falseStrings) := by
  decide

/-- no word is both true and false; every word is non-empty, lower-case and free of whitespace
    (so it can be the result of `strip().lower()`) -/
theorem words_disjoint_and_clean :
    (∀ w ∈ Gen.trueStrings, w ∉ Gen.falseStrings) ∧
    (∀ w ∈ Gen.trueStrings ++ Gen.falseStrings,
      w ≠ [] ∧ ∀ c ∈ w, isSpace c = false ∧ lowerChars c = [c] ∧ c.toNat < 128) := by
  decide +kernel

/-- the transcription of int()'s whitespace (ASCII transform, then C isspace) agrees with the set
    probed from the interpreter, on ASCII and on every `str.isspace` code point -/
theorem int_whitespace_matches_probe :
    (∀ n, n < 128 → isIntSpace (intAscii (Char.ofNat n)) = Gen.intSpaceCodes.contains n) ∧
    (∀ n ∈ Gen.spaceCodes, isIntSpace (intAscii (Char.ofNat n)) = Gen.intSpaceCodes.contains n) := by
  decide

/-! ### bool_from_string -/

theorem lemma_bool_str (s : List Char) (strict : Bool) :
    boolFromString (.str s) strict =
      if Gen.trueStrings.contains (boolKey s) then .ok (.val true)
      else if Gen.falseStrings.contains (boolKey s) then .ok (.val false)
      else if strict then .error .valueError else .ok .dflt := by
  simp [boolFromString, boolFromStringT, pyStr, boolKey]

/-- True exactly on the true words, for every string, strict or not -/
theorem bool_true_iff (s : List Char) (strict : Bool) :
    boolFromString (.str s) strict = .ok (.val true) ↔ boolKey s ∈ Gen.trueStrings := by
  rw [lemma_bool_str]
  by_cases h1 : boolKey s ∈ Gen.trueStrings
  · simp [h1]
  · by_cases h2 : boolKey s ∈ Gen.falseStrings <;> cases strict <;> simp [h1, h2]

/-- False exactly on the false words, for every string, strict or not -/
theorem bool_false_iff (s : List Char) (strict : Bool) :
    boolFromString (.str s) strict = .ok (.val false) ↔ boolKey s ∈ Gen.falseStrings := by
  rw [lemma_bool_str]
  by_cases h1 : boolKey s ∈ Gen.trueStrings
  · have := words_disjoint_and_clean.1 _ h1
    simp [h1, this]
  · by_cases h2 : boolKey s ∈ Gen.falseStrings <;> cases strict <;> simp [h1, h2]

/-- any other string: the default when lenient, ValueError when strict -/
theorem bool_otherwise (s : List Char)
    (h1 : boolKey s ∉ Gen.trueStrings) (h2 : boolKey s ∉ Gen.falseStrings) :
    boolFromString (.str s) false = .ok .dflt ∧ boolFromString (.str s) true = .error .valueError := by
  simp [lemma_bool_str, h1, h2]

/-- booleans are passed through -/
theorem bool_passthrough (b strict : Bool) : boolFromString (.bool b) strict = .ok (.val b) := rfl

/-- any other non-str subject is read through `str()` -/
theorem bool_nonstr_via_str (v : PyVal) (strict : Bool) (t : List Char)
    (hv : ∀ b, v ≠ .bool b) (ht : pyStr v = .ok t) :
    boolFromString v strict = boolFromString (.str t) strict := by
  cases v with
  | bool b => exact absurd rfl (hv b)
  | str s => simp [pyStr] at ht; rw [ht]
  | int n => simp only [pyStr] at ht; simp only [boolFromString, boolFromStringT, pyStr, ht]
  | other x r => simp only [pyStr, Except.ok.injEq] at ht; subst ht; simp only [boolFromString, boolFromStringT, pyStr]

example : boolFromString (.int 1) true = .ok (.val true) := by decide
example : boolFromString (.other ['N', 'o', 'n', 'e'] (.error .typeError)) true = .error .valueError := by
  decide

/-- "ignoring case and surrounding whitespace": every word, in every per-letter casing `w'`, with
    any whitespace padding left and right, is recognised -/
theorem bool_accepts_padded_cased (w w' l r : List Char) (strict : Bool)
    (hw : w ∈ Gen.trueStrings ++ Gen.falseStrings) (hcase : pyLower w' = w)
    (hl : ∀ c ∈ l, isSpace c = true) (hr : ∀ c ∈ r, isSpace c = true) :
    boolFromString (.str (l ++ w' ++ r)) strict = .ok (.val (decide (w ∈ Gen.trueStrings))) := by
  have hclean := (words_disjoint_and_clean.2 w hw).2
  have hns : ∀ c ∈ w', isSpace c = false := by
    intro c hc
    cases hsp : isSpace c with
    | false => rfl
    | true =>
      exfalso
      -- a whitespace character is lowered to itself, so it would be a character of the word
      have hmem : c.toNat ∈ Gen.spaceCodes := by simpa [isSpace] using hsp
      have htab : ∀ n ∈ Gen.spaceCodes,
          Gen.lowerTable.find? (fun e => e.1 == n) = none ∧ ¬ (65 ≤ n ∧ n ≤ 90) := by decide +kernel
      have hl : lowerChars c = [c] := by
        rw [lemma_lowerChars_of_none c (htab _ hmem).1]
        unfold lowerChar; rw [if_neg (htab _ hmem).2]
      have hcw : c ∈ w := by
        rw [← hcase]
        unfold pyLower
        exact List.mem_flatMap.mpr ⟨c, hc, by rw [hl]; simp⟩
      have := (hclean c hcw).1
      rw [hsp] at this
      exact absurd this (by decide)
  have hkey : boolKey (l ++ w' ++ r) = w := by
    unfold boolKey pyStrip
    rw [lemma_strip_pad isSpace l w' r hl hr hns, hcase]
  by_cases ht : w ∈ Gen.trueStrings
  · simpa [ht] using (bool_true_iff (l ++ w' ++ r) strict).mpr (by rw [hkey]; exact ht)
  · have hf : w ∈ Gen.falseStrings := by
      rcases List.mem_append.mp hw with h | h
      · exact absurd h ht
      · exact h
    simpa [ht] using (bool_false_iff (l ++ w' ++ r) strict).mpr (by rw [hkey]; exact hf)

example : boolFromString (.str [' ', 'Y', 'e', 'S', Char.ofNat 0x3000]) true = .ok (.val true) :=
  bool_accepts_padded_cased ['y', 'e', 's'] ['Y', 'e', 'S'] [' '] [Char.ofNat 0x3000] true
    (by decide) (by decide) (by decide) (by decide)

/-- int_from_bool_as_string is 1 exactly on the true words, 0 on every other string -/
theorem int_from_bool_iff (s : List Char) :
    intFromBoolAsString (.str s) = .ok (if boolKey s ∈ Gen.trueStrings then 1 else 0) := by
  unfold intFromBoolAsString intFromBoolAsStringT
  rw [show boolFromStringT Gen.trueStrings Gen.falseStrings (.str s) false = boolFromString (.str s) false from rfl,
    lemma_bool_str]
  by_cases h1 : boolKey s ∈ Gen.trueStrings
  · simp [h1]
  · by_cases h2 : boolKey s ∈ Gen.falseStrings <;> simp [h1, h2]

/-! ### is_valid_boolstr -/

/-- on input without surrounding whitespace, is_valid_boolstr holds exactly when strict
    bool_from_string returns a boolean (and fails exactly when it raises ValueError) -/
theorem boolstr_agrees_unpadded (s : List Char) (h : pyStrip s = s) :
    (isValidBoolstr (.str s) = .ok true ↔ ∃ b, boolFromString (.str s) true = .ok (.val b)) ∧
    (isValidBoolstr (.str s) = .ok false ↔ boolFromString (.str s) true = .error .valueError) := by
  have hk : boolKey s = pyLower s := by unfold boolKey; rw [h]
  rw [lemma_bool_str, hk]
  by_cases h1 : pyLower s ∈ Gen.trueStrings
  · simp [isValidBoolstr, isValidBoolstrT, pyStr, h1]
  · by_cases h2 : pyLower s ∈ Gen.falseStrings <;> simp [isValidBoolstr, isValidBoolstrT, pyStr, h1, h2]

/-- in general it looks up `str(value).lower()` without stripping -/
theorem boolstr_iff (s : List Char) :
    isValidBoolstr (.str s) = .ok (decide (pyLower s ∈ Gen.trueStrings ++ Gen.falseStrings)) := by
  simp [isValidBoolstr, isValidBoolstrT, pyStr]

example : pyStrip ['O', 'N'] = ['O', 'N'] ∧ isValidBoolstr (.str ['O', 'N']) = .ok true := by decide
/-- padded input is where the two differ (the reason for the hypothesis) -/
example : isValidBoolstr (.str [' ', 'o', 'n']) = .ok false ∧
    boolFromString (.str [' ', 'o', 'n']) true = .ok (.val true) := by decide

/-! ### whatever tables are in force at the time of the call

`TRUE_STRINGS` / `FALSE_STRINGS` are public module attributes; a caller may rebind them.  The clauses
hold for the tables the functions see when they are called. -/

theorem lemma_boolT_str (ts fs : List (List Char)) (s : List Char) (strict : Bool) :
    boolFromStringT ts fs (.str s) strict =
      if ts.contains (boolKey s) then .ok (.val true)
      else if fs.contains (boolKey s) then .ok (.val false)
      else if strict then .error .valueError else .ok .dflt := by
  simp [boolFromStringT, pyStr, boolKey]

/-- True exactly on the words of the true table in force -/
theorem bool_tables_true_iff (ts fs : List (List Char)) (s : List Char) (strict : Bool) :
    boolFromStringT ts fs (.str s) strict = .ok (.val true) ↔ boolKey s ∈ ts := by
  rw [lemma_boolT_str]
  by_cases h1 : boolKey s ∈ ts
  · simp [h1]
  · by_cases h2 : boolKey s ∈ fs <;> cases strict <;> simp [h1, h2]

/-- False exactly on the words of the false table in force that are not also in the true table -/
theorem bool_tables_false_iff (ts fs : List (List Char)) (s : List Char) (strict : Bool) :
    boolFromStringT ts fs (.str s) strict = .ok (.val false) ↔ boolKey s ∈ fs ∧ boolKey s ∉ ts := by
  rw [lemma_boolT_str]
  by_cases h1 : boolKey s ∈ ts
  · simp [h1]
  · by_cases h2 : boolKey s ∈ fs <;> cases strict <;> simp [h1, h2]

/-- for ANY tables: on unpadded input is_valid_boolstr holds exactly when strict bool_from_string
    returns a boolean, and fails exactly when it raises ValueError -/
theorem boolstr_agrees_unpadded_any_tables (ts fs : List (List Char)) (s : List Char)
    (h : pyStrip s = s) :
    (isValidBoolstrT ts fs (.str s) = .ok true ↔ ∃ b, boolFromStringT ts fs (.str s) true = .ok (.val b)) ∧
    (isValidBoolstrT ts fs (.str s) = .ok false ↔ boolFromStringT ts fs (.str s) true = .error .valueError) := by
  have hk : boolKey s = pyLower s := by unfold boolKey; rw [h]
  rw [lemma_boolT_str, hk]
  by_cases h1 : pyLower s ∈ ts
  · simp [isValidBoolstrT, pyStr, h1]
  · by_cases h2 : pyLower s ∈ fs <;> simp [isValidBoolstrT, pyStr, h1, h2]

example : boolFromStringT [['e', 'n', 'a', 'b', 'l', 'e', 'd']] [] (.str ['E', 'n', 'a', 'b', 'l', 'e', 'd']) true
      = .ok (.val true) ∧
    isValidBoolstrT [['e', 'n', 'a', 'b', 'l', 'e', 'd']] [] (.str ['E', 'n', 'a', 'b', 'l', 'e', 'd']) = .ok true ∧
    isValidBoolstrT [['e', 'n', 'a', 'b', 'l', 'e', 'd']] [] (.str ['y', 'e', 's']) = .ok false := by decide +kernel

/-! ### only ASCII casings of the words are recognised -/

/-- the characters occurring in the words -/
def wordChars : List Char := (Gen.trueStrings ++ Gen.falseStrings).flatten

theorem lemma_table_not_word :
    ∀ e ∈ Gen.lowerTable, e.2 ≠ [] ∧ ∀ x ∈ e.2, ¬ (Char.ofNat x ∈ wordChars) := by decide +kernel

/-- a text whose `str.lower()` is a word is an ASCII text, lowered letter by letter -/
theorem lemma_key_ascii (t : List Char) (h : pyLower t ∈ Gen.trueStrings ++ Gen.falseStrings) :
    pyLower t = t.map lowerChar ∧ ∀ c ∈ t, c.toNat < 128 := by
  have hA : ∀ x ∈ pyLower t, x ∈ wordChars := fun x hx => List.mem_flatten.mpr ⟨_, h, hx⟩
  have e := lemma_pyLower_into (fun x => x ∈ wordChars) lemma_table_not_word t hA
  refine ⟨e, ?_⟩
  intro c hc
  have hm : lowerChar c ∈ pyLower t := by rw [e]; exact List.mem_map.mpr ⟨c, hc, rfl⟩
  have := ((words_disjoint_and_clean.2 _ h).2 _ hm).2.2
  unfold lowerChar at this
  split at this
  · omega
  · exact this

/-- is_valid_boolstr accepts exactly the ASCII casings of the words: a string is accepted iff it
    consists of ASCII characters and, with `A`-`Z` mapped to `a`-`z`, is one of the words.  No
    non-ASCII look-alike (long s, Kelvin sign, ligatures, fullwidth letters …) is accepted. -/
theorem boolstr_accepts_only_ascii_casings (s : List Char) :
    isValidBoolstr (.str s) = .ok true ↔
      (∀ c ∈ s, c.toNat < 128) ∧ s.map lowerChar ∈ Gen.trueStrings ++ Gen.falseStrings := by
  rw [boolstr_iff]
  simp only [Except.ok.injEq, decide_eq_true_eq]
  constructor
  · intro h
    obtain ⟨e, hasc⟩ := lemma_key_ascii s h
    exact ⟨hasc, e ▸ h⟩
  · rintro ⟨hasc, h⟩
    rw [lemma_pyLower_ascii s hasc]
    exact h

/-- the same for bool_from_string: whenever it returns a boolean of its own for a str, the stripped
    text is an ASCII casing of a word -/
theorem bool_recognises_only_ascii_casings (s : List Char) (strict b : Bool)
    (h : boolFromString (.str s) strict = .ok (.val b)) :
    (∀ c ∈ pyStrip s, c.toNat < 128) ∧
      (pyStrip s).map lowerChar ∈ Gen.trueStrings ++ Gen.falseStrings := by
  have hk : boolKey s ∈ Gen.trueStrings ++ Gen.falseStrings := by
    cases b
    · exact List.mem_append.mpr (Or.inr ((bool_false_iff s strict).mp h))
    · exact List.mem_append.mpr (Or.inl ((bool_true_iff s strict).mp h))
  obtain ⟨e, hasc⟩ := lemma_key_ascii (pyStrip s) hk
  exact ⟨hasc, e ▸ hk⟩

/-- the look-alikes of C14-9: `yeſ` (U+017F), `oﬀ` (U+FB00), `oK`-style Kelvin sign are not words -/
example : isValidBoolstr (.str ['y', 'e', Char.ofNat 0x17f]) = .ok false ∧
    isValidBoolstr (.str ['o', Char.ofNat 0xfb00]) = .ok false ∧
    isValidBoolstr (.str ['Y', 'E', 'S']) = .ok true ∧
    boolFromString (.str ['f', 'a', 'l', Char.ofNat 0x17f, 'e']) true = .error .valueError := by
  decide +kernel

/-! ### is_int_like -/

/-- for every string: int-like exactly when it is the canonical rendering of an integer
    (that CPython can convert: at most `Gen.maxStrDigits` digits) -/
theorem intlike_iff_canonical (s : List Char) :
    isIntLike (.str s) = true ↔ ∃ n : Int, s = render n ∧ overLimit (numDigits n) = false := by
  constructor
  · intro h
    unfold isIntLike at h
    simp only [pyInt, pyStr] at h
    cases hp : pyIntParse 10 s with
    | none => simp [hp] at h
    | some n =>
      simp only [hp, pyStrInt] at h
      cases ho : overLimit (numDigits n) with
      | true => simp [ho] at h
      | false =>
        simp [ho] at h
        exact ⟨n, h.symm, ho⟩
  · rintro ⟨n, rfl, ho⟩
    simp [isIntLike, pyInt, pyStr, lemma_parse_render n ho, pyStrInt, ho]

/-- an int is int-like (within the conversion limit); a bool never is -/
theorem intlike_of_int (n : Int) : isIntLike (.int n) = !overLimit (numDigits n) := by
  cases ho : overLimit (numDigits n) <;> simp [isIntLike, pyInt, pyStr, pyStrInt, ho]

theorem intlike_of_bool (b : Bool) : isIntLike (.bool b) = false := by
  cases b <;> decide

/-- any other object is int-like only if `int(obj)` succeeds and `str(obj)` is its rendering -/
theorem intlike_of_other (t : List Char) (r : Except ErrKind Int) :
    isIntLike (.other t r) = true ↔ ∃ n, r = .ok n ∧ overLimit (numDigits n) = false ∧ t = render n := by
  cases r with
  | error e => simp [isIntLike, pyInt]
  | ok n =>
    cases ho : overLimit (numDigits n) <;> simp [isIntLike, pyInt, pyStr, pyStrInt, ho]
    exact eq_comm

/-- known finding C14-F2, as a theorem about the model: beyond the digit limit the canonical
    rendering of an integer, and the integer itself, are *not* int-like -/
theorem intlike_beyond_limit (n : Int) (h : overLimit (numDigits n) = true) :
    isIntLike (.str (render n)) = false ∧ isIntLike (.int n) = false := by
  constructor
  · simp [isIntLike, pyInt, lemma_parse_render_over n h]
  · simp [intlike_of_int, h]

example : isIntLike (.str ['-', '4', '2']) = true ∧ isIntLike (.str ['+', '4', '2']) = false ∧
    isIntLike (.str ['0', '7']) = false ∧ isIntLike (.str ['-', '0']) = false ∧
    isIntLike (.str ['1', '_', '0']) = false ∧ isIntLike (.str [' ', '1']) = false := by decide

/-! ### validate_integer -/

/-- A base-10 integer literal as `int()` reads a str, and its value: after the ASCII transform
    (Unicode whitespace -> space, Unicode decimal digits -> `0`-`9`), the text is
    whitespace, an optional sign, groups of decimal digits joined by single underscores, whitespace —
    with at most `Gen.maxStrDigits` digits (CPython's conversion limit). -/
def IntLiteral (s : List Char) (n : Int) : Prop :=
  ∃ pre sign body post,
    s.map intAscii = pre ++ sign ++ body ++ post ∧
    (∀ c ∈ pre, isIntSpace c = true) ∧ (∀ c ∈ post, isIntSpace c = true) ∧
    (sign = [] ∨ sign = ['+'] ∨ sign = ['-']) ∧ DigitGroups body ∧
    overLimit (digitCount body) = false ∧
    n = if sign = ['-'] then -(decValue body : Int) else (decValue body : Int)

/-- the parser of the model accepts exactly the integer literals, with their value -/
theorem int_literal_iff (s : List Char) (n : Int) : pyIntParse 10 s = some n ↔ IntLiteral s n := by
  unfold pyIntParse IntLiteral
  constructor
  · intro h
    obtain ⟨pre, sign, body, post, e, hpre, hpost, hsign, hb, hok, hlim, hn⟩ :=
      lemma_literal_of_parse _ n h
    have hg := (lemma_groups_iff body).mp ⟨hb, hok⟩
    refine ⟨pre, sign, body, post, e, hpre, hpost, hsign, hg, hlim, ?_⟩
    rw [hn, lemma_value_dec body hg.2.1]
    rfl
  · rintro ⟨pre, sign, body, post, e, hpre, hpost, hsign, hg, hlim, hn⟩
    obtain ⟨hb, hok⟩ := (lemma_groups_iff body).mpr hg
    rw [e, lemma_parse_literal pre sign body post hpre hpost hsign hb hok, if_neg (by simp [hlim]),
      hn, lemma_value_dec body hg.2.1]
    rfl

example : IntLiteral [' ', '+', '1', '_', '0', '\n'] 10 :=
  (int_literal_iff _ _).mp (by decide)
example : ¬ IntLiteral ['1', '_', '_', '0'] 10 := fun h => by
  have := (int_literal_iff _ _).mpr h
  revert this; decide

/-- `int(str(value))` as the model reads it -/
def intOfStrOf (v : PyVal) : Option Int :=
  match pyStr v with
  | .ok t => pyIntParse 10 t
  | .error _ => none

/-- `n` is not below the bound: exact rational comparison `p/q ≤ n` for a finite bound (any int, bool,
    float, Decimal, Fraction), nothing is below `-inf` or a float NaN, everything is below `+inf`.
    (A Decimal NaN cannot be compared at all.) -/
def MinAllows (n : Int) : Bound → Prop
  | .fin p q => p ≤ n * q
  | .posInf => False
  | .negInf => True
  | .nan => True
  | .decNan => False

/-- `n` is not above the bound: `n ≤ p/q` exactly -/
def MaxAllows (n : Int) : Bound → Prop
  | .fin p q => n * q ≤ p
  | .posInf => True
  | .negInf => False
  | .nan => True
  | .decNan => False

/-- an int, bool, finite float / Decimal, Fraction, or a float NaN: the bounds on which the code can
    only answer by returning or by ValueError -/
def Bound.plain : Bound → Bool
  | .fin _ _ => true
  | .nan => true
  | _ => false

theorem lemma_checkMax_iff (n m : Int) (hi : Option Bound) :
    checkMax n hi = .ok m ↔ n = m ∧ ∀ u, hi = some u → MaxAllows n u := by
  cases hi with
  | none => simp [checkMax]
  | some u =>
    cases u with
    | fin p q =>
      by_cases h : n * q > p <;> simp [checkMax, intGtBound, rejectD, MaxAllows, h] <;> omega
    | posInf => simp [checkMax, intGtBound, MaxAllows]
    | negInf => simp [checkMax, intGtBound, rejectD, MaxAllows]
    | nan => simp [checkMax, intGtBound, MaxAllows]
    | decNan => simp [checkMax, intGtBound, MaxAllows]

theorem lemma_checkMinMax_iff (n m : Int) (lo hi : Option Bound) :
    checkMinMax n lo hi = .ok m ↔
      n = m ∧ (∀ l, lo = some l → MinAllows n l) ∧ (∀ u, hi = some u → MaxAllows n u) := by
  cases lo with
  | none => simp [checkMinMax, lemma_checkMax_iff]
  | some l =>
    cases l with
    | fin p q =>
      by_cases h : n * q < p
      · simp [checkMinMax, intLtBound, rejectD, MinAllows, h]; omega
      · simp [checkMinMax, intLtBound, MinAllows, h, lemma_checkMax_iff]; omega
    | posInf => simp [checkMinMax, intLtBound, rejectD, MinAllows]
    | negInf => simp [checkMinMax, intLtBound, MinAllows, lemma_checkMax_iff]
    | nan => simp [checkMinMax, intLtBound, MinAllows, lemma_checkMax_iff]
    | decNan => simp [checkMinMax, intLtBound, MinAllows]

/-- returns `n` exactly when `str(value)` is read by `int()` as `n` (see `validate_integer_str_iff`
    for what that means for a str) and `n` is within the bounds that are set — bounds of any numeric
    type, compared exactly (`min_value = 7.5` excludes 7, `max_value = Decimal('-6.5')` excludes -6) -/
theorem validate_integer_iff (v : PyVal) (lo hi : Option Bound) (n : Int) :
    validateInteger v lo hi = .ok n ↔
      intOfStrOf v = some n ∧ (∀ l, lo = some l → MinAllows n l) ∧ (∀ u, hi = some u → MaxAllows n u) := by
  unfold validateInteger intOfStrOf
  cases hs : pyStr v with
  | error e => simp
  | ok t =>
    simp only []
    cases hp : pyIntParse 10 t with
    | none => simp
    | some m =>
      simp only [lemma_checkMinMax_iff, Option.some.injEq]
      constructor
      · rintro ⟨rfl, h1, h2⟩; exact ⟨rfl, h1, h2⟩
      · rintro ⟨rfl, h1, h2⟩; exact ⟨rfl, h1, h2⟩

/-- for a str: returns `n` exactly when the text is an integer literal of value `n` within the bounds -/
theorem validate_integer_str_iff (s : List Char) (lo hi : Option Bound) (n : Int) :
    validateInteger (.str s) lo hi = .ok n ↔
      IntLiteral s n ∧ (∀ l, lo = some l → MinAllows n l) ∧ (∀ u, hi = some u → MaxAllows n u) := by
  rw [validate_integer_iff, ← int_literal_iff]
  simp [intOfStrOf, pyStr]

theorem lemma_checkMax_else (n : Int) (hi : Option Bound) (h : ∀ u, hi = some u → u.plain = true) :
    (∃ m, checkMax n hi = .ok m) ∨ checkMax n hi = .error .valueError := by
  cases hi with
  | none => simp [checkMax]
  | some u =>
    cases u with
    | fin p q => by_cases h2 : n * q > p <;> simp [checkMax, intGtBound, rejectD, h2]
    | nan => simp [checkMax, intGtBound]
    | posInf => exact absurd (h _ rfl) (by decide)
    | negInf => exact absurd (h _ rfl) (by decide)
    | decNan => exact absurd (h _ rfl) (by decide)

/-- … and in every other case it raises ValueError, never another exception.
    PARTIAL: proved for bounds that are None, finite numbers or a float NaN.  What is missing: an
    infinite bound that excludes the value makes the code raise OverflowError (the `%d` of the message,
    finding C14-F3, see `validate_integer_infinite_bound`), a Decimal NaN bound raises
    decimal.InvalidOperation. -/
theorem validate_integer_else_partial (v : PyVal) (lo hi : Option Bound)
    (hlo : ∀ l, lo = some l → l.plain = true) (hhi : ∀ u, hi = some u → u.plain = true) :
    (∃ n, validateInteger v lo hi = .ok n) ∨ validateInteger v lo hi = .error .valueError := by
  unfold validateInteger
  cases pyStr v with
  | error e => simp
  | ok t =>
    simp only []
    cases pyIntParse 10 t with
    | none => simp
    | some n =>
      simp only []
      cases lo with
      | none => exact lemma_checkMax_else n hi hhi
      | some l =>
        cases l with
        | fin p q =>
          by_cases h2 : n * q < p
          · simp [checkMinMax, intLtBound, rejectD, h2]
          · simpa [checkMinMax, intLtBound, h2] using lemma_checkMax_else n hi hhi
        | nan => simpa [checkMinMax, intLtBound] using lemma_checkMax_else n hi hhi
        | posInf => exact absurd (hlo _ rfl) (by decide)
        | negInf => exact absurd (hlo _ rfl) (by decide)
        | decNan => exact absurd (hlo _ rfl) (by decide)

/-- finding C14-F3 as a theorem about the model: with `min_value = +inf` (or `max_value = -inf`) every
    integer is out of range, and the code raises OverflowError instead of ValueError -/
theorem validate_integer_infinite_bound (n : Int) (h : overLimit (numDigits n) = false) :
    validateInteger (.int n) (some .posInf) none = .error .overflowError ∧
    validateInteger (.int n) none (some .negInf) = .error .overflowError := by
  simp [validateInteger, pyStr, pyStrInt, h, lemma_parse_render n h, checkMinMax, checkMax,
    intLtBound, intGtBound, rejectD]

/-- integers given as int or in canonical str form: accepted exactly within the bounds -/
theorem validate_integer_canonical (n : Int) (lo hi : Option Bound) (h : overLimit (numDigits n) = false) :
    validateInteger (.int n) lo hi = validateInteger (.str (render n)) lo hi ∧
    (validateInteger (.str (render n)) lo hi = .ok n ↔
      (∀ l, lo = some l → MinAllows n l) ∧ (∀ u, hi = some u → MaxAllows n u)) := by
  constructor
  · simp [validateInteger, pyStr, pyStrInt, h]
  · rw [validate_integer_iff]
    simp [intOfStrOf, pyStr, lemma_parse_render n h]

example : validateInteger (.str [' ', '+', '1', '_', '0', '\n']) (some (.fin 10 1)) (some (.fin 10 1)) = .ok 10 := by
  decide
example : validateInteger (.str ['9']) (some (.fin 10 1)) none = .error .valueError := by decide
example : validateInteger (.bool true) none none = .error .valueError := by decide
/-- non-integral bounds are compared exactly: 7 < 7.5, -6 > -6.5, 0 < 1e-6 -/
example : validateInteger (.int 7) (some (.fin 15 2)) none = .error .valueError ∧
    validateInteger (.int 8) (some (.fin 15 2)) none = .ok 8 ∧
    validateInteger (.str ['-', '6']) none (some (.fin (-13) 2)) = .error .valueError ∧
    validateInteger (.int 0) (some (.fin 1 1000000)) none = .error .valueError ∧
    validateInteger (.int 5) (some .nan) (some .nan) = .ok 5 := by decide

/-! ### check_string_length -/

theorem lemma_checkMaxLength_iff (len : Int) (hi : Option Bound) :
    checkMaxLength len hi = .ok () ↔ ∀ m, hi = some m → boundFalsy m = true ∨ MaxAllows len m := by
  cases hi with
  | none => simp [checkMaxLength]
  | some m =>
    cases m with
    | fin p q =>
      by_cases h0 : p = 0 <;> by_cases h2 : len * q > p <;>
        simp [checkMaxLength, intGtBound, boundFalsy, MaxAllows, h0, h2] <;> omega
    | posInf => simp [checkMaxLength, intGtBound, boundFalsy, MaxAllows]
    | negInf => simp [checkMaxLength, intGtBound, boundFalsy, MaxAllows]
    | nan => simp [checkMaxLength, intGtBound, boundFalsy, MaxAllows]
    | decNan => simp [checkMaxLength, intGtBound, boundFalsy, MaxAllows]

theorem lemma_checkMaxLength_else (len : Int) (hi : Option Bound) :
    checkMaxLength len hi = .ok () ∨ checkMaxLength len hi = .error .valueError ∨
      (checkMaxLength len hi = .error .invalidOperation ∧ hi = some .decNan) := by
  cases hi with
  | none => simp [checkMaxLength]
  | some m =>
    cases m with
    | fin p q =>
      by_cases h0 : p = 0 <;> by_cases h2 : len * q > p <;>
        simp [checkMaxLength, intGtBound, boundFalsy, h0, h2]
    | posInf => simp [checkMaxLength, intGtBound, boundFalsy]
    | negInf => simp [checkMaxLength, intGtBound, boundFalsy]
    | nan => simp [checkMaxLength, intGtBound, boundFalsy]
    | decNan => simp [checkMaxLength, intGtBound, boundFalsy]

/-- a str passes exactly when `min_length ≤ len` and (`max_length` is None or falsy (0, 0.0), or
    `len ≤ max_length`), bounds of any numeric type compared exactly -/
theorem string_length_iff (s : List Char) (lo : Bound) (hi : Option Bound) :
    checkStringLength (.str s) lo hi = .ok () ↔
      MinAllows s.length lo ∧ (∀ m, hi = some m → boundFalsy m = true ∨ MaxAllows s.length m) := by
  unfold checkStringLength
  simp only [Int.ofNat_eq_natCast]
  cases lo with
  | fin p q =>
    by_cases h : (s.length : Int) * q < p
    · simp [intLtBound, MinAllows, h]; omega
    · simp only [intLtBound, h, decide_false, lemma_checkMaxLength_iff, MinAllows]
      constructor
      · intro h2; exact ⟨by omega, h2⟩
      · intro h2; exact h2.2
  | posInf => simp [intLtBound, MinAllows]
  | negInf => simp [intLtBound, MinAllows, lemma_checkMaxLength_iff]
  | nan => simp [intLtBound, MinAllows, lemma_checkMaxLength_iff]
  | decNan => simp [intLtBound, MinAllows]

/-- a str that does not pass raises ValueError (decimal.InvalidOperation only if a bound is a Decimal
    NaN); a non-str raises TypeError -/
theorem string_length_else (v : PyVal) (lo : Bound) (hi : Option Bound) :
    (∀ s, v = .str s →
      checkStringLength v lo hi = .ok () ∨ checkStringLength v lo hi = .error .valueError ∨
      (checkStringLength v lo hi = .error .invalidOperation ∧ (lo = .decNan ∨ hi = some .decNan))) ∧
    ((∀ s, v ≠ .str s) → checkStringLength v lo hi = .error .typeError) := by
  constructor
  · rintro s rfl
    have hm := lemma_checkMaxLength_else (s.length : Int) hi
    unfold checkStringLength
    simp only [Int.ofNat_eq_natCast]
    cases lo with
    | fin p q =>
      by_cases h : (s.length : Int) * q < p
      · simp [intLtBound, h]
      · simp only [intLtBound, h, decide_false]
        rcases hm with h1 | h1 | ⟨h1, h2⟩
        · exact Or.inl h1
        · exact Or.inr (Or.inl h1)
        · exact Or.inr (Or.inr ⟨h1, Or.inr h2⟩)
    | posInf => simp [intLtBound]
    | negInf =>
      simp only [intLtBound]
      rcases hm with h1 | h1 | ⟨h1, h2⟩
      · exact Or.inl h1
      · exact Or.inr (Or.inl h1)
      · exact Or.inr (Or.inr ⟨h1, Or.inr h2⟩)
    | nan =>
      simp only [intLtBound]
      rcases hm with h1 | h1 | ⟨h1, h2⟩
      · exact Or.inl h1
      · exact Or.inr (Or.inl h1)
      · exact Or.inr (Or.inr ⟨h1, Or.inr h2⟩)
    | decNan => simp [intLtBound]
  · intro h
    cases v with
    | str s => exact absurd rfl (h s)
    | bool b => rfl
    | int n => rfl
    | other t r => rfl

example : checkStringLength (.str ['a', 'b', 'c']) (.fin 3 1) (some (.fin 3 1)) = .ok () ∧
    checkStringLength (.str ['a', 'b', 'c']) (.fin 4 1) none = .error .valueError ∧
    checkStringLength (.str ['a', 'b', 'c']) (.fin 0 1) (some (.fin 2 1)) = .error .valueError ∧
    checkStringLength (.str ['a', 'b', 'c']) (.fin 0 1) (some (.fin 0 1)) = .ok () ∧
    checkStringLength (.str ['a', 'b', 'c']) (.fin 7 2) none = .error .valueError ∧
    checkStringLength (.str ['a', 'b', 'c']) (.fin 0 1) (some (.fin 5 2)) = .error .valueError ∧
    checkStringLength (.int 3) (.fin 0 1) none = .error .typeError := by decide

/-! ### is_uuid_like -/

/-- exact classification of every string: UUID-like iff, decoration removed
    (`urn:`, `uuid:`, outer braces, hyphens), it is 32 hex digits -/
theorem uuid_iff_32hex (s : List Char) : isUuidLike (.str s) = true ↔ IsHex32 (uuidUndecorate s) := by
  unfold IsHex32
  have hplain : ∀ n, removeHyphens (uuidStr n) = hexFixed 32 n := by
    intro n
    rw [uuidStr, lemma_removeHyphens_hyphenate]
    exact lemma_removeHyphens_id _
      (fun hm => (lemma_lowerHex_facts _ (lemma_hexFixed_chars _ _ _ hm)).2.1 rfl)
  constructor
  · intro h
    simp only [isUuidLike] at h
    cases hu : uuidOfHex s with
    | error e => simp [hu] at h
    | ok n =>
      simp only [hu, beq_iff_eq, hplain] at h
      obtain ⟨_, hlen, hhex⟩ := lemma_pyLower_hex (uuidUndecorate s)
        (fun x hx => lemma_hexFixed_chars 32 n x (by rw [h]; exact hx))
      refine ⟨?_, hhex⟩
      rw [← hlen, ← h, lemma_hexFixed_length]
  · rintro ⟨hl, hh⟩
    have hne : uuidUndecorate s ≠ [] := by
      intro e; rw [e] at hl; simp at hl
    obtain ⟨hlt, hfix⟩ := lemma_hex_value _ hh
    rw [hl] at hlt hfix
    have h128 : (16 : Nat) ^ 32 = 2 ^ 128 := by decide
    rw [h128] at hlt
    have hrange : (0 : Int) ≤ (bodyValue 16 (uuidUndecorate s) : Int) ∧
        (bodyValue 16 (uuidUndecorate s) : Int) < 2 ^ 128 := by
      constructor <;> omega
    simp only [isUuidLike, uuidOfHex, hl, ne_eq, not_true_eq_false, if_false,
      lemma_parse_hex _ hne hh, hplain, Int.ofNat_eq_natCast, Int.toNat_natCast]
    rw [if_pos hrange]
    simp only [beq_iff_eq]
    exact hfix

/-- rejects everything that, decoration removed, is not 32 hex digits — and every non-str -/
theorem uuid_rejects_non32hex (v : PyVal) (h : isUuidLike v = true) :
    ∃ s, v = .str s ∧ IsHex32 (uuidUndecorate s) := by
  cases v with
  | str s => exact ⟨s, rfl, (uuid_iff_32hex s).mp h⟩
  | bool b => simp [isUuidLike] at h
  | int n => simp [isUuidLike] at h
  | other t r => simp [isUuidLike] at h

theorem lemma_hyphenate_chars (h : List Char) (c : Char) (hc : c ∈ hyphenate h) : c ∈ h ∨ c = '-' := by
  unfold hyphenate at hc
  simp only [List.mem_append, List.mem_cons] at hc
  rcases hc with (((hc | hc | hc) | hc | hc) | hc | hc) | hc | hc
  · exact Or.inl (List.mem_of_mem_take hc)
  · exact Or.inr hc
  · exact Or.inl (List.mem_of_mem_drop (List.mem_of_mem_take hc))
  · exact Or.inr hc
  · exact Or.inl (List.mem_of_mem_drop (List.mem_of_mem_take hc))
  · exact Or.inr hc
  · exact Or.inl (List.mem_of_mem_drop (List.mem_of_mem_take hc))
  · exact Or.inr hc
  · exact Or.inl (List.mem_of_mem_drop hc)

/-- removing the decoration of any of the four spellings gives back the digits -/
theorem lemma_undecorate_spell (d : Spelling) (h : List Char) (hh : ∀ c ∈ h, c ∈ hexChars) :
    uuidUndecorate (spell d h) = h := by
  have hyp : ∀ c ∈ hyphenate h, c ≠ 'u' ∧ isBrace c = false := by
    intro c hc
    rcases lemma_hyphenate_chars h c hc with hc | rfl
    · have := lemma_hex_char_facts c (hh c hc)
      exact ⟨this.2.2.2.2.1, this.2.2.2.2.2.1⟩
    · decide
  have hnou : 'u' ∉ hyphenate h := fun hm => (hyp _ hm).1 rfl
  have hnoh : '-' ∉ h := fun hm => (lemma_hex_char_facts _ (hh _ hm)).2.2.2.2.2.2.1 rfl
  have hfin : removeHyphens (hyphenate h) = h := by
    rw [lemma_removeHyphens_hyphenate, lemma_removeHyphens_id _ hnoh]
  unfold uuidUndecorate
  cases d with
  | plain =>
    have hnou' : 'u' ∉ h := fun hm => (lemma_hex_char_facts _ (hh _ hm)).2.2.2.2.1 rfl
    simp only [spell]
    rw [lemma_removeUrn_id _ hnou', lemma_removeUuid_id _ hnou',
      lemma_strip_none _ _ (fun c hc => (lemma_hex_char_facts c (hh c hc)).2.2.2.2.2.1),
      lemma_removeHyphens_id _ hnoh]
  | hyphenated =>
    simp only [spell]
    rw [lemma_removeUrn_id _ hnou, lemma_removeUuid_id _ hnou,
      lemma_strip_none _ _ (fun c hc => (hyp c hc).2), hfin]
  | braced =>
    have hnou2 : 'u' ∉ ['{'] ++ hyphenate h ++ ['}'] := by
      intro hm
      simp only [List.mem_append, List.mem_singleton] at hm
      rcases hm with (hm | hm) | hm
      · exact absurd hm (by decide)
      · exact hnou hm
      · exact absurd hm (by decide)
    simp only [spell]
    rw [lemma_removeUrn_id _ hnou2, lemma_removeUuid_id _ hnou2,
      lemma_strip_pad isBrace ['{'] (hyphenate h) ['}'] (by decide) (by decide) (fun c hc => (hyp c hc).2),
      hfin]
  | urn =>
    simp only [spell, List.cons_append, List.nil_append]
    have e1 : removeUrn ('u' :: 'r' :: 'n' :: ':' :: 'u' :: 'u' :: 'i' :: 'd' :: ':' :: hyphenate h)
        = 'u' :: 'u' :: 'i' :: 'd' :: ':' :: hyphenate h := by
      simp [removeUrn, lemma_removeUrn_id _ hnou]
    have e2 : removeUuid ('u' :: 'u' :: 'i' :: 'd' :: ':' :: hyphenate h) = hyphenate h := by
      simp [removeUuid, lemma_removeUuid_id _ hnou]
    rw [e1, e2, lemma_strip_none _ _ (fun c hc => (hyp c hc).2), hfin]

/-- every 32-hex-digit string (hence every 128-bit value in every letter case) is accepted in
    plain, hyphenated, braced and urn:uuid: spelling -/
theorem uuid_accepts_all_spellings (d : Spelling) (h : List Char) (hh : IsHex32 h) :
    isUuidLike (.str (spell d h)) = true := by
  rw [uuid_iff_32hex, lemma_undecorate_spell d h hh.2]
  exact hh

/-- the same, stated over the 128-bit value: any casing `h` of the 32-digit rendering of any
    `n < 2^128` (`h.lower() = '%032x' % n`), in any spelling — in particular `str(uuid4())`, which is
    `spell .hyphenated (hexFixed 32 n)`, and `uuid4().hex` -/
theorem uuid_accepts_every_value (n : Nat) (d : Spelling) (h : List Char)
    (hcase : pyLower h = hexFixed 32 n) : isUuidLike (.str (spell d h)) = true := by
  apply uuid_accepts_all_spellings
  obtain ⟨_, hlen, hhex⟩ := lemma_pyLower_hex h
    (fun x hx => lemma_hexFixed_chars 32 n x (by rw [← hcase]; exact hx))
  refine ⟨?_, hhex⟩
  rw [← hlen, hcase, lemma_hexFixed_length]

example : isUuidLike (.str (spell .urn (hexFixed 32 0x12345678123456781234567812345678))) = true :=
  uuid_accepts_every_value 0x12345678123456781234567812345678 .urn _ (by decide)
example : IsHex32 (hexFixed 32 (2 ^ 128 - 1)) := by
  refine ⟨by decide, ?_⟩; decide
example : isUuidLike (.str ['{', '1', '2', '}']) = false := by decide

end Oslo.Scalars
