/-
Model of oslo_utils.fileutils: compute_file_checksum (fileutils.py:112-131),
last_bytes (134-162), ensure_tree (37-50), delete_if_exists (53-64).

What lives in the runtime is a parameter:
* the hash object is abstract: a state type `σ`, `upd : σ → Bytes → σ`
  (`checksum.update`), `fin : σ → δ` (`hexdigest`), `init` (`hashlib.new(alg)`);
* the file is its content (`List UInt8`); `f.read(k)` on a regular file opened
  'rb' returns the next `min k remaining` bytes (all of them for `None` or `-1`);
* `fp.seek(off, SEEK_END)` is the off_t conversion of CPython followed by
  lseek(2)'s range check; its outcome can also be injected (`fault`);
* the outcome of `os.makedirs` / `remove` (success, or the exception raised) and
  the answer of `os.path.isdir` are inputs of `ensureTree` / `deleteIfExists`.
The errno constants are extracted from the running tree (Generated/C20.lean).
`write_to_tempfile` (83-109): mkstemp uniqueness is OS behaviour; what the code itself
decides (which calls are made, what is handed to os.write, what escapes) is `writeToTempfile`.
-/
import OsloModel.Generated.C20
namespace Oslo.File

abbrev Bytes := List UInt8

/-- exceptions the modelled functions can let escape.  An OSError is represented by the value of
    its `errno` attribute at the time it is raised and by nothing else: the code filters with
    `e.errno == errno.X` (fileutils.py:46, 63, 157), so the concrete class (FileNotFoundError, a
    user subclass, the IOError alias, …) and the way the errno got there do not enter the model. -/
inductive Exc
  | osError (errno : Option Int)   -- OSError or any subclass; `errno` may be None
  | valueError
  | other (tag : Nat)              -- any exception class that is not OSError
  | fuelExhausted                  -- model artefact; proved unreachable (`chunks_flatten`)
  deriving DecidableEq, Repr

/-! ## compute_file_checksum -/

/-- the argument of `f.read(...)` once BufferedReader has accepted it -/
inductive ReadArg
  | all              -- `None` or `-1`: read to EOF
  | n (k : Nat)      -- at most k bytes
  deriving DecidableEq, Repr

/-- `read_chunksize` as passed (None, or an int) -> what `f.read` does with it;
    `_io.BufferedReader.read` raises ValueError("read length must be non-negative or -1") -/
def readArg : Option Int → Except Exc ReadArg
  | none => .ok .all
  | some k => if k = -1 then .ok .all else if k < 0 then .error .valueError else .ok (.n k.toNat)

/-- one `f.read(arg)` on the unread rest of the file: (bytes returned, new unread rest) -/
def readOnce : ReadArg → Bytes → Bytes × Bytes
  | .all, rest => (rest, [])
  | .n k, rest => (rest.take k, rest.drop k)

/-- `iter(lambda: f.read(read_chunksize), b'')` (line 127): the chunks yielded until the
    first empty read.  `acc` holds the chunks yielded so far, newest first.  `none` = out of fuel. -/
def readChunks (arg : ReadArg) : Nat → Bytes → List Bytes → Option (List Bytes)
  | 0, _, _ => none
  | fuel + 1, rest, acc =>
    if (readOnce arg rest).1.isEmpty then some acc.reverse
    else readChunks arg fuel (readOnce arg rest).2 ((readOnce arg rest).1 :: acc)

/-- all chunks of a freshly opened file (every non-empty read consumes ≥ 1 byte, so
    `length + 1` reads are enough: `chunks_flatten`) -/
def fileChunks (arg : ReadArg) (content : Bytes) : Option (List Bytes) :=
  readChunks arg (content.length + 1) content []

/-- compute_file_checksum(path, read_chunksize, algorithm).
    `algKnown = false`: `hashlib.new` raises ValueError (line 125, before the file is opened);
    `file = none`: `open` raises FileNotFoundError (line 126). -/
def computeChecksum {σ δ : Type} (upd : σ → Bytes → σ) (fin : σ → δ) (init : σ)
    (algKnown : Bool) (file : Option Bytes) (chunkSize : Option Int) : Except Exc δ :=
  if !algKnown then .error .valueError else
  match file with
  | none => .error (.osError (some Gen.ENOENT))
  | some content =>
    match readArg chunkSize with
    | .error e => .error e
    | .ok arg =>
      match fileChunks arg content with
      | none => .error .fuelExhausted
      | some chunks => .ok (fin (chunks.foldl upd init))      -- lines 127-128, 131

/-! ### a concrete hash for the driver: polynomial rolling hash mod 2^61-1, with length -/

structure Toy where
  h : Nat
  len : Nat
  deriving DecidableEq, Repr

def toyP : Nat := 2305843009213693951
def toyB : Nat := 1000003
def toyInit : Toy := ⟨0, 0⟩
def toyStep (s : Toy) (b : UInt8) : Toy := ⟨(s.h * toyB + b.toNat + 1) % toyP, s.len + 1⟩
def toyUpdate (s : Toy) (bs : Bytes) : Toy := bs.foldl toyStep s

/-! ## last_bytes -/

/-- `fp.seek(off, os.SEEK_END)` on a regular file of `size` bytes: CPython converts `off`
    to off_t (ValueError "cannot fit 'int' into an offset-sized integer" outside
    [-2^63, 2^63-1]); lseek(2) fails with EINVAL when the resulting offset is negative or
    not representable.  Returns the new position.  (Seeking forward past EOF only happens
    for negative `num`, outside the property; the real upper limit is the file system's
    maximum file size ≤ 2^63-1, which the model does not know: the correspondence compares
    small forward offsets only.) -/
def seekEnd (size : Nat) (off : Int) : Except Exc Nat :=
  if off < -(2 ^ 63) ∨ off > 2 ^ 63 - 1 then .error .valueError
  else if (size : Int) + off < 0 ∨ (size : Int) + off > 2 ^ 63 - 1 then .error (.osError (some Gen.EINVAL))
  else .ok ((size : Int) + off).toNat

/-- last_bytes(path, num) (lines 150-162).  `fault = some e`: the first seek raises `e`
    instead (injected); `none`: regular-file behaviour. -/
def lastBytes (content : Bytes) (num : Int) (fault : Option Exc) : Except Exc (Bytes × Nat) :=
  let first : Except Exc Nat :=
    match fault with
    | some e => .error e
    | none => seekEnd content.length (-num)                       -- line 152
  let pos : Except Exc Nat :=
    match first with
    | .ok p => .ok p
    | .error (.osError errno) =>
      if errno = some Gen.EINVAL then .ok 0                        -- lines 157-158
      else .error (.osError errno)                                 -- line 160
    | .error e => .error e                                         -- not an OSError: not caught
  match pos with
  | .ok p => .ok (content.drop p, p)                               -- lines 161-162
  | .error e => .error e

/-! ## ensure_tree / delete_if_exists: decision over the outcome of the OS call -/

/-- ensure_tree(path) given what `os.makedirs(path, mode)` did and what `os.path.isdir(path)`
    answers (consulted only after EEXIST).  `.error e` = the same exception propagates
    (bare `raise`, or never caught). -/
def ensureTree (makedirs : Except Exc Unit) (isdir : Bool) : Except Exc Unit :=
  match makedirs with
  | .ok () => .ok ()
  | .error (.osError errno) =>
    if errno = some Gen.EEXIST then
      if !isdir then .error (.osError errno)                       -- lines 47-48
      else .ok ()
    else .error (.osError errno)                                   -- line 50
  | .error e => .error e

/-- delete_if_exists(path, remove) given what `remove(path)` did -/
def deleteIfExists (remove : Except Exc Unit) : Except Exc Unit :=
  match remove with
  | .ok () => .ok ()
  | .error (.osError errno) =>
    if errno ≠ some Gen.ENOENT then .error (.osError errno)        -- lines 63-64
    else .ok ()
  | .error e => .error e

/-- what leaves `remove_path_on_error` -/
inductive Raised
  | body (e : Exc)          -- the exception of the protected block, re-raised (same object)
  | fromRemove (e : Exc)    -- the remover's own exception replaces it
  deriving DecidableEq, Repr

/-- remove_path_on_error(path) with the default remover `delete_if_exists` (lines 67-80):
    `body` = what the protected block raised (an `Exception`; `none` = it completed),
    `remove` = what `os.unlink(path)` does.  Inside `save_and_reraise_exception` a failing
    remover lets its own exception out (the original is logged and dropped); otherwise the
    original is re-raised. -/
def removePathOnError (body : Option Exc) (remove : Except Exc Unit) : Except Raised Unit :=
  match body with
  | none => .ok ()                                                 -- remover not called
  | some b =>
    match deleteIfExists remove with
    | .ok () => .error (.body b)
    | .error e => .error (.fromRemove e)

/-! ## write_to_tempfile: decision logic over the outcomes of ensure_tree / mkstemp / os.write -/

structure TempOut where
  result : Except Exc Unit     -- `.ok`: the path mkstemp returned is returned
  ensureCalled : Bool
  file : Option Bytes          -- content of the file mkstemp created; `none`: no file created
  fdClosed : Bool
  deriving Repr

/-- write_to_tempfile(content, path, suffix, prefix) (lines 101-109).  `content` is the byte
    string the content object exposes through the buffer protocol: the object is handed to
    `os.write` untouched, whatever its type.  `pathTruthy`: `if path:`; `ensure`, `mkstemp`:
    what ensure_tree(path) and tempfile.mkstemp(...) do; `write`: what the single
    `os.write(fd, content)` does - an exception, or the number of bytes it transferred
    (write(2) may transfer fewer than asked; the code does not look at the count). -/
def writeToTempfile (content : Bytes) (pathTruthy : Bool)
    (ensure mkstemp : Except Exc Unit) (write : Except Exc Nat) : TempOut :=
  match (if pathTruthy then ensure else .ok ()) with               -- lines 101-102
  | .error e => ⟨.error e, pathTruthy, none, false⟩
  | .ok () =>
    match mkstemp with                                              -- line 104
    | .error e => ⟨.error e, pathTruthy, none, false⟩
    | .ok () =>
      match write with                                              -- lines 105-108
      | .error e => ⟨.error e, pathTruthy, some [], true⟩           -- finally: os.close(fd)
      | .ok n => ⟨.ok (), pathTruthy, some (content.take n), true⟩  -- line 109; count ignored

/-- one call of a session: the arguments and what the three OS-level calls do at that moment -/
structure TempCall where
  content : Bytes
  pathTruthy : Bool
  ensure : Except Exc Unit
  mkstemp : Except Exc Unit
  write : Except Exc Nat

/-- any number of calls in one process: the function keeps no state between calls -/
def tempSession (calls : List TempCall) : List TempOut :=
  calls.map fun c => writeToTempfile c.content c.pathTruthy c.ensure c.mkstemp c.write

/-! ### a one-path file system, for the "already done" clauses (assumed OS behaviour,
    exercised against the real file system by the correspondence) -/

inductive PathState | missing | dir | file
  deriving DecidableEq, Repr

/-- os.makedirs(path) with every ancestor creatable -/
def osMakedirs : PathState → Except Exc Unit × PathState
  | .missing => (.ok (), .dir)
  | .dir => (.error (.osError (some Gen.EEXIST)), .dir)
  | .file => (.error (.osError (some Gen.EEXIST)), .file)

def osIsdir : PathState → Bool
  | .dir => true
  | _ => false

/-- os.unlink(path) (Linux: EISDIR on a directory) -/
def osUnlink : PathState → Except Exc Unit × PathState
  | .missing => (.error (.osError (some Gen.ENOENT)), .missing)
  | .file => (.ok (), .missing)
  | .dir => (.error (.osError (some Gen.EISDIR)), .dir)

def ensureTreeFS (st : PathState) : Except Exc Unit × PathState :=
  ((ensureTree (osMakedirs st).1 (osIsdir (osMakedirs st).2)), (osMakedirs st).2)

def deleteIfExistsFS (st : PathState) : Except Exc Unit × PathState :=
  (deleteIfExists (osUnlink st).1, (osUnlink st).2)

end Oslo.File
