/-
Every state reached from a fresh inspector by chunks that were processed normally satisfies the
boundary invariant `Good2`.  (Same facts as in Props/C03All.lean, restated under `lemma_loc_…`
names so that the C01 modules, which include Props/C01Slice.lean, can be imported together.)
-/
import OsloProofs.Lemmas.Locality
import OsloProofs.Props.C01Slice
namespace Oslo.Insp

theorem lemma_loc_mk_quiet : ∀ (t : List Gen.RegionSpec) (k : Nat), ∀ p ∈ mkRegions t k, p.2.endDone = false := by
  intro t
  induction t with
  | nil => intro k p hp; simp [mkRegions] at hp
  | cons e rest ih =>
    intro k p hp
    obtain ⟨n, off, len, ml, isEnd⟩ := e
    simp only [mkRegions, List.mem_cons] at hp
    rcases hp with rfl | hp
    · rfl
    · exact ih (k + 1) p hp

/-- a freshly initialised inspector of any of the ten formats is a fixpoint of post-processing
    (over the generated region tables) -/
theorem lemma_loc_init_fix (f : Fmt) (s0 : Insp) (h0 : Insp.init f = some s0) : postProcess s0 = (s0, none) := by
  unfold Insp.init at h0
  split at h0
  · simp at h0
  · simp only [Option.some.injEq] at h0
    subst h0
    cases f <;> decide

theorem lemma_loc_init_good2 (f : Fmt) (s0 : Insp) (h0 : Insp.init f = some s0) : Good2 s0 := by
  have hfix := lemma_loc_init_fix f s0 h0
  have hst := init_streamInv f s0 h0
  refine ⟨?_, ?_, hst.sinv, hst.bnd, hfix⟩
  · unfold Insp.init at h0
    split at h0
    · simp at h0
    · simp only [Option.some.injEq] at h0; subst h0; rfl
  · unfold Insp.init at h0
    split at h0
    · simp at h0
    · simp only [Option.some.injEq] at h0; subst h0; exact lemma_loc_mk_quiet _ 0

theorem lemma_loc_feed_good2 (chunks : List Bytes) : ∀ (s : Insp), Good2 s → (feed s chunks).2 = none →
    Good2 (feed s chunks).1 := by
  induction chunks with
  | nil => intro s hg _; exact hg
  | cons c cs ih =>
    intro s hg h
    simp only [feed] at h ⊢
    have hstep := lemma_eat_good s c hg
    cases he : eatChunk s c with
    | mk s1 e =>
      rw [he] at h hstep
      cases e with
      | some e => simp at h
      | none => exact ih s1 (hstep rfl) h

end Oslo.Insp
