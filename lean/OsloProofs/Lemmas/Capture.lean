/-
Helper lemmas about the capture engine (OsloModel/Capture.lean).
-/
import OsloModel.Capture
namespace Oslo.Insp

/-- the stream bytes a plain region is meant to hold -/
def sliceOf (p : Bytes) (off len : Nat) : Bytes := (p.drop off).take len

theorem lemma_take_take_append {α} (x c : List α) (L : Nat) :
    ((x.take L) ++ c).take L = (x ++ c).take L := by
  by_cases h : L ≤ x.length
  · rw [List.take_append_of_le_length (by simp; omega), List.take_append_of_le_length h, List.take_take]
    simp
  · have : x.take L = x := List.take_of_length_le (by omega)
    rw [this]

/-- one capture step of a plain region preserves "data is the stream slice" -/
theorem lemma_capture_step (r : Region) (p c : Bytes) (hEnd : r.isEnd = false)
    (h : r.data = sliceOf p r.offset r.length) :
    r.capture c (p.length + c.length) =
      { r with data := sliceOf (p ++ c) r.offset r.length } := by
  obtain ⟨rid, off, len, ml, data, isEnd, endDone⟩ := r
  simp only [sliceOf] at hEnd h ⊢
  subst hEnd h
  unfold Region.capture
  simp only [Bool.false_eq_true, if_false, Nat.add_sub_cancel]
  split
  · congr 1
    rw [List.drop_append]
    split
    · have : p.drop off = [] := List.drop_eq_nil_of_le (by omega)
      simp [this]
    · have : off - p.length = 0 := by omega
      simp [this, lemma_take_take_append]
  · congr 1
    rw [List.drop_append]
    by_cases h1 : p.length + c.length < off
    · have a : p.drop off = [] := List.drop_eq_nil_of_le (by omega)
      have b : c.drop (off - p.length) = [] := List.drop_eq_nil_of_le (by omega)
      simp [a, b]
    · have : off + len < p.length := by omega
      rw [List.take_append_of_le_length (by simp; omega)]

theorem lemma_sliceOf_prefix (p c : Bytes) (off len : Nat) :
    sliceOf p off len <+: sliceOf (p ++ c) off len := by
  simp only [sliceOf, List.drop_append, List.take_append]
  exact List.prefix_append _ _

theorem lemma_sliceOf_length (p : Bytes) (off len : Nat) :
    (sliceOf p off len).length = min len (p.length - off) := by
  simp [sliceOf]

theorem lemma_prefix_eq_of_length {α} {a b : List α} (h : a <+: b) (hl : b.length ≤ a.length) : a = b := by
  obtain ⟨t, rfl⟩ := h
  have : t = [] := by
    cases t with
    | nil => rfl
    | cons x t => simp at hl; omega
  simp [this]

/-- the invariant of a plain region after the prefix `p` has been streamed -/
def PlainInv (r : Region) (p : Bytes) : Prop :=
  r.data <+: sliceOf p r.offset r.length ∧
  (r.complete = false → r.data = sliceOf p r.offset r.length)

theorem lemma_plain_step (r : Region) (p c : Bytes) (hEnd : r.isEnd = false) (h : PlainInv r p) :
    let r' := if r.isEnd || !r.complete then r.capture c (p.length + c.length) else r
    PlainInv r' (p ++ c) ∧ r'.rid = r.rid ∧ r'.offset = r.offset ∧ r'.length = r.length ∧
      r'.minLength = r.minLength ∧ r'.isEnd = false ∧ r'.endDone = r.endDone := by
  obtain ⟨h1, h2⟩ := h
  cases hc : r.complete
  · have hd := h2 hc
    have := lemma_capture_step r p c hEnd hd
    simp only [hEnd, Bool.not_false, Bool.or_true, if_true, this]
    refine ⟨⟨List.prefix_refl _, fun _ => rfl⟩, ?_⟩
    simp
  · simp only [hEnd, Bool.not_true, Bool.or_self, Bool.false_eq_true, if_false]
    refine ⟨⟨List.IsPrefix.trans h1 (lemma_sliceOf_prefix p c _ _), fun h => ?_⟩, ?_⟩
    · simp [hc] at h
    · simp

theorem lemma_plain_feed (chunks : List Bytes) : ∀ (r : Region) (p : Bytes), r.isEnd = false → PlainInv r p →
    let r' := r.feed p.length chunks
    PlainInv r' (p ++ chunks.flatten) ∧ r'.rid = r.rid ∧ r'.offset = r.offset ∧ r'.length = r.length ∧
      r'.minLength = r.minLength ∧ r'.isEnd = false ∧ r'.endDone = r.endDone := by
  induction chunks with
  | nil => intro r p hEnd h; simpa [Region.feed] using ⟨h, hEnd⟩
  | cons c cs ih =>
    intro r p hEnd h
    obtain ⟨hinv, e1, e2, e3, e4, e5, e6⟩ := lemma_plain_step r p c hEnd h
    have := ih _ (p ++ c) e5 hinv
    simp only [Region.feed, List.flatten_cons, ← List.append_assoc]
    simp only [List.length_append] at this
    obtain ⟨a, b1, b2, b3, b4, b5, b6⟩ := this
    exact ⟨a, b1.trans e1, b2.trans e2, b3.trans e3, b4.trans e4, b5, b6.trans e6⟩

/-! ### end-capture regions -/

theorem lemma_lastN_lastN (n : Nat) (a c : Bytes) : lastN n (lastN n a ++ c) = lastN n (a ++ c) := by
  unfold lastN
  split
  · rfl
  · rename_i hn
    by_cases h : a.length ≤ n
    · have : a.drop (a.length - n) = a := by
        have : a.length - n = 0 := by omega
        simp [this]
      rw [this]
    · have h1 : (a.drop (a.length - n)).length = n := by simp; omega
      rw [List.drop_append, List.drop_append]
      simp only [List.length_append, h1]
      have e1 : n + c.length - n = c.length := by omega
      have e2 : a.length + c.length - n - a.length = c.length - n := by omega
      have e3 : c.length - (a.length - (a.length - n)) = c.length - n := by omega
      simp only [e1, e2, List.drop_drop]
      congr 1
      all_goals (try (congr 1; omega))

theorem lemma_lastN_length (n : Nat) (hn : 0 < n) (a : Bytes) : (lastN n a).length = min n a.length := by
  unfold lastN
  split
  · omega
  · simp; omega

/-- feeding an end-capture region keeps exactly the last `length` bytes of the stream -/
theorem lemma_end_feed (chunks : List Bytes) : ∀ (r : Region) (p : Bytes), r.isEnd = true →
    r.data = lastN r.length p →
    let r' := r.feed p.length chunks
    r'.data = lastN r.length (p ++ chunks.flatten) ∧ r'.length = r.length ∧ r'.isEnd = true ∧
    r'.endDone = r.endDone ∧ r'.minLength = r.minLength ∧ r'.rid = r.rid ∧
    (chunks ≠ [] → r'.offset = (p ++ chunks.flatten).length - r'.data.length) := by
  induction chunks with
  | nil => intro r p hEnd h; simp [Region.feed, h, hEnd]
  | cons c cs ih =>
    intro r p hEnd h
    simp only [Region.feed, hEnd, Bool.true_or, if_true]
    have hcap : (r.capture c (p.length + c.length)) =
        { r with data := lastN r.length (p ++ c),
                 offset := (p.length + c.length) - (lastN r.length (p ++ c)).length } := by
      unfold Region.capture
      simp only [hEnd, if_true, h, lemma_lastN_lastN]
    rw [hcap]
    have := ih { r with data := lastN r.length (p ++ c),
                        offset := (p.length + c.length) - (lastN r.length (p ++ c)).length } (p ++ c)
      hEnd rfl
    simp only [List.length_append] at this
    obtain ⟨a1, a2, a3, a4, a5, a6, a7⟩ := this
    simp only [List.flatten_cons, ← List.append_assoc]
    refine ⟨a1, a2, a3, a4, a5, a6, fun _ => ?_⟩
    cases cs with
    | nil => simp [Region.feed]
    | cons d ds =>
      have := a7 (by simp)
      simp only [List.length_append] at this ⊢
      rw [this]

end Oslo.Insp
