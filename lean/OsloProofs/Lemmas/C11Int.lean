/-
Helper lemmas for C11: the model of Python `int(str)`.
-/
import OsloProofs.Lemmas.C11V4
namespace Oslo.Net

/-- the strict prefix grammar `[0-9]+` -/
def StrictDec (p : List Char) : Prop := p ≠ [] ∧ ∀ c ∈ p, isDigit c = true

/-- characters an `int()` literal can be made of -/
def IntChar (c : Char) : Prop :=
  isIntSpace c = true ∨ c = '+' ∨ c = '-' ∨ c = '_' ∨ (decDigit c).isSome = true

theorem lemma_digit_facts (c : Char) (h : isDigit c = true) :
    isIntSpace c = false ∧ c ≠ '-' ∧ c ≠ '+' ∧ c ≠ '_' ∧ decDigit c = some (digitVal c) := by
  obtain ⟨x, hx, rfl⟩ := lemma_isDigit_dig c h
  have : x = 0 ∨ x = 1 ∨ x = 2 ∨ x = 3 ∨ x = 4 ∨ x = 5 ∨ x = 6 ∨ x = 7 ∨ x = 8 ∨ x = 9 := by omega
  rcases this with h | h | h | h | h | h | h | h | h | h <;> subst h <;> decide

theorem lemma_intBody_digits (cs : List Char) (h : ∀ c ∈ cs, isDigit c = true) (acc n : Nat) :
    intBody acc n cs = some (cs.foldl (fun a c => a * 10 + digitVal c) acc, n + cs.length, []) := by
  induction cs generalizing acc n with
  | nil => simp [intBody]
  | cons c cs ih =>
    have hc := lemma_digit_facts c (h c (by simp))
    unfold intBody
    rw [if_neg hc.2.2.2.1, hc.2.2.2.2]
    simp only
    rw [ih (fun x hx => h x (by simp [hx]))]
    simp; omega

/-- on the strict grammar `[0-9]+` (within the digit limit) `int()` is the decimal value -/
theorem lemma_pyInt_strict (p : List Char) (h : StrictDec p)
    (hlen : Gen.maxStrDigits = 0 ∨ p.length ≤ Gen.maxStrDigits) : pyInt p = some (decVal p : Nat) := by
  obtain ⟨hne, hd⟩ := h
  match p, hne with
  | c :: cs, _ =>
    have hc := lemma_digit_facts c (hd c (by simp))
    have hb := lemma_intBody_digits cs (fun x hx => hd x (by simp [hx])) (digitVal c) 1
    unfold pyInt
    simp only [List.dropWhile, hc.1, intSign, if_neg hc.2.1, if_neg hc.2.2.1, hc.2.2.2.2, hb]
    have : ¬ (Gen.maxStrDigits > 0 ∧ 1 + cs.length > Gen.maxStrDigits) := by
      simp at hlen; omega
    simp [decVal, this]

/-- what `intBody` reads is digits and underscores; the rest is returned unread -/
theorem lemma_intBody_chars (cs : List Char) (acc n : Nat) : ∀ (v m : Nat) (rest : List Char),
    intBody acc n cs = some (v, m, rest) →
    ∃ body, cs = body ++ rest ∧ ∀ c ∈ body, IntChar c := by
  fun_induction intBody acc n cs with
  | case1 => intro v m rest h; simp at h; exact ⟨[], by simp [h]⟩
  | case2 => intro v m rest h; cases h
  | case3 acc n c cs z hz ih =>
    intro v m rest h
    obtain ⟨body, e, hb⟩ := ih v m rest h
    refine ⟨'_' :: c :: body, by simp [e], ?_⟩
    intro x hx
    simp at hx
    rcases hx with rfl | rfl | hx
    · simp [IntChar]
    · simp [IntChar, hz]
    · exact hb x hx
  | case4 => intro v m rest h; cases h
  | case5 acc n c cs hc z hz ih =>
    intro v m rest h
    obtain ⟨body, e, hb⟩ := ih v m rest h
    refine ⟨c :: body, by simp [e], ?_⟩
    intro x hx
    simp at hx
    rcases hx with rfl | hx
    · simp [IntChar, hz]
    · exact hb x hx
  | case6 acc n c cs hc hz =>
    intro v m rest h; simp at h; exact ⟨[], by simp [h]⟩

theorem lemma_mem_takeWhile (p : Char → Bool) (l : List Char) (c : Char) (h : c ∈ l.takeWhile p) :
    p c = true := by
  induction l with
  | nil => simp at h
  | cons x xs ih =>
    simp only [List.takeWhile] at h
    split at h
    · simp at h; rcases h with rfl | h
      · assumption
      · exact ih h
    · simp at h

theorem lemma_dropWhile_nil (p : Char → Bool) (l : List Char) (h : l.dropWhile p = []) :
    ∀ c ∈ l, p c = true := by
  induction l with
  | nil => simp
  | cons x xs ih =>
    simp only [List.dropWhile] at h
    split at h
    · intro c hc; simp at hc; rcases hc with rfl | hc
      · assumption
      · exact ih h c hc
    · cases h

theorem lemma_dropWhile_split (p : Char → Bool) (l : List Char) :
    ∃ pre, l = pre ++ l.dropWhile p ∧ ∀ c ∈ pre, p c = true :=
  ⟨l.takeWhile p, (List.takeWhile_append_dropWhile).symm, fun c hc => lemma_mem_takeWhile p l c hc⟩

theorem lemma_intSign_split (s1 : List Char) :
    ∃ sg, s1 = sg ++ (intSign s1).2 ∧ ∀ c ∈ sg, IntChar c := by
  unfold intSign
  match s1 with
  | [] => exact ⟨[], by simp⟩
  | c :: r =>
    by_cases h1 : c = '-'
    · subst h1; exact ⟨['-'], by simp [IntChar]⟩
    · by_cases h2 : c = '+'
      · subst h2; exact ⟨['+'], by simp [IntChar]⟩
      · exact ⟨[], by simp [h1, h2]⟩

/-- every character of a text `int()` accepts is white space, a sign, an underscore or a decimal digit -/
theorem lemma_pyInt_chars (s : List Char) (n : Int) (h : pyInt s = some n) : ∀ c ∈ s, IntChar c := by
  obtain ⟨pre, e1, hpre⟩ := lemma_dropWhile_split isIntSpace s
  obtain ⟨sg, e2, hsg⟩ := lemma_intSign_split (s.dropWhile isIntSpace)
  simp only [pyInt] at h
  cases hs2 : (intSign (s.dropWhile isIntSpace)).2 with
  | nil => simp [hs2] at h
  | cons c cs =>
    simp only [hs2] at h
    cases hd : decDigit c with
    | none => simp [hd] at h
    | some d =>
      simp only [hd] at h
      cases hb : intBody d 1 cs with
      | none => simp [hb] at h
      | some r =>
        obtain ⟨v, m, rest⟩ := r
        simp only [hb] at h
        obtain ⟨body, e3, hbody⟩ := lemma_intBody_chars cs d 1 v m rest hb
        have hrest : ∀ x ∈ rest, isIntSpace x = true := by
          split at h
          · cases h
          · rename_i hr
            simp at hr
            intro x hx
            exact lemma_dropWhile_nil isIntSpace rest hr x hx
        intro x hx
        rw [e1, e2, hs2, e3] at hx
        simp at hx
        rcases hx with hx | hx | rfl | hx | hx
        · exact Or.inl (hpre x hx)
        · exact hsg x hx
        · simp [IntChar, hd]
        · exact hbody x hx
        · exact Or.inl (hrest x hx)

theorem lemma_pyInt_notin (s : List Char) (x : Char) (hx : ¬ IntChar x) (hm : x ∈ s) : pyInt s = none := by
  cases h : pyInt s with
  | none => rfl
  | some n => exact absurd (lemma_pyInt_chars s n h x hm) hx

theorem lemma_slash_not_intChar : ¬ IntChar '/' := by unfold IntChar; decide
theorem lemma_nul_not_intChar : ¬ IntChar nul := by unfold IntChar; decide

end Oslo.Net
