"""C19 - path and list splitting honour their contracts for every input."""
import itertools
import re
import time

import common
from common import Disagreement, Failure, req, hexs

ID = 'C19'
DRIVER = 'drv_C19'
PROOF_MODULES = ['OsloProofs.Props.C19']
LEVEL = 'proof'
RULE = ('split_path: every path of 0..5 (quick) / 0..7 (thorough) segments over {plain, empty, dotted, spaced} x '
        'leading slash x trailing slash x minsegs 1..4 x maxsegs {None, 0, min-1..min+2} x rest_with_last, plus random '
        'paths (also minsegs 0, non-ASCII); a case is non-trivial when both entry guards pass (minsegs <= maxsegs and a '
        'leading slash) so that the segment logic decides; distinct by (path, minsegs, maxsegs, flag). '
        'split_by_commas: every string up to a length over the alphabet {", comma, backslash, space, a, 3, x}, item lists '
        'of length 1..5 over printable ASCII (and a few control / non-ASCII characters) encoded bare / quoted / padded, '
        'mutations of such strings, and raw random strings; non-trivial when the string contains a quote, comma, '
        'backslash or whitespace; distinct by the string. Also str.split and str.expandtabs against their models. '
        'Added families (both in the correspondence and in the search): every blank / control character (LF, CR, CRLF, TAB, VT, '
        'FF, FS-US, NEL, LS, PS, NBSP, ideographic space, BOM, NUL, ...) at each structural position of a path (before the '
        'leading slash, start/end/whole of a segment, end of path, before/after the trailing slash) x all argument '
        'combinations, and at the edges of items / around written items; long inputs (segments, segment counts and items of '
        '1000..70000 characters, bare and quoted, at every list position). Call sequences (kind seq): call, change the returned '
        'list in place (each of 18 list operations), call again with the same / an equal distinct argument object, for '
        'fixed and random argument tuples (paths shared across different minsegs/maxsegs/flag); every call must give the '
        'model answer and a list object no earlier call returned; failures are confirmed in a fresh interpreter. Calling '
        'convention: the pinned signatures split_path(path, minsegs=1, maxsegs=None, rest_with_last=False) and '
        'split_by_commas(value) are data in the harness; every case is called in one of the legal forms of its logical '
        'arguments (positional prefix 0..4, the rest by keyword in every order, defaults also omitted), cycling over the '
        'whole grid, plus all forms for every argument tuple of a small grid; the model always gets the logical arguments.')
TRUSTED_BASE = [
    'Lean 4 kernel; axioms audited per theorem (subset of propext, Classical.choice, Quot.sound)',
    'hand-written model OsloModel/Split.lean (split_path transcription; Python str.split / join / expandtabs; hand parser '
    'for the pyparsing grammar of split_by_commas), tied to strutils by this correspondence',
    'pyparsing itself (QuotedString regex and un-quoting pass, Word, delimitedList, stringEnd, whitespace skipping, '
    'expandtabs in parse_string) is modelled, not verified: the hand parser reproduces pyparsing 3.x behaviour',
]
UNMODELLED = [
    'negative or non-integer minsegs/maxsegs, non-str path (bytes)',
    'lone surrogates in str (not representable as Lean Char)',
    'the text of the ValueError message (urllib.parse.quote of the path)',
]
ASSUMPTIONS = [
    'minsegs is a non-negative int and maxsegs is None or a non-negative int',
    'split_path_eq_spec and its corollaries are stated for minsegs >= 1 (the property quantifies over minsegs 1..4)',
    'split_commas_roundtrip: items contain no TAB, LF, CR (a superset of printable ASCII); item list non-empty',
]

# ---------------------------------------------------------------------------
# implementation runners / canonical forms


def amb(ctx):
    """name of the ambient configuration in a child of the sweep, None in the main run"""
    return getattr(ctx, 'ambient', None)


def budget(ctx, n, div=4):
    """random-stream budget: a quarter in a child of the ambient sweep (11 children run per check); an eighth for the
    split_by_commas streams, whose calls cost ~0.5 ms each (the grammar is rebuilt on every call)"""
    return max(1, n // div) if amb(ctx) else n


def thin(ctx, stream, div=4):
    """enumerated families: in a child every 4th (8th) case, starting at an offset that depends on the configuration, so
    the children together still cover the enumeration and every family / call form is represented in each"""
    if not amb(ctx):
        return stream
    return itertools.islice(stream, sum(map(ord, amb(ctx))) % div, None, div)


# The pinned public signatures (clean tree, written down here as data - not read from the tree under test).
REQ = '<required>'
SIGNATURES = {
    'split_path': [['path', REQ], ['minsegs', 1], ['maxsegs', None], ['rest_with_last', False]],
    'split_by_commas': [['value', REQ]],
}
_FORMS_CACHE = {}


def same_value(a, b):
    return a is b or (type(a) is type(b) and a == b)


def legal_forms(fname, logical):
    """Every legal way of passing the logical arguments: the first `pos` positionally, the others by keyword in every
    order, a parameter whose logical value is its default also omitted.  form = {'pos': n, 'kw': [names in order]}."""
    sig = SIGNATURES[fname]
    mask = tuple(p[1] is not REQ and same_value(v, p[1]) for p, v in zip(sig, logical))
    key = (fname, mask)
    if key not in _FORMS_CACHE:
        forms, n = [], len(sig)
        for npos in range(n, -1, -1):
            rest = list(range(npos, n))
            optional = [i for i in rest if mask[i]]
            for k in range(len(optional) + 1):
                for omitted in itertools.combinations(optional, k):
                    kws = [i for i in rest if i not in omitted]
                    for perm in itertools.permutations(kws):
                        forms.append({'pos': npos, 'kw': [sig[i][0] for i in perm]})
        _FORMS_CACHE[key] = forms
    return _FORMS_CACHE[key]


def balanced_forms(fname, logical):
    """the legal forms arranged so that cycling through them uses every length of positional prefix equally often"""
    key = ('balanced', fname) + tuple(p[1] is not REQ and same_value(v, p[1]) for p, v in zip(SIGNATURES[fname], logical))
    if key not in _FORMS_CACHE:
        groups = {}
        for f in legal_forms(fname, logical):
            groups.setdefault(f['pos'], []).append(f)
        longest = max(len(g) for g in groups.values())
        _FORMS_CACHE[key] = [groups[k][j % len(groups[k])] for j in range(longest) for k in sorted(groups)]
    return _FORMS_CACHE[key]


def call_form(fn, fname, logical, form):
    if not form:
        return fn(*logical)
    names = [p[0] for p in SIGNATURES[fname]]
    kwargs = {}
    for k in form['kw']:
        kwargs[k] = logical[names.index(k)]
    return fn(*logical[:form['pos']], **kwargs)


def call_text(fname, logical, form):
    names = [p[0] for p in SIGNATURES[fname]]
    if not form:
        form = {'pos': len(logical), 'kw': []}
    parts = [short(v, 60) if isinstance(v, str) else repr(v) for v in logical[:form['pos']]]
    parts += ['%s=%s' % (k, short(logical[names.index(k)], 60) if isinstance(logical[names.index(k)], str)
                         else repr(logical[names.index(k)])) for k in form['kw']]
    return '%s(%s)' % (fname, ', '.join(parts))


def logical_args(case):
    if case['kind'] == 'path':
        return 'split_path', [case['path'], case['minsegs'], case['maxsegs'], case['rest_with_last']]
    return 'split_by_commas', [case['value']]


def with_forms(stream, start=0):
    """Give every path / commas case of a stream a call form, cycling through the legal forms of its arguments."""
    i = start
    for case, tag in stream:
        if case.get('kind') in ('path', 'commas') and 'form' not in case:
            fname, logical = logical_args(case)
            forms = balanced_forms(fname, logical)
            case['form'] = forms[i % len(forms)]
            i += 1
        yield case, tag


def gen_all_forms_cases(quick):
    """every legal call form for every argument tuple of a small grid (both functions)"""
    for path, _ in gen_paths_exhaustive(1 if quick else 2):
        for mn in (1, 2, 3, 4):
            for mx in maxsegs_choices(mn):
                for rwl in (False, True):
                    for form in legal_forms('split_path', [path, mn, mx, rwl]):
                        yield ({'kind': 'path', 'path': path, 'minsegs': mn, 'maxsegs': mx, 'rest_with_last': rwl,
                                'form': form}, 'call-forms')
    for v in ['a,b', '"a,b",c', 'x', '"', 'a,,b', '', ' a , "b c" ', '"\\"q\\""', 'a b']:
        for form in legal_forms('split_by_commas', [v]):
            yield {'kind': 'commas', 'value': v, 'form': form}, 'call-forms'


def enc_segs(segs):
    return 'ok:' + ','.join('N' if s is None else hexs(s) for s in segs)


def impl_path(path, mn, mx, rwl, form=None):
    from oslo_utils import strutils
    try:
        r = call_form(strutils.split_path, 'split_path', [path, mn, mx, rwl], form)
    except ValueError:
        return 'ValueError'
    except Exception as e:       # reported verbatim
        return type(e).__name__
    if type(r) is not list:      # documented return type: a list (indexable, len(), iterable any number of times)
        return 'not-a-list:%s' % type(r).__name__
    return enc_segs(r)


def impl_commas(value, form=None):
    from oslo_utils import strutils
    try:
        r = call_form(strutils.split_by_commas, 'split_by_commas', [value], form)
    except ValueError:
        return 'ValueError'
    except Exception as e:
        return type(e).__name__
    if type(r) is not list:
        return 'not-a-list:%s' % type(r).__name__
    if not all(isinstance(x, str) for x in r):
        return 'non-str-items:%r' % (r,)
    return 'ok:' + ','.join(hexs(x) for x in r)


def line_of(case):
    k = case['kind']
    if k == 'path':
        return req('path', hexs(case['path']), case['minsegs'],
                   'N' if case['maxsegs'] is None else case['maxsegs'], 1 if case['rest_with_last'] else 0)
    if k == 'commas':
        return req('commas', hexs(case['value']))
    if k == 'split':
        return req('split', hexs(case['s']), case['n'])
    if k == 'tabs':
        return req('tabs', hexs(case['s']))
    raise ValueError(k)


def impl_of(case):
    k = case['kind']
    if k == 'path':
        return impl_path(case['path'], case['minsegs'], case['maxsegs'], case['rest_with_last'], case.get('form'))
    if k == 'commas':
        return impl_commas(case['value'], case.get('form'))
    if k == 'split':
        return ','.join(hexs(x) for x in case['s'].split('/', case['n']))
    if k == 'tabs':
        return hexs(case['s'].expandtabs())
    raise ValueError(k)


# ---------------------------------------------------------------------------
# generators

SEG_KINDS = {'plain': 'ab', 'empty': '', 'dotted': '..', 'spaced': 'a b'}
SEG_ALTS = {'plain': ['a', 'ab', 'x1', 'Z'], 'empty': [''], 'dotted': ['.', '..', 'a.b'], 'spaced': [' ', 'a b', ' a'],
            'blank': ['\n', 'a\n', '\ra', '\r\n', '\t', 'a\x0b', '\x0c', '\x1f', '\x85', '\xa0b', '\u2028', 'a b\n']}


def maxsegs_choices(mn):
    out = [None, 0]
    for v in range(mn - 1, mn + 3):
        if v >= 0 and v not in out:
            out.append(v)
    return out


def gen_paths_exhaustive(nmax):
    kinds = sorted(SEG_KINDS)
    for n in range(0, nmax + 1):
        for combo in itertools.product(kinds, repeat=n):
            body = '/'.join(SEG_KINDS[k] for k in combo)
            for lead in ('/', ''):
                for trail in ('', '/'):
                    yield lead + body + trail, n


def gen_path_cases_exhaustive(nmax):
    for path, n in gen_paths_exhaustive(nmax):
        for mn in (1, 2, 3, 4):
            for mx in maxsegs_choices(mn):
                for rwl in (False, True):
                    yield {'kind': 'path', 'path': path, 'minsegs': mn, 'maxsegs': mx, 'rest_with_last': rwl}, 'exh/%d' % n


PATH_ALPHA = ['/', '/', '/', 'a', 'b', '.', ' ', '\u00e9', '%', '\t', '\U0001f600', '//', '\n', '\r', '\x0b', '\x0c', '\x85',
              '\xa0', '\u2028', '\x1c', '\x00']


def gen_path_random(rng):
    n = rng.randrange(0, 9)
    if rng.random() < 0.6:
        segs = [rng.choice(SEG_ALTS[rng.choice(sorted(SEG_ALTS))]) for _ in range(n)]
        path = (rng.choice(['/', '/', '/', '', '//', '\n/', ' /']) + '/'.join(segs) +
                rng.choice(['', '', '/', '//', '\n', '\r\n', '/\n', '\t', ' ', '/\x0c', '\x85']))
    else:
        path = ''.join(rng.choice(PATH_ALPHA) for _ in range(rng.randrange(0, 14)))
    mn = rng.randrange(0, 6)
    mx = rng.choice([None, 0] + list(range(0, 9)))
    return {'kind': 'path', 'path': path, 'minsegs': mn, 'maxsegs': mx, 'rest_with_last': rng.random() < 0.5}


# Characters that some "normalisation" (strip / rstrip / splitlines / isspace) would treat as blank: ASCII control
# whitespace, the C1 NEL, Unicode line/paragraph separators, NBSP and friends, plus NUL.  None of them is special
# to split_path (only '/' is) and only " \t\n\r" are skipped by the split_by_commas grammar.
BLANKS = ['\n', '\r', '\r\n', '\n\n', '\t', '\x0b', '\x0c', '\x1c', '\x1d', '\x1e', '\x1f', '\x85', '\u2028',
          '\u2029', '\xa0', ' ', '  ', '\u3000', '\u2003', '\ufeff', '\x00', ' \n']
LONG_LENGTHS = [1000, 1023, 1024, 1025, 1026, 2048, 4096, 4097, 65536, 70000]


def path_edge_templates(segs, w):
    """Paths built from plain segments with the blank string `w` at every structural position."""
    body = '/'.join(segs)
    out = [
        w + '/' + body,                 # before the leading slash
        '/' + w + body,                 # start of the first segment
        '/' + body + w,                 # end of the last segment = end of the path
        '/' + body + '/' + w,           # whole extra segment / after the trailing slash
        '/' + body + w + '/',           # before the trailing slash
        '/' + body + '/' + w + '/',     # whole segment followed by a trailing slash
        '/' + body + w + w,             # a run at the end
        '/' + w,                        # the only segment
        '/' + w + '/',
        w,                              # no slash at all
        '/' + w + '/' + body,           # whole first segment
        '/' + segs[0] + w + '/' + body,     # end of an inner segment
        '/' + segs[0] + '/' + w + body,     # start of an inner segment
        '/' + segs[0] + '/' + w + '/' + body,   # whole inner segment
    ]
    return out


def gen_path_edge_cases(quick):
    bodies = [['a'], ['a', 'c']] if quick else [['a'], ['a', 'c'], ['a', 'c', 'o'], ['ab', '..', 'c d', 'e']]
    seen = set()
    for w in BLANKS:
        for segs in bodies:
            for path in path_edge_templates(segs, w):
                if path in seen:
                    continue
                seen.add(path)
                for mn in (1, 2, 3, 4):
                    for mx in maxsegs_choices(mn):
                        for rwl in (False, True):
                            yield ({'kind': 'path', 'path': path, 'minsegs': mn, 'maxsegs': mx, 'rest_with_last': rwl},
                                   'blank-edges')


def long_text(rng, n, alphabet):
    """n characters over the alphabet: a random block of 97 characters repeated (cheap to build at 70000)"""
    if n <= 200:
        return ''.join(rng.choice(alphabet) for _ in range(n))
    block = ''.join(rng.choice(alphabet) for _ in range(97))
    return (block * (n // 97 + 1))[:n]


def gen_path_long_cases(rng):
    """Very long segments / very many segments (nothing in the contract depends on length)."""
    for n in LONG_LENGTHS:
        seg = long_text(rng, n, 'abcXYZ019._-%')
        for path, mn, mx, rwl in [('/' + seg, 1, None, False), ('/a/' + seg, 1, 2, False), ('/' + seg + '/', 1, None, False),
                                  ('/a/b/' + seg + '/' + seg, 2, 3, True), ('/' + seg + '//x', 1, 3, False),
                                  (seg, 1, None, False), ('/' + '/'.join(['s'] * n), 2, n, False),
                                  ('/' + '/'.join(['s'] * n), 2, 3, True), ('/' + '/'.join(['s'] * n), 2, 3, False)]:
            yield {'kind': 'path', 'path': path, 'minsegs': mn, 'maxsegs': mx, 'rest_with_last': rwl}, 'long'


BARE_ALPHA = list('abcxyzABC0123456789') + list("!#$%&'()*+-./:;<=>?@[]^_`{|}~")


def gen_long_items(rng, quick):
    """Item lists of length 1..5 with one long item (bare = only word characters, so written unquoted; spaced /
    quoting = needs quotes), at every position; plus lengths spread between 100 and 5000."""
    lengths = LONG_LENGTHS if not quick else [1000, 1024, 1025, 4096, 70000]
    kinds = {'bare': BARE_ALPHA, 'spaced': BARE_ALPHA + [' ', ' '], 'quoting': BARE_ALPHA + ['"', ',', '\\', ' ']}
    for n in lengths:
        for kname in sorted(kinds):
            big = long_text(rng, n, kinds[kname])
            for items in ([big], [big, 'b'], ['a', big], ['a', big, 'c d', '', 'e']):
                yield items, 'long/%s' % kname
    for _ in range(40 if quick else 400):
        n = int(100 * (50 ** rng.random()))
        kname = rng.choice(sorted(kinds))
        items = gen_items(rng)
        items[rng.randrange(len(items))] = long_text(rng, n, kinds[kname])
        yield items, 'long/%s' % kname


def gen_blank_items(rng):
    """Items whose first / last / only characters are blanks: they must come back unchanged (TAB, LF, CR inside an
    item are outside the round trip and are judged by the grammar oracle instead)."""
    for w in BLANKS:
        for items in ([w], [w + 'a'], ['a' + w], [w + 'a' + w, 'b'], ['a', w], ['a' + w + 'b', w + w]):
            yield items


def gen_blank_values():
    """Raw strings: a blank before / after / between the written items, outside any quotes."""
    for w in BLANKS:
        for v in (w + 'a', 'a' + w, w + '"a"', '"a"' + w, 'a,' + w + 'b', 'a' + w + ',b', 'a,b' + w, w + 'a,b',
                  '"a",' + w + '"b"' + w, w, 'a' + w + 'b', '"a' + w + '"'):
            yield v


SMALL_ALPHA = ['"', ',', '\\', ' ', 'a', '3', 'x']
ITEM_ALPHA = (['"', ',', '\\', ' ', ' '] * 3 + list('abcxyzABC') + list('0123456789') + list('tnfrxu') * 2 +
              list("!#$%&'()*+-./:;<=>?@[]^_`{|}~"))
EXOTIC = ['\t', '\n', '\r', '\x0b', '\x0c', '\x00', '\x7f', '\u00e9', '\u00a0', '\u2003', '\U0001f600']
WORD_RE = re.compile(r'[!#-+\--~]+\Z')


def py_escape(item):
    return item.replace('\\', '\\\\').replace('"', '\\"')


def py_quote(item):
    return '"' + py_escape(item) + '"'


def py_needs_quote(item):
    return item == '' or not WORD_RE.match(item) or '\\' in item


def py_quote_if_needed(item):
    return py_quote(item) if py_needs_quote(item) else item


def gen_item(rng, exotic=0.0):
    n = rng.choice([0, 1, 1, 2, 2, 3, 3, 4, 5, 6, 8])
    out = []
    for _ in range(n):
        if exotic and rng.random() < exotic:
            out.append(rng.choice(EXOTIC))
        else:
            out.append(rng.choice(ITEM_ALPHA))
    return ''.join(out)


def gen_items(rng, exotic=0.0):
    return [gen_item(rng, exotic) for _ in range(rng.randrange(1, 6))]


def ws(rng):
    return ''.join(rng.choice(' \t\n\r ') for _ in range(rng.choice([0, 0, 0, 1, 1, 2])))


def encode_items(rng, items, style):
    """style: canon (quoteIfNeeded, no padding) | allq (all quoted) | padded (random whitespace around items)"""
    parts = []
    for it in items:
        if style == 'allq' or (style == 'padded' and rng.random() < 0.3):
            e = py_quote(it)
        else:
            e = py_quote_if_needed(it)
        if style == 'padded':
            e = ws(rng) + e + ws(rng)
        parts.append(e)
    return ','.join(parts)


def mutate(rng, s):
    ops = rng.randrange(1, 3)
    for _ in range(ops):
        k = rng.randrange(6)
        pos = rng.randrange(0, len(s) + 1)
        if k == 0 and s:
            pos = min(pos, len(s) - 1)
            s = s[:pos] + s[pos + 1:]
        elif k == 1:
            s = s[:pos] + rng.choice(['"', '"', ',', '\\', ' ', '\n', '\t', 'a', '\r']) + s[pos:]
        elif k == 2:
            s = s[:pos]
        elif k == 3:
            s = s[:pos] + ',' + ws(rng) + ',' + s[pos:]
        elif k == 4:
            s = s[pos:]
        else:
            s = s[:pos] + rng.choice(['"x"', 'y', '""', '\\"', '\\x42', '\\03', '\\0', '\\u84', '\\t']) + s[pos:]
    return s


def malformed_by_construction(rng):
    """(value, why) that the property says must be rejected"""
    pre = gen_items(rng)[:rng.randrange(0, 3)]
    prefix = ''.join(py_quote_if_needed(i) + ',' for i in pre)
    k = rng.randrange(5)
    if k == 0:      # unbalanced: opening quote, every later quote escaped, no closing quote
        return prefix + '"' + py_escape(gen_item(rng)), 'unbalanced quote'
    if k == 1:      # text after the closing quote
        c = rng.choice(list('abc"\\x!') + ['"b"'])
        return prefix + py_quote(gen_item(rng)) + rng.choice(['', ' ', '  ']) + c + rng.choice(['', ',z', 'q']), 'text after closing quote'
    if k == 2:      # empty unquoted item
        tail = rng.choice(['', ',' + py_quote_if_needed(gen_item(rng)), ',', ' , '])
        return prefix + rng.choice(['', ' ', '  ']) + tail, 'empty unquoted item'
    if k == 3:      # quote inside / right after a bare word
        w = ''.join(rng.choice('abcxyz019\\') for _ in range(rng.randrange(1, 4)))
        return prefix + w + '"' + rng.choice(['', 'b"', '"', 'b']), 'quote after bare word'
    # two words separated by a space only
    return prefix + 'a' + rng.choice([' ', '  ']) + rng.choice(['b', '"b"']), 'missing comma'


def gen_commas_cases(ctx):
    rng = ctx.rng
    nmax = 4 if ctx.quick else 6
    for t in thin(ctx, (t for n in range(0, nmax + 1) for t in itertools.product(SMALL_ALPHA, repeat=n)), 8):
        yield {'kind': 'commas', 'value': ''.join(t)}, 'exh<=%d' % nmax
    for _ in range(budget(ctx, 6000 if ctx.quick else 60000, 8)):
        style = rng.choice(['canon', 'canon', 'allq', 'padded'])
        items = gen_items(rng, exotic=0.05 if rng.random() < 0.3 else 0.0)
        yield {'kind': 'commas', 'value': encode_items(rng, items, style), 'items': items, 'style': style}, 'items/' + style
    for _ in range(budget(ctx, 4000 if ctx.quick else 40000, 8)):
        if rng.random() < 0.5:
            v = mutate(rng, encode_items(rng, gen_items(rng), rng.choice(['canon', 'allq', 'padded'])))
            yield {'kind': 'commas', 'value': v}, 'mutated'
        else:
            v, why = malformed_by_construction(rng)
            yield {'kind': 'commas', 'value': v, 'expect': 'ValueError', 'why': why}, 'malformed'
    esc = ['\\', '\\', '\\', 'x', 'u', '0', '3', '7', '2', '4', 'a', 'F', 't', 'n', 'g', '9', '"', ' ']
    for _ in range(budget(ctx, 3000 if ctx.quick else 30000, 8)):
        body = ''.join(rng.choice(esc) for _ in range(rng.randrange(0, 9)))
        yield {'kind': 'commas', 'value': rng.choice(['', 'a,', ' ']) + '"' + body + '"' + rng.choice(['', '', ',b'])}, 'escapes'
    for items, tag in thin(ctx, gen_long_items(rng, ctx.quick)):
        for style in ('canon', 'allq'):
            yield {'kind': 'commas', 'value': encode_items(rng, items, style), 'items': items, 'style': style}, tag
    for items in gen_blank_items(rng):
        yield {'kind': 'commas', 'value': encode_items(rng, items, 'canon'), 'items': items, 'style': 'canon'}, 'blank-items'
    for v in gen_blank_values():
        yield {'kind': 'commas', 'value': v}, 'blank-values'
    raw = ['"', '"', ',', '\\', '\\', ' ', 'a', 'b', 't', 'n', 'x', 'u', '0', '3', '4', '2', '7', 'f', '\n', '\t', '\r', '\u00e9', '\x0b']
    for _ in range(budget(ctx, 4000 if ctx.quick else 40000, 8)):
        yield {'kind': 'commas', 'value': ''.join(rng.choice(raw) for _ in range(rng.randrange(0, 11)))}, 'raw'


def gen_prim_cases(ctx):
    rng = ctx.rng
    for _ in range(budget(ctx, 2000 if ctx.quick else 30000)):
        s = ''.join(rng.choice('//ab. \u00e9') for _ in range(rng.randrange(0, 10)))
        yield {'kind': 'split', 's': s, 'n': rng.randrange(0, 9)}, 'str.split'
    for _ in range(budget(ctx, 1000 if ctx.quick else 15000)):
        s = ''.join(rng.choice('\t\t\n\rab" \u00e9\u0301') for _ in range(rng.randrange(0, 22)))
        yield {'kind': 'tabs', 's': s}, 'str.expandtabs'


FEATURES = [('escaped-quote-or-backslash', re.compile(r'\\["\\]')), ('control-escape', re.compile(r'\\[tnfr]')),
            ('numeric-escape', re.compile(r'\\(?:[0-7]3|0|x[0-9a-fA-F]2|u[0-9a-fA-F]4)')),
            ('other-escape', re.compile(r'\\[^"\\tnfr0-7xu]')), ('quoted-comma', re.compile(r'"[^"]*,[^"]*"')),
            ('padding', re.compile(r'[ \t\r\n],|,[ \t\r\n]|^[ \t\r\n]|[ \t\r\n]$')), ('tab', re.compile(r'\t')),
            ('empty-item', re.compile(r'""'))]


def nontrivial(case, impl):
    if case['kind'] == 'path':
        mn, mx = case['minsegs'], case['maxsegs']
        return mn <= (mx if mx else mn) and case['path'].startswith('/')
    if case['kind'] == 'commas':
        return any(c in case['value'] for c in '",\\ \t\n\r')
    return True


def canon(case):
    return tuple(sorted((k, repr(v)) for k, v in case.items() if k in ('kind', 'path', 'minsegs', 'maxsegs', 'rest_with_last', 'value', 's', 'n', 'form')))


def run_batch(ctx, batch, out):
    replies = ctx.driver.ask_many([line_of(c) for c, _ in batch])
    for (case, tag), rep in zip(batch, replies):
        ctx.evaluations += 1
        impl = impl_of(case)
        ctx.count('corr/%s/%s' % (case['kind'], tag))
        if case.get('form'):
            ctx.count('call-form/%s/pos=%d,kw=%d' % (case['kind'], case['form']['pos'], len(case['form']['kw'])))
        if case['kind'] in ('path', 'commas'):
            ctx.count('out/%s/%s' % (case['kind'], impl.split(':')[0] if not impl.startswith('ok:') else
                                     ('ok' if case['kind'] == 'path' else 'ok/%d' % min(6, impl.count(',') + 1))))
        if case['kind'] == 'commas' and impl.startswith('ok:'):
            for name, rx in FEATURES:
                if rx.search(case['value']):
                    ctx.count('feature/commas-ok/' + name)
        if nontrivial(case, impl):
            ctx.nontrivial(canon(case))
        if impl != rep:
            if len(out) < 200:
                out.append(Disagreement(case, impl, rep))
            else:
                ctx.count('disagreements-not-listed')


def correspondence(ctx):
    out = []
    rng = ctx.rng
    streams = [
        with_forms(thin(ctx, gen_path_cases_exhaustive(5 if ctx.quick else 7), 8)),
        with_forms(thin(ctx, gen_path_edge_cases(ctx.quick)), 1),
        with_forms(thin(ctx, gen_path_long_cases(rng)), 2),
        with_forms((((gen_path_random(rng)), 'random') for _ in range(budget(ctx, 20000 if ctx.quick else 300000))), 3),
        thin(ctx, gen_all_forms_cases(ctx.quick)),
        with_forms(gen_commas_cases(ctx)),
        gen_prim_cases(ctx),
    ]
    batch = []
    shown = {}
    for st in streams:
        for case, tag in st:
            batch.append((case, tag))
            key = tag.split('/')[0] + case['kind']
            if shown.get(key, 0) < 1 and (case['kind'] != 'path' or len(case['path']) > 6):
                r = impl_of(case)
                if r != 'ValueError' or key.startswith(('malformed', 'mutated')):
                    shown[key] = 1
                    ctx.sample({'case': {k: (short(v) if isinstance(v, (str, list)) and len(repr(v)) > 200 else v)
                                         for k, v in case.items()},
                                'implementation': show(r) if case['kind'] in ('path', 'commas') else r}, 14)
            if len(batch) >= 200000:
                run_batch(ctx, batch, out)
                batch = []
    if batch:
        run_batch(ctx, batch, out)
    run_seq_correspondence(ctx, out, budget(ctx, 4000 if ctx.quick else 40000))
    ctx.exhaustive = True
    return out


# ---------------------------------------------------------------------------
# failing-input search: the property stated directly (implementation only)

def spec_split_path(path, minsegs, maxsegs, rwl):
    """The declarative reading of the contract (DESIGN.md section 5, C19), minsegs >= 1."""
    m = maxsegs if maxsegs else minsegs
    if minsegs > m:
        return 'ValueError'
    if not path.startswith('/'):
        return 'ValueError'
    allsegs = path[1:].split('/')
    if rwl:
        if len(allsegs) > m:
            segs = allsegs[:m - 1] + ['/'.join(allsegs[m - 1:])]
        else:
            segs = allsegs
    else:
        if len(allsegs) <= m:
            segs = allsegs
        elif len(allsegs) == m + 1 and allsegs[-1] == '':
            segs = allsegs[:m]
        else:
            return 'ValueError'
    if len(segs) < minsegs or '' in segs[:minsegs]:
        return 'ValueError'
    return enc_segs(segs + [None] * (m - len(segs)))


def oracle_path(case):
    if case['minsegs'] < 1:
        return None          # outside the property's quantifier
    got = impl_path(case['path'], case['minsegs'], case['maxsegs'], case['rest_with_last'], case.get('form'))
    want = spec_split_path(case['path'], case['minsegs'], case['maxsegs'], case['rest_with_last'])
    if got != want:
        return '%s returned %s, contract says %s' % (
            call_text('split_path', [case['path'], case['minsegs'], case['maxsegs'], case['rest_with_last']],
                      case.get('form')), show(got), show(want))
    return None


def short(x, limit=160):
    """repr for messages: long strings are abbreviated (the replay file holds the full case)."""
    if isinstance(x, str):
        return repr(x) if len(x) <= limit else '%r...<%d chars>' % (x[:60], len(x))
    if isinstance(x, (list, tuple)):
        return '[' + ', '.join(short(i, limit) for i in x) + ']'
    return repr(x)


def show(enc):
    if not enc.startswith('ok:'):
        return enc
    body = enc[3:]
    if body == '':
        return '[]'
    return short([None if x == 'N' else common.unhexs(x) for x in body.split(',')])


ITEM_RE = r'(?:"(?:\\[^\n]|[^"\\\n\r])*"|[!#-+\--~]+)'
GRAMMAR_RE = re.compile(r'[ \t\r\n]*%s(?:[ \t\r\n]*,[ \t\r\n]*%s)*[ \t\r\n]*\Z' % (ITEM_RE, ITEM_RE))
SPECIAL_ESC = re.compile(r'\\[tnfr0-7xu\n]')


def oracle_commas(case):
    """Round trip for encoded item lists; ValueError for the malformed classes; for any other string the
    accept/reject verdict of the written grammar and re-encoding stability."""
    v = case['value']
    got = impl_commas(v, case.get('form'))
    if 'items' in case and not any(c in it for it in case['items'] for c in '\t\n\r'):
        want = 'ok:' + ','.join(hexs(x) for x in case['items'])
        if got != want:
            return '%s returned %s, the joined items were %s' % (call_text('split_by_commas', [v], case.get('form')), show(got), short(case['items']))
        return None
    if case.get('expect') == 'ValueError':
        if got != 'ValueError':
            return '%s returned %s but the string has %s' % (call_text('split_by_commas', [v], case.get('form')), show(got), case.get('why'))
        return None
    accept = bool(GRAMMAR_RE.match(v))
    if accept != got.startswith('ok:'):
        return '%s gave %s; the grammar (quoted | word) list says %s' % (
            call_text('split_by_commas', [v], case.get('form')), show(got), 'accept' if accept else 'ValueError')
    if got.startswith('ok:'):
        items = [common.unhexs(x) for x in got[3:].split(',')]
        if not any(c in it for it in items for c in '\t\n\r'):
            again = impl_commas(','.join(py_quote_if_needed(i) for i in items))
            if again != got:
                return 'split_by_commas(%s) returned %s, whose re-encoding splits to %s' % (short(v), show(got), show(again))
        if not SPECIAL_ESC.search(v) and '\t' not in v:
            want = [re.sub(r'\\(.)', r'\1', m[1:-1], flags=re.S) if m.startswith('"') else m
                    for m in re.findall(ITEM_RE, v)]
            if items != want:
                return 'split_by_commas(%s) returned %s, the items written are %s' % (short(v), short(items), short(want))
    return None


def oracle(case):
    if case['kind'] == 'path':
        return oracle_path(case)
    if case['kind'] == 'commas':
        return oracle_commas(case)
    if case['kind'] == 'seq':
        return oracle_seq(case)
    return None      # str.split / expandtabs are CPython, not the property


# ---------------------------------------------------------------------------
# call sequences: both functions are pure - every call answers from its arguments alone, and hands the caller a
# list of its own.  A sequence calls with one of a few argument tuples (the same object or an equal, distinct one),
# changes lists returned earlier in place, and calls again.
#   case = {'kind': 'seq', 'fn': 'commas' | 'path', 'values': [args, ...], 'steps': [step, ...], 'expected': [...]}
#   args = [value] | [path, minsegs, maxsegs, rest_with_last]
#   step = ['call', vi, distinct] | ['mut', vi, op]    ('mut': the list most recently returned for values[vi])
#   expected (search only) = per value what the property says: 'ok:<hex>,...' | 'ValueError'

MUT_OPS = ['sort', 'reverse', 'pop', 'pop0', 'append', 'extend', 'insert0', 'insert_mid', 'remove0', 'clear', 'del0',
           'del_slice', 'slice_assign', 'iadd', 'imul', 'setitem0', 'setitem_last', 'set_none']


def apply_mut(lst, op):
    try:
        if op == 'sort':
            lst.sort(key=lambda x: (x is None, x or ''), reverse=True)
        elif op == 'reverse':
            lst.reverse()
        elif op == 'pop':
            lst.pop()
        elif op == 'pop0':
            lst.pop(0)
        elif op == 'append':
            lst.append('extra')
        elif op == 'extend':
            lst.extend(['e1', 'e2'])
        elif op == 'insert0':
            lst.insert(0, 'first')
        elif op == 'insert_mid':
            lst.insert(len(lst) // 2, 'mid')
        elif op == 'remove0':
            lst.remove(lst[0])
        elif op == 'clear':
            lst.clear()
        elif op == 'del0':
            del lst[0]
        elif op == 'del_slice':
            del lst[1:]
        elif op == 'slice_assign':
            lst[:] = ['replaced']
        elif op == 'iadd':
            lst += ['added']
        elif op == 'imul':
            lst *= 2
        elif op == 'setitem0':
            lst[0] = 'changed'
        elif op == 'setitem_last':
            lst[-1] = 'changed'
        elif op == 'set_none':
            lst[0] = None
        else:
            raise KeyError(op)
    except (IndexError, ValueError):
        pass          # e.g. pop on a list already emptied: nothing to change


def distinct_copy(x):
    """an equal string that is a different object (where CPython allows one)"""
    return (x + '\x00')[:-1] if isinstance(x, str) else x


def exec_seq(case):
    """Run the sequence on the implementation in this interpreter.  Returns one entry per 'call' step:
    [encoded result, index of an earlier call that returned the very same object or None]."""
    from oslo_utils import strutils
    fn = strutils.split_by_commas if case['fn'] == 'commas' else strutils.split_path
    fname = 'split_by_commas' if case['fn'] == 'commas' else 'split_path'
    latest, objs, trace = {}, [], []
    for st in case['steps']:
        if st[0] == 'call':
            args = list(case['values'][st[1]])
            if st[2]:
                args[0] = distinct_copy(args[0])
            try:
                r = call_form(fn, fname, args, st[3] if len(st) > 3 else None)
            except ValueError:
                r, enc = None, 'ValueError'
            except Exception as e:
                r, enc = None, type(e).__name__
            else:
                if not isinstance(r, list):
                    enc = 'not-a-list:%s' % type(r).__name__
                    r = None
                elif case['fn'] == 'commas':
                    enc = ('ok:' + ','.join(hexs(x) for x in r)) if all(isinstance(x, str) for x in r) \
                        else 'non-str-items:%r' % (r,)
                else:
                    enc = enc_segs(r) if all(x is None or isinstance(x, str) for x in r) else 'bad-items:%r' % (r,)
            alias = None
            if r is not None:
                for j, o in enumerate(objs):
                    if o is r:
                        alias = j
                        break
            objs.append(r)
            latest[st[1]] = r
            trace.append([enc, alias])
        else:
            tgt = latest.get(st[1])
            if tgt is not None:
                apply_mut(tgt, st[2])
    return trace


FRESH = {'left': 60.0}      # wall-clock seconds of fresh-interpreter work still allowed in this run (reset per search)


class FreshBudgetExhausted(Exception):
    pass


def run_fresh(expr, case):
    """Evaluate `C19.<expr>(case)` in a fresh interpreter that is in the same ambient configuration as this process
    (no earlier calls have been made there).  All such work is bounded to 60 s of wall clock per run."""
    import json
    import os
    import subprocess
    import ambient
    if FRESH['left'] <= 1.0:
        raise FreshBudgetExhausted()
    harness_dir = os.path.dirname(os.path.dirname(os.path.abspath(__file__)))
    code = ('import sys\nsys.path.insert(0, %r)\n' % harness_dir +
            ambient.setup_snippet('import json\nimport common\nfrom props import C19\nimport oslo_utils.strutils') +
            'print("RESULT" + json.dumps(C19.%s(json.loads(sys.stdin.read()))))\n' % expr)
    env = dict(os.environ, PYTHONDONTWRITEBYTECODE='1', VERIF_REPO=common.REPO)
    t0 = time.time()
    try:
        p = subprocess.run(ambient.fresh_interpreter_argv() + ['-c', code], input=json.dumps(case).encode('utf-8'),
                           stdout=subprocess.PIPE, stderr=subprocess.PIPE, timeout=max(2.0, min(60.0, FRESH['left'])),
                           env=env)
    except subprocess.TimeoutExpired:
        FRESH['left'] = 0.0
        raise FreshBudgetExhausted()
    finally:
        FRESH['left'] -= time.time() - t0
    for line in p.stdout.decode('utf-8', 'replace').splitlines():
        if line.startswith('RESULT'):
            return json.loads(line[6:])
    raise RuntimeError('fresh interpreter failed: %s' % p.stderr.decode('utf-8', 'replace')[-400:])


def exec_seq_fresh(case):
    """exec_seq in a fresh interpreter: confirms that a failure is caused by this sequence alone"""
    return run_fresh('exec_seq', case)


def oracle_fresh(case):
    """oracle(case) in a fresh interpreter: the verdict on this input alone, with no earlier calls"""
    return run_fresh('oracle', case)


def seq_call_line(case, vi):
    a = case['values'][vi]
    if case['fn'] == 'commas':
        return req('commas', hexs(a[0]))
    return req('path', hexs(a[0]), a[1], 'N' if a[2] is None else a[2], 1 if a[3] else 0)


def seq_text(case, upto=None):
    name = 'split_by_commas' if case['fn'] == 'commas' else 'split_path'
    out, k = [], 0
    for st in case['steps']:
        if st[0] == 'call':
            out.append('#%d %s%s' % (k, call_text(name, list(case['values'][st[1]]), st[3] if len(st) > 3 else None),
                                     ' [equal, distinct object]' if st[2] else ''))
            if upto is not None and k == upto:
                break
            k += 1
        else:
            out.append('%s on the list returned for value %d' % (st[2], st[1]))
    return '; '.join(out)


def oracle_seq(case, trace=None):
    """Every call returns what the property says for its arguments, whatever happened before, and a list object that no
    earlier call returned."""
    if trace is None:
        trace = exec_seq(case)
    k = 0
    for st in case['steps']:
        if st[0] != 'call':
            continue
        enc, alias = trace[k]
        want = case['expected'][st[1]]
        if enc != want:
            return 'call #%d returned %s, the property says %s, in: %s' % (k, show(enc), show(want), seq_text(case, k))
        if alias is not None:
            return 'call #%d returned the very list object that call #%d returned (callers share one list), in: %s' % (
                k, alias, seq_text(case, k))
        k += 1
    return None


SEQ_COUNTER = [0]


def unique_token():
    SEQ_COUNTER[0] += 1
    return 'u%dq' % SEQ_COUNTER[0]


def seq_values_commas(rng, n):
    """n argument tuples with their expected answers; mostly well-formed joined lists, some malformed, some sharing a
    prefix; each carries a token unique to this run so that no earlier sequence has used the same value."""
    vals, exp = [], []
    tok = unique_token()
    for i in range(n):
        if rng.random() < 0.2:
            v, _ = malformed_by_construction(rng)
            vals.append([tok + ',' + v])
            exp.append('ValueError')
            continue
        items = [it for it in gen_items(rng) if not any(c in it for c in '\t\n\r')] or ['x']
        items.insert(rng.randrange(len(items) + 1), tok if i == 0 else tok + str(i))
        if rng.random() < 0.3:
            items = sorted(items, reverse=True)      # so that sort() is a visible change
        vals.append([','.join(py_quote_if_needed(x) for x in items)])
        exp.append('ok:' + ','.join(hexs(x) for x in items))
    return vals, exp


def seq_values_path(rng, n):
    """argument tuples that share the path but differ in minsegs / maxsegs / rest_with_last, and others"""
    vals, exp = [], []
    tok = unique_token()
    segs = [tok] + [rng.choice(SEG_ALTS[rng.choice(sorted(SEG_ALTS))]) for _ in range(rng.randrange(0, 4))]
    rng.shuffle(segs)
    path = '/' + '/'.join(segs) + rng.choice(['', '', '/'])
    for i in range(n):
        if i and rng.random() < 0.3:
            path = path + rng.choice(['/z', 'y', '/'])
        mn = rng.randrange(1, 4)
        a = [path, mn, rng.choice(maxsegs_choices(mn)), rng.random() < 0.5]
        if a in vals:
            continue
        vals.append(a)
        exp.append(spec_split_path(*a))
    return vals, exp


def gen_seq_steps(rng, nvals, ncalls, fname=None, vals=None):
    def form(vi):
        return rng.choice(legal_forms(fname, vals[vi])) if fname else None
    steps = [['call', 0, False, form(0)]]
    for _ in range(ncalls - 1):
        for _ in range(rng.choice([0, 1, 1, 2])):
            steps.append(['mut', rng.randrange(nvals), rng.choice(MUT_OPS)])
        vi = rng.randrange(nvals)
        steps.append(['call', vi, rng.random() < 0.4, form(vi)])
    return steps


def gen_seq_cases(ctx, nrandom):
    """(1) every mutating operation between two calls with the same arguments (same object / equal distinct object),
    for a few fixed argument tuples of both functions; (2) random longer sequences over up to three argument tuples."""
    rng = ctx.rng
    fixed_c = [['name,id,status'], ['"a,b",ac'], ['zz,"say \\"hi\\"","two words",plain'], ['x'], ['""'], ['b,a,']]
    exp_c = ['ok:' + ','.join(hexs(x) for x in it) for it in
             (['name', 'id', 'status'], ['a,b', 'ac'], ['zz', 'say "hi"', 'two words', 'plain'], ['x'], [''])] + ['ValueError']
    fixed_p = [['/v1/acct/cont/obj', 1, 4, False], ['/v1/acct', 1, 3, False], ['/a/c/o/r', 1, 3, True], ['/b/a/', 2, None, False],
               ['/a//c', 2, 3, False], ['a/c', 1, 2, False]]
    exp_p = [spec_split_path(*a) for a in fixed_p]
    for fn, vals, exp in (('commas', fixed_c, exp_c), ('path', fixed_p, exp_p)):
        for vi in range(len(vals)):
            forms = legal_forms('split_by_commas' if fn == 'commas' else 'split_path', vals[vi])
            for oi, op in enumerate(MUT_OPS):
                for distinct in (False, True):
                    yield {'kind': 'seq', 'fn': fn, 'values': [vals[vi]], 'expected': [exp[vi]],
                           'steps': [['call', 0, False, forms[(2 * oi) % len(forms)]], ['mut', 0, op],
                                     ['call', 0, distinct, forms[(2 * oi + 1 + distinct) % len(forms)]]]}, 'seq/%s/each-op' % fn
        # same path, different other arguments, interleaved
        yield {'kind': 'seq', 'fn': fn, 'values': vals, 'expected': exp,
               'steps': [['call', i, False] for i in range(len(vals))] + [['mut', i, 'clear'] for i in range(len(vals))] +
                        [['call', i, True] for i in range(len(vals))]}, 'seq/%s/interleaved' % fn
    for i in range(nrandom):
        fn = 'commas' if i % 4 == 0 else 'path'
        n = rng.randrange(1, 4)
        vals, exp = (seq_values_commas if fn == 'commas' else seq_values_path)(rng, n)
        yield {'kind': 'seq', 'fn': fn, 'values': vals, 'expected': exp,
               'steps': gen_seq_steps(rng, len(vals), rng.randrange(2, 6),
                                      'split_by_commas' if fn == 'commas' else 'split_path', vals)}, 'seq/%s/random' % fn


def run_seq_correspondence(ctx, out, nrandom):
    """model: a pure function - each call answered on its own by the driver, never the same object twice"""
    cases = list(gen_seq_cases(ctx, nrandom))
    lines, spans = [], []
    for case, _ in cases:
        idx = [st[1] for st in case['steps'] if st[0] == 'call']
        spans.append(len(idx))
        lines += [seq_call_line(case, vi) for vi in idx]
    replies = ctx.driver.ask_many(lines)
    pos = 0
    for (case, tag), n in zip(cases, spans):
        model = [[r, None] for r in replies[pos:pos + n]]
        pos += n
        ctx.evaluations += 1
        ctx.count('corr/' + tag)
        impl = exec_seq(case)
        if any(st[0] == 'mut' for st in case['steps']) and any(e.startswith('ok:') for e, _ in impl):
            ctx.nontrivial(('seq', case['fn'], repr(case['values']), repr(case['steps'])))
        if tag.endswith('interleaved'):
            ctx.sample({'case': case, 'implementation': [show(e) for e, _ in impl]}, 16)
        if impl != model:
            if len(out) < 200:
                out.append(Disagreement(case, impl, model))
            else:
                ctx.count('disagreements-not-listed')


def shrink_seq(case, deadline):
    """Fewest steps / values that still fail in a fresh interpreter (each trial starts one: bounded)."""
    def klass(why):
        return None if why is None else ('shared' if 'very list object' in why else 'answer')
    try:
        want = klass(oracle_seq(case, exec_seq_fresh(case)))
    except Exception:
        return case

    def fails(c):          # the same kind of failure (a wrong answer stays a wrong answer)
        if time.time() > deadline:
            return False
        try:
            return klass(oracle_seq(c, exec_seq_fresh(c))) == want
        except Exception:
            return False

    def still(steps):
        return steps[0][0] == 'call' and fails(dict(case, steps=list(steps)))
    steps = common.shrink_list(case['steps'], still, max_steps=40)
    case = dict(case, steps=steps)
    used = sorted({st[1] for st in steps})
    if len(used) < len(case['values']):
        remap = {v: i for i, v in enumerate(used)}
        cand = dict(case, values=[case['values'][v] for v in used], expected=[case['expected'][v] for v in used],
                    steps=[[st[0], remap[st[1]]] + list(st[2:]) for st in steps])
        if fails(cand):
            case = cand
    return case



def shrink(case, deadline=None):
    """Greedy shrinking of the string (path / value) while the oracle still fails (bounded by a wall-clock deadline:
    once it has passed every further candidate is refused, so the current smallest failing case is kept)."""
    case = dict(case)

    def judged(c):          # deadline-aware oracle
        if deadline is not None and time.time() > deadline:
            return None
        return oracle(c)
    key = 'path' if case['kind'] == 'path' else 'value'
    if 'items' in case:
        def still_items(sub):
            c = dict(case, items=list(sub), value=','.join(py_quote_if_needed(i) for i in sub))
            return judged(c) is not None
        if still_items(case['items']):
            items = common.shrink_list(case['items'], still_items)
            for k in range(len(items)):
                if len(items[k]) > 1:
                    def still_chars(chars, k=k):
                        return still_items(items[:k] + [''.join(chars)] + items[k + 1:])
                    items[k] = ''.join(common.shrink_list(list(items[k]), still_chars))
            case = dict(case, items=items, value=','.join(py_quote_if_needed(i) for i in items), style='canon')
        return case

    def still(chars):
        v = ''.join(chars)
        if case.get('expect') == 'ValueError' and GRAMMAR_RE.match(v):
            return False         # the shrunk string must still be one the written grammar rejects
        return judged(dict(case, **{key: v})) is not None
    chars = common.shrink_list(list(case[key]), still) if len(case[key]) > 1 else list(case[key])
    if ''.join(chars) != case[key] and 'why' in case:
        case['why'] = 'text the grammar rejects (shrunk from a string with: %s)' % case['why']
    case[key] = ''.join(chars)
    return case


def search(ctx, seeds, full=False):
    rng = ctx.rng
    fails, kinds = [], set()

    shrink_budget = [60.0]       # seconds of wall clock spent on shrinking, over the whole search
    history = [0]                # single-call failures that did not reproduce in a fresh interpreter
    FRESH['left'] = 60.0         # all fresh-interpreter work of this run
    examined = [0]               # failing single-call cases shrunk + confirmed so far (each costs a fresh interpreter)

    form_counter = [0]

    def consider(case):
        ctx.evaluations += 1
        if case.get('kind') in ('path', 'commas') and 'form' not in case:
            fname, logical = logical_args(case)
            forms = balanced_forms(fname, logical)
            case['form'] = forms[form_counter[0] % len(forms)]
            form_counter[0] += 1
        why = oracle(case)
        if not why:
            return
        # bounded work per failing run: enough distinct failures already, or the confirmation budget is used up
        if examined[0] >= 25 or (len(fails) >= 3 and shrink_budget[0] <= 0):
            ctx.count('search/further-failing-cases-not-examined')
            return
        examined[0] += 1
        small = case
        if shrink_budget[0] > 0:
            t0 = time.time()
            small = shrink(case, deadline=t0 + min(20.0, shrink_budget[0]))
            shrink_budget[0] -= time.time() - t0
        why = oracle(small) or why
        # a single call must fail on its own: confirm in a fresh interpreter (an answer that depends on earlier calls
        # is for the sequence search to pin down, with the calls that cause it)
        if history[0] >= 6:
            ctx.count('search/single-call-failure-skipped-history-dependent')
            return
        try:
            fresh_why = oracle_fresh(small)
        except FreshBudgetExhausted:
            if fails:
                ctx.count('search/further-failing-cases-not-examined')
                return
            fresh_why = why + ' [not re-checked in a fresh interpreter: the 60 s budget for that is used up]'
        except Exception as e:
            ctx.notes.append('fresh interpreter run failed: %s' % str(e)[:200])
            fresh_why = why
        if not fresh_why:
            history[0] += 1
            ctx.count('search/single-call-failure-not-reproduced-fresh')
            return
        why = fresh_why
        kind = small['kind'] + '/' + (why.split(' returned ')[-1].split(',')[0][:30] if small['kind'] == 'path' else
                                      small.get('why', 'round-trip' if 'items' in small else 'grammar'))
        if kind in kinds and len(fails) >= 3:
            return
        kinds.add(kind)
        fails.append(Failure(small, {'kind': kind, 'what': why}))

    fresh_runs = [0]

    def consider_seq(case):
        """in-process first; a failure counts only when the same sequence fails in a fresh interpreter"""
        ctx.evaluations += 1
        if not oracle_seq(case):
            return
        if fresh_runs[0] >= 12 or sum(1 for f in fails if f.case.get('kind') == 'seq') >= 2:
            return
        fresh_runs[0] += 1
        try:
            why = oracle_seq(case, exec_seq_fresh(case))
        except FreshBudgetExhausted:
            ctx.count('search/seq-failure-not-examined-fresh-budget')
            return
        except Exception as e:
            ctx.notes.append('fresh interpreter run failed: %s' % str(e)[:200])
            return
        if not why:
            ctx.count('search/seq-failure-not-reproduced-fresh')
            return
        small = shrink_seq(case, time.time() + 25.0)
        try:
            why = oracle_seq(small, exec_seq_fresh(small)) or why
        except Exception:
            small = case          # keep the sequence that was confirmed
        kind = 'seq/%s/%s' % (small['fn'], 'shared-list' if 'very list object' in why else 'answer-depends-on-history')
        fails.append(Failure(small, {'kind': kind, 'what': why, 'confirmed': 'fresh interpreter'}))

    for s in seeds[:300]:
        if s.get('kind') == 'seq':
            consider_seq(s)
        if s.get('kind') in ('path', 'commas'):
            consider(s)
        if len(fails) >= 5:
            return fails
    # call sequences: call, change the returned list, call again (both functions, every list operation)
    for c, _ in gen_seq_cases(ctx, budget(ctx, (3000 if full else 1500) if ctx.quick else (30000 if full else 15000))):
        consider_seq(c)
        if len(fails) >= 5:
            return fails
    # blanks / control characters at every structural position, and long inputs: always in full
    families = [c for c, _ in thin(ctx, gen_all_forms_cases(ctx.quick))]
    families += [c for c, _ in thin(ctx, gen_path_edge_cases(ctx.quick))]
    families += [c for c, _ in thin(ctx, gen_path_long_cases(rng))]
    for items, _ in thin(ctx, gen_long_items(rng, ctx.quick)):
        families.append({'kind': 'commas', 'items': items, 'value': ','.join(py_quote_if_needed(x) for x in items),
                         'style': 'canon'})
    for items in gen_blank_items(rng):
        families.append({'kind': 'commas', 'items': items, 'value': ','.join(py_quote_if_needed(x) for x in items),
                         'style': 'canon'})
    families += [{'kind': 'commas', 'value': v} for v in gen_blank_values()]
    for c in families:
        if c['kind'] == 'path' and c['minsegs'] < 1:
            continue
        consider(c)
        if len(fails) >= 5:
            return fails
    # split_path: the exhaustive domain when something broke, a sample of it otherwise
    if full:
        for case, _ in thin(ctx, gen_path_cases_exhaustive(5 if ctx.quick else 6)):
            consider(case)
            if len(fails) >= 5:
                return fails
    else:
        pool = [p for p, _ in gen_paths_exhaustive(4)]
        for _ in range(budget(ctx, 20000 if ctx.quick else 200000)):
            mn = rng.randrange(1, 5)
            consider({'kind': 'path', 'path': rng.choice(pool), 'minsegs': mn, 'maxsegs': rng.choice(maxsegs_choices(mn)),
                      'rest_with_last': rng.random() < 0.5})
            if len(fails) >= 5:
                return fails
    for _ in range(budget(ctx, (10000 if full else 5000) if ctx.quick else (100000 if full else 50000))):
        c = gen_path_random(rng)
        c['minsegs'] = max(1, c['minsegs'])
        consider(c)
        if len(fails) >= 5:
            return fails
    # split_by_commas: round trip over printable ASCII, malformed classes, grammar verdict
    n = budget(ctx, (6000 if full else 3000) if ctx.quick else (80000 if full else 30000), 8)
    for i in range(n):
        r = i % 4
        if r in (0, 1):
            items = gen_items(rng)
            consider({'kind': 'commas', 'items': items, 'value': ','.join(py_quote_if_needed(x) for x in items),
                      'style': 'canon'})
        elif r == 2:
            v, why = malformed_by_construction(rng)
            consider({'kind': 'commas', 'value': v, 'expect': 'ValueError', 'why': why})
        else:
            if rng.random() < 0.5:
                v = mutate(rng, encode_items(rng, gen_items(rng), rng.choice(['canon', 'allq', 'padded'])))
            else:
                v = ''.join(rng.choice(SMALL_ALPHA + ['b', '\n']) for _ in range(rng.randrange(0, 9)))
            consider({'kind': 'commas', 'value': v})
        if len(fails) >= 5:
            break
    return fails


def replay(ctx, payload):
    case = payload.get('failure', {}).get('case') or payload.get('case')
    if not case:
        print('nothing to replay: this file names the obligation that no longer checks:')
        print(payload.get('no_longer_checks'))
        return 0
    if case.get('kind') == 'seq':
        print('sequence      :', seq_text(case))
        FRESH['left'] = 60.0
        tr = exec_seq_fresh(case)
        print('implementation (fresh interpreter), per call [result, same object as call]:')
        for k, (e, a) in enumerate(tr):
            print('   #%d %s%s' % (k, show(e), '' if a is None else '   <- the list object of call #%d' % a))
        idx = [st[1] for st in case['steps'] if st[0] == 'call']
        print('model (pure function, a new list per call):')
        for k, r in enumerate(ctx.driver.ask_many([seq_call_line(case, vi) for vi in idx])):
            print('   #%d %s' % (k, show(r)))
        why = oracle_seq(case, tr)
        print('property oracle on the implementation:', why)
        return 1 if why else 0
    print('case          :', case)
    print('implementation:', show(impl_of(case)))
    print('model         :', show(ctx.driver.ask(line_of(case))))
    why = oracle(case)
    print('property oracle on the implementation:', why)
    return 1 if why else 0


LEVEL_TEXT = ('Machine-checked proof (Lean 4). split_path: the line-by-line model equals the declarative contract for every '
              'path, minsegs >= 1, maxsegs and flag (split_path_eq_spec), with corollaries: result length = maxsegs, leading '
              'segments preserved and re-joinable to the path (one trailing slash tolerated), exact ValueError cases, no '
              'other exception; over a verified model of str.split(sep, maxsplit) / join. split_by_commas: for every '
              'non-empty item list without TAB/LF/CR (superset of printable ASCII) splitting the comma-joined, '
              'quoted-if-needed (or any admissible) encoding returns the items (split_commas_roundtrip*), and behind any '
              'well-formed prefix an unclosed quote, text after a closing quote or after a bare word, and an empty unquoted '
              'item are rejected for arbitrary surrounding text (split_commas_rejects*), over a hand model of the two '
              'pyparsing elements. All clauses full strength; no _partial theorem. Model tied to the code by exhaustive '
              'small-scope plus random correspondence.')
LEVEL_NOTE = ('Trusted: Lean kernel; axioms propext/Quot.sound/Classical.choice only (audited each run); the hand models of '
              'str.split/join/expandtabs and of the pyparsing grammar (QuotedString regex + un-quoting pass, Word, '
              'delimitedList, whitespace skipping) and the correspondence harness. Negative minsegs/maxsegs not modelled.')
TECHNIQUE = 'Lean 4 theorems by induction over the string / item list + model/implementation correspondence'
DESIGN_REF = 'DESIGN.md section 5, C19'
