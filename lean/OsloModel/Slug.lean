/-
Model of oslo_utils.strutils.to_slug (strutils.py:64-65, 269-291).

    value = encodeutils.safe_decode(value, incoming, errors)
    value = unicodedata.normalize("NFKD", value).encode("ascii", "ignore").decode("ascii")
    value = SLUGIFY_STRIP_RE.sub("", value).strip().lower()
    return SLUGIFY_HYPHENATE_RE.sub("-", value)

The NFKD + ASCII-ignore front end is a parameter `front : Text → Text` (unicodedata is not
modelled); the theorems assume it is the identity on ASCII text and yields ASCII text.
Everything after it runs on ASCII text only, which is the domain of this model: the two
character classes, `str.isspace` and `str.lower` are modelled on code points 0..127.

The two regular expressions are data: `Generated/C16.lean` is written by the harness from
`re._parser.parse` of the live `SLUGIFY_STRIP_RE` / `SLUGIFY_HYPHENATE_RE` (class membership on
ASCII, and whether the hyphenate class is repeated with `+`), together with Python's own
ASCII `str.isspace` set.
-/
import OsloModel.Encode
import OsloModel.Generated.C16
namespace Oslo.Slug
open Oslo.Encode

def IsAscii (t : Text) : Prop := ∀ c ∈ t, c.toNat < 128

/-- `c` is matched by SLUGIFY_STRIP_RE (and so removed) -/
def inStrip (c : Char) : Bool := Oslo.Generated.C16.stripClass.contains c.toNat

/-- `c` is matched by the class of SLUGIFY_HYPHENATE_RE -/
def inHyphen (c : Char) : Bool := Oslo.Generated.C16.hyphenClass.contains c.toNat

/-- `str.isspace` (what `str.strip()` removes) -/
def isSpace (c : Char) : Bool := Oslo.Generated.C16.pySpace.contains c.toNat

/-- `SLUGIFY_STRIP_RE.sub("", v)`: a one-character class replaced by nothing is a filter -/
def stripRe (v : Text) : Text := v.filter (fun c => !inStrip c)

/-- `str.strip()` -/
def pyStrip (v : Text) : Text := ((v.dropWhile isSpace).reverse.dropWhile isSpace).reverse

/-- `str.lower()` on ASCII text -/
def pyLower (v : Text) : Text := v.map lowerAscii

/-- `SLUGIFY_HYPHENATE_RE.sub("-", v)`.  `prevIn` says the previous character was in the class.
    With `+` (`hyphenPlus`) a maximal run of class characters becomes one hyphen; without it
    every class character becomes a hyphen. -/
def hyphenateAux (prevIn : Bool) : Text → Text
  | [] => []
  | c :: rest =>
    if inHyphen c then
      if prevIn && Oslo.Generated.C16.hyphenPlus then hyphenateAux true rest
      else '-' :: hyphenateAux true rest
    else c :: hyphenateAux false rest

def hyphenate (v : Text) : Text := hyphenateAux false v

/-- lines 290-291 applied to the (ASCII) output of the front end -/
def slugPipe (v : Text) : Text := hyphenate (pyLower (pyStrip (stripRe v)))

/-- lines 288-291 on text -/
def slugText (front : Text → Text) (s : Text) : Text := slugPipe (front s)

/-- `to_slug(value, incoming, errors)` -/
def toSlug (C : Codecs) (env : Env) (front : Text → Text) (v : Val) (incoming : Option Name)
    (p : Policy) : Except Err Text :=
  match safeDecode C env v incoming p with            -- line 284
  | .ok t => .ok (slugText front t)
  | .error e => .error e

/-- `to_slug(value, incoming=None, errors="strict")` as called with any subset of its optional
    parameters (`none` = not passed) -/
def callToSlug (C : Codecs) (env : Env) (front : Text → Text) (v : Val)
    (incoming : Option (Option Name)) (errors : Option Policy) : Except Err Text :=
  toSlug C env front v (argOr incoming defaultIncoming) (argOr errors defaultErrors)

/-- a front end that meets the assumptions, used by the driver on ASCII-domain requests:
    non-ASCII characters are dropped (as `.encode("ascii", "ignore")` does), ASCII is kept -/
def asciiFront (s : Text) : Text := s.filter (fun c => c.toNat < 128)

end Oslo.Slug
