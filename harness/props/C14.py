"""C14 - scalar parsers and validators classify every input exactly.

bool_from_string / is_valid_boolstr / int_from_bool_as_string / is_int_like / validate_integer /
check_string_length (strutils.py) and is_uuid_like / generate_uuid (uuidutils.py).
"""
import itertools
import math
import re
import sys
import unicodedata
from decimal import Decimal
from fractions import Fraction

import common
from common import Disagreement, Failure, req
import C14_gen

ID = 'C14'
DRIVER = 'drv_C14'
PROOF_MODULES = ['OsloProofs.Props.C14']
LEVEL = 'proof'
RULE_EXTRA = (' Bounds (min_value/max_value/min_length/max_length) are ints, bools, floats (non-integral, tiny, 2**53 edge, '
              'huge), Decimals and Fractions, compared exactly as rationals with values on both sides; -inf as minimum, +inf as '
              'maximum and a float NaN exclude nothing (IEEE comparisons with NaN are false); +inf as minimum / -inf as maximum '
              'exclude every integer, so ValueError is demanded (the code raises OverflowError: finding candidate C14-F3, as '
              'is decimal.InvalidOperation for a Decimal NaN bound). Every public function is called in every legal form of '
              'its pinned signature (each parameter positional / keyword / omitted when default, keyword order permuted); all '
              'forms must give the result of the logical arguments.')
RULE = ('per function, inputs built from its grammar: documented words x per-letter case x whitespace padding (runs of '
        '0,1,7,31,32,33,64,1000,70000 of every whitespace kind before/after/around/inside, word+gap+junk, junk+gap+word) and '
        'one-edit near-misses; integers at min/max and +-1 in int and str form with sign, whitespace, underscores, '
        'leading zeros, non-ASCII digits, Unicode confusables, floats, None/bytes/list/complex/bool; strings of length 0 and '
        'min/max +-1 built from ASCII, whitespace and every Unicode unit family (base+combining marks, Hangul jamo, precomposed, '
        'compatibility forms, length-changing case maps, astral, BMP/UTF-8 width extremes, ZWJ/VS sequences, invisibles); '
        'hex strings of length 30..34 in plain/hyphenated/braced/urn:uuid: spelling x letter case, generate_uuid '
        'output, plus a separate malformed/arbitrary-text stream over the character domain. A case is distinct by '
        '(function, value, settings, call form) and non-trivial when the implementation accepts it (recognised word, int-like, '
        'integer within bounds, length within active bounds, UUID) or when it comes from a near-miss/bound generator')
RULE = RULE + RULE_EXTRA + (' The public tables TRUE_STRINGS / FALSE_STRINGS are rebound between two calls (extended, '
               'narrowed, swapped, emptied, overlapping, odd entries, lists): the functions must classify by the tables in force '
               'and is_valid_boolstr must keep agreeing with strict bool_from_string on unpadded input. Digit strings of 4299..4302, '
               '5000 and 10000 digits are probed whatever the interpreter limit is; under an ambient configuration the model cannot '
               'speak about (another digit limit, str(bytes) under -bb) those cases are judged by the oracle only.')
TRUSTED_BASE = [
    'Lean 4 kernel; axioms audited per theorem (subset of propext, Classical.choice, Quot.sound)',
    'hand-written model OsloModel/Scalars.lean, tied to strutils/uuidutils by this correspondence; the CPython '
    'primitives it re-implements (str.strip/lower/replace, int(str[,16]), str(int), len, uuid.UUID(hex), UUID.__str__) '
    'are exercised directly against the interpreter (prim/* cases)',
    'translator harness/C14_gen.py: TRUE_STRINGS/FALSE_STRINGS read from the working tree, str.isspace set, int() '
    'whitespace set, Unicode Nd runs and sys.get_int_max_str_digits() probed from the running interpreter',
    'non-str, non-bool, non-int objects enter the model as (str(obj), outcome of int(obj)) supplied by the runtime',
]
UNMODELLED = [
    'str.lower() of cased non-ASCII characters that no case operation / NFKC relates to ASCII letters (the model lowers '
    'ASCII and the generated 167-entry table of look-alikes - long s, Kelvin sign, dotted/dotless i, ligatures, sharp s, '
    'fullwidth and circled letters, Roman numerals - and is the identity elsewhere): those are excluded from the '
    'correspondence domain and covered by the implementation-only search',
    'error message texts (only the exception class is compared)',
    'str subclasses, objects with __int__/__index__/__str__ side effects, objects with a replace attribute',
    'generate_uuid randomness (its output is fed to both sides)',
]
ASSUMPTIONS = [
    'CPython 3.12 semantics of int()/str()/uuid.UUID as transcribed; sys.get_int_max_str_digits() = %d is a generated '
    'constant of the model and the theorems state the digit limit explicitly (known finding C14-F2)'
    % sys.get_int_max_str_digits(),
    'check_string_length: max_length 0 or None means no maximum (the code\'s reading, recorded as an interpretation); '
    'min_length is an int',
]

# documented words (docstring of bool_from_string) - the search oracle uses these, never the module's tuples
DOC_TRUE = ['1', 't', 'true', 'on', 'y', 'yes']
DOC_FALSE = ['0', 'f', 'false', 'off', 'n', 'no']
# Unicode whitespace (str.isspace) written out; the oracle's own strip uses this list
WS = [0x9, 0xa, 0xb, 0xc, 0xd, 0x1c, 0x1d, 0x1e, 0x1f, 0x20, 0x85, 0xa0, 0x1680] + list(range(0x2000, 0x200b)) + \
     [0x2028, 0x2029, 0x202f, 0x205f, 0x3000]
WS_CHARS = [chr(c) for c in WS]
# whitespace int() skips: C isspace for ASCII, the Unicode set otherwise
INT_WS = set(chr(c) for c in WS if c not in (0x1c, 0x1d, 0x1e, 0x1f))
ND_SAMPLE = [chr(c) for z in (0x660, 0x966, 0xff10, 0x1d7ce, 0x1d7d8, 0x1e950) for c in range(z, z + 10)]
ASCII = [chr(c) for c in range(128)]
CASE_RELATED = C14_gen.case_related()       # non-ASCII characters that case operations relate to ASCII letters
DOMAIN = ASCII + [c for c in WS_CHARS if ord(c) >= 128] + ND_SAMPLE + [chr(cp) for cp in sorted(CASE_RELATED)]
OUTSIDE = list('ＴＲＵＥｔｒｕｅİıſKÀéßΣσςǅǆＡａＦｆ①²٣൧Ⅷ') + [chr(0x10400), chr(0x1f600), chr(0x7f), chr(0xad), chr(0x200b),
                                                   chr(0xfeff), chr(0x180e)]
HEXL, HEXU = '0123456789abcdef', '0123456789ABCDEF'
# Unicode sequences for which "the same text" has several code-point counts or spellings: anything that
# normalises (NFC/NFD/NFKC/NFKD), case-maps to another length, needs 1-4 UTF-8 bytes / 1-2 UTF-16 units, or is invisible.
UNI_UNITS = [
    'e\u0301', 'a\u0308', 'n\u0303', 'o\u0302\u0323', 'A\u030a', 'q\u0323\u0307', 'q\u0307\u0323',   # base + combining marks
    '\u1112\u1161\u11ab', '\u1100\u1161', '\uac00\u11a8',                                           # conjoining Hangul jamo
    '\u00e9', '\ud55c', '\u1e69', '\u00c5',                                                          # precomposed (NFD splits)
    '\u0958', '\u0f43', '\u2adc', '\u0344', '\u2126', '\u212b', '\u2000', '\u0340',                    # exclusions / singletons
    '\ufb01', '\u2460', '\u00b2', '\u2167', '\uff21', '\uff11', '\u017f', '\u1e9b\u0323', '\u00bd', '\u3392',  # compatibility (NFKC)
    '\u00df', '\u0130', '\u0149', '\u01c5', '\u03a3', '\u1e9e', '\ufb03',                              # case maps changing length
    '\U00010400', '\U0001f600', '\U0010ffff', '\U0001d7ce', '\U000e0041', '\U00010000', '\U0002f800',   # astral
    '\x00', '\x7f', '\u0080', '\u07ff', '\u0800', '\ud7ff', '\ue000', '\ufffd', '\ufffe', '\uffff',       # BMP / UTF-8 width extremes
    '\U0001f468\u200d\U0001f469\u200d\U0001f467', '\u2764\ufe0f', '\U0001f1e9\U0001f1ea', '\u0e01\u0e33',   # ZWJ, VS, flags, Thai
    '\u200b', '\ufeff', '\u00ad', '\u200e', '\u202e', '\u034f', '\u2060', '\u180e', '\u0301',             # invisible / lone mark
]
UNI_CHARS = sorted(set(c for u in UNI_UNITS for c in u))


def uni_text(rng, ln, unit=None):
    """exactly `ln` code points: one unit repeated (cut to length), or a random mixture of units"""
    if ln <= 0:
        return ''
    out = []
    while len(out) < ln:
        out.extend(unit if unit is not None else rng.choice(UNI_UNITS))
    return ''.join(out[:ln])


def fullwidth(w):
    return ''.join(chr(ord(c) + 0xfee0) if 0x21 <= ord(c) <= 0x7e else c for c in w)


def mathbold(w):
    out = []
    for c in w:
        if 'a' <= c <= 'z':
            out.append(chr(0x1d41a + ord(c) - 97))
        elif 'A' <= c <= 'Z':
            out.append(chr(0x1d400 + ord(c) - 65))
        elif '0' <= c <= '9':
            out.append(chr(0x1d7ce + ord(c) - 48))
        else:
            out.append(c)
    return ''.join(out)


def _case_substitutions():
    """(ascii text t, look-alike character c): some case operation or NFKC maps c to t (compared caselessly)"""
    subs = set()
    for cp, d in CASE_RELATED.items():
        for t in (d['lower'], d['upper'], d['casefold'], d['nfkc']):
            for t2 in (t, t.lower(), t.casefold()):
                if t2.isascii() and t2.isalnum():
                    subs.add((t2.lower(), chr(cp)))
    return sorted(subs)


CASE_SUBS = _case_substitutions()


def case_confusables(w):
    """every spelling of the ASCII word `w` with one occurrence of a letter (sequence) replaced by a non-ASCII
    character that lower()/upper()/casefold()/NFKC relate to it: 'yes' -> 'ye\u017f', 'off' -> 'o\ufb00', 'on' ->
    '\uff4fn' ...; none of them is `w` in any case"""
    out = []
    lw = w.lower()
    for t, c in CASE_SUBS:
        i = lw.find(t)
        while i >= 0:
            out.append(w[:i] + c + w[i + len(t):])
            i = lw.find(t, i + 1)
    return out


INVISIBLE = ['\u200b', '\ufeff', '\u00ad', '\u2060', '\u180e', '\u200e', '\u034f', '\x00', '\x7f']
MARKS = ['\u0301', '\u0308', '\u0323', '\u20dd', '\ufe0f']


def confusables(rng, w):
    """spellings that are *not* the text `w` but that a normalising / folding implementation would equate with it"""
    i = rng.randrange(len(w) + 1) if w else 0
    inv, mk = rng.choice(INVISIBLE), rng.choice(MARKS)
    return [fullwidth(w), mathbold(w), w + mk, w[:i] + mk + w[i:] if i else mk + w, inv + w, w + inv,
            w[:i] + inv + w[i:], w.replace('-', rng.choice(['\u2010', '\u2212', '\uff0d', '\u2011'])) if '-' in w else w + '\u2010',
            unicodedata.normalize('NFD', w) if unicodedata.normalize('NFD', w) != w else '\u2002' + w + '\u200b']
CHUNK = 4000


def generate():
    return C14_gen.generate()


# --------------------------------------------------------------------------
# big integers without tripping the int<->str digit limit

def int_of_text(t):
    """decimal text ('-'? digits) -> int, any length"""
    neg = t.startswith('-')
    d = t[1:] if neg else t
    v = 0
    for i in range(0, len(d), CHUNK):
        part = d[i:i + CHUNK]
        v = v * 10 ** len(part) + int(part)
    return -v if neg else v


def text_of_int(n):
    """canonical decimal text of an int of any length"""
    if n < 0:
        return '-' + text_of_int(-n)
    if n < 10 ** CHUNK:
        return str(n)
    parts = []
    base = 10 ** CHUNK
    while n >= base:
        n, r = divmod(n, base)
        parts.append(str(r).rjust(CHUNK, '0'))
    parts.append(str(n))
    return ''.join(reversed(parts))


# --------------------------------------------------------------------------
# values: JSON-able description <-> Python object <-> driver field

def V(t, v=None, **kw):
    d = {'t': t}
    if v is not None:
        d['v'] = v
    d.update(kw)
    return d


def vstr(s):
    return {'t': 'str', 'v': s}


def vint(n):
    return {'t': 'int', 'v': text_of_int(n)}


def obj_of(val):
    t = val['t']
    if t == 'str':
        return val['v'] + '0' * val.get('zeros', 0)
    if t == 'int':
        return int_of_text(val['v'] + '0' * val.get('zeros', 0))
    if t == 'bool':
        return bool(val['v'])
    if t == 'none':
        return None
    if t == 'float':
        return float(val['v'])
    if t == 'bytes':
        return bytes.fromhex(val['v'])
    if t == 'list':
        return list(val['v'])
    if t == 'complex':
        return complex(val['v'])
    raise ValueError('unknown value type %r' % (t,))


def safe_str(obj):
    """str(obj) as the default interpreter computes it; for bytes that is repr(obj) - asked for directly, because
    str(bytes) is a BytesWarning (an error under python -bb) and this is harness code"""
    if isinstance(obj, (bytes, bytearray)):
        return repr(obj)
    return str(obj)


def field_of(val, obj):
    t = val['t']
    if t == 'str':
        return 's:' + common.hexs(obj)
    if t == 'int':
        return 'i:' + val['v'] + '0' * val.get('zeros', 0)
    if t == 'bool':
        return 'b:%d' % obj
    # any other object: the runtime says what str() and int() do with it
    text = safe_str(obj)
    try:
        r = 'ok=' + text_of_int(int(obj))
    except (TypeError, ValueError, OverflowError) as e:
        r = type(e).__name__
    return 'o:%s:%s' % (common.hexs(text), r)


def short(val):
    v = dict(val)
    if isinstance(v.get('v'), str) and len(v['v']) > 80:
        v['v'] = v['v'][:30] + '...(%d chars)' % len(v['v'])
    return v


# --------------------------------------------------------------------------
# running the implementation, canonical outcomes

class _Default:
    def __repr__(self):
        return '<default sentinel>'


SENTINEL = _Default()


def opt(x):
    return 'N' if x is None else str(x)


# ---- numeric bounds (min_value / max_value / min_length / max_length) -----------------------------------
# a bound in a case is None, an int, or {'t': 'float'|'decimal'|'fraction'|'bool', 'v': text}

def BD(t, v):
    return {'t': t, 'v': v}


def bound_obj(b):
    if b is None or type(b) is int:
        return b
    t = b['t']
    if t == 'float':
        return float(b['v'])
    if t == 'decimal':
        return Decimal(b['v'])
    if t == 'fraction':
        return Fraction(b['v'])
    if t == 'bool':
        return bool(b['v'])
    raise ValueError('unknown bound type %r' % (t,))


def bound_exact(b):
    """('fin', Fraction) - Python compares an int with int/bool/float/Decimal/Fraction exactly - or ('+inf',),
    ('-inf',), ('nan',) (float nan), ('dnan',) (Decimal NaN / sNaN)"""
    o = bound_obj(b)
    if isinstance(o, float):
        if math.isnan(o):
            return ('nan',)
        if math.isinf(o):
            return ('+inf',) if o > 0 else ('-inf',)
    if isinstance(o, Decimal):
        if o.is_nan():
            return ('dnan',)
        if o.is_infinite():
            return ('+inf',) if o > 0 else ('-inf',)
    return ('fin', Fraction(o))


def bound_field(b):
    if b is None:
        return 'N'
    e = bound_exact(b)
    if e[0] == 'fin':
        return text_of_int(e[1].numerator) + '/' + text_of_int(e[1].denominator)
    return e[0]


# ---- the pinned public signatures (as on the clean tree; never read from the tree under test) ----------
SIGNATURES = {
    'bool': ('bool_from_string', ['subject'], [('strict', False), ('default', False)]),
    'intbool': ('int_from_bool_as_string', ['subject'], []),
    'boolstr': ('is_valid_boolstr', ['value'], []),
    'intlike': ('is_int_like', ['val'], []),
    'valint': ('validate_integer', ['value', 'name'], [('min_value', None), ('max_value', None)]),
    'strlen': ('check_string_length', ['value'], [('name', None), ('min_length', 0), ('max_length', None)]),
    'uuid': ('is_uuid_like', ['val'], []),
    'genuuid': ('generate_uuid', [], [('dashed', True)]),
}
# the call form used when a case names none: what the documentation shows
DEFAULT_FORM = {'bool': {'npos': 1, 'kw': ['strict', 'default']}, 'valint': {'npos': 4, 'kw': []},
                'strlen': {'npos': 4, 'kw': []}}


def default_obj(d):
    return SENTINEL if d == 'sentinel' else d


def logical_args(case):
    """parameter name -> argument object, for every parameter of the pinned signature"""
    fn = case['fn']
    obj = obj_of(case['value'])
    if fn == 'bool':
        return {'subject': obj, 'strict': case['strict'], 'default': default_obj(case.get('default', 'sentinel'))}
    if fn == 'valint':
        return {'value': obj, 'name': 'v', 'min_value': bound_obj(case['min']), 'max_value': bound_obj(case['max'])}
    if fn == 'strlen':
        return {'value': obj, 'name': case.get('name', 'v'), 'min_length': bound_obj(case['min']),
                'max_length': bound_obj(case['max'])}
    return {SIGNATURES[fn][1][0]: obj}


def build_call(case):
    """(args, kwargs) of the call form of the case: the first `npos` parameters positionally, the parameters in `kw`
    by keyword in that order, the others omitted (their logical value is the pinned default)"""
    fn = case['fn']
    _, required, optional = SIGNATURES[fn]
    names = required + [n for n, _ in optional]
    logical = logical_args(case)
    form = case.get('form') or DEFAULT_FORM.get(fn) or {'npos': len(names), 'kw': []}
    args = [logical[n] for n in names[:form['npos']]]
    kwargs = dict((n, logical[n]) for n in form['kw'])
    return args, kwargs


def _same(v, d):
    return v is d or (type(v) is type(d) and v == d)


def call_forms(case, rng, limit=None):
    """every legal call form of the pinned signature for the logical arguments of the case"""
    fn = case['fn']
    _, required, optional = SIGNATURES[fn]
    names = required + [n for n, _ in optional]
    defaults = dict(optional)
    logical = logical_args(case)
    forms = []
    for npos in range(len(names) + 1):
        rest = names[npos:]
        omittable = [n for n in rest if n in defaults and _same(logical[n], defaults[n])]
        for mask in itertools.product([False, True], repeat=len(omittable)):
            omit = set(n for n, o in zip(omittable, mask) if o)
            kws = [n for n in rest if n not in omit]
            if len(kws) <= 3:
                perms = list(itertools.permutations(kws))
            else:
                perms = [tuple(kws), tuple(reversed(kws))] + [tuple(rng.sample(kws, len(kws))) for _ in range(2)]
            for pm in perms:
                f = {'npos': npos, 'kw': list(pm)}
                if f not in forms:
                    forms.append(f)
    if limit and len(forms) > limit:
        forms = rng.sample(forms, limit)
    return forms


def words_field(words):
    return ','.join(common.hexs(w) if w else '.' for w in words) if words else '-'


class rebound_tables:
    """The public module tables strutils.TRUE_STRINGS / FALSE_STRINGS rebound by a caller for the duration of one call
    (saved and restored; only cases that are explicitly about this variation use it)."""

    def __init__(self, tables):
        self.tables = tables

    def __enter__(self):
        import whitebox
        from oslo_utils import strutils
        self.mod = strutils
        if not hasattr(strutils, 'TRUE_STRINGS') or not hasattr(strutils, 'FALSE_STRINGS'):
            raise whitebox.HarnessBlind('strutils: public tables TRUE_STRINGS / FALSE_STRINGS not found')
        self.saved = (strutils.TRUE_STRINGS, strutils.FALSE_STRINGS)
        if self.tables:
            kind = list if self.tables.get('as') == 'list' else tuple
            strutils.TRUE_STRINGS = kind(self.tables['true'])
            strutils.FALSE_STRINGS = kind(self.tables['false'])
        return self

    def __exit__(self, *a):
        self.mod.TRUE_STRINGS, self.mod.FALSE_STRINGS = self.saved
        return False


def case_line(case):
    fn = case['fn']
    if fn.startswith('prim/'):
        p = fn[5:]
        if p in ('int10', 'int16'):
            return req('int', p[3:], common.hexs(case['s']))
        if p == 'str':
            return req('str', case['n'])
        return req(p, common.hexs(case['s']))
    val = case['value']
    f = field_of(val, obj_of(val))
    if case.get('tables') and fn in ('bool', 'boolstr', 'intbool'):
        ts, fs = words_field(case['tables']['true']), words_field(case['tables']['false'])
        if fn == 'bool':
            return req('boolT', ts, fs, f, int(bool(case['strict'])))
        return req(fn + 'T', ts, fs, f)
    if fn == 'bool':
        return req('bool', f, int(bool(case['strict'])))
    if fn in ('boolstr', 'intbool', 'intlike', 'uuid'):
        return req(fn, f)
    if fn == 'valint':
        return req('valint', f, bound_field(case['min']), bound_field(case['max']))
    if fn == 'strlen':
        return req('strlen', f, bound_field(case['min']), bound_field(case['max']))
    raise ValueError(fn)


def canon_bool_result(v):
    if v is True or v is False:
        return 'val:%d' % v
    if v is None:
        return 'none'
    return 'other:%r' % (v,)


def model_view(case, reply):
    """the model (and the oracle) say 'default' when bool_from_string returns the caller's default object; with a
    default that is not the sentinel that is the default's own value"""
    if case['fn'] == 'bool' and reply == 'default' and case.get('default', 'sentinel') != 'sentinel':
        return canon_bool_result(case['default'])
    return reply


def _impl(fn):
    """The implementation function a case calls.  All of the harness's own attribute access happens here, outside
    the try block of run_impl: a name the harness cannot find is HarnessBlind, never an implementation outcome."""
    from oslo_utils import strutils, uuidutils
    import whitebox
    if fn == 'prim/fmtuuid':
        f = whitebox.uuid_normalizer()
        if f is None:
            raise whitebox.HarnessBlind('uuidutils: no private helper behaves like _format_uuid_string')
        return f
    if fn.startswith('prim/'):
        return None
    mod = uuidutils if fn in ('uuid', 'genuuid') else strutils
    return whitebox.public_function(mod, SIGNATURES[fn][0])


def run_impl(case):
    """Outcome of the real function, in the driver's reply format."""
    fn = case['fn']
    f = _impl(fn)
    args, kwargs = ([], {}) if fn.startswith('prim/') else build_call(case)
    try:
        if fn.startswith('prim/'):
            p = fn[5:]
            if p == 'int10':
                return 'ok:' + text_of_int(int(case['s']))
            if p == 'int16':
                return 'ok:' + text_of_int(int(case['s'], 16))
            if p == 'strip':
                return common.hexs(case['s'].strip())
            if p == 'lower':
                return common.hexs(case['s'].lower())
            if p == 'fmtuuid':
                r = f(case['s'])
                return common.hexs(r) if isinstance(r, str) else 'other:%r' % (r,)
            if p == 'str':
                return common.hexs(str(int_of_text(case['n'])))
        if case.get('tables'):
            try:                      # a first call with the shipped tables: whatever the function caches, it caches now
                f(*args, **kwargs)
            except Exception:
                pass
            with rebound_tables(case['tables']):
                r = f(*args, **kwargs)
        else:
            r = f(*args, **kwargs)
        if fn == 'bool':
            if r is SENTINEL:
                return 'default'
            return canon_bool_result(r)
        if fn in ('boolstr', 'intlike', 'uuid'):
            return '%d' % r if isinstance(r, bool) else 'other:%r' % (r,)
        if fn == 'intbool':
            return '%d' % r if type(r) is int else 'other:%r' % (r,)
        if fn == 'valint':
            return 'ok:' + text_of_int(r) if type(r) is int else 'other:%r' % (r,)
        if fn == 'strlen':
            return 'ok' if r is None else 'other:%r' % (r,)
    except Exception as e:      # the class name is the canonical outcome
        return type(e).__name__
    raise ValueError(fn)


# --------------------------------------------------------------------------
# generators

def recase(rng, w, mode=None):
    mode = mode or rng.choice(['lower', 'upper', 'title', 'mixed', 'mixed'])
    if mode == 'lower':
        return w.lower()
    if mode == 'upper':
        return w.upper()
    if mode == 'title':
        return w[:1].upper() + w[1:].lower()
    return ''.join(c.upper() if rng.random() < 0.5 else c.lower() for c in w)


def padding(rng, chars=None, maxn=3):
    chars = chars or WS_CHARS
    return ''.join(rng.choice(chars) for _ in range(rng.randrange(0, maxn + 1)))


# run lengths around every plausible buffer / scan limit, up to sizes no implementation should care about
RUN_SMALL = [0, 1, 7, 31, 32, 33, 64]
RUN_BIG = [1000, 70000]


def ws_run(rng, n, kind=None, chars=None):
    """a run of n whitespace characters: one kind repeated, or (kind 'mixed') a random mixture"""
    chars = chars or WS_CHARS
    kind = kind if kind is not None else rng.choice(chars + ['mixed'])
    if kind == 'mixed':
        return ''.join(rng.choice(chars) for _ in range(n))
    return kind * n


def padded_shapes(rng, w, run, junk):
    """the word with a whitespace run before / after / around / inside it, and with junk beyond the run"""
    i = rng.randrange(1, len(w)) if len(w) > 1 else 0
    return [('lead', run + w), ('trail', w + run), ('both', run + w + run),
            ('word-gap-junk', w + run + junk), ('junk-gap-word', junk + run + w),
            ('inner', (w[:i] + run + w[i:]) if i else run + w + junk)]


def long_bool_values(rng, words, quick):
    out = []
    junks = ['x', '1', 'no', 'yes', '\x00', '.']
    for w in words:
        for n in RUN_SMALL:
            for shape, text in padded_shapes(rng, recase(rng, w), ws_run(rng, n), rng.choice(junks)):
                out.append((vstr(text), 'long-pad/%s/%d' % (shape, n)))
    for w in ('true', 'no'):                          # every whitespace kind at the 31/32/33 boundary
        for kind in WS_CHARS:
            for n in (31, 32, 33):
                out.append((vstr(kind * n + w), 'long-pad/lead-each-ws/%d' % n))
                out.append((vstr(w + kind * n + 'x'), 'long-pad/word-gap-junk-each-ws/%d' % n))
    for n in RUN_BIG:
        reps = 1 if (quick and n > 1000) else (2 if quick else 4)
        for _ in range(reps):
            w = recase(rng, rng.choice(words))
            kind = rng.choice([' ', '\t', '\n', rng.choice(WS_CHARS), 'mixed'])
            for shape, text in padded_shapes(rng, w, ws_run(rng, n, kind), rng.choice(junks)):
                out.append((vstr(text), 'long-pad/%s/%d' % (shape, n)))
    return out


def long_int_values(rng, quick):
    """integers with long padding, long zero / underscore runs and long digit strings (up to the digit limit)"""
    out = []
    ws = sorted(INT_WS)
    lim = sys.get_int_max_str_digits()
    for n in RUN_SMALL + RUN_BIG:
        t = text_of_int(rng.choice([0, 7, 42, -42, 2 ** 63, -(10 ** 20)]))
        run = ws_run(rng, n, chars=ws)
        out.append((vstr(run + t), 'long/ws-lead/%d' % n))
        out.append((vstr(t + run), 'long/ws-trail/%d' % n))
        out.append((vstr(run + t + run), 'long/ws-both/%d' % n))
        out.append((vstr(t + run + '1'), 'long/gap-junk/%d' % n))
        out.append((vstr('x' + run + t), 'long/junk-gap/%d' % n))
        out.append((vstr(t.lstrip('-')[:1] + run + t.lstrip('-')[1:] + '0'), 'long/inner-ws/%d' % n))
        if n <= (lim if lim > 0 else 4300) - 25:
            out.append((vstr('0' * n + t.lstrip('-')), 'long/zeros/%d' % n))
            out.append((vstr('1_' * n + '1'), 'long/underscores/%d' % n))
            out.append((vstr('1' + '_' * n + '1'), 'long/underscore-run/%d' % n))
        if n >= 1:
            digits = rng.choice('123456789') + ''.join(rng.choice('0123456789') for _ in range(min(n, 4250) - 1))
            out.append((vstr(digits), 'long/digits/%d' % len(digits)))
            out.append((vstr('-' + digits), 'long/digits/%d' % len(digits)))
            out.append((V('int', digits), 'long/int/%d' % len(digits)))
            out.append((vstr(digits + '.0'), 'long/digits-float/%d' % len(digits)))
            if len(digits) >= 1000:               # decorations that only differ far beyond any prefix one might compare
                for name, text in (('trail-ws', digits + ' '), ('trail-junk', digits + 'x'), ('lead-zero', '0' + digits),
                                   ('plus', '+' + digits), ('under', digits[:-1] + '_' + digits[-1:]),
                                   ('last-digit', digits[:-1]), ('lead-ws', '\n' + digits)):
                    out.append((vstr(text), 'long/digits-%s/%d' % (name, len(digits))))
    return out


def long_uuid_values(rng, quick):
    out = []
    for n in RUN_SMALL + RUN_BIG:
        h = hex_string(rng, 32)
        hy = hyphenated(h)
        big = n > 1000
        forms = [('braces', '{' * n + hy + '}' * n), ('hyphens-lead', '-' * n + h), ('hyphens-inner', h[:16] + '-' * n + h[16:]),
                 ('urn-repeat', 'urn:' * n + 'uuid:' * n + h), ('urn-trail', h + 'urn:' * n), ('uuid-inner', h[:7] + 'uuid:' * n + h[7:]),
                 ('ws-lead', ' ' * n + h if n else 'g' + h), ('junk-trail', h + 'x' * max(n, 1)), ('zeros-lead', '0' * max(n, 1) + h),
                 ('hex-long', hex_string(rng, max(n, 1))), ('brace-inner', h[:9] + '{' * max(n, 1) + h[9:])]
        if big and quick:
            forms = forms[:4] + forms[6:8]
        for name, text in forms:
            out.append((vstr(text), 'long/%s/%d' % (name, n)))
    return out


def near_miss(rng, w, alphabet):
    k = rng.randrange(6)
    i = rng.randrange(len(w) + 1)
    c = rng.choice(alphabet)
    if k == 0 and len(w) > 0:
        i = min(i, len(w) - 1)
        return w[:i] + w[i + 1:]
    if k == 1:
        return w[:i] + c + w[i:]
    if k == 2 and len(w) > 0:
        i = min(i, len(w) - 1)
        return w[:i] + c + w[i + 1:]
    if k == 3:
        return w + w
    if k == 4 and len(w) > 1:
        i = max(1, min(i, len(w) - 1))
        return w[:i] + rng.choice(WS_CHARS) + w[i:]
    return w[::-1]


def rand_text(rng, alphabet, maxlen=12):
    return ''.join(rng.choice(alphabet) for _ in range(rng.randrange(0, maxlen + 1)))


def other_values(rng):
    return [V('none'), V('float', 'inf'), V('float', '-inf'), V('float', 'nan'), V('float', '1.0'), V('float', '0.0'),
            V('float', '-0.0'), V('float', '1e22'), V('float', '2.5'), V('float', repr(rng.uniform(-5, 5))),
            V('float', '1e308'), V('bytes', b'1'.hex()), V('bytes', b'12'.hex()), V('bytes', b'true'.hex()),
            V('bytes', b''.hex()), V('bytes', (b'a' * 32).hex()),
            V('list', []), V('list', [1]), V('complex', '1j'), V('bool', True), V('bool', False)]


def words_now():
    """the tree's word tables, for the generators only (the oracle uses DOC_TRUE/DOC_FALSE); if they cannot be
    located the generators fall back to the documented words"""
    try:
        t, f = C14_gen.word_tables()
        return list(t), list(f)
    except Exception:
        return list(DOC_TRUE), list(DOC_FALSE)


def gen_bool_values(rng, n, alphabet):
    """(value, tag) for the three bool functions"""
    tw, fw = words_now()
    words = sorted(set(tw + fw + DOC_TRUE + DOC_FALSE))
    out = []
    for w in words:                                   # every word x fixed casings x paddings, always
        for mode in ('lower', 'upper', 'title'):
            out.append((vstr(recase(rng, w, mode)), 'word/' + mode))
            out.append((vstr(rng.choice(WS_CHARS) + recase(rng, w, mode) + rng.choice(WS_CHARS)), 'word-padded/' + mode))
        for ws in WS_CHARS:
            out.append((vstr(ws + w), 'word-lpad-each-ws'))
            out.append((vstr(w + ws), 'word-rpad-each-ws'))
    for v in other_values(rng) + [vint(k) for k in (0, 1, 2, -1, 10, 11)]:
        out.append((v, 'nonstr/' + v['t']))
    for w in words:                                   # look-alikes: never a documented word in any case
        for c in confusables(rng, w) + confusables(rng, w.upper()):
            out.append((vstr(c), 'confusable'))
            out.append((vstr(rng.choice(WS_CHARS) + c + rng.choice(WS_CHARS)), 'confusable'))
        for c in case_confusables(w) + case_confusables(w.upper()) + case_confusables(recase(rng, w, 'mixed')):
            out.append((vstr(c), 'confusable/case'))
            if rng.random() < 0.25:
                out.append((vstr(rng.choice(WS_CHARS) + c + rng.choice(WS_CHARS)), 'confusable/case'))
    out += long_bool_values(rng, words, n < 50000)
    lim = sys.get_int_max_str_digits()
    if lim > 0:                                       # str(int) at the conversion limit (known finding C14-F2)
        out.append((V('int', '1', zeros=lim - 1), 'limit/int/+0'))
        out.append((V('int', '1', zeros=lim), 'limit/int/+1'))
    fixed = ['', ' ', 'none', 'null', 'enabled', 'tru', 'yess', '2', '00', '01', '-1', '+1', '1.0', 'o n', 'on\x00',
             'True\n', '\ttrue', ' FALSE ', 'yEs', 'of', 'nO', 'y e s', '1 0', 't\x1cf']
    for s in fixed:
        out.append((vstr(s), 'fixed'))
    n = max(n, len(out) + n // 5)                     # the structured part never crowds out the random stream
    while len(out) < n:
        r = rng.random()
        w = rng.choice(words)
        if r < 0.35:
            out.append((vstr(padding(rng) + recase(rng, w) + padding(rng)), 'word-padded/random'))
        elif r < 0.45:
            out.append((vstr(recase(rng, w)), 'word/random-case'))
        elif r < 0.80:
            m = near_miss(rng, recase(rng, w), alphabet)
            out.append((vstr(padding(rng, maxn=1) + m + padding(rng, maxn=1)), 'near-miss'))
        else:
            out.append((vstr(rand_text(rng, alphabet, 6)), 'arbitrary'))
    return out


def decorate_int(rng, n, kind):
    t = text_of_int(abs(n))
    sign = '-' if n < 0 else ''
    if kind == 'canon':
        return sign + t
    if kind == 'plus':
        return ('+' if n >= 0 else '-') + t
    if kind == 'ws':
        return padding(rng, sorted(INT_WS)) + sign + t + (padding(rng, sorted(INT_WS)) or ' ')
    if kind == 'ws1c':
        return rng.choice(['\x1c', '\x1d', '\x1e', '\x1f']) + sign + t
    if kind == 'zeros':
        return sign + '0' * rng.randrange(1, 4) + t
    if kind == 'under':
        if len(t) < 2:
            return sign + t + '_' + t
        i = rng.randrange(1, len(t))
        return sign + t[:i] + '_' + t[i:]
    if kind == 'under-bad':
        return rng.choice([sign + '_' + t, sign + t + '_', sign + t[:1] + '__' + t[1:] + '1', '_' + sign + t])
    if kind == 'float':
        return sign + t + rng.choice(['.0', '.', 'e0', '.5', 'e1'])
    if kind == 'signspace':
        return (sign or '+') + ' ' + t
    if kind == 'nd':
        z = rng.choice([0x660, 0x966, 0xff10, 0x1d7ce, 0x1d7d8, 0x1e950])
        return sign + ''.join(chr(z + int(c)) for c in t)
    if kind == 'hexish':
        return rng.choice(['0x', '0X', '0b', '0o']) + t
    if kind == 'tail':
        return sign + t + rng.choice(['\x00', 'L', 'l', ' 1', 'a', '-', '+', ',000'])
    if kind == 'negzero':
        return '-' + '0' * rng.randrange(1, 3) + (t if n else '')
    raise ValueError(kind)


INT_KINDS = ['canon', 'plus', 'ws', 'ws1c', 'zeros', 'under', 'under-bad', 'float', 'signspace', 'nd', 'hexish',
             'tail', 'negzero']
BOUNDS = [None, 0, 1, -1, 5, -5, 10, 100, 255, 65535, 2 ** 31 - 1, -2 ** 31, 2 ** 31, 2 ** 63 - 1, -2 ** 63, 2 ** 63,
          2 ** 64, 10 ** 30]


NUM_BOUNDS = [
    BD('float', '7.5'), BD('float', '-6.5'), BD('float', '0.5'), BD('float', '-0.5'), BD('float', '1e-300'),
    BD('float', '-1e-300'), BD('float', '5e-324'), BD('float', '0.1'), BD('float', '7.0'), BD('float', '-0.0'),
    BD('float', '9007199254740992.0'), BD('float', '9007199254740994.0'), BD('float', '1e+22'), BD('float', '1e+308'),
    BD('float', '-1e+308'), BD('float', '2.5'), BD('float', 'inf'), BD('float', '-inf'), BD('float', 'nan'),
    BD('decimal', '7.5'), BD('decimal', '-6.5'), BD('decimal', '5.0'), BD('decimal', '0.1'), BD('decimal', '-0E-10'),
    BD('decimal', '1E+400'), BD('decimal', '-1E-400'), BD('decimal', '2.50'), BD('decimal', 'Infinity'),
    BD('decimal', '-Infinity'), BD('decimal', 'NaN'), BD('decimal', 'sNaN'),
    BD('fraction', '5/2'), BD('fraction', '-13/2'), BD('fraction', '1/3'), BD('fraction', '7/1'), BD('fraction', '-1/1000'),
    BD('fraction', '3000000000000000000000000000001/3'),
    BD('bool', True), BD('bool', False),
]


def ints_around(b):
    """the integers that straddle a bound"""
    e = bound_exact(b)
    if e[0] != 'fin':
        return [0, 5, -5, 2 ** 70]
    lo, hi = math.floor(e[1]), math.ceil(e[1])
    return sorted(set([lo - 1, lo, hi, hi + 1]))


def numeric_bound_cases(rng, quick):
    """validate_integer with bounds of every numeric type the code compares, values on both sides of each"""
    out = []
    for b in NUM_BOUNDS:
        for n in ints_around(b):
            forms = [vint(n), vstr(text_of_int(n))] + ([] if quick else [vstr(decorate_int(rng, n, 'ws')),
                                                                         vstr(decorate_int(rng, n, 'under'))])
            for v in forms:
                out.append((v, b, None, 'bound-type/%s/min' % b['t']))
                out.append((v, None, b, 'bound-type/%s/max' % b['t']))
            out.append((vint(n), b, b, 'bound-type/%s/both' % b['t']))
            out.append((vint(n), n - 1, b, 'bound-type/%s/int-min' % b['t']))
            out.append((vint(n), b, n + 1, 'bound-type/%s/int-max' % b['t']))
            out.append((vint(n), rng.choice(NUM_BOUNDS), rng.choice(NUM_BOUNDS), 'bound-type/mixed'))
    return out


def numeric_length_bound_cases(rng, quick):
    out = []
    bounds = [b for b in NUM_BOUNDS if bound_exact(b)[0] != 'fin' or -3 <= bound_exact(b)[1] <= 12]
    for b in bounds:
        for n in ints_around(b):
            if not (0 <= n <= 2000):
                continue
            text = 'a' * n if rng.random() < 0.5 else uni_text(rng, n)
            out.append((vstr(text), b, None, 'bound-type/%s/min' % b['t']))
            out.append((vstr(text), 0, b, 'bound-type/%s/max' % b['t']))
            out.append((vstr(text), b, b, 'bound-type/%s/both' % b['t']))
            out.append((vstr(text), rng.choice(bounds), rng.choice(bounds), 'bound-type/mixed'))
    return out


def gen_call_forms(rng, quick):
    """every legal call form of the pinned signatures on a fixed set of logical arguments"""
    out = []
    lim = 14 if quick else None

    def add(case):
        for f in call_forms(case, rng, lim):
            out.append((dict(case, form=f), 'form/%s/npos%d-kw%d' % (case['fn'], f['npos'], len(f['kw']))))
    for v in [vstr('maybe'), vstr('yes'), vstr(' NO '), vstr(''), vstr('t'), V('bool', True), V('bool', False), V('none'),
              vint(1), vint(7)]:
        for strict in (False, True):
            for d in ('sentinel', False, True, None):
                add({'fn': 'bool', 'value': v, 'strict': strict, 'default': d})
    for fn, vals in (('intbool', [vstr('on'), vstr('maybe'), V('bool', True)]),
                     ('boolstr', [vstr('Off'), vstr(' off'), vint(1)]),
                     ('intlike', [vstr('12'), vstr('012'), vint(5), V('none')]),
                     ('uuid', [vstr('a' * 32), vstr('a' * 31), vint(5)])):
        for v in vals:
            add({'fn': fn, 'value': v})
    vbounds = [(None, None), (7, None), (None, 6), (0, 10), (8, 9), (BD('float', '7.5'), None), (None, BD('decimal', '-6.5')),
               (BD('fraction', '5/2'), 7)]
    for v in [vint(7), vstr('7'), vstr(' -6 '), vstr('x'), V('float', '2.5'), vint(2)]:
        for lo, hi in vbounds:
            add({'fn': 'valint', 'value': v, 'min': lo, 'max': hi})
    for v in [vstr('abc'), vstr(''), vint(3)]:
        for name in (None, 'v'):
            for lo, hi in [(0, None), (3, 3), (4, None), (0, 2), (0, 0), (1, None), (0, BD('float', '2.5'))]:
                add({'fn': 'strlen', 'value': v, 'name': name, 'min': lo, 'max': hi})
    return out


TABLE_VARIANTS = [
    ('unchanged', DOC_TRUE, DOC_FALSE, None),
    ('extended-true', DOC_TRUE + ['enabled', 'ja'], DOC_FALSE, None),
    ('extended-false', DOC_TRUE, DOC_FALSE + ['disabled', 'nein'], None),
    ('narrowed', ['true', 'on', 'yes', '1'], ['false', 'off', 'no', '0'], None),
    ('swapped', DOC_FALSE, DOC_TRUE, None),
    ('empty-true', [], DOC_FALSE, None),
    ('both-empty', [], [], None),
    ('overlap', DOC_TRUE + ['maybe'], DOC_FALSE + ['maybe', 'on'], None),
    ('odd-entries', ['Yes', ' padded ', '', 'ok'], ['NO', 'no way', 'nope'], None),
    ('as-list', DOC_TRUE + ['enabled'], ['false', 'off'], 'list'),
]


def gen_table_cases(rng, quick):
    """The public tables strutils.TRUE_STRINGS / FALSE_STRINGS rebound by the caller between two calls: the functions
    must classify by the tables in force at call time and keep agreeing with each other."""
    out = []
    for name, tw, fw, kind in TABLE_VARIANTS:
        tables = {'true': list(tw), 'false': list(fw)}
        if kind:
            tables['as'] = kind
        words = sorted(set(list(tw) + list(fw) + DOC_TRUE + DOC_FALSE + ['enabled', 'disabled', 'maybe', 'ok', 'nope']))
        vals = []
        for w in words:
            vals += [w, w.upper(), recase(rng, w, 'mixed'), rng.choice(WS_CHARS) + w + rng.choice(WS_CHARS)]
            if not quick or rng.random() < 0.3:
                vals += [near_miss(rng, w, ASCII) if w else 'x', ws_run(rng, 33) + w, w + ws_run(rng, 40) + 'x']
        vals += ['', ' ', 'Enabled ', 'yes no']
        for t in vals:
            v = vstr(t)
            tag = 'tables/' + name
            out.append(({'fn': 'bool', 'value': v, 'strict': False, 'tables': tables}, tag))
            out.append(({'fn': 'bool', 'value': v, 'strict': True, 'tables': tables}, tag))
            out.append(({'fn': 'boolstr', 'value': v, 'tables': tables}, tag))
            out.append(({'fn': 'intbool', 'value': v, 'tables': tables}, tag))
        for v in (V('bool', True), V('bool', False), vint(1), vint(0), V('none')):
            out.append(({'fn': 'bool', 'value': v, 'strict': True, 'tables': tables}, 'tables/' + name))
            out.append(({'fn': 'boolstr', 'value': v, 'tables': tables}, 'tables/' + name))
    return out


def gen_int_values(rng, centre):
    """values around an integer: int form, canonical str form, decorated str forms, floats"""
    out = []
    for d in (-1, 0, 1):
        n = centre + d
        out.append((vint(n), 'int'))
        for k in INT_KINDS:
            out.append((vstr(decorate_int(rng, n, k)), 'str/' + k))
        for c in rng.sample(confusables(rng, text_of_int(n)), 3):     # int() is modelled on every character
            out.append((vstr(c), 'str/confusable'))
        if abs(n) < 2 ** 53:
            out.append((V('float', repr(float(n))), 'float'))
    return out


DEFAULT_LIMIT = 4300       # CPython's default int<->str digit limit; lengths around it are probed whatever the limit is


def limit_values():
    """canonical and non-canonical digit strings / ints of 4299..4302, 5000 and 10000 digits (and around the interpreter's
    own limit if that is another one).  With the default limit the unchanged code answers False / ValueError beyond
    4300 digits (known finding C14-F2) and so does the model; with the limit lifted it accepts them."""
    lim = sys.get_int_max_str_digits()
    lens = [DEFAULT_LIMIT - 1, DEFAULT_LIMIT, DEFAULT_LIMIT + 1, DEFAULT_LIMIT + 2, 5000, 10000]
    if lim > 0 and lim != DEFAULT_LIMIT:
        lens += [lim - 1, lim, lim + 1, lim + 2]
    out = []
    for nd in lens:
        tag = '%+d' % (nd - DEFAULT_LIMIT)
        for lead in ('1', '9', '-1'):
            zeros = nd - len(lead.lstrip('-'))
            out.append((V('str', lead, zeros=zeros), 'limit/str/' + tag))
            out.append((V('int', lead, zeros=zeros), 'limit/int/' + tag))
        out.append((vstr(' +' + '0' * (nd - 1) + '7 '), 'limit/str-zeros/' + tag))
        out.append((vstr('1_' * (nd - 1) + '1'), 'limit/str-under/' + tag))
        out.append((vstr('7' * nd + ' '), 'limit/str-trail-ws/' + tag))
        out.append((vstr('0' + '7' * (nd - 1)), 'limit/str-lead-zero/' + tag))
        out.append((vstr('+' + '7' * nd), 'limit/str-plus/' + tag))
        out.append((vstr('7' * nd + '.0'), 'limit/str-float/' + tag))
    return out


def model_limit():
    """the digit limit the built model has (the generated constant)"""
    try:
        m = re.search(r'def maxStrDigits : Nat := (\d+)', open(C14_gen.OUT).read())
        return int(m.group(1))
    except Exception:
        return DEFAULT_LIMIT


def digit_load(case):
    """how many decimal digits int()/str() would have to convert for this case"""
    if case['fn'] == 'prim/str':
        return len(case['n'])
    if case['fn'].startswith('prim/'):
        return sum(1 for c in case['s'] if c.isdecimal())
    v = case['value']
    if v['t'] == 'int':
        return len(v['v'].lstrip('-')) + v.get('zeros', 0)
    if v['t'] == 'str':
        return sum(1 for c in v['v'] if c.isdecimal()) + v.get('zeros', 0)
    return 0


def outside_configuration(ctx, case):
    """cases the MODEL cannot speak about under the ambient configuration of this (child) run; the implementation-only
    search still judges them with the oracle, which reads the configuration from the interpreter"""
    amb = getattr(ctx, 'ambient', None)
    if amb is None:
        return None
    # the model is built with the default int<->str digit limit (generated constant); when the interpreter runs with
    # another limit, texts longer than the smaller of the two are converted by one side and refused by the other
    lims = [x for x in (model_limit(), sys.get_int_max_str_digits()) if x > 0]
    if model_limit() != sys.get_int_max_str_digits() and lims and digit_load(case) > min(lims):
        return 'digit-limit'
    # under python -bb str(bytes) raises BytesWarning inside the library (str(subject), str(val), str(value)): that is the
    # configuration's doing; the model describes str(bytes) of the default interpreter
    if sys.flags.bytes_warning >= 2 and 'value' in case and case['value']['t'] == 'bytes' \
            and case['fn'] in ('bool', 'boolstr', 'intbool', 'intlike', 'valint'):
        return 'bytes-warning'
    return None


def gen_intlike(rng, n, alphabet):
    out = []
    for b in BOUNDS[1:]:
        out += gen_int_values(rng, b)
    out += limit_values()
    out += long_int_values(rng, n < 50000)
    out += [(v, 'nonstr/' + v['t']) for v in other_values(rng)]
    for s in ['', '-', '+', '_', '0', '-0', '+0', '00', ' ', '1 2', '١٢', '1e3', 'one', '0x10', '1_000', '１２']:
        out.append((vstr(s), 'fixed'))
    while len(out) < n:
        r = rng.random()
        if r < 0.55:
            mag = rng.choice([10, 10 ** 3, 10 ** 9, 10 ** 20, 10 ** 60])
            out += gen_int_values(rng, rng.randrange(-mag, mag))[:rng.randrange(4, 20)]
        elif r < 0.8:
            out.append((vstr(rand_text(rng, list('0123456789') * 3 + list('+-_ .e\t') + ND_SAMPLE[:10], 8)), 'digit-soup'))
        else:
            out.append((vstr(rand_text(rng, alphabet, 6)), 'arbitrary'))
    return out


def gen_valint(rng, n, alphabet):
    """(value, min, max, tag)"""
    out = []
    pairs = []
    for lo in BOUNDS:
        for hi in (None, lo, (lo or 0) + 1, (lo or 0) + 10, 2 ** 63 - 1, (lo or 0) - 1):
            pairs.append((lo, hi))
    pairs += [(None, b) for b in BOUNDS]
    for lo, hi in pairs:
        centres = set(x for x in (lo, hi) if x is not None) or {0}
        for c in centres:
            vals = gen_int_values(rng, c)
            for v, tag in (vals if len(out) < n // 2 else vals[:8]):
                out.append((v, lo, hi, 'bound/' + tag))
    for v, tag in limit_values():
        out.append((v, None, None, tag))
        out.append((v, 0, None, tag))
    for v, tag in long_int_values(rng, n < 50000):
        out.append((v, None, None, tag))
        out.append((v, rng.choice([0, -100, None]), rng.choice([100, 10 ** 30, None]), tag))
    out += numeric_bound_cases(rng, n < 50000)
    for v in other_values(rng):
        out.append((v, rng.choice(BOUNDS), rng.choice(BOUNDS), 'nonstr/' + v['t']))
    while len(out) < n:
        lo, hi = rng.choice(pairs)
        r = rng.random()
        if r < 0.6:
            c = rng.choice([x for x in (lo, hi, 0) if x is not None]) + rng.randrange(-3, 4)
            v, tag = rng.choice(gen_int_values(rng, c))
            out.append((v, lo, hi, 'near/' + tag))
        elif r < 0.8:
            out.append((vstr(rand_text(rng, list('0123456789') * 3 + list('+-_ .e\t') + ND_SAMPLE[:10], 8)), lo, hi,
                        'digit-soup'))
        else:
            out.append((vstr(rand_text(rng, alphabet, 6)), lo, hi, 'arbitrary'))
    return out


def gen_strlen(rng, n, alphabet):
    out = []
    mins = [0, 1, 2, 5, 10, 255, -1]
    maxs = [None, 0, 1, 2, 5, 10, 255, 256, -1]
    for lo in mins:
        for hi in maxs:
            lens = {0, 1}
            for b in (lo, hi):
                if b is not None:
                    lens |= {max(0, b - 1), max(0, b), max(0, b + 1)}
            for ln in sorted(lens):
                pool = rng.choice([['a'], alphabet, WS_CHARS + ['x'], OUTSIDE + ['z']])
                out.append((vstr(''.join(rng.choice(pool) for _ in range(ln))), lo, hi, 'len-at-bound'))
                out.append((vstr(uni_text(rng, ln, rng.choice([None, rng.choice(UNI_UNITS)]))), lo, hi,
                            'len-at-bound/unicode'))
    # every unit (decomposed, jamo, precomposed, compatibility, astral, BMP extremes, invisible) at a bound and +-1
    sweep_bounds = [1, 2, 3, 255] if n < 50000 else [1, 2, 3, 4, 5, 10, 16, 64, 255, 256]
    for unit in UNI_UNITS:
        for b in sweep_bounds:
            for ln in (b - 1, b, b + 1):
                for lo, hi in ((b, None), (0, b), (b, b)):
                    out.append((vstr(uni_text(rng, ln, unit)), lo, hi, 'len-at-bound/unit'))
    out += numeric_length_bound_cases(rng, n < 50000)
    for b in (1000, 70000):                           # no length is special: huge strings at huge and small bounds
        for ln in (b - 1, b, b + 1):
            for lo, hi in ((b, None), (0, b), (0, 255), (b, b)):
                text = 'a' * ln if (lo, hi) == (0, 255) or rng.random() < 0.5 else uni_text(rng, ln)
                out.append((vstr(text), lo, hi, 'len-at-bound/huge'))
    for v in other_values(rng) + [vint(3), vint(0)]:
        out.append((v, rng.choice(mins), rng.choice(maxs), 'nonstr/' + v['t']))
    while len(out) < n:
        lo, hi = rng.choice(mins), rng.choice(maxs + [rng.randrange(0, 40)])
        ln = max(0, rng.choice([lo, hi if hi is not None else lo, rng.randrange(0, 40)]) + rng.randrange(-2, 3))
        if rng.random() < 0.5:
            out.append((vstr(''.join(rng.choice(alphabet) for _ in range(ln))), lo, hi, 'random'))
        else:
            out.append((vstr(uni_text(rng, ln)), lo, hi, 'random/unicode'))
    return out


def hex_string(rng, ln, case=None):
    case = case or rng.choice(['lower', 'upper', 'mixed'])
    if case == 'lower':
        return ''.join(rng.choice(HEXL) for _ in range(ln))
    if case == 'upper':
        return ''.join(rng.choice(HEXU) for _ in range(ln))
    return ''.join(rng.choice(HEXL + 'ABCDEF') for _ in range(ln))


def hyphenated(h):
    return '-'.join([h[:8], h[8:12], h[12:16], h[16:20], h[20:]])


DECORATIONS = {
    'plain': lambda h: h,
    'hyphenated': hyphenated,
    'braced': lambda h: '{' + hyphenated(h) + '}',
    'urn': lambda h: 'urn:uuid:' + hyphenated(h),
}


class _Pub:
    """public functions of a module, resolved through whitebox.public_function (HarnessBlind if gone)"""

    def __init__(self, modname):
        self._modname = modname

    def __getattr__(self, name):
        import importlib
        import whitebox
        return whitebox.public_function(importlib.import_module(self._modname), name)


def gen_uuid(rng, n, alphabet):
    uuidutils = _Pub('oslo_utils.uuidutils')
    out = []
    for ln in (30, 31, 32, 33, 34):
        for dname, dec in sorted(DECORATIONS.items()):
            for case in ('lower', 'upper', 'mixed'):
                for _ in range(3):
                    out.append((vstr(dec(hex_string(rng, ln, case))), 'len%d/%s/%s' % (ln, dname, case)))
    for h in ('0' * 32, 'f' * 32, 'F' * 32, '0' * 31 + '1', '8' + '0' * 31):
        for dname, dec in sorted(DECORATIONS.items()):
            out.append((vstr(dec(h)), 'extreme/' + dname))
    for _ in range(max(20, n // 10)):
        out.append((vstr(uuidutils.generate_uuid()), 'generate_uuid/dashed'))
        out.append((vstr(uuidutils.generate_uuid(dashed=False)), 'generate_uuid/plain'))
    h = hex_string(rng, 32, 'lower')
    odd = ['{{{' + h + '}{', 'uuurn:id:' + h, h[:16] + 'urn:' + h[16:], '-' * 40 + h, 'uuuuid:rn:' + h, 'URN:UUID:' + h,
           'urn:uuid:{' + h + '}', '{urn:uuid:' + h + '}', h + '\n', ' ' + h, h + ' ', '+' + h[1:], ' ' + h[1:],
           '0x' + h[2:], h[:1] + '_' + h[2:], '0x' + h, h[:31], h + '0', '', 'urn:uuid:', '{}', '-', h[:8] + '-' + h[8:],
           h.replace('a', 'g'), h[:5] + 'g' + h[6:], '１' * 32, h[:31] + '\x00', h[:20] + '{' + h[20:], 'u' + h,
           'uuid:' + h, 'urn:' + h, 'uurn:uid:' + h, 'uuid' + h, h + 'urn:', h[:31] + 'urn:' + h[31:]]
    for s in odd:
        out.append((vstr(s), 'odd'))
    out += long_uuid_values(rng, n < 50000)
    for v in other_values(rng) + [vint(int(h, 16)), vint(0)]:
        out.append((v, 'nonstr/' + v['t']))
    for dname, dec in sorted(DECORATIONS.items()):
        for case in ('lower', 'upper'):
            hx = hex_string(rng, 32, case)
            for c in confusables(rng, dec(hx)):
                out.append((vstr(c), 'confusable/' + dname))
            cc = case_confusables(hx)
            for c in rng.sample(cc, min(6, len(cc))):
                out.append((vstr(dec(c) if dname == 'plain' else c), 'confusable/case'))
    for t, c in CASE_SUBS:                            # 'urn:' / 'uuid:' spelled with a look-alike
        for pre in ('urn:uuid:', 'uuid:', 'urn:'):
            if t in pre:
                out.append((vstr(pre.replace(t, c, 1) + hex_string(rng, 32)), 'confusable/prefix'))
    pieces = ['urn:', 'uuid:', '{', '}', '-', 'u', 'ur', 'uu', 'uui', 'uuid', 'urn', ':', 'rn:', 'id:']
    while len(out) < n:
        r = rng.random()
        ln = rng.choice([32, 32, 32, 31, 33, 30, 34])
        hx = hex_string(rng, ln)
        if r < 0.35:
            dname = rng.choice(sorted(DECORATIONS))
            out.append((vstr(DECORATIONS[dname](hx)), 'len%d/%s/random' % (ln, dname)))
        elif r < 0.65:           # decorations scattered over the digits
            s = list(hx)
            for _ in range(rng.randrange(1, 5)):
                s.insert(rng.randrange(len(s) + 1), rng.choice(pieces))
            out.append((vstr(''.join(s)), 'scattered-decoration'))
        elif r < 0.9:            # one non-hex character somewhere in a decorated UUID
            s = list(DECORATIONS[rng.choice(sorted(DECORATIONS))](hx))
            i = rng.randrange(len(s))
            c = rng.choice(alphabet + list('gGxX_+ \n'))
            if rng.random() < 0.5:
                s[i] = c
            else:
                s.insert(i, c)
            out.append((vstr(''.join(s)), 'one-bad-char'))
        else:
            out.append((vstr(rand_text(rng, alphabet + list(HEXL) * 4 + pieces, 40)), 'arbitrary'))
    return out


def gen_prims(rng, n, alphabet):
    out = []
    soup = list('0123456789') * 3 + list('+-_ \t\n\x0b\x0c\r\x1c.exXabcdefABCDEF') + ND_SAMPLE[:20] + \
        [c for c in WS_CHARS if ord(c) >= 128][:6]
    for s in ['', '0x', '0x_1', '0x__1', '0X1f', '0_x1', ' 0x1f ', '-0x1f', '+0x_f', '0b11', '0o7', 'f_f', '_f', 'f_',
              '0x', '0', '-0', '+', '-', ' ', '1_0', '1__0', '\x1c1', '1\x1f', '　1　', '1\x00', '\x001', '١٢٣',
              '0x１', 'ｆ', '𝟗', '-٣', '1 ', ' 1', '1\n', '\n1', '1\x85', '1\xa0', '0_0', '00', '_', '0x_', '0xg', 'g']:
        out.append({'fn': 'prim/int10', 's': s})
        out.append({'fn': 'prim/int16', 's': s})
    for k in range(n):
        s = rand_text(rng, soup, 7)
        out.append({'fn': 'prim/int10' if k % 2 else 'prim/int16', 's': s})
    for k in range(n // 2):
        core = rand_text(rng, alphabet, 5)
        out.append({'fn': 'prim/strip', 's': padding(rng) + core + padding(rng)})
        out.append({'fn': 'prim/lower', 's': rand_text(rng, alphabet, 8)})
        out.append({'fn': 'prim/fmtuuid', 's': rand_text(rng, list(HEXL + 'ABCDEF') + ['urn:', 'uuid:', '{', '}', '-', 'u', 'uu',
                                                                           'ur', ':', 'U', 'URN:'] + alphabet[:4], 14)})
    lim = sys.get_int_max_str_digits()
    for nd in ([lim - 1, lim, lim + 1] if lim > 0 else []) + [1, 2, 19, 20, 39]:
        out.append({'fn': 'prim/str', 'n': '1' + '0' * (nd - 1)})
        out.append({'fn': 'prim/str', 'n': '-' + '9' * nd})
    for k in range(n // 4):
        out.append({'fn': 'prim/str', 'n': text_of_int(rng.randrange(-10 ** 40, 10 ** 40))})
    return out


def gen_cases(ctx, alphabet):
    """All (case, tag) of one run."""
    rng = ctx.rng
    n = 3000 if ctx.quick else 100000
    if getattr(ctx, 'ambient', None):     # children of the ambient sweep: a third of the random budget; every structured
        n = n // 3                        # family (words, bounds, forms, tables, lengths, limits) is generated in full
    cases = []
    bools = gen_bool_values(rng, n, alphabet)
    for v, tag in bools:
        cases.append(({'fn': 'bool', 'value': v, 'strict': False}, tag))
        cases.append(({'fn': 'bool', 'value': v, 'strict': True}, tag))
        cases.append(({'fn': 'boolstr', 'value': v}, tag))
        cases.append(({'fn': 'intbool', 'value': v}, tag))
    for v, tag in gen_intlike(rng, n, alphabet):
        cases.append(({'fn': 'intlike', 'value': v}, tag))
    for v, lo, hi, tag in gen_valint(rng, n, alphabet):
        cases.append(({'fn': 'valint', 'value': v, 'min': lo, 'max': hi}, tag))
    for v, lo, hi, tag in gen_strlen(rng, n, alphabet):
        cases.append(({'fn': 'strlen', 'value': v, 'min': lo, 'max': hi}, tag))
    for v, tag in gen_uuid(rng, n, alphabet):
        cases.append(({'fn': 'uuid', 'value': v}, tag))
    for c in gen_prims(rng, n // 2, alphabet):
        cases.append((c, 'prim'))
    cases += gen_call_forms(rng, ctx.quick)
    cases += gen_table_cases(rng, ctx.quick)
    return cases


ACCEPT = {'bool': ('val:1', 'val:0'), 'boolstr': ('1',), 'intbool': ('1',), 'intlike': ('1',), 'uuid': ('1',)}
NEAR_TAGS = ('tables', 'form', 'bound-type', 'long', 'near', 'bound', 'len-at-bound', 'word', 'limit', 'one-bad-char', 'scattered', 'odd', 'len3', 'str/', 'fixed', 'confusable')


def is_nontrivial(case, tag, impl):
    fn = case['fn']
    if fn.startswith('prim/'):
        return not impl.endswith('Error')
    if impl in ACCEPT.get(fn, ()) or impl.startswith('ok'):
        return True
    return tag.startswith(NEAR_TAGS)


def public_view_of_fmtuuid(case):
    """When the tree has no locatable normalisation helper, the same normalisation is observed through the public
    is_uuid_like: the probe text padded with zeros to 32 hex digits is UUID-like iff the decoration is removed the
    way the model removes it."""
    s = case['s']
    return {'fn': 'uuid', 'value': vstr(s + '0' * max(0, 32 - sum(1 for c in s if c in HEXL + 'ABCDEF')))}


def correspondence(ctx):
    import whitebox
    cases = gen_cases(ctx, DOMAIN)
    if whitebox.uuid_normalizer() is None:
        ctx.notes.append('uuidutils: no private helper behaves like _format_uuid_string; its normalisation is observed '
                         'through is_uuid_like only')
        cases = [((public_view_of_fmtuuid(c), 'prim-via-public') if c['fn'] == 'prim/fmtuuid' else (c, t))
                 for c, t in cases]
    kept = []
    for c, t in cases:
        why = outside_configuration(ctx, c)
        if why:
            ctx.count('corr/outside-configuration/' + why)
        else:
            kept.append((c, t))
    cases = kept
    lines = [case_line(c) for c, _ in cases]
    replies = ctx.driver.ask_many(lines)
    out = []
    for (case, tag), rep in zip(cases, replies):
        ctx.evaluations += 1
        fn = case['fn']
        impl = run_impl(case)
        ctx.count('corr/%s/%s' % (fn, tag.split('/')[0]))
        ctx.count('out/%s/%s' % (fn, impl.split(':')[0] if not fn.startswith('prim/') or impl.endswith('Error') else 'value'))
        if is_nontrivial(case, tag, impl):
            ctx.nontrivial(sorted((k, repr(v)) for k, v in case.items()))
        if impl not in ('default', '0') and not fn.startswith('prim/') and ctx.hist.get('sampled/' + fn, 0) < 2 \
                and tag.split('/')[0] not in ('word', 'limit'):
            ctx.hist['sampled/' + fn] = ctx.hist.get('sampled/' + fn, 0) + 1
            ctx.sample({'case': {k: (short(v) if k == 'value' else v) for k, v in case.items()}, 'implementation': impl}, 14)
        if impl != model_view(case, rep):
            out.append(Disagreement(case, impl, model_view(case, rep)))
    return out


# --------------------------------------------------------------------------
# failing-input search: the property stated directly on the implementation

_INT_RE = re.compile(r'(?:0|-?[1-9][0-9]*)\Z')


def oracle_strip(s):
    i, j = 0, len(s)
    while i < j and ord(s[i]) in WS:
        i += 1
    while j > i and ord(s[j - 1]) in WS:
        j -= 1
    return s[i:j]


def literal_value(s):
    """Independent reading of Python's base-10 integer literal accepted by int(str):
    ws* [+-]? digit+ ('_' digit+)* ws*  with Unicode decimal digits; returns the int or None."""
    i, j = 0, len(s)
    while i < j and s[i] in INT_WS:
        i += 1
    while j > i and s[j - 1] in INT_WS:
        j -= 1
    body = s[i:j]
    neg = False
    if body[:1] in ('+', '-'):
        neg = body[0] == '-'
        body = body[1:]
    groups = body.split('_')
    digits = []
    for g in groups:
        if not g:
            return None
        for c in g:
            if '0' <= c <= '9':
                digits.append(c)
            elif ord(c) >= 128 and unicodedata.category(c) == 'Nd':
                digits.append(str(unicodedata.decimal(c)))
            else:
                return None
    v = int_of_text(''.join(digits))
    return (-v if neg else v), len(digits)


def over_limit(ndigits):
    lim = sys.get_int_max_str_digits()
    return lim > 0 and ndigits > lim


def ndigits_int(n):
    return len(text_of_int(abs(n)))


def in_f2_class(case):
    """known finding C14-F2: an int, or a str that is an integer literal, beyond the int<->str digit limit"""
    val = case.get('value')
    if not val or case['fn'] not in ('intlike', 'valint', 'bool', 'intbool', 'boolstr'):
        return False
    obj = obj_of(val)
    if type(obj) is int:
        return over_limit(ndigits_int(obj))
    if isinstance(obj, str) and case['fn'] in ('intlike', 'valint'):
        lv = literal_value(obj)
        return lv is not None and over_limit(lv[1])
    return False


def below_min(n, b):
    """is the integer n below the bound?  exact rational comparison; nothing is below -inf or a NaN (a NaN orders
    nothing, so it excludes nothing); everything is below +inf"""
    if b is None:
        return False
    e = bound_exact(b)
    if e[0] == 'fin':
        return Fraction(n) < e[1]
    return e[0] == '+inf'


def above_max(n, b):
    if b is None:
        return False
    e = bound_exact(b)
    if e[0] == 'fin':
        return Fraction(n) > e[1]
    return e[0] == '-inf'


def bound_falsy(b):
    """check_string_length reads a falsy max_length (None, 0, 0.0, Decimal(0), False) as "no maximum" """
    if b is None:
        return True
    e = bound_exact(b)
    return e[0] == 'fin' and e[1] == 0


def in_f3_class(case):
    """finding C14-F3 (candidate): a non-finite bound on which the code cannot build its answer - an infinite bound
    that excludes the value (min=+inf / max=-inf: the '%d' of the message raises OverflowError) or a Decimal NaN
    bound (every comparison raises decimal.InvalidOperation)"""
    if case['fn'] not in ('valint', 'strlen'):
        return False
    kinds = [bound_exact(b)[0] for b in (case.get('min'), case.get('max')) if b is not None]
    if 'dnan' in kinds:
        return True
    if case['fn'] == 'valint':
        return (case.get('min') is not None and bound_exact(case['min'])[0] == '+inf') or \
            (case.get('max') is not None and bound_exact(case['max'])[0] == '-inf')
    return False


def f3_listed():
    return any(f.get('id') == 'C14-F3' for f in common.load_findings().get('findings', []))


def expected(case):
    """What the property demands of the implementation for this case (canonical outcome string)."""
    fn = case['fn']
    obj = obj_of(case['value'])
    if fn in ('bool', 'intbool', 'boolstr'):
        if fn != 'boolstr' and isinstance(obj, bool):
            return ('val:%d' % obj) if fn == 'bool' else '%d' % obj
        text = obj if isinstance(obj, str) else (text_of_int(obj) if type(obj) is int else safe_str(obj))
        key = (oracle_strip(text) if fn != 'boolstr' else text).lower()
        tw, fw = (case['tables']['true'], case['tables']['false']) if case.get('tables') else (DOC_TRUE, DOC_FALSE)
        if fn == 'boolstr':
            return '%d' % (key in list(tw) + list(fw))
        if key in tw:
            return 'val:1' if fn == 'bool' else '1'
        if key in fw:
            return 'val:0' if fn == 'bool' else '0'
        if fn == 'intbool':
            return '0'
        return 'ValueError' if case['strict'] else 'default'
    if fn == 'intlike':
        if type(obj) is int:
            return '1'
        if isinstance(obj, str):
            return '%d' % bool(_INT_RE.match(obj))
        return '0'
    if fn == 'valint':
        if type(obj) is int:
            n = obj
        elif isinstance(obj, str):
            lv = literal_value(obj)
            n = lv[0] if lv else None
        else:
            n = None          # bool, float, None, bytes, ...: str(v) is never an integer literal
        if n is None:
            return 'ValueError'
        if below_min(n, case['min']) or above_max(n, case['max']):
            return 'ValueError'
        return 'ok:' + text_of_int(n)
    if fn == 'strlen':
        if not isinstance(obj, str):
            return 'TypeError'
        ln = sum(1 for _ in obj)
        if below_min(ln, case['min']):
            return 'ValueError'
        if not bound_falsy(case['max']) and above_max(ln, case['max']):
            return 'ValueError'
        return 'ok'
    if fn == 'uuid':
        if not isinstance(obj, str):
            return '0'
        h = obj.replace('urn:', '').replace('uuid:', '').strip('{}').replace('-', '')
        return '%d' % (len(h) == 32 and all(c in HEXL + 'ABCDEF' for c in h))
    raise ValueError(fn)


def check_case(case):
    """None, or a description of how the implementation fails the property on this case."""
    fn = case['fn']
    if fn.startswith('prim/'):
        return None
    got = run_impl(case)
    want = model_view(case, expected(case))
    if got != want:
        args, kwargs = build_call(case)
        first = SIGNATURES[fn][1][0]
        shown = ', '.join((['<value>'] if args else []) + [repr(a) for a in args[1:]] +
                          [('%s=<value>' % k) if k == first else '%s=%r' % (k, v) for k, v in kwargs.items()])
        return '%s(%s) with value %s gave %s, the property demands %s' % (
            SIGNATURES[fn][0], shown, short(case['value']), got, want)
    if fn == 'boolstr' and case['value']['t'] == 'str':
        # agreement clause, no model and no word list involved: on unpadded input is_valid_boolstr(s) holds exactly
        # when bool_from_string(s, strict=True) returns a boolean
        text = obj_of(case['value'])
        if oracle_strip(text) == text:
            strict = run_impl(dict({'fn': 'bool', 'value': case['value'], 'strict': True},
                                   **({'tables': case['tables']} if case.get('tables') else {})))
            if (got == '1') != strict.startswith('val:'):
                return ('is_valid_boolstr(%s) gave %s but bool_from_string(..., strict=True) gave %s: they must agree on '
                        'unpadded input' % (short(case['value']), got, strict))
    return None


class _Raised:
    def __init__(self, e):
        self.name = type(e).__name__

    def __repr__(self):
        return '<raised %s>' % self.name


def _call(f, *a, **k):
    """call the implementation; an exception is a value (it never equals / is an expected result)"""
    try:
        return f(*a, **k)
    except Exception as e:
        return _Raised(e)


def relations(rng, n):
    """Cross-function clauses; returns a list of (case, why)."""
    strutils, uuidutils = _Pub('oslo_utils.strutils'), _Pub('oslo_utils.uuidutils')
    gen, like, bfs = uuidutils.generate_uuid, uuidutils.is_uuid_like, strutils.bool_from_string   # harness access
    bad = []
    for _ in range(n):
        u = _call(gen)
        p = _call(gen, dashed=False)
        if not isinstance(u, str) or not isinstance(p, str) or \
                not re.match(r'[0-9a-f]{8}-[0-9a-f]{4}-[0-9a-f]{4}-[0-9a-f]{4}-[0-9a-f]{12}\Z', u) or \
                not re.match(r'[0-9a-f]{32}\Z', p):
            bad.append(({'fn': 'uuid', 'value': vstr(u if isinstance(u, str) else '')},
                        'generate_uuid produced %r / %r' % (u, p)))
            continue
        for s in (u, p, u.upper(), '{' + u + '}', 'urn:uuid:' + u):
            if _call(like, s) is not True:
                bad.append(({'fn': 'uuid', 'value': vstr(s)}, 'is_uuid_like rejects a spelling of generate_uuid output'))
    dashed_re = re.compile(r'[0-9a-f]{8}-[0-9a-f]{4}-[0-9a-f]{4}-[0-9a-f]{4}-[0-9a-f]{12}\Z')
    plain_re = re.compile(r'[0-9a-f]{32}\Z')
    for a, k, want in (((), {}, dashed_re), ((True,), {}, dashed_re), ((), {'dashed': True}, dashed_re),
                       ((False,), {}, plain_re), ((), {'dashed': False}, plain_re)):     # pinned: generate_uuid(dashed=True)
        r = _call(gen, *a, **k)
        if not isinstance(r, str) or not want.match(r):
            bad.append(({'fn': 'uuid', 'value': vstr(r if isinstance(r, str) else '')},
                        'generate_uuid(%s) produced %r' % (', '.join([repr(x) for x in a] + ['%s=%r' % kv for kv in k.items()]), r)))
    for b in (True, False):
        for strict in (True, False):
            if _call(bfs, b, strict=strict, default=SENTINEL) is not b:
                bad.append(({'fn': 'bool', 'value': V('bool', b), 'strict': strict}, 'bool not passed through'))
    for d in (True, False, None, 'x'):
        if _call(bfs, 'maybe', default=d) is not d:
            bad.append(({'fn': 'bool', 'value': vstr('maybe'), 'strict': False}, 'default %r not returned' % (d,)))
    return bad


def shrink_case(case):
    """Shorten a failing str value while it still fails."""
    val = case.get('value')
    if not val or val['t'] != 'str' or 'zeros' in val or len(val['v']) > 400:
        return case

    def still(chars):
        c = dict(case, value=vstr(''.join(chars)))
        try:
            return check_case(c) is not None
        except Exception:
            return False
    small = common.shrink_list(list(val['v']), still)
    c = dict(case, value=vstr(''.join(small)))
    return c if check_case(c) else case


def search(ctx, seeds, full=False):
    fails = []
    seen_kinds = {}
    todo = [(s, 'seed') for s in seeds[:300] if isinstance(s, dict) and 'fn' in s]
    cases = gen_cases(ctx, DOMAIN + OUTSIDE + UNI_CHARS)
    if not full:                      # small budget when nothing broke
        cases = cases[::3]
    todo += cases
    for case, tag in todo:
        if case['fn'].startswith('prim/'):
            continue
        if outside_configuration(ctx, case) == 'bytes-warning':
            continue
        ctx.evaluations += 1
        try:
            why = check_case(case)
        except Exception as e:       # the oracle itself must not hide anything
            why = 'oracle crashed: %r' % (e,)
        if why:
            known = 'C14-F2' if in_f2_class(case) else ('C14-F3' if in_f3_class(case) else None)
            if known == 'C14-F3' and not f3_listed():
                # reproduces on the unchanged tree but is not (yet) listed: reported in the evidence notes and by the
                # builder, exercised by the correspondence (the model follows the code), never a VIOLATION by itself
                if not seen_kinds.get('unlisted-F3'):
                    seen_kinds['unlisted-F3'] = 1
                    ctx.notes.append('finding candidate C14-F3 reproduces and is not listed in known_findings.json: ' + why)
                ctx.count('search/unlisted-finding-candidate/C14-F3')
                continue
            kind = (known + '/' if known else '') + case['fn'] + ('/strict' if case.get('strict') else '') + \
                ('/form' if case.get('form') else '')
            if seen_kinds.get(kind, 0) >= (1 if known else 2):
                continue
            seen_kinds[kind] = seen_kinds.get(kind, 0) + 1
            small = case if known else shrink_case(case)
            fails.append(Failure(small, {'kind': kind, 'what': check_case(small) or why}, klass=known))
            if len([f for f in fails if not f.klass]) >= 6:
                break
    for case, why in relations(ctx.rng, 50 if ctx.quick else 2000):
        ctx.evaluations += 1
        fails.append(Failure(case, {'kind': 'relation/' + case['fn'], 'what': why}))
        if len(fails) > 12:
            break
    ctx.evaluations += 50 if ctx.quick else 2000
    return fails


def classify(ctx, failure, listed):
    ids = set(f['id'] for f in listed)
    if 'C14-F3' in ids and in_f3_class(failure.case) and not in_f2_class(failure.case):
        if ctx.driver is not None:
            try:
                if model_view(failure.case, ctx.driver.ask(case_line(failure.case))) != run_impl(failure.case):
                    return None
            except Exception:
                return None
        return 'C14-F3'
    if 'C14-F2' in ids and in_f2_class(failure.case):
        # the model must reproduce the implementation's answer on it
        if ctx.driver is not None:
            try:
                if ctx.driver.ask(case_line(failure.case)) != run_impl(failure.case):
                    return None
            except Exception:
                return None
        return 'C14-F2'
    return None


FN_ALIASES = {'bool_from_string': 'bool', 'is_valid_boolstr': 'boolstr', 'int_from_bool_as_string': 'intbool',
              'is_int_like': 'intlike', 'validate_integer': 'valint', 'check_string_length': 'strlen',
              'is_uuid_like': 'uuid'}


def witness_reproduces(ctx, finding):
    if finding['id'] not in ('C14-F2', 'C14-F3'):
        return False
    w = finding['witness']
    case = dict(w, fn=FN_ALIASES.get(w['fn'], w['fn']))
    case.setdefault('strict', False)
    case.setdefault('min', None)
    case.setdefault('max', None)
    return check_case(case) is not None and (in_f2_class(case) if finding['id'] == 'C14-F2' else in_f3_class(case))


def replay(ctx, payload):
    case = payload.get('failure', {}).get('case') or payload.get('case')
    if not case:
        print('nothing to replay: this file names the obligation that no longer checks:')
        print(payload.get('no_longer_checks'))
        return 0
    print('case          :', {k: (short(v) if k == 'value' else v) for k, v in case.items()})
    print('implementation:', run_impl(case))
    try:
        print('model         :', ctx.driver.ask(case_line(case)))
    except Exception as e:
        print('model         : <driver unavailable: %s>' % e)
    if case['fn'].startswith('prim/'):
        return 0
    print('property wants:', expected(case))
    why = check_case(case)
    print('property oracle on the implementation:', why)
    return 1 if why else 0


LEVEL_TEXT = ('Machine-checked proof (Lean 4) over a hand-written model of bool_from_string, is_valid_boolstr, '
              'int_from_bool_as_string, is_int_like, validate_integer, check_string_length and is_uuid_like (with CPython\'s '
              'int()/str()/uuid.UUID(hex) transcribed), for every input string: True/False exactly on the generated word '
              'lists after strip+lower (and the lists equal the documented words), default / ValueError otherwise, bools '
              'passed through; is_valid_boolstr agrees on unpadded input; is_int_like exactly on canonical base-10 '
              'renderings (within the interpreter\'s int<->str digit limit, stated in the theorem: known finding C14-F2); '
              'validate_integer returns the literal\'s value exactly within [min, max] and ValueError otherwise; '
              'check_string_length by type and bounds; is_uuid_like true exactly when the undecorated text is 32 hex '
              'digits, hence for every 128-bit value in the four spellings and any letter case. The model is tied to the '
              'code by a differential correspondence on every run.')
LEVEL_NOTE = ('Trusted: Lean kernel; axioms propext/Classical.choice/Quot.sound only (audited each run); the hand model '
              'incl. its re-implementation of CPython primitives; the translator of the word lists / whitespace sets; '
              'character domain ASCII + str.isspace set + Unicode Nd digits (str.lower of other cased characters not '
              'modelled).')
TECHNIQUE = 'Lean 4 theorems over all strings/integers + generated tables + model/implementation correspondence'
DESIGN_REF = 'DESIGN.md section 5, C14'
