import OsloModel.Proto

-- stub: replaced by the real driver of this property group
def main : IO Unit := Oslo.Proto.serve (fun _ => "bad-request")
