/-
PLACEHOLDER written by builder InsB so that `./check C03` can run while the coordinator
writes the real property theorems; it states nothing about the property itself.
-/
import OsloModel.Wrapper
namespace Oslo.Insp.C03

/-- placeholder, not a property theorem -/
theorem placeholder_all_formats_named :
    (Fmt.all.map Fmt.name).length = 10 := by decide

end Oslo.Insp.C03
