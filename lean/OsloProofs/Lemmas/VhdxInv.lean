/-
VHDX: the hypotheses of the chunk-independence theorem as predicates on the stream, their closure
under prefixes, and the between-chunks invariant `VInv`: the inspector state is one of three shapes
determined by the prefix streamed so far (up to the length at which the metadata region was stopped).
-/
import OsloProofs.Lemmas.VhdxStep
namespace Oslo.Insp

/-- the metadata-region offset named by the region table of a completely streamed header, if any -/
def vhdxMetaOff (s : Bytes) : Option Nat :=
  if s.length < 262144 then none else
  match findMetaRegionB (sliceOf s 196608 65536) with
  | .ok (some mo) => some mo
  | _ => none

/-- forward proviso (negation of known-finding class KF_D7): the metadata region starts at or after
    256 KiB, and the size item the entry walk finds starts at or after the end of the entry table -/
def vhdxForwardB (s : Bytes) : Bool :=
  match vhdxMetaOff s with
  | none => true
  | some mo =>
    decide (262144 ≤ mo) &&
    (match findMetaEntryB (sliceOf s mo 65536) with
     | .ok (some (ioff, _)) => decide (entriesEnd (sliceOf s mo 65536) ≤ ioff)
     | _ => true)

def VhdxForward (s : Bytes) : Prop := vhdxForwardB s = true

/-- negation of known-finding class KF_N4: if 32 bytes of the metadata region are in the stream,
    it starts with `metadata` -/
def vhdxMetaSigOKB (s : Bytes) : Bool :=
  match vhdxMetaOff s with
  | none => true
  | some mo => decide ((sliceOf s mo 65536).length < 32) || (sliceOf s mo 65536).take 8 == ascii "metadata"

def VhdxMetaSigOK (s : Bytes) : Prop := vhdxMetaSigOKB s = true

instance (s : Bytes) : Decidable (VhdxForward s) := by unfold VhdxForward; infer_instance
instance (s : Bytes) : Decidable (VhdxMetaSigOK s) := by unfold VhdxMetaSigOK; infer_instance

theorem lemma_metaOff (s : Bytes) (mo : Nat) (hl : 262144 ≤ s.length)
    (hr : findMetaRegionB (sliceOf s 196608 65536) = .ok (some mo)) : vhdxMetaOff s = some mo := by
  unfold vhdxMetaOff
  rw [if_neg (by omega), hr]

theorem lemma_fwd_use (s : Bytes) (mo : Nat) (hf : VhdxForward s) (hl : 262144 ≤ s.length)
    (hr : findMetaRegionB (sliceOf s 196608 65536) = .ok (some mo)) :
    262144 ≤ mo ∧ ∀ ioff ilen, findMetaEntryB (sliceOf s mo 65536) = .ok (some (ioff, ilen)) →
      entriesEnd (sliceOf s mo 65536) ≤ ioff := by
  unfold VhdxForward vhdxForwardB at hf
  rw [lemma_metaOff s mo hl hr] at hf
  simp only [Bool.and_eq_true, decide_eq_true_eq] at hf
  refine ⟨hf.1, fun ioff ilen he => ?_⟩
  have := hf.2
  rw [he] at this
  simpa using this

theorem lemma_sig_use (s : Bytes) (mo : Nat) (hs : VhdxMetaSigOK s) (hl : 262144 ≤ s.length)
    (hr : findMetaRegionB (sliceOf s 196608 65536) = .ok (some mo)) (h32 : 32 ≤ (sliceOf s mo 65536).length) :
    (sliceOf s mo 65536).take 8 = ascii "metadata" := by
  unfold VhdxMetaSigOK vhdxMetaSigOKB at hs
  rw [lemma_metaOff s mo hl hr] at hs
  simp only [Bool.or_eq_true, decide_eq_true_eq, beq_iff_eq] at hs
  rcases hs with hs | hs
  · omega
  · exact hs

/-- the hypotheses pass to every prefix of the stream -/
theorem lemma_fwd_prefix (s q : Bytes) (mo : Nat) (hq : q <+: s) (hf : VhdxForward s) (hl : 262144 ≤ q.length)
    (hr : findMetaRegionB (sliceOf q 196608 65536) = .ok (some mo)) :
    262144 ≤ mo ∧ ∀ ioff ilen, findMetaEntryB (sliceOf q mo 65536) = .ok (some (ioff, ilen)) →
      entriesEnd (sliceOf q mo 65536) ≤ ioff := by
  have hls := List.IsPrefix.length_le hq
  have hh : sliceOf s 196608 65536 = sliceOf q 196608 65536 := lemma_sliceOf_within hq _ _ (by omega)
  obtain ⟨h1, h2⟩ := lemma_fwd_use s mo hf (by omega) (by rw [hh]; exact hr)
  refine ⟨h1, fun ioff ilen he => ?_⟩
  obtain ⟨a, b⟩ := lemma_findMetaEntry_some _ _ he
  have hp := lemma_sliceOf_prefix' hq mo 65536
  have hfro := lemma_findMetaEntry_frozen hp a b
  rw [← lemma_entriesEnd_prefix hp (by omega)]
  exact h2 ioff ilen (by rw [hfro]; exact he)

theorem lemma_sig_prefix (s q : Bytes) (mo : Nat) (hq : q <+: s) (hs : VhdxMetaSigOK s) (hl : 262144 ≤ q.length)
    (hr : findMetaRegionB (sliceOf q 196608 65536) = .ok (some mo)) (h32 : 32 ≤ (sliceOf q mo 65536).length) :
    (sliceOf q mo 65536).take 8 = ascii "metadata" := by
  have hls := List.IsPrefix.length_le hq
  have hh : sliceOf s 196608 65536 = sliceOf q 196608 65536 := lemma_sliceOf_within hq _ _ (by omega)
  have hp := lemma_sliceOf_prefix' hq mo 65536
  have := lemma_sig_use s mo hs (by omega) (by rw [hh]; exact hr) (by have := List.IsPrefix.length_le hp; omega)
  rw [← lemma_take_prefix hp 8 (by omega)]
  exact this

theorem lemma_entry_noerr (s q : Bytes) (mo : Nat) (hq : q <+: s) (hs : VhdxMetaSigOK s) (hl : 262144 ≤ q.length)
    (hr : findMetaRegionB (sliceOf q 196608 65536) = .ok (some mo)) :
    ∀ e, findMetaEntryB (sliceOf q mo 65536) ≠ .error e :=
  lemma_findMetaEntry_noerr _ (by rw [lemma_sliceOf_length]; omega)
    (fun h32 => lemma_sig_prefix s q mo hq hs hl hr h32)

/-- a size item found in a longer prefix but not in a shorter one lies, under the forward proviso,
    at or after the end of the shorter prefix -/
theorem lemma_item_forward (p c : Bytes) (mo ioff ilen : Nat)
    (h0 : findMetaEntryB (sliceOf p mo 65536) = .ok none)
    (h1 : findMetaEntryB (sliceOf (p ++ c) mo 65536) = .ok (some (ioff, ilen)))
    (hf : entriesEnd (sliceOf (p ++ c) mo 65536) ≤ ioff) : p.length ≤ mo + ioff := by
  obtain ⟨a, b⟩ := lemma_findMetaEntry_some _ _ h1
  have hp := lemma_sliceOf_prefix p c mo 65536
  by_cases hlt : p.length ≤ mo + ioff
  · exact hlt
  · exfalso
    have hQ : (sliceOf (p ++ c) mo 65536).length ≤ 65536 := by rw [lemma_sliceOf_length]; omega
    have hP : entriesEnd (sliceOf (p ++ c) mo 65536) ≤ (sliceOf p mo 65536).length := by
      rw [lemma_sliceOf_length]; omega
    have h32 : 32 ≤ (sliceOf p mo 65536).length := by
      have : 32 ≤ entriesEnd (sliceOf (p ++ c) mo 65536) := by unfold entriesEnd; omega
      omega
    have hee := lemma_entriesEnd_prefix hp (by omega)
    have hfro := lemma_findMetaEntry_frozen hp h32 (by omega)
    rw [hfro, h0] at h1
    simp at h1

theorem lemma_entry_mono (p c : Bytes) (mo : Nat) (x : Nat × Nat)
    (h : findMetaEntryB (sliceOf p mo 65536) = .ok (some x)) :
    findMetaEntryB (sliceOf (p ++ c) mo 65536) = .ok (some x) := by
  obtain ⟨a, b⟩ := lemma_findMetaEntry_some _ _ h
  rw [lemma_findMetaEntry_frozen (lemma_sliceOf_prefix p c mo 65536) a b]
  exact h

/-! ### the invariant between chunks -/

inductive VInv (q : Bytes) : Insp → Prop
  | early (h : q.length < 262144) : VInv q (stA q)
  | nometa (h : 262144 ≤ q.length) (hr : findMetaRegionB (sliceOf q 196608 65536) = .ok none) : VInv q (stA q)
  | withMeta (mo : Nat) (h : 262144 ≤ q.length) (hr : findMetaRegionB (sliceOf q 196608 65536) = .ok (some mo))
      (he : findMetaEntryB (sliceOf q mo 65536) = .ok none) : VInv q (stM q mo)
  | withVds (mo ioff ilen L : Nat) (h : 262144 ≤ q.length)
      (hr : findMetaRegionB (sliceOf q 196608 65536) = .ok (some mo))
      (he : findMetaEntryB (sliceOf q mo 65536) = .ok (some (ioff, ilen)))
      (hL : mo + L ≤ q.length) : VInv q (stV q mo L (mo + ioff) (min ilen 65536))

/-- the state in which an inspector stops with an error: the region table of the header was refused -/
def VErr (q : Bytes) (st : Insp) (e : Err) : Prop :=
  262144 ≤ q.length ∧ findMetaRegionB (sliceOf q 196608 65536) = .error e ∧ st = stA q

/-- the outcome of one `eat_chunk` -/
def VNext (q : Bytes) (r : Insp × Option Err) : Prop :=
  match r with
  | (st', none) => VInv q st'
  | (st', some e) => VErr q st' e

theorem lemma_tail_vinv (n : Nat) (s p c : Bytes) (mo : Nat) (hq : p ++ c <+: s) (hf : VhdxForward s)
    (hs : VhdxMetaSigOK s) (hl : 262144 ≤ (p ++ c).length)
    (hr : findMetaRegionB (sliceOf (p ++ c) 196608 65536) = .ok (some mo))
    (hfw : ∀ ioff ilen, findMetaEntryB (sliceOf (p ++ c) mo 65536) = .ok (some (ioff, ilen)) →
      entriesEnd (sliceOf (p ++ c) mo 65536) ≤ ioff → p.length ≤ mo + ioff) :
    VNext (p ++ c) (metaTail (n + 2) (p ++ c) c mo) := by
  have hne := lemma_entry_noerr s (p ++ c) mo hq hs hl hr
  obtain ⟨_, hes⟩ := lemma_fwd_prefix s (p ++ c) mo hq hf hl hr
  cases he : findMetaEntryB (sliceOf (p ++ c) mo 65536) with
  | error e => exact absurd he (hne e)
  | ok o =>
    cases o with
    | none =>
      rw [lemma_metaTail_none _ _ _ _ he]
      exact VInv.withMeta mo hl hr he
    | some x =>
      obtain ⟨ioff, ilen⟩ := x
      rw [lemma_metaTail_some n p c mo ioff ilen he (hfw ioff ilen he (hes ioff ilen he))]
      refine VInv.withVds mo ioff ilen _ hl hr he ?_
      obtain ⟨a, _⟩ := lemma_findMetaEntry_some _ _ he
      rw [lemma_sliceOf_length] at a ⊢
      omega

/-- **the invariant is preserved by every chunk** -/
theorem lemma_vinv_step (s p c : Bytes) (st : Insp) (hq : p ++ c <+: s) (hf : VhdxForward s)
    (hs : VhdxMetaSigOK s) (h : VInv p st) : VNext (p ++ c) (eatChunk st c) := by
  have hpq : p <+: p ++ c := List.prefix_append p c
  cases h with
  | early hlt =>
    by_cases hl : (p ++ c).length < 262144
    · rw [lemma_eat_A_early p c hl]
      exact VInv.early hl
    · have hl' : 262144 ≤ (p ++ c).length := by omega
      cases hr : findMetaRegionB (sliceOf (p ++ c) 196608 65536) with
      | error e =>
        rw [lemma_eat_A_err p c e hl' hr]
        exact ⟨hl', hr, rfl⟩
      | ok o =>
        cases o with
        | none =>
          rw [lemma_eat_A_none p c hl' hr]
          exact VInv.nometa hl' hr
        | some mo =>
          obtain ⟨hmo, _⟩ := lemma_fwd_prefix s (p ++ c) mo hq hf hl' hr
          rw [lemma_eat_A_some p c mo hl' hr (by omega)]
          exact lemma_tail_vinv 5 s p c mo hq hf hs hl' hr (fun ioff ilen _ _ => by omega)
  | nometa hl hr =>
    have hl' : 262144 ≤ (p ++ c).length := by simp only [List.length_append]; omega
    have hh : sliceOf (p ++ c) 196608 65536 = sliceOf p 196608 65536 := lemma_sliceOf_within hpq _ _ (by omega)
    rw [lemma_eat_A_none p c hl' (by rw [hh]; exact hr)]
    exact VInv.nometa hl' (by rw [hh]; exact hr)
  | withMeta mo hl hr he =>
    have hl' : 262144 ≤ (p ++ c).length := by simp only [List.length_append]; omega
    have hh : sliceOf (p ++ c) 196608 65536 = sliceOf p 196608 65536 := lemma_sliceOf_within hpq _ _ (by omega)
    rw [lemma_eat_M]
    exact lemma_tail_vinv 6 s p c mo hq hf hs hl' (by rw [hh]; exact hr)
      (fun ioff ilen h1 hes => lemma_item_forward p c mo ioff ilen he h1 hes)
  | withVds mo ioff ilen L hl hr he hL =>
    have hl' : 262144 ≤ (p ++ c).length := by simp only [List.length_append]; omega
    have hh : sliceOf (p ++ c) 196608 65536 = sliceOf p 196608 65536 := lemma_sliceOf_within hpq _ _ (by omega)
    rw [lemma_eat_V]
    exact VInv.withVds mo ioff ilen L hl' (by rw [hh]; exact hr) (lemma_entry_mono p c mo _ he)
      (by simp only [List.length_append]; omega)

/-- a whole feed (the wrapper's discipline: stop at the first error) -/
theorem lemma_vinv_feed (s : Bytes) (hf : VhdxForward s) (hs : VhdxMetaSigOK s) :
    ∀ (chunks : List Bytes) (p : Bytes) (st : Insp), VInv p st → p ++ chunks.flatten = s →
      ∃ q, q <+: s ∧ VNext q (feed st chunks) ∧ ((feed st chunks).2 = none → q = s) := by
  intro chunks
  induction chunks with
  | nil =>
    intro p st h hp
    simp only [List.flatten_nil, List.append_nil] at hp
    subst hp
    exact ⟨p, List.prefix_refl _, h, fun _ => rfl⟩
  | cons c cs ih =>
    intro p st h hp
    have hq : p ++ c <+: s := by
      rw [← hp]
      simp only [List.flatten_cons, ← List.append_assoc]
      exact List.prefix_append _ _
    have hstep := lemma_vinv_step s p c st hq hf hs h
    unfold feed
    cases heq : eatChunk st c with
    | mk s1 e =>
      rw [heq] at hstep
      cases e with
      | some e => exact ⟨p ++ c, hq, hstep, fun hn => by simp at hn⟩
      | none => exact ih (p ++ c) s1 hstep (by rw [← hp]; simp)

end Oslo.Insp
