import OsloModel.Proto
import OsloModel.Encode
import OsloModel.Slug
open Oslo Oslo.Proto Oslo.Encode Oslo.Slug

/-
Requests (fields TAB-separated; names/text hex of UTF-8, bytes hex, `-` empty, `N` is None; for the
optional parameters incoming / encoding / errors `D` means "not passed by the caller"):
  dec  <vk> <val> <incoming|N> <errors> <stdin|N> <default>
  enc  <vk> <val> <incoming|N> <encoding> <errors> <stdin|N> <default>
  utf8 <vk> <val>
  slug <vk> <val> <incoming|N> <errors> <stdin|N> <default>      (front end: asciiFront)
  pipe <ascii text>                                              (lines 290-291 after the front end)
vk: s (str) | S (instance of a proper subclass of str, val = its character content) | b (bytes) |
    B (instance of a proper subclass of bytes) | o (any other type, val must be `-`).
Reply: str:<hex> | bytes:<hex> | err:<ExceptionClass> | bad-request
-/

def parseVal (vk val : String) : Option Val :=
  match vk with
  | "s" => (unhexChars val).map (.str .exact)
  | "S" => (unhexChars val).map (.str .sub)
  | "b" => (unhex val).map (.bytes .exact)
  | "B" => (unhex val).map (.bytes .sub)
  | "o" => if val = "-" then some .other else none
  | _ => none

def parsePolicy : String → Option Policy
  | "strict" => some .strict | "ignore" => some .ignore | "replace" => some .replace
  | _ => none

def parseOptName (s : String) : Option (Option Name) :=
  if s = "N" then some none else (unhexChars s).map some

/-- an optional parameter of the call: `D` = not passed (the model's pinned default applies) -/
def parseArg {α : Type} (f : String → Option α) (s : String) : Option (Option α) :=
  if s = "D" then some none else (f s).map some

def showErr : Err → String
  | .typeError => "err:TypeError"
  | .unicodeDecodeError => "err:UnicodeDecodeError"
  | .unicodeEncodeError => "err:UnicodeEncodeError"
  | .lookupError => "err:LookupError"

def showText : Except Err Text → String
  | .ok t => "str:" ++ hexChars t
  | .error e => showErr e

def showBytes : Except Err Bytes → String
  | .ok b => "bytes:" ++ hex b
  | .error e => showErr e

def handle : List String → String
  | ["dec", vk, val, inc, pol, sin, dflt] =>
    match parseVal vk val, parseArg parseOptName inc, parseArg parsePolicy pol, parseOptName sin,
          unhexChars dflt with
    | some v, some inc, some p, some sin, some d => showText (callSafeDecode real ⟨sin, d⟩ v inc p)
    | _, _, _, _, _ => "bad-request"
  | ["enc", vk, val, inc, enc, pol, sin, dflt] =>
    match parseVal vk val, parseArg parseOptName inc, parseArg unhexChars enc, parseArg parsePolicy pol,
          parseOptName sin, unhexChars dflt with
    | some v, some inc, some enc, some p, some sin, some d =>
      showBytes (callSafeEncode real ⟨sin, d⟩ v inc enc p)
    | _, _, _, _, _, _ => "bad-request"
  | ["utf8", vk, val] =>
    match parseVal vk val with
    | some v => showBytes (toUtf8 real v)
    | none => "bad-request"
  | ["slug", vk, val, inc, pol, sin, dflt] =>
    match parseVal vk val, parseArg parseOptName inc, parseArg parsePolicy pol, parseOptName sin,
          unhexChars dflt with
    | some v, some inc, some p, some sin, some d =>
      showText (callToSlug real ⟨sin, d⟩ asciiFront v inc p)
    | _, _, _, _, _ => "bad-request"
  | ["pipe", val] =>
    match unhexChars val with
    | some t => if t.all (fun c => c.toNat < 128) then showText (.ok (slugPipe t)) else "bad-request"
    | none => "bad-request"
  | _ => "bad-request"

def main : IO Unit := serve handle
