/-
C18 — the spec matcher implements its documented operator table.

Property theorems only.  The model is `OsloModel/Specs.lean` (hand parser for the pyparsing
grammar of `make_grammar`, `match`, `op_methods`); the operator literals and their order, the keys
of `op_methods` and the two whitespace sets are the generated definitions of
`OsloModel/Generated/C18.lean`, so a change of the tables re-checks every theorem below.

Vocabulary of the statements (defined in `OsloProofs/Lemmas/C18.lean`):
* `White ws`   : `ws` consists of pyparsing whitespace (space, tab, LF, CR); may be empty;
* `IsAtom x`   : `x` is an operand of the documented language - non-empty, no `\s` character,
                 does not start with an operator literal;
* `Ends rest`  : `rest` is empty or starts with a `\s` character (`parseString` parses a prefix, so
                 the theorems hold whatever follows the last operand);
* `Operands`, `Alternatives`, `atomsSpec`, `orSpec` : several operands / `<or>` alternatives, each
                 preceded by at least one whitespace character;
* `Digits`, `decText`, `decValue` : decimal text `[-]ip[.fp]` and the rational it denotes.
Every theorem quantifies over all values `v`, all operands and all amounts of whitespace.

Numbers: `pyFloat` is `float()` on text, with exact rational values (binary64 rounding is not
modelled: the correspondence keeps numeric text within 15 significant digits, where the two agree).
-/
import OsloProofs.Lemmas.C18
set_option linter.unusedSimpArgs false
namespace Oslo.Specs

/-- `ws0 op ws1 x rest` : the shape of a one-operand spec -/
structure UnaryShape (ws0 ws1 x rest : Str) : Prop where
  lead : White ws0
  sep : White ws1
  sep_ne : ws1 ≠ []
  operand : IsAtom x
  tail : Ends rest

/-! ### the tables -/

/-- the model's operator table has exactly the keys of `op_methods`, in the same order -/
theorem op_table_keys : opTable.map (·.1) = Gen.opKeys := by decide

/-- every operator of `op_methods` is excluded as the start of an atom, and nothing else is
    ("an atom may not start with an operator literal") -/
theorem atom_excludes_exactly_the_operators :
    (∀ k ∈ Gen.opKeys, k ∈ Gen.notLits) ∧ (∀ l ∈ Gen.notLits, l ∈ Gen.opKeys) := by decide

/-- the grammar's operator literals are the 17 keys: 14 one-operand operators plus the three
    special forms -/
theorem grammar_literals_are_the_keys :
    ∀ k, k ∈ Gen.opKeys ↔ k ∈ Gen.unaryLits ∨ k = Gen.allInLit ∨ k = Gen.orLit ∨ k = Gen.rangeLit := by
  intro k
  constructor
  · intro h
    have : ∀ k ∈ Gen.opKeys, k ∈ Gen.unaryLits ∨ k = Gen.allInLit ∨ k = Gen.orLit ∨ k = Gen.rangeLit := by
      decide
    exact this k h
  · intro h
    have h1 : ∀ k ∈ Gen.unaryLits, k ∈ Gen.opKeys := by decide
    have h2 : Gen.allInLit ∈ Gen.opKeys ∧ Gen.orLit ∈ Gen.opKeys ∧ Gen.rangeLit ∈ Gen.opKeys := by decide
    rcases h with h | rfl | rfl | rfl
    · exact h1 k h
    · exact h2.1
    · exact h2.2.1
    · exact h2.2.2

/-! ### parsing: the longest operator wins -/

/-- In the order pyparsing tries them, no operator literal is shadowed by an earlier, shorter one:
    standing alone, each of the 14 one-operand literals is recognised as itself (`==` is not read
    as `=`, `<=` not as `<`, `s<=` not as `s<`, `<in>` not as `<`, …). -/
theorem operator_literal_found_as_itself :
    ∀ op ∈ Gen.unaryLits, firstLit Gen.unaryLits op = some (op, []) := by decide

/-- For every one-operand operator `op`, every operand and all whitespace: the spec `op x` is parsed
    as the two tokens `[op, x]` - never as a shorter operator followed by a longer operand
    (`<= 5` is `['<=','5']`, not `<` applied to `=`…), and never as one of the special forms. -/
theorem longest_operator_wins (op : Str) (hop : op ∈ Gen.unaryLits) {ws0 ws1 x rest : Str}
    (S : UnaryShape ws0 ws1 x rest) :
    parse (ws0 ++ (op ++ (ws1 ++ (x ++ rest)))) = some [op, x] :=
  lemma_parse_unary op hop ws0 ws1 x rest S.lead S.sep S.sep_ne S.operand S.tail

/-- the special forms win over `<` (their literals all begin with `<`) -/
theorem longest_operator_wins_special {ws0 m x e w1 b1 w2 lo w3 hi w4 b2 rest : Str}
    {alts : List (Str × Str × Str)} {items : List (Str × Str)}
    (h0 : White ws0) (hm : White m) (hx : IsAtom x) (halts : Alternatives alts) (he : White e)
    (hit : Operands items) (hne : items ≠ [])
    (hrg : Operands [(w1, b1), (w2, lo), (w3, hi), (w4, b2)]) (hr : Ends rest) :
    parse (ws0 ++ (Gen.orLit ++ (m ++ (x ++ orSpec alts e)))) = some (orTok :: x :: alts.map (·.2.2)) ∧
    parse (ws0 ++ (Gen.allInLit ++ atomsSpec items e)) = some (Gen.allInLit :: items.map (·.2)) ∧
    parse (ws0 ++ (Gen.rangeLit ++ atomsSpec [(w1, b1), (w2, lo), (w3, hi), (w4, b2)] rest))
      = some [Gen.rangeLit, b1, lo, hi, b2] :=
  ⟨lemma_parse_or ws0 m x alts e h0 hm hx halts he,
   lemma_parse_all_in ws0 items e h0 hit hne he,
   lemma_parse_range_in ws0 w1 b1 w2 lo w3 hi w4 b2 rest h0 hrg hr⟩

/-- whatever the spec: a parse with more than one token starts with a key of `op_methods` -/
theorem parsed_operator_has_method (s : Str) (t : List Str) (h : parse s = some t) :
    (∃ a, t = [a]) ∨ (∃ op a as, t = op :: a :: as ∧ (opTable.lookup op).isSome = true) :=
  lemma_parse_head s t h

/-! ### numeric operators -/

/-- the documented meaning of the numeric comparisons, on rationals -/
def NumOp.meaning : NumOp → Rat → Rat → Bool
  | .ge, a, b => decide (b ≤ a)
  | .ne, a, b => decide (a ≠ b)
  | .le, a, b => decide (a ≤ b)
  | .lt, a, b => decide (a < b)
  | .eq, a, b => decide (a = b)
  | .gt, a, b => decide (b < a)

/-- comparison of two finite floats is comparison of the rationals -/
theorem lemma_numsem_fin (o : NumOp) (a b : Rat) : o.sem (.fin a) (.fin b) = o.meaning a b := by
  cases o <;> simp only [NumOp.sem, PyNum.cmp, NumOp.meaning] <;>
    by_cases h1 : a < b <;> by_cases h2 : a = b <;> simp [h1, h2] <;> grind

theorem lemma_match_unary (op : Str) (k : OpKind) (hop : op ∈ Gen.unaryLits)
    (hk : opTable.lookup op = some k) (v : Str) {ws0 ws1 x rest : Str} (S : UnaryShape ws0 ws1 x rest) :
    matchSpec v (ws0 ++ (op ++ (ws1 ++ (x ++ rest)))) = applyOp k v [x] := by
  simp [matchSpec, longest_operator_wins op hop S, evalTokens, hk]

theorem lemma_match_num (op : Str) (o : NumOp) (hop : op ∈ Gen.unaryLits)
    (hk : opTable.lookup op = some (.num o)) (v : Str) {ws0 ws1 x rest : Str}
    (S : UnaryShape ws0 ws1 x rest) {a b : Rat}
    (hv : pyFloat v = .num (.fin a)) (hy : pyFloat x = .num (.fin b)) :
    matchSpec v (ws0 ++ (op ++ (ws1 ++ (x ++ rest)))) = .ok (o.sem (.fin a) (.fin b)) := by
  rw [lemma_match_unary op _ hop hk v S]
  simp [applyOp, numCmp, hv, hy]

/-- `= x` : "equal to or greater than" (the legacy meaning, same as `>=`) -/
theorem match_op_legacy_eq (v : Str) {ws0 ws1 x rest : Str} (S : UnaryShape ws0 ws1 x rest) {a b : Rat}
    (hv : pyFloat v = .num (.fin a)) (hy : pyFloat x = .num (.fin b)) :
    matchSpec v (ws0 ++ (['='] ++ (ws1 ++ (x ++ rest)))) = .ok (decide (b ≤ a)) := by
  rw [lemma_match_num _ .ge (by decide) (by decide) v S hv hy, lemma_numsem_fin]; rfl

/-- `!= x` -/
theorem match_op_ne (v : Str) {ws0 ws1 x rest : Str} (S : UnaryShape ws0 ws1 x rest) {a b : Rat}
    (hv : pyFloat v = .num (.fin a)) (hy : pyFloat x = .num (.fin b)) :
    matchSpec v (ws0 ++ (['!', '='] ++ (ws1 ++ (x ++ rest)))) = .ok (decide (a ≠ b)) := by
  rw [lemma_match_num _ .ne (by decide) (by decide) v S hv hy, lemma_numsem_fin]; rfl

/-- `<= x` -/
theorem match_op_le (v : Str) {ws0 ws1 x rest : Str} (S : UnaryShape ws0 ws1 x rest) {a b : Rat}
    (hv : pyFloat v = .num (.fin a)) (hy : pyFloat x = .num (.fin b)) :
    matchSpec v (ws0 ++ (['<', '='] ++ (ws1 ++ (x ++ rest)))) = .ok (decide (a ≤ b)) := by
  rw [lemma_match_num _ .le (by decide) (by decide) v S hv hy, lemma_numsem_fin]; rfl

/-- `< x` -/
theorem match_op_lt (v : Str) {ws0 ws1 x rest : Str} (S : UnaryShape ws0 ws1 x rest) {a b : Rat}
    (hv : pyFloat v = .num (.fin a)) (hy : pyFloat x = .num (.fin b)) :
    matchSpec v (ws0 ++ (['<'] ++ (ws1 ++ (x ++ rest)))) = .ok (decide (a < b)) := by
  rw [lemma_match_num _ .lt (by decide) (by decide) v S hv hy, lemma_numsem_fin]; rfl

/-- `== x` -/
theorem match_op_eq (v : Str) {ws0 ws1 x rest : Str} (S : UnaryShape ws0 ws1 x rest) {a b : Rat}
    (hv : pyFloat v = .num (.fin a)) (hy : pyFloat x = .num (.fin b)) :
    matchSpec v (ws0 ++ (['=', '='] ++ (ws1 ++ (x ++ rest)))) = .ok (decide (a = b)) := by
  rw [lemma_match_num _ .eq (by decide) (by decide) v S hv hy, lemma_numsem_fin]; rfl

/-- `>= x` -/
theorem match_op_ge (v : Str) {ws0 ws1 x rest : Str} (S : UnaryShape ws0 ws1 x rest) {a b : Rat}
    (hv : pyFloat v = .num (.fin a)) (hy : pyFloat x = .num (.fin b)) :
    matchSpec v (ws0 ++ (['>', '='] ++ (ws1 ++ (x ++ rest)))) = .ok (decide (b ≤ a)) := by
  rw [lemma_match_num _ .ge (by decide) (by decide) v S hv hy, lemma_numsem_fin]; rfl

/-- `> x` -/
theorem match_op_gt (v : Str) {ws0 ws1 x rest : Str} (S : UnaryShape ws0 ws1 x rest) {a b : Rat}
    (hv : pyFloat v = .num (.fin a)) (hy : pyFloat x = .num (.fin b)) :
    matchSpec v (ws0 ++ (['>'] ++ (ws1 ++ (x ++ rest)))) = .ok (decide (b < a)) := by
  rw [lemma_match_num _ .gt (by decide) (by decide) v S hv hy, lemma_numsem_fin]; rfl

/-- All seven numeric operators, any text on either side: the result is `float(v) <op> float(x)`
    as `numCmp` computes it - in particular `ValueError` as soon as one side is not a number
    (and IEEE rules for `inf`/`nan`). -/
theorem match_numeric_general (op : Str) (o : NumOp) (hop : op ∈ Gen.unaryLits)
    (hk : opTable.lookup op = some (.num o)) (v : Str) {ws0 ws1 x rest : Str}
    (S : UnaryShape ws0 ws1 x rest) :
    matchSpec v (ws0 ++ (op ++ (ws1 ++ (x ++ rest)))) = numCmp o v x ∧
    (pyFloat v = .valueError → numCmp o v x = .err .valueError) ∧
    (∀ n, pyFloat v = .num n → pyFloat x = .valueError → numCmp o v x = .err .valueError) := by
  refine ⟨by rw [lemma_match_unary op _ hop hk v S]; rfl, ?_, ?_⟩
  · intro h; simp [numCmp, h]
  · intro n h1 h2; simp [numCmp, h1, h2]

/-- The number a decimal text denotes: optional `-`, digits `ip`, optionally `.` and digits `fp`
    (`decText`) is read by `float()` as the rational `± (ip + fp / 10^|fp|)` (`decValue`). -/
theorem decimal_text_value (neg : Bool) (ip fp : Str) (hne : ip ≠ []) (hd : Digits ip) (hfd : Digits fp) :
    pyFloat (decText neg ip fp) = .num (.fin (decValue neg ip fp)) :=
  lemma_decimal_text_value neg ip fp hne hd hfd

/-- All seven numeric operators on decimal texts, with no hypothesis left about `float()`: the
    result is the comparison of the two rationals the texts denote. -/
theorem numeric_ops_on_decimal_texts (op : Str) (o : NumOp) (hop : op ∈ Gen.unaryLits)
    (hk : opTable.lookup op = some (.num o)) (n1 n2 : Bool) (ip1 fp1 ip2 fp2 : Str)
    (h1 : ip1 ≠ [] ∧ Digits ip1 ∧ Digits fp1) (h2 : ip2 ≠ [] ∧ Digits ip2 ∧ Digits fp2)
    {ws0 ws1 rest : Str} (hw0 : White ws0) (hw1 : White ws1) (hne : ws1 ≠ []) (hr : Ends rest) :
    matchSpec (decText n1 ip1 fp1) (ws0 ++ (op ++ (ws1 ++ (decText n2 ip2 fp2 ++ rest))))
      = .ok (o.meaning (decValue n1 ip1 fp1) (decValue n2 ip2 fp2)) := by
  have S : UnaryShape ws0 ws1 (decText n2 ip2 fp2) rest :=
    ⟨hw0, hw1, hne, lemma_decimal_atom n2 ip2 fp2 h2.1 h2.2.1 h2.2.2, hr⟩
  rw [lemma_match_num op o hop hk _ S (decimal_text_value n1 ip1 fp1 h1.1 h1.2.1 h1.2.2)
    (decimal_text_value n2 ip2 fp2 h2.1 h2.2.1 h2.2.2), lemma_numsem_fin]

/-- the seven numeric operators and what they denote (`=` and `>=` are the same function) -/
theorem numeric_operator_table :
    opTable.lookup ['='] = some (.num .ge) ∧ opTable.lookup ['!', '='] = some (.num .ne) ∧
    opTable.lookup ['<', '='] = some (.num .le) ∧ opTable.lookup ['<'] = some (.num .lt) ∧
    opTable.lookup ['=', '='] = some (.num .eq) ∧ opTable.lookup ['>', '='] = some (.num .ge) ∧
    opTable.lookup ['>'] = some (.num .gt) ∧
    (∀ op ∈ [['='], ['!', '='], ['<', '='], ['<'], ['=', '='], ['>', '='], ['>']], op ∈ Gen.unaryLits) := by
  decide

/-! ### string operators: Python `str` order is lexicographic by code point -/

theorem lemma_beq_decide (a b : Str) : (a == b) = decide (a = b) := by
  by_cases h : a = b <;> simp [h]

theorem lemma_char_lt (a b : Char) : a < b ↔ a.toNat < b.toNat := by
  rw [Char.lt_def]; exact UInt32.lt_iff_toNat_lt

theorem lemma_strLt_iff (a b : Str) : strLt a b = true ↔ a < b := by
  induction a generalizing b with
  | nil => cases b <;> simp [strLt]
  | cons c a ih =>
    cases b with
    | nil => simp [strLt]
    | cons d b =>
      rw [List.cons_lt_cons_iff, lemma_char_lt, ← ih b]
      simp only [strLt]
      by_cases h1 : c.toNat < d.toNat
      · simp [h1]
      · by_cases h2 : c = d <;> simp [h1, h2]

theorem lemma_strLe_iff (a b : Str) : (strLt a b || a == b) = true ↔ a ≤ b := by
  rw [List.le_iff_lt_or_eq, ← lemma_strLt_iff]; simp

/-- `s< x` -/
theorem match_op_s_lt (v : Str) {ws0 ws1 x rest : Str} (S : UnaryShape ws0 ws1 x rest) :
    matchSpec v (ws0 ++ (['s', '<'] ++ (ws1 ++ (x ++ rest)))) = .ok (decide (v < x)) := by
  rw [lemma_match_unary _ (.str .lt) (by decide) (by decide) v S]
  simp [applyOp, StrOp.sem, ← lemma_strLt_iff]

/-- `s<= x` -/
theorem match_op_s_le (v : Str) {ws0 ws1 x rest : Str} (S : UnaryShape ws0 ws1 x rest) :
    matchSpec v (ws0 ++ (['s', '<', '='] ++ (ws1 ++ (x ++ rest)))) = .ok (decide (v ≤ x)) := by
  rw [lemma_match_unary _ (.str .le) (by decide) (by decide) v S]
  simp only [applyOp, StrOp.sem, ← lemma_strLe_iff]; simp [lemma_beq_decide]

/-- `s== x` -/
theorem match_op_s_eq (v : Str) {ws0 ws1 x rest : Str} (S : UnaryShape ws0 ws1 x rest) :
    matchSpec v (ws0 ++ (['s', '=', '='] ++ (ws1 ++ (x ++ rest)))) = .ok (decide (v = x)) := by
  rw [lemma_match_unary _ (.str .eq) (by decide) (by decide) v S]
  simp [applyOp, StrOp.sem, lemma_beq_decide]

/-- `s!= x` -/
theorem match_op_s_ne (v : Str) {ws0 ws1 x rest : Str} (S : UnaryShape ws0 ws1 x rest) :
    matchSpec v (ws0 ++ (['s', '!', '='] ++ (ws1 ++ (x ++ rest)))) = .ok (decide (v ≠ x)) := by
  rw [lemma_match_unary _ (.str .ne) (by decide) (by decide) v S]
  simp [applyOp, StrOp.sem, bne, lemma_beq_decide]

/-- `s> x` -/
theorem match_op_s_gt (v : Str) {ws0 ws1 x rest : Str} (S : UnaryShape ws0 ws1 x rest) :
    matchSpec v (ws0 ++ (['s', '>'] ++ (ws1 ++ (x ++ rest)))) = .ok (decide (x < v)) := by
  rw [lemma_match_unary _ (.str .gt) (by decide) (by decide) v S]
  simp [applyOp, StrOp.sem, ← lemma_strLt_iff]

/-- `s>= x` -/
theorem match_op_s_ge (v : Str) {ws0 ws1 x rest : Str} (S : UnaryShape ws0 ws1 x rest) :
    matchSpec v (ws0 ++ (['s', '>', '='] ++ (ws1 ++ (x ++ rest)))) = .ok (decide (x ≤ v)) := by
  rw [lemma_match_unary _ (.str .ge) (by decide) (by decide) v S]
  have := lemma_strLe_iff x v
  simp only [applyOp, StrOp.sem]
  by_cases h : x ≤ v
  · have h' := this.mpr h
    simp only [Bool.or_eq_true, beq_iff_eq] at h'
    rcases h' with h' | h' <;> simp [h, h']
  · have h' : ¬ ((strLt x v || x == v) = true) := fun hh => h (this.mp hh)
    simp only [Bool.or_eq_true, beq_iff_eq, not_or] at h'
    have : ¬ v = x := fun e => h'.2 e.symm
    simp [h, h'.1, this]

/-- `s<=` and `s<` differ exactly at equality, and so do `s>=` and `s>` (for all strings) -/
theorem s_le_is_s_lt_or_equal (v x : Str) :
    (v ≤ x ↔ (v < x ∨ v = x)) ∧ (x ≤ v ↔ (x < v ∨ v = x)) ∧ ¬ (v < v) := by
  refine ⟨List.le_iff_lt_or_eq, ?_, List.lt_irrefl v⟩
  rw [List.le_iff_lt_or_eq]
  constructor <;> (rintro (h | h); exact Or.inl h; exact Or.inr h.symm)

/-! ### `<in>` -/

theorem lemma_isPrefix_iff (y x : Str) : isPrefix y x = true ↔ y <+: x := by
  induction y generalizing x with
  | nil => simp [isPrefix]
  | cons a y ih =>
    cases x with
    | nil => simp [isPrefix]
    | cons b x => simp [isPrefix, ih, List.cons_prefix_cons]

theorem lemma_isInfix_iff (y x : Str) : isInfix y x = true ↔ y <:+: x := by
  induction x with
  | nil => simp [isInfix]
  | cons c x ih =>
    simp only [isInfix, Bool.or_eq_true, lemma_isPrefix_iff, ih, List.infix_cons_iff]

/-- `<in> x` : `x` occurs in the value as a contiguous substring -/
theorem match_op_in (v : Str) {ws0 ws1 x rest : Str} (S : UnaryShape ws0 ws1 x rest) :
    matchSpec v (ws0 ++ (['<', 'i', 'n', '>'] ++ (ws1 ++ (x ++ rest)))) = .ok (decide (x <:+: v)) := by
  rw [lemma_match_unary _ .isIn (by decide) (by decide) v S]
  simp [applyOp, ← lemma_isInfix_iff]

/-! ### `<or>` -/

/-- `<or> x₁ <or> x₂ … <or> xₙ` (n ≥ 1) : the value equals one of the alternatives -/
theorem match_op_or (v : Str) {ws0 m x e : Str} {alts : List (Str × Str × Str)}
    (h0 : White ws0) (hm : White m) (hx : IsAtom x) (halts : Alternatives alts) (he : White e) :
    matchSpec v (ws0 ++ (Gen.orLit ++ (m ++ (x ++ orSpec alts e))))
      = .ok (decide (v ∈ x :: alts.map (·.2.2))) := by
  have hk : opTable.lookup orTok = some .or := by decide
  simp only [matchSpec, lemma_parse_or ws0 m x alts e h0 hm hx halts he, evalTokens, hk, applyOp]
  congr 1
  rw [Bool.eq_iff_iff]
  simp [List.any_eq_true]

/-! ### `<all-in>` -/

/-- `<all-in> x₁ … xₙ` (n ≥ 1) against a value that is a list literal: every `xᵢ` is one of the
    list's string items -/
theorem match_op_all_in (v : Str) {ws0 e : Str} {items : List (Str × Str)} {l : List Item}
    (h0 : White ws0) (hit : Operands items) (hne : items ≠ []) (he : White e)
    (hv : pyLiteral v = some (.list l)) :
    matchSpec v (ws0 ++ (Gen.allInLit ++ atomsSpec items e))
      = .ok (decide (∀ y ∈ items.map (fun i : Str × Str => i.2), Item.str y ∈ l)) := by
  have hk : opTable.lookup Gen.allInLit = some .allIn := by decide
  obtain ⟨i, r, rfl⟩ := List.exists_cons_of_ne_nil hne
  simp only [matchSpec, lemma_parse_all_in ws0 _ e h0 hit hne he, List.map_cons, evalTokens, hk,
    applyOp, allIn, hv]
  congr 1
  rw [Bool.eq_iff_iff]
  simp [List.all_eq_true]
  intro _
  constructor <;> intro h a b hab <;> exact h _ _ hab

/-- … and against a value that is a string or number literal it raises `TypeError` -/
theorem match_op_all_in_not_a_list (v : Str) {ws0 e : Str} {items : List (Str × Str)} {a : Item}
    (h0 : White ws0) (hit : Operands items) (hne : items ≠ []) (he : White e)
    (hv : pyLiteral v = some (.item a)) :
    matchSpec v (ws0 ++ (Gen.allInLit ++ atomsSpec items e)) = .err .typeError := by
  have hk : opTable.lookup Gen.allInLit = some .allIn := by decide
  obtain ⟨i, r, rfl⟩ := List.exists_cons_of_ne_nil hne
  simp only [matchSpec, lemma_parse_all_in ws0 _ e h0 hit hne he, List.map_cons, evalTokens, hk,
    applyOp, allIn, hv]

/-! ### `<range-in>` -/

/-- `<range-in> b₁ lo hi b₂` with any four operands: the result is `_range_in` on them -/
theorem match_op_range_in (v : Str) {ws0 w1 b1 w2 lo w3 hi w4 b2 rest : Str} (h0 : White ws0)
    (hit : Operands [(w1, b1), (w2, lo), (w3, hi), (w4, b2)]) (hr : Ends rest) :
    matchSpec v (ws0 ++ (Gen.rangeLit ++ atomsSpec [(w1, b1), (w2, lo), (w3, hi), (w4, b2)] rest))
      = rangeIn v [b1, lo, hi, b2] := by
  have hk : opTable.lookup Gen.rangeLit = some .rangeIn := by decide
  simp only [matchSpec, lemma_parse_range_in ws0 w1 b1 w2 lo w3 hi w4 b2 rest h0 hit hr, evalTokens,
    hk, applyOp]

theorem lemma_bracket_atoms : IsAtom ['['] ∧ IsAtom ['('] ∧ IsAtom [']'] ∧ IsAtom [')'] := by
  refine ⟨⟨?_, ?_, ?_⟩, ⟨?_, ?_, ?_⟩, ⟨?_, ?_, ?_⟩, ⟨?_, ?_, ?_⟩⟩ <;> decide

/-- All four bracket combinations, ends honoured: for a numeric value `q` and bounds `a ≤ b`,
    `[`/`]` include the end, `(`/`)` exclude it. -/
theorem range_in_brackets (v : Str) (lb rb : Char) (hlb : lb = '[' ∨ lb = '(') (hrb : rb = ']' ∨ rb = ')')
    {ws0 w1 w2 lo w3 hi w4 rest : Str} {q a b : Rat} (h0 : White ws0)
    (h1 : White w1 ∧ w1 ≠ []) (h2 : White w2 ∧ w2 ≠ []) (h3 : White w3 ∧ w3 ≠ [])
    (h4 : White w4 ∧ w4 ≠ []) (hlo : IsAtom lo) (hhi : IsAtom hi) (hr : Ends rest)
    (hv : pyLiteral v = some (.item (.num q)))
    (ha : pyFloat lo = .num (.fin a)) (hb : pyFloat hi = .num (.fin b)) (hab : a ≤ b) :
    matchSpec v (ws0 ++ (Gen.rangeLit ++ atomsSpec [(w1, [lb]), (w2, lo), (w3, hi), (w4, [rb])] rest))
      = .ok (decide ((if lb = '[' then a ≤ q else a < q) ∧ (if rb = ']' then q ≤ b else q < b))) := by
  have hb1 : IsAtom [lb] := by
    rcases hlb with rfl | rfl
    · exact lemma_bracket_atoms.1
    · exact lemma_bracket_atoms.2.1
  have hb2 : IsAtom [rb] := by
    rcases hrb with rfl | rfl
    · exact lemma_bracket_atoms.2.2.1
    · exact lemma_bracket_atoms.2.2.2
  have hit : Operands [(w1, [lb]), (w2, lo), (w3, hi), (w4, [rb])] := by
    intro i hi'
    simp only [List.mem_cons, List.not_mem_nil, or_false] at hi'
    rcases hi' with rfl | rfl | rfl | rfl
    · exact ⟨h1.1, h1.2, hb1⟩
    · exact ⟨h2.1, h2.2, hlo⟩
    · exact ⟨h3.1, h3.2, hhi⟩
    · exact ⟨h4.1, h4.2, hb2⟩
  rw [match_op_range_in v h0 hit hr]
  have hgt : NumOp.gt.sem (.fin a) (.fin b) = false := by
    rw [lemma_numsem_fin]; simp [NumOp.meaning]; exact Rat.not_lt.mpr hab
  simp only [rangeIn, hv, litFloat, ha, hb, hgt]
  rcases hlb with rfl | rfl <;> rcases hrb with rfl | rfl <;>
    simp [lemma_numsem_fin, NumOp.meaning]

/-- bounds in the wrong order raise `TypeError`, whatever the brackets -/
theorem range_in_reversed_bounds_raise (v : Str) {ws0 w1 b1 w2 lo w3 hi w4 b2 rest : Str} {q a b : Rat}
    (h0 : White ws0) (hit : Operands [(w1, b1), (w2, lo), (w3, hi), (w4, b2)]) (hr : Ends rest)
    (hv : pyLiteral v = some (.item (.num q)))
    (ha : pyFloat lo = .num (.fin a)) (hb : pyFloat hi = .num (.fin b)) (hab : b < a) :
    matchSpec v (ws0 ++ (Gen.rangeLit ++ atomsSpec [(w1, b1), (w2, lo), (w3, hi), (w4, b2)] rest))
      = .err .typeError := by
  rw [match_op_range_in v h0 hit hr]
  have hgt : NumOp.gt.sem (.fin a) (.fin b) = true := by
    rw [lemma_numsem_fin]; simp [NumOp.meaning]; exact hab
  simp [rangeIn, hv, litFloat, ha, hb, hgt]

/-! ### no operator -/

/-- a spec that is a single operand (no operator) is plain string equality with that operand -/
theorem no_operator_is_equality (v : Str) {ws0 x rest : Str} (h0 : White ws0) (hx : IsAtom x)
    (hr : Ends rest) : matchSpec v (ws0 ++ (x ++ rest)) = .ok (decide (x = v)) := by
  simp [matchSpec, lemma_parse_plain ws0 x rest h0 hx hr, evalTokens, lemma_beq_decide]

/-- a spec the grammar rejects altogether is compared with the value as it stands -/
theorem unparsable_spec_is_equality (v spec : Str) (h : parse spec = none) :
    matchSpec v spec = .ok (decide (spec = v)) := by
  simp [matchSpec, h, evalTokens, lemma_beq_decide]

/-- `match` never fails with `KeyError` / `IndexError`: every operator the grammar can produce has
    an entry in `op_methods` -/
theorem match_never_key_error (v spec : Str) :
    matchSpec v spec ≠ .err .keyError ∧ matchSpec v spec ≠ .err .indexError := by
  have happ : ∀ k args, applyOp k v args ≠ .err .keyError ∧ applyOp k v args ≠ .err .indexError := by
    intro k args
    cases k <;> simp only [applyOp]
    · split <;> simp [numCmp] <;> (repeat' split) <;> simp
    · split <;> simp
    · simp only [allIn]; (repeat' split) <;> simp
    · split <;> simp
    · simp
    · simp only [rangeIn]; (repeat' split) <;> simp
  simp only [matchSpec]
  cases hp : parse spec with
  | none => simp [evalTokens]
  | some t =>
    rcases lemma_parse_head spec t hp with ⟨a, rfl⟩ | ⟨op, a, as, rfl, hk⟩
    · simp [evalTokens]
    · obtain ⟨k, hk'⟩ := Option.isSome_iff_exists.mp hk
      simp only [evalTokens, hk']
      exact happ k _

/-! ### non-vacuity: concrete instances of the hypotheses and of the statements -/

example : UnaryShape [] [' '] ['4'] [] := by
  refine ⟨?_, ?_, ?_, ⟨?_, ?_, ?_⟩, ?_⟩ <;> decide
example : UnaryShape [' ', '\t'] [' ', ' '] ['1', '0', '.', '5'] [' ', 'x'] := by
  refine ⟨?_, ?_, ?_, ⟨?_, ?_, ?_⟩, ?_⟩ <;> decide
example : IsAtom ['a', 'e', 's'] ∧ IsAtom ['x', '>', '='] ∧ ¬ IsAtom ['>', '=', 'x'] ∧ ¬ IsAtom ['s', '<', '1'] := by
  refine ⟨⟨?_, ?_, ?_⟩, ⟨?_, ?_, ?_⟩, ?_, ?_⟩ <;> first | decide | (intro h; have := h.noop; revert this; decide)
example : Digits ['1', '0'] ∧ Digits [] ∧ decText true ['1', '0'] ['5', '0'] = "-10.50".toList
    ∧ decValue true ['1', '0'] ['5', '0'] = -21 / 2 ∧ decText false ['7'] [] = ['7'] := by
  refine ⟨by decide, by decide, by decide, by decide +kernel, by decide⟩
example : pyFloat ['5'] = .num (.fin 5) ∧ pyFloat ['-', '1', '0', '.', '5', '0'] = .num (.fin (-21 / 2))
    ∧ pyFloat ['x'] = .valueError := by decide +kernel
example : pyLiteral "['aes', 'mmx', 3]".toList
    = some (.list [.str ['a', 'e', 's'], .str ['m', 'm', 'x'], .num 3]) := by decide +kernel
example : pyLiteral "12.5".toList = some (.item (.num (25 / 2))) := by decide +kernel
-- every spelling `float()` accepts for a number is read as that number (leading / trailing dot, exponent,
-- plus sign, leading zeros, surrounding blanks), on the value side and on the operand side
example : pyFloat ".5".toList = .num (.fin (1 / 2)) ∧ pyFloat "5.".toList = .num (.fin 5)
    ∧ pyFloat "1e3".toList = .num (.fin 1000) ∧ pyFloat "2.5E-1".toList = .num (.fin (1 / 4))
    ∧ pyFloat "-.25".toList = .num (.fin (-1 / 4)) ∧ pyFloat "+01".toList = .num (.fin 1)
    ∧ pyFloat " 5\n".toList = .num (.fin 5) ∧ pyFloat "1_0".toList = .num (.fin 10) := by decide +kernel
example : matchSpec ".5".toList "< 1".toList = .ok true ∧ matchSpec "2.5".toList "> .5".toList = .ok true
    ∧ matchSpec "1e3".toList ">= 500".toList = .ok true ∧ matchSpec "999".toList "< 1e3".toList = .ok true
    ∧ matchSpec "5.".toList "== 5".toList = .ok true ∧ matchSpec "-.25".toList "= -2.5E-1".toList = .ok true
    ∧ matchSpec "1e3".toList "<range-in> [ 1e2 1.e3 )".toList = .ok false := by decide +kernel
example : Alternatives [([' '], [' '], ['b']), (['\n'], [], ['c'])] := by
  intro a ha
  simp only [List.mem_cons, List.not_mem_nil, or_false] at ha
  rcases ha with rfl | rfl <;> refine ⟨?_, ?_, ?_, ⟨?_, ?_, ?_⟩⟩ <;> decide
example : Operands [([' '], ['[']), ([' '], ['1']), ([' '], ['2']), ([' '], [')'])] := by
  intro a ha
  simp only [List.mem_cons, List.not_mem_nil, or_false] at ha
  rcases ha with rfl | rfl | rfl | rfl <;> refine ⟨?_, ?_, ⟨?_, ?_, ?_⟩⟩ <;> decide
-- whole-function instances (model evaluated by the kernel)
example : matchSpec "5".toList ">= 4".toList = .ok true ∧ matchSpec "5".toList "= 6".toList = .ok false
    ∧ matchSpec "5".toList "<= 5.0".toList = .ok true ∧ matchSpec "5".toList "< 5".toList = .ok false := by
  decide +kernel
example : matchSpec "abc".toList "s<= abd".toList = .ok true ∧ matchSpec "abc".toList "<in> bc".toList = .ok true
    ∧ matchSpec "b".toList "<or> a <or> b".toList = .ok true
    ∧ matchSpec "['aes', 'mmx']".toList "<all-in> aes mmx".toList = .ok true
    ∧ matchSpec "['aes', 'mmx']".toList "<all-in> aes sse".toList = .ok false := by decide +kernel
example : matchSpec "10".toList "<range-in> [ 10 20 ]".toList = .ok true
    ∧ matchSpec "10".toList "<range-in> ( 10 20 ]".toList = .ok false
    ∧ matchSpec "20".toList "<range-in> ( 10 20 ]".toList = .ok true
    ∧ matchSpec "20".toList "<range-in> ( 10 20 )".toList = .ok false
    ∧ matchSpec "15".toList "<range-in> ( 20 10 )".toList = .err .typeError := by decide +kernel
-- the pyparsing behaviours recorded in DESIGN.md §5-C18
example : parse "<or> a b".toList = some ["<or>".toList, "a".toList]            -- prefix parse
    ∧ parse "<or>".toList = some ["<".toList, "or>".toList]                     -- `<or>` alone
    ∧ parse ">=5".toList = some [">=".toList, "5".toList]                       -- atom glued to the operator
    ∧ parse "<=5".toList = some ["<=".toList, "5".toList]
    ∧ parse "s<=x".toList = some ["s<=".toList, "x".toList]
    ∧ parse "<in>".toList = none ∧ parse "=".toList = none ∧ parse "> =5".toList = none
    ∧ parse "abc def".toList = some ["abc".toList] := by decide +kernel

end Oslo.Specs
