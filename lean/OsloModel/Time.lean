/-
Model of the clock / comparison / marshalling part of oslo_utils.timeutils
(timeutils.py:40-254) and of fixture.TimeFixture (fixture.py:29-54).

Representation.
* An *instant* is an `Int`: microseconds since 0001-01-01T00:00:00 (the first
  instant `datetime` can represent), so the representable range is
  `0 … maxInstant` (`datetime.min … datetime.max`).
* A datetime is `DT.naive loc` or `DT.aware loc off`: its wall-clock reading in
  microseconds and — for an aware one — what `utcoffset()` returned, in
  microseconds (strictly between -24 h and +24 h for every real tzinfo).
* A `timedelta` is an `Int` number of microseconds (`tdMin … tdMax`).
* A *seconds* argument (`int` or `float`, i.e. always a rational) is `Secs`,
  an exact fraction `num / den`; `usOfSeconds` is `timedelta(seconds=…)`:
  round-half-even to whole microseconds, `OverflowError` outside the range.
  (For a float CPython multiplies the fractional part by 1e6 *in binary64*
  before rounding; the model rounds the exact product.  The two differ only
  when the exact product lies within one binary64 rounding error of a
  half-integer; the correspondence detects and skips those inputs.)
* The override (`utcnow.override_time`) is one cell, `Clock := Option Int`,
  holding a naive instant (the single-instant form the property speaks of; the
  list form and aware override instants are not modelled).
* A marshalled time is a record of calendar fields plus the `tzname` entry.

What is *not* here (it is the runtime's, see DESIGN.md §3): the calendar
(fields ↔ instant), the tz database (`utcoffset()` / `ZoneInfo(key)`),
`iso8601.parse_date`, `calendar.timegm` beyond "seconds since 1970-01-01 of a
naive UTC reading".  They enter as parameters (`cal`, `lookup`, the offset
inside `DT.aware`) and through the correspondence harness.
-/
namespace Oslo.Time

/-! ### ranges -/

/-- `datetime.max` = 9999-12-31T23:59:59.999999: 3 652 059 days after 0001-01-01, minus 1 µs -/
def maxInstant : Int := 3652059 * 86400000000 - 1
/-- 1970-01-01T00:00:00 (`date(1970,1,1).toordinal() - 1` = 719 162 days) -/
def unixEpoch : Int := 719162 * 86400000000
/-- `timedelta.min` / `timedelta.max` in microseconds (|days| ≤ 999 999 999) -/
def tdMin : Int := -999999999 * 86400000000
def tdMax : Int := 1000000000 * 86400000000 - 1

inductive Err
  | overflow        -- OverflowError: date value out of range / timedelta days out of range
  | assertion       -- AssertionError: advance_* without an override
  | typeError       -- TypeError: naive/aware mix (unreachable, see `compare_no_typeError`)
  | valueError      -- ValueError: datetime() field out of range, malformed ZoneInfo key
  | zoneNotFound    -- zoneinfo.ZoneInfoNotFoundError
  deriving DecidableEq, Repr

/-- a naive `datetime` value can only be built inside the representable range -/
def mkInstant (x : Int) : Except Err Int :=
  if 0 ≤ x ∧ x ≤ maxInstant then .ok x else .error .overflow

/-! ### seconds → timedelta -/

/-- the `seconds` argument: the exact rational `num / den` (an `int` has `den = 1`,
    a `float` is the dyadic rational it denotes) -/
structure Secs where
  num : Int
  den : Nat
  pos : 0 < den

/-- nearest integer to `n / d` (`d > 0`), ties to the even one -/
def roundHalfEven (n : Int) (d : Nat) : Int :=
  let q := n / (d : Int)          -- floor (Int division is Euclidean, d > 0)
  let r := n % (d : Int)          -- 0 ≤ r < d
  if 2 * r < d then q
  else if 2 * r > d then q + 1
  else if q % 2 = 0 then q else q + 1

/-- `datetime.timedelta(seconds=s)` as whole microseconds -/
def usOfSeconds (s : Secs) : Except Err Int :=
  let us := roundHalfEven (s.num * 1000000) s.den
  if tdMin ≤ us ∧ us ≤ tdMax then .ok us else .error .overflow

/-! ### datetimes -/

inductive DT
  | naive (loc : Int)
  | aware (loc : Int) (off : Int)
  deriving DecidableEq, Repr

/-- the instant a datetime denotes on the UTC time line (a naive one is read as UTC,
    which is how every function below uses it) -/
def utcInstant : DT → Int
  | .naive l => l
  | .aware l o => l - o

/-- `normalize_time` (timeutils.py:55-60):
    `offset = timestamp.utcoffset(); if offset is None: return timestamp;
     return timestamp.replace(tzinfo=None) - offset` -/
def normalizeTime : DT → Except Err DT
  | .naive l => .ok (.naive l)
  | .aware l o =>
    match mkInstant (l - o) with
    | .ok u => .ok (.naive u)
    | .error e => .error e

/-- `is_older_than` (63-75) once `before` is a datetime, with `utcnow()` = `now`:
    `utcnow() - normalize_time(before) > timedelta(seconds=seconds)` -/
def isOlderThan (now : Int) (before : DT) (s : Secs) : Except Err Bool :=
  match normalizeTime before with
  | .error e => .error e
  | .ok (.aware _ _) => .error .typeError      -- naive - aware
  | .ok (.naive u) =>
    match usOfSeconds s with
    | .error e => .error e
    | .ok w => .ok (decide (now - u > w))

/-- `is_newer_than` (78-90): `normalize_time(after) - utcnow() > timedelta(seconds=seconds)` -/
def isNewerThan (now : Int) (after : DT) (s : Secs) : Except Err Bool :=
  match normalizeTime after with
  | .error e => .error e
  | .ok (.aware _ _) => .error .typeError
  | .ok (.naive u) =>
    match usOfSeconds s with
    | .error e => .error e
    | .ok w => .ok (decide (u - now > w))

/-- `is_soon` (245-254): `soon = utcnow() + timedelta(seconds=window);
    return normalize_time(dt) <= soon` -/
def isSoon (now : Int) (dt : DT) (window : Secs) : Except Err Bool :=
  match usOfSeconds window with
  | .error e => .error e
  | .ok w =>
    match mkInstant (now + w) with
    | .error e => .error e
    | .ok soon =>
      match normalizeTime dt with
      | .error e => .error e
      | .ok (.aware _ _) => .error .typeError
      | .ok (.naive u) => .ok (decide (u ≤ soon))

/-! ### the override cell -/

/-- `utcnow.override_time`: `none` = not overridden, `some c` = the naive instant `c` -/
abbrev Clock := Option Int

inductive Op
  | set (t : Int)                 -- set_time_override(t) / TimeFixture(t).setUp()
  | advDelta (d : Int)            -- advance_time_delta(timedelta(microseconds=d))
  | advSeconds (s : Secs)         -- advance_time_seconds(s)
  | clear                         -- clear_time_override() / fixture clean-up
  | utcnow (withTz : Bool)        -- utcnow(with_timezone=…)
  | utcnowTs (micro : Bool)       -- utcnow_ts(microsecond=…)
  | older (t : DT) (s : Secs)     -- is_older_than(t, s)
  | newer (t : DT) (s : Secs)     -- is_newer_than(t, s)
  | soon (t : DT) (w : Secs)      -- is_soon(t, w)
  -- fixture.TimeFixture (fixture.py:30-53) works on the same cell through its own entry points:
  | fxSetUp (t : Int)             -- TimeFixture(t).setUp(): set_time_override(the constructor's instant)
  | fxCleanUp                     -- the clean-up registered by setUp: clear_time_override()
  | fxAdvDelta (d : Int)          -- TimeFixture.advance_time_delta: timeutils.advance_time_delta(d)
  | fxAdvSeconds (s : Secs)       -- TimeFixture.advance_time_seconds: timeutils.advance_time_seconds(s)

inductive Out
  | none                          -- the call returned None
  | instant (t : Int)             -- a naive datetime
  | tsInt (secs : Int)            -- integer timestamp
  | tsMicro (us : Int)            -- timestamp with microseconds: the exact value is us / 10^6
  | bool (b : Bool)
  | err (e : Err)
  | real                          -- the call read the real clock (not overridden): not modelled further
  deriving DecidableEq, Repr

def outOf : Except Err Bool → Out
  | .ok b => .bool b
  | .error e => .err e

/-- `advance_time_delta` (154-165) on the cell -/
def advance (st : Clock) (d : Int) : Clock × Out :=
  match st with
  | none => (none, .err .assertion)                      -- assert override_time is not None
  | some c =>
    match mkInstant (c + d) with                         -- override_time += timedelta
    | .ok c' => (some c', .none)
    | .error e => (some c, .err e)                       -- raised before the assignment

/-- `advance_time_seconds` (168-174): `timedelta(0, seconds)` is built first -/
def advanceSeconds (st : Clock) (s : Secs) : Clock × Out :=
  match usOfSeconds s with
  | .error e => (st, .err e)
  | .ok d => advance st d

/-- one call.  `set_time_override` (139-151), `advance_time_delta` (154-165),
    `advance_time_seconds` (168-174), `clear_time_override` (177-183), `utcnow` (118-133),
    `utcnow_ts` (93-115). -/
def step (st : Clock) : Op → Clock × Out
  | .set t => (some t, .none)
  | .clear => (none, .none)
  | .advDelta d => advance st d
  | .advSeconds s => advanceSeconds st s
  -- the fixture holds no time of its own: every one of its methods acts on the one cell
  | .fxSetUp t => (some t, .none)
  | .fxCleanUp => (none, .none)
  | .fxAdvDelta d => advance st d
  | .fxAdvSeconds s => advanceSeconds st s
  | .utcnow _ =>                                         -- the override is returned as it is,
    match st with                                        -- whatever with_timezone says
    | none => (none, .real)
    | some c => (some c, .instant c)
  | .utcnowTs micro =>
    match st with
    | none => (none, .real)
    | some c =>
      -- calendar.timegm(now.timetuple()) = whole seconds since 1970 (floor);
      -- `+ now.microsecond / 1000000` makes it (c - unixEpoch) / 10^6
      (some c, if micro then .tsMicro (c - unixEpoch) else .tsInt ((c - unixEpoch) / 1000000))
  | .older t s =>
    match st with
    | none => (none, .real)
    | some c => (some c, outOf (isOlderThan c t s))
  | .newer t s =>
    match st with
    | none => (none, .real)
    | some c => (some c, outOf (isNewerThan c t s))
  | .soon t w =>
    match st with
    | none => (none, .real)
    | some c => (some c, outOf (isSoon c t w))

/-- run a call sequence, collecting the outputs -/
def run (st : Clock) : List Op → Clock × List Out
  | [] => (st, [])
  | op :: ops =>
    let (st1, o) := step st op
    let (st2, os) := run st1 ops
    (st2, o :: os)

/-- final state only -/
def exec (st : Clock) (ops : List Op) : Clock :=
  ops.foldl (fun st op => (step st op).1) st

/-! ### marshalling -/

/-- the calendar fields of a datetime (arbitrary integers in a marshalled record) -/
structure Fields where
  year : Int
  month : Int
  day : Int
  hour : Int
  minute : Int
  second : Int
  microsecond : Int
  deriving DecidableEq, Repr

/-- A datetime seen through its fields.  `tz = none`: naive.  `tz = some n`: aware; for an
    argument of `marshall_now`, `n` is what `tzinfo.tzname(None)` returns (it may be `None`,
    e.g. for a `ZoneInfo` with transitions); for a result of `unmarshall_time`, `n` is the key
    the `ZoneInfo` was built from. -/
structure Stamp where
  f : Fields
  tz : Option (Option (List Char))
  deriving DecidableEq, Repr

/-- the rpc dict: the seven fields and the `tzname` entry (`none` = key absent,
    `some none` = present with value `None`) -/
structure Marshalled where
  f : Fields
  tzname : Option (Option (List Char))
  deriving DecidableEq, Repr

def utcPlus : List Char := "UTC+00:00".toList
def utcName : List Char := "UTC".toList

/-- `'UTC' if tzname == 'UTC+00:00' else tzname` -/
def canonTz (n : List Char) : List Char := if n = utcPlus then utcName else n

/-- `marshall_now(now)` for a given datetime (timeutils.py:194-201); every tzinfo object is truthy -/
def marshall (s : Stamp) : Marshalled :=
  match s.tz with
  | none => ⟨s.f, none⟩
  | some none => ⟨s.f, some none⟩
  | some (some n) => ⟨s.f, some (some (canonTz n))⟩

/-- `marshall_now(now=None)` (186-201): `if not now: now = utcnow()`.  `cal` is the calendar
    (instant ↦ fields), a parameter.  `none` = the real clock was read. -/
def marshallNow (cal : Int → Fields) (st : Clock) (now : Option Stamp) : Option Marshalled :=
  match now with
  | some s => some (marshall s)            -- a datetime is always truthy
  | none =>
    match st with
    | some c => some (marshall ⟨cal c, none⟩)
    | none => none

def isLeap (y : Int) : Bool := y % 4 = 0 ∧ (y % 100 ≠ 0 ∨ y % 400 = 0)

def daysInMonth (y m : Int) : Int :=
  if m = 2 then (if isLeap y then 29 else 28)
  else if m = 4 ∨ m = 6 ∨ m = 9 ∨ m = 11 then 30 else 31

/-- the argument check of `datetime.datetime(...)` (ValueError otherwise) -/
def validFields (f : Fields) : Bool :=
  1 ≤ f.year ∧ f.year ≤ 9999 ∧ 1 ≤ f.month ∧ f.month ≤ 12 ∧
  1 ≤ f.day ∧ f.day ≤ daysInMonth f.year f.month ∧
  0 ≤ f.hour ∧ f.hour ≤ 23 ∧ 0 ≤ f.minute ∧ f.minute ≤ 59 ∧
  0 ≤ f.second ∧ f.second ≤ 59 ∧ 0 ≤ f.microsecond ∧ f.microsecond ≤ 999999

/-- `unmarshall_time` (204-232).  `lookup key` is the outcome of `zoneinfo.ZoneInfo(key)`
    (`none` = a zone was found), a parameter. -/
def unmarshall (lookup : List Char → Option Err) (m : Marshalled) : Except Err Stamp :=
  let f : Fields := { m.f with second := min m.f.second 59 }     -- _MAX_DATETIME_SEC
  if validFields f then
    match m.tzname with
    | some (some n) =>
      if n = [] then .ok ⟨f, none⟩                                -- `if tzname:` — '' is falsy
      else
        match lookup (canonTz n) with
        | none => .ok ⟨f, some (some (canonTz n))⟩
        | some e => .error e
    | _ => .ok ⟨f, none⟩                                          -- absent or None
  else .error .valueError

end Oslo.Time
