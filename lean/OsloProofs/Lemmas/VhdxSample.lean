/-
VHDX: a concrete minimal well-formed image (262 216 bytes) used as the non-vacuity witness of the
VHDX theorems: the `vhdxfile` signature, zeros up to 192 KiB, a one-entry region table pointing to a metadata region at
256 KiB, a one-entry metadata table whose size item (8 bytes) follows the table directly.
-/
import OsloProofs.Lemmas.VhdxImage
namespace Oslo.Insp

/-- 16-byte region-table header (`regi`, checksum, count = 1, reserved) + one 32-byte entry:
    metadata GUID, file offset 0x40000 = 256 KiB, length, required -/
def sampleRegionTable : Bytes :=
  [0x72, 0x65, 0x67, 0x69, 0, 0, 0, 0, 1, 0, 0, 0, 0, 0, 0, 0] ++
  Gen.vhdxMetaRegionGuid ++ [0, 0, 4, 0, 0, 0, 0, 0] ++ [0, 0, 1, 0, 1, 0, 0, 0]

/-- 32-byte metadata-table header (`metadata`, reserved, count = 1, reserved) + one 32-byte entry:
    virtual-disk-size GUID, item offset 64, item length 8, flags -/
def sampleMetaTable : Bytes :=
  ascii "metadata" ++ [0, 0, 1, 0] ++ List.replicate 20 0 ++
  Gen.vhdxVdsGuid ++ [64, 0, 0, 0] ++ [8, 0, 0, 0] ++ List.replicate 8 0

/-- the image declaring the virtual size whose 8 little-endian bytes are `sz` -/
def vhdxSample (sz : Bytes) : Bytes :=
  (ascii "vhdxfile" ++ zeros 196600) ++ (sampleRegionTable ++ (zeros 65488 ++ (sampleMetaTable ++ sz)))

theorem lemma_zeros_length (n : Nat) : (zeros n).length = n := by simp [zeros]

theorem lemma_slice_append_right (x y : Bytes) (n a e : Nat) (hn : x.length = n) :
    slice (x ++ y) (n + a) (n + e) = slice y a e := by
  subst hn
  apply List.ext_getElem?
  intro i
  simp only [slice, List.getElem?_drop, List.getElem?_take]
  by_cases h : a + i < e
  · have h' : x.length + a + i < x.length + e := by omega
    rw [if_pos h, if_pos h', List.getElem?_append_right (by omega)]
    congr 1; omega
  · have h' : ¬ (x.length + a + i < x.length + e) := by omega
    rw [if_neg h, if_neg h']

theorem lemma_slice_append_left (x y : Bytes) (a e : Nat) (he : e ≤ x.length) :
    slice (x ++ y) a e = slice x a e := by
  simp only [slice]
  rw [List.take_append_of_le_length he]

theorem lemma_magic_length : (ascii "vhdxfile").length = 8 := by decide

theorem lemma_sample_head : (ascii "vhdxfile" ++ zeros 196600).length = 196608 := by
  have : (ascii "vhdxfile").length = 8 := by decide
  simp only [List.length_append, lemma_zeros_length, this]

theorem lemma_sample_region (sz : Bytes) (a e : Nat) (he : e ≤ 48) :
    slice (vhdxSample sz) (196608 + a) (196608 + e) = slice sampleRegionTable a e := by
  unfold vhdxSample
  rw [lemma_slice_append_right _ _ 196608 a e lemma_sample_head, lemma_slice_append_left _ _ a e (by
    have : sampleRegionTable.length = 48 := by decide
    omega)]

theorem lemma_sample_meta (sz : Bytes) (a e : Nat) (he : e ≤ 64) :
    slice (vhdxSample sz) (262144 + a) (262144 + e) = slice sampleMetaTable a e := by
  have hR : sampleRegionTable.length = 48 := by decide
  have hM : sampleMetaTable.length = 64 := by decide
  have e1 : vhdxSample sz =
      ((ascii "vhdxfile" ++ zeros 196600) ++ (sampleRegionTable ++ zeros 65488)) ++ (sampleMetaTable ++ sz) := by
    simp only [vhdxSample, List.append_assoc]
  rw [e1, lemma_slice_append_right _ _ 262144 a e (by simp only [List.length_append, lemma_zeros_length, hR, lemma_magic_length]),
    lemma_slice_append_left _ _ a e (by omega)]

theorem lemma_sample_size (sz : Bytes) (hs : sz.length = 8) :
    slice (vhdxSample sz) (262144 + 64) (262144 + 64 + 8) = sz := by
  have hR : sampleRegionTable.length = 48 := by decide
  have hM : sampleMetaTable.length = 64 := by decide
  have e1 : vhdxSample sz =
      ((ascii "vhdxfile" ++ zeros 196600) ++ (sampleRegionTable ++ (zeros 65488 ++ sampleMetaTable))) ++ sz := by
    simp only [vhdxSample, List.append_assoc]
  have := lemma_slice_append_right ((ascii "vhdxfile" ++ zeros 196600) ++ (sampleRegionTable ++ (zeros 65488 ++ sampleMetaTable)))
    sz 262208 0 8 (by simp only [List.length_append, lemma_zeros_length, hR, hM, lemma_magic_length])
  rw [e1]
  rw [this]
  simp [slice, ← hs]

theorem lemma_sample_length (sz : Bytes) (hs : sz.length = 8) : (vhdxSample sz).length = 262216 := by
  have hR : sampleRegionTable.length = 48 := by decide
  have hM : sampleMetaTable.length = 64 := by decide
  simp only [vhdxSample, List.length_append, lemma_zeros_length, hR, hM, hs, lemma_magic_length]

theorem lemma_sample_magic (sz : Bytes) : startsWith (vhdxSample sz) (ascii "vhdxfile") = true := by
  simp only [startsWith, vhdxSample, List.append_assoc, List.take_left', BEq.rfl]

/-- the sample is a well-formed image in the sense of `VhdxImage` -/
theorem lemma_sample_image (sz : Bytes) (hs : sz.length = 8) : VhdxImage (vhdxSample sz) 1 0 262144 1 0 64 where
  regi := by rw [show slice (vhdxSample sz) 196608 196612 = _ from lemma_sample_region sz 0 4 (by omega)]; decide
  rcount := by rw [show slice (vhdxSample sz) 196616 196620 = _ from lemma_sample_region sz 8 12 (by omega)]; decide
  rc_lt := by omega
  j_lt := by omega
  rbefore := by intro k hk; omega
  rguid := by rw [show slice (vhdxSample sz) (196624 + 0 * 32) (196624 + 0 * 32 + 16) = _ from lemma_sample_region sz 16 32 (by omega)]; decide
  roff := by rw [show slice (vhdxSample sz) (196624 + 0 * 32 + 16) (196624 + 0 * 32 + 24) = _ from lemma_sample_region sz 32 40 (by omega)]; decide
  mo_ge := by omega
  msig := by rw [show slice (vhdxSample sz) 262144 (262144 + 8) = _ from lemma_sample_meta sz 0 8 (by omega)]; decide
  mcount := by rw [show slice (vhdxSample sz) (262144 + 10) (262144 + 12) = _ from lemma_sample_meta sz 10 12 (by omega)]; decide
  mc_lt := by omega
  i_lt := by omega
  mbefore := by intro k hk; omega
  mguid := by rw [show slice (vhdxSample sz) (262144 + 32 + 0 * 32) (262144 + 32 + 0 * 32 + 16) = _ from lemma_sample_meta sz 32 48 (by omega)]; decide
  mioff := by rw [show slice (vhdxSample sz) (262144 + 32 + 0 * 32 + 16) (262144 + 32 + 0 * 32 + 20) = _ from lemma_sample_meta sz 48 52 (by omega)]; decide
  milen := by rw [show slice (vhdxSample sz) (262144 + 32 + 0 * 32 + 20) (262144 + 32 + 0 * 32 + 24) = _ from lemma_sample_meta sz 52 56 (by omega)]; decide
  ioff_ge := by omega
  hlen := by rw [lemma_sample_length sz hs]; omega

end Oslo.Insp
