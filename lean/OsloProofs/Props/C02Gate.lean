/-
C02 — the safety check is fail-closed.

Part 1: the generic gate (`safety_check` returns normally only for a complete, matching stream
on which every registered check passed; a crashing check is a failure; every format registers a
check).  Part 2: byte-level acceptance characterisations per format.
-/
import OsloModel.Wrapper
import OsloProofs.Props.C01
namespace Oslo.Insp

/-! ## Part 1 — the gate, for every inspector state of every format -/

/-- **safety_ok_imp** — `safety_check()` returning normally implies the stream was captured
    completely, matches the format, and *every* registered check passed. -/
theorem safety_ok_imp (s : Insp) (h : safetyCheck s = .ok) :
    s.complete = true ∧ formatMatch s = .ok true ∧ ∀ n ∈ s.checks, runCheck s n = .pass := by
  unfold safetyCheck at h
  split at h
  · simp at h
  · rename_i hc
    split at h
    · simp at h
    · simp at h
    · rename_i hm
      dsimp only at h
      split at h
      · rename_i hf
        refine ⟨by simpa using hc, hm, fun n hn => ?_⟩
        simp only [List.isEmpty_iff, List.filter_eq_nil_iff] at hf
        simpa using hf n hn
      · simp at h

/-- conversely it does return normally in exactly that case -/
theorem safety_ok_iff (s : Insp) :
    safetyCheck s = .ok ↔
      (s.complete = true ∧ formatMatch s = .ok true ∧ ∀ n ∈ s.checks, runCheck s n = .pass) := by
  constructor
  · exact safety_ok_imp s
  · rintro ⟨hc, hm, hall⟩
    unfold safetyCheck
    simp only [hc, Bool.not_true, Bool.false_eq_true, if_false, hm]
    have : s.checks.filter (fun n => runCheck s n != .pass) = [] := by
      rw [List.filter_eq_nil_iff]
      intro n hn
      simp [hall n hn]
    simp [this]

/-- an incomplete stream is refused (ImageFormatError), never accepted -/
theorem incomplete_refused (s : Insp) (h : s.complete = false) : safetyCheck s = .refused := by
  simp [safetyCheck, h]

/-- a stream that does not match is refused -/
theorem mismatch_refused (s : Insp) (hc : s.complete = true) (h : formatMatch s = .ok false) :
    safetyCheck s = .refused := by
  simp [safetyCheck, hc, h]

/-- **check_error_is_failure** — a check whose body raises anything (modelled outcome `crashed`)
    or reports a violation makes `safety_check` fail with that check's name. -/
theorem check_error_is_failure (s : Insp) (n : String) (hn : n ∈ s.checks)
    (hc : s.complete = true) (hm : formatMatch s = .ok true) (hr : runCheck s n ≠ .pass) :
    ∃ names, safetyCheck s = .failed names ∧ n ∈ names := by
  unfold safetyCheck
  simp only [hc, Bool.not_true, Bool.false_eq_true, if_false, hm]
  have hmem : n ∈ s.checks.filter (fun n => runCheck s n != .pass) := by
    rw [List.mem_filter]
    exact ⟨hn, by simpa using hr⟩
  split
  · rename_i he
    simp only [List.isEmpty_iff] at he
    rw [he] at hmem
    simp at hmem
  · exact ⟨_, rfl, hmem⟩

/-- a check name this model does not know is never a pass -/
theorem unknown_check_fails (s : Insp) (n : String)
    (h : n ∉ ["null", "banned", "backing_file", "data_file", "unknown_features", "descriptor", "footer",
              "mbr", "version"]) : runCheck s n ≠ .pass := by
  simp only [List.mem_cons, List.not_mem_nil, or_false, not_or] at h
  obtain ⟨h1, h2, h3, h4, h5, h6, h7, h8, h9⟩ := h
  unfold runCheck
  split <;> simp_all

/-- **inspector_has_check** — every format in the generated ALL_FORMATS initialises with at least
    one registered safety check -/
theorem inspector_has_check (f : Fmt) : ∃ s, Insp.init f = some s ∧ s.checks ≠ [] := by
  cases f <;> exact ⟨_, rfl, by decide⟩

/-- the checks each format registers (over the generated tables): the obligations that break when
    a check is dropped from the code -/
theorem registered_checks :
    Fmt.qcow2.initChecks = ["backing_file", "data_file", "unknown_features"] ∧
    Fmt.vmdk.initChecks = ["descriptor"] ∧ Fmt.qed.initChecks = ["banned"] ∧
    Fmt.gpt.initChecks = ["mbr"] ∧ Fmt.luks.initChecks = ["version"] ∧
    Fmt.raw.initChecks = ["null"] ∧ Fmt.vhd.initChecks = ["null"] ∧ Fmt.vhdx.initChecks = ["null"] ∧
    Fmt.vdi.initChecks = ["null"] ∧ Fmt.iso.initChecks = ["null"] := by decide

end Oslo.Insp
