/-
Helper lemmas for C11: canonical decimal octets and the dotted-quad parser.
-/
import OsloProofs.Lemmas.C11Split
namespace Oslo.Net

/-- the ASCII digit with value `k` -/
def dig (k : Nat) : Char := Char.ofNat (48 + k)

/-- canonical decimal text of an octet: no sign, no leading zero (`'%d' % n`) -/
def renderOctet (n : Nat) : List Char :=
  if n < 10 then [dig n]
  else if n < 100 then [dig (n / 10), dig (n % 10)]
  else [dig (n / 100), dig (n / 10 % 10), dig (n % 10)]

/-- `'%d.%d.%d.%d' % (a, b, c, d)` -/
def renderQuad (a b c d : Nat) : List Char :=
  renderOctet a ++ '.' :: (renderOctet b ++ '.' :: (renderOctet c ++ '.' :: renderOctet d))

theorem lemma_dig_toNat : ∀ x, x < 10 → (dig x).toNat = 48 + x := by decide

theorem lemma_isDigit_dig (c : Char) (h : isDigit c = true) : ∃ x, x < 10 ∧ c = dig x := by
  refine ⟨c.toNat - 48, ?_, ?_⟩
  · simp [isDigit] at h; omega
  · simp [isDigit] at h
    unfold dig
    rw [show 48 + (c.toNat - 48) = c.toNat by omega]
    exact (Char.ofNat_toNat c).symm

theorem lemma_dig_facts (x : Nat) (h : x < 10) :
    isDigit (dig x) = true ∧ digitVal (dig x) = x ∧ (dig x = '0' ↔ x = 0) ∧ dig x ≠ '.' ∧ dig x ≠ ':'
      ∧ dig x ≠ nul ∧ dig x ≠ '/' := by
  have : x = 0 ∨ x = 1 ∨ x = 2 ∨ x = 3 ∨ x = 4 ∨ x = 5 ∨ x = 6 ∨ x = 7 ∨ x = 8 ∨ x = 9 := by omega
  rcases this with h | h | h | h | h | h | h | h | h | h <;> subst h <;> decide

theorem lemma_foldl_dec_ge (l : List Char) (acc : Nat) :
    acc ≤ l.foldl (fun a c => a * 10 + digitVal c) acc := by
  induction l generalizing acc with
  | nil => simp
  | cons c cs ih => simp only [List.foldl]; exact Nat.le_trans (by omega) (ih _)

theorem lemma_octetTok_render : ∀ n, n < 256 → octetTok (renderOctet n) = true := by decide +kernel

theorem lemma_octetTok_inv (t : List Char) (h : octetTok t = true) :
    ∃ n, n < 256 ∧ t = renderOctet n := by
  simp only [octetTok, Bool.and_eq_true, Bool.not_eq_true', decide_eq_true_eq] at h
  obtain ⟨⟨⟨hne, hall⟩, hlz⟩, hval⟩ := h
  refine ⟨decVal t, by omega, ?_⟩
  match t, hne, hall, hlz, hval with
  | [a], _, hall, _, hval =>
    simp at hall
    obtain ⟨x, hx, rfl⟩ := lemma_isDigit_dig a hall
    have := lemma_dig_facts x hx
    simp [decVal, renderOctet, this, hx]
  | [a, b], _, hall, hlz, hval =>
    simp at hall
    obtain ⟨x, hx, rfl⟩ := lemma_isDigit_dig a hall.1
    obtain ⟨y, hy, rfl⟩ := lemma_isDigit_dig b hall.2
    have fx := lemma_dig_facts x hx
    have fy := lemma_dig_facts y hy
    simp [leadingZero, fx] at hlz
    simp [decVal, fx, fy] at hval ⊢
    unfold renderOctet
    rw [if_neg (by omega), if_pos (by omega)]
    rw [show (x * 10 + y) / 10 = x by omega, show (x * 10 + y) % 10 = y by omega]
  | [a, b, c], _, hall, hlz, hval =>
    simp at hall
    obtain ⟨x, hx, rfl⟩ := lemma_isDigit_dig a hall.1
    obtain ⟨y, hy, rfl⟩ := lemma_isDigit_dig b hall.2.1
    obtain ⟨z, hz, rfl⟩ := lemma_isDigit_dig c hall.2.2
    have fx := lemma_dig_facts x hx
    have fy := lemma_dig_facts y hy
    have fz := lemma_dig_facts z hz
    simp [leadingZero, fx] at hlz
    simp [decVal, fx, fy, fz] at hval ⊢
    unfold renderOctet
    rw [if_neg (by omega), if_neg (by omega)]
    rw [show ((x * 10 + y) * 10 + z) / 100 = x by omega, show ((x * 10 + y) * 10 + z) / 10 % 10 = y by omega,
      show ((x * 10 + y) * 10 + z) % 10 = z by omega]
  | a :: b :: c :: d :: rest, _, hall, hlz, hval =>
    exfalso
    simp at hall
    obtain ⟨x, hx, rfl⟩ := lemma_isDigit_dig a hall.1
    obtain ⟨y, hy, rfl⟩ := lemma_isDigit_dig b hall.2.1
    obtain ⟨z, hz, rfl⟩ := lemma_isDigit_dig c hall.2.2.1
    obtain ⟨w, hw, rfl⟩ := lemma_isDigit_dig d hall.2.2.2.1
    have fx := lemma_dig_facts x hx
    have fy := lemma_dig_facts y hy
    have fz := lemma_dig_facts z hz
    have fw := lemma_dig_facts w hw
    simp [leadingZero, fx] at hlz
    have := lemma_foldl_dec_ge rest (((x * 10 + y) * 10 + z) * 10 + w)
    simp [decVal, fx, fy, fz, fw] at hval
    omega

/-- a part is accepted by `inet_pton4` exactly when it is the canonical text of an octet -/
theorem lemma_octetTok_iff (t : List Char) : octetTok t = true ↔ ∃ n, n < 256 ∧ t = renderOctet n :=
  ⟨lemma_octetTok_inv t, fun ⟨n, hn, e⟩ => e ▸ lemma_octetTok_render n hn⟩

theorem lemma_render_digits (n : Nat) (hn : n < 256) (c : Char) (hc : c ∈ renderOctet n) :
    isDigit c = true := by
  have := lemma_octetTok_render n hn
  simp only [octetTok, Bool.and_eq_true, List.all_eq_true] at this
  exact this.1.1.2 c hc

theorem lemma_render_notin (n : Nat) (hn : n < 256) (x : Char) (hx : isDigit x = false) :
    x ∉ renderOctet n := by
  intro h; rw [lemma_render_digits n hn x h] at hx; cases hx

theorem lemma_render_decVal : ∀ n, n < 256 → decVal (renderOctet n) = n := by decide +kernel

theorem lemma_renderQuad_split (a b c d : Nat) (ha : a < 256) (hb : b < 256) (hc : c < 256) (hd : d < 256) :
    splitOn '.' (renderQuad a b c d) = [renderOctet a, renderOctet b, renderOctet c, renderOctet d] := by
  have h := lemma_splitOn_joinSep '.' [renderOctet a, renderOctet b, renderOctet c, renderOctet d] (by simp)
    (by
      intro t ht
      simp at ht
      rcases ht with rfl | rfl | rfl | rfl <;> exact lemma_render_notin _ ‹_› '.' (by decide))
  simpa [joinSep, renderQuad] using h

theorem lemma_renderQuad_chars (a b c d : Nat) (ha : a < 256) (hb : b < 256) (hc : c < 256) (hd : d < 256)
    (x : Char) (hx : x ∈ renderQuad a b c d) : isDigit x = true ∨ x = '.' := by
  simp [renderQuad] at hx
  rcases hx with h | h | h | h | h | h | h
  · exact Or.inl (lemma_render_digits a ha x h)
  · exact Or.inr h
  · exact Or.inl (lemma_render_digits b hb x h)
  · exact Or.inr h
  · exact Or.inl (lemma_render_digits c hc x h)
  · exact Or.inr h
  · exact Or.inl (lemma_render_digits d hd x h)

/-- `inet_pton4` accepts exactly the canonical dotted quads, and returns their octets -/
theorem lemma_pton4_some (s : List Char) (q : List Nat) (hq : pton4 s = some q) :
    ∃ a b c d, a < 256 ∧ b < 256 ∧ c < 256 ∧ d < 256 ∧ s = renderQuad a b c d ∧ q = [a, b, c, d] := by
  unfold pton4 at hq
  simp only at hq
  split at hq
  · rename_i hlen
    obtain ⟨hl, hall⟩ := hlen
    have hj := lemma_join_splitOn '.' s
    match hs : splitOn '.' s, hl with
    | [t1, t2, t3, t4], _ =>
      rw [hs] at hall hj hq
      simp at hall
      obtain ⟨a, ha, rfl⟩ := lemma_octetTok_inv t1 hall.1
      obtain ⟨b, hb, rfl⟩ := lemma_octetTok_inv t2 hall.2.1
      obtain ⟨c, hc, rfl⟩ := lemma_octetTok_inv t3 hall.2.2.1
      obtain ⟨d, hd, rfl⟩ := lemma_octetTok_inv t4 hall.2.2.2
      refine ⟨a, b, c, d, ha, hb, hc, hd, by simpa [joinSep, renderQuad] using hj.symm, ?_⟩
      simp [lemma_render_decVal, ha, hb, hc, hd] at hq
      exact hq.symm
  · cases hq

theorem lemma_pton4_render (a b c d : Nat) (ha : a < 256) (hb : b < 256) (hc : c < 256) (hd : d < 256) :
    pton4 (renderQuad a b c d) = some [a, b, c, d] := by
  simp [pton4, lemma_renderQuad_split a b c d ha hb hc hd, lemma_octetTok_render, lemma_render_decVal, ha, hb, hc, hd]

theorem lemma_pton4_colon (s : List Char) (h : ':' ∈ s) : pton4 s = none := by
  cases hq : pton4 s with
  | none => rfl
  | some q =>
    obtain ⟨a, b, c, d, ha, hb, hc, hd, rfl, _⟩ := lemma_pton4_some s q hq
    exfalso
    rcases lemma_renderQuad_chars a b c d ha hb hc hd _ h with h | h <;> revert h <;> decide

end Oslo.Net
