/-
C01, second sentence — "whatever an inspector retains for a region is exactly the stream's
bytes at that region's offsets" — for ALL ten formats (VHDX and VMDK included), every stream,
every chunking and every prefix of the feed, under the forward proviso: every plain region
created while streaming starts at or after the start of the chunk that created it (`fwdFeed`).
Without the proviso the statement is false (known finding KF_D7: a VHDX metadata pointer that
points below the position already streamed).
-/
import OsloProofs.Lemmas.SliceEngine
import OsloProofs.Props.C05
import OsloProofs.Lemmas.Fmt
namespace Oslo.Insp

theorem lemma_mk_bnd : ∀ (t : List Gen.RegionSpec) (k : Nat), ∀ x ∈ mkRegions t k, x.2.rid < k + t.length ∧
    x.2.data = [] := by
  intro t
  induction t with
  | nil => intro k x hx; simp [mkRegions] at hx
  | cons e rest ih =>
    intro k x hx
    obtain ⟨n, off, len, ml, isEnd⟩ := e
    simp only [mkRegions, List.mem_cons] at hx
    rcases hx with rfl | hx
    · simp
    · have := ih (k + 1) x hx
      simp only [List.length_cons]
      exact ⟨by omega, this.2⟩

/-- a freshly initialised inspector satisfies the between-chunks invariant for the empty prefix -/
theorem init_streamInv (f : Fmt) (s0 : Insp) (h0 : Insp.init f = some s0) : StreamInv s0 [] := by
  have hs := init_inv f s0 h0
  unfold Insp.init at h0
  split at h0
  · simp at h0
  · simp only [Option.some.injEq] at h0
    subst h0
    refine ⟨hs, ?_, rfl, ?_⟩
    · intro x hx
      have := (lemma_mk_bnd f.initRegions 0 x hx).1
      simpa using this
    · intro x hx
      have hd := (lemma_mk_bnd f.initRegions 0 x hx).2
      apply lemma_regInv_empty _ _ hd
      cases hE : x.2.isEnd
      · exact Or.inr ⟨rfl, Nat.zero_le _⟩
      · exact Or.inl ⟨rfl, ((hs.each x hx).2.2.2 hE).1⟩

/-- **retained_is_stream_slice_partial** — for every format, stream and chunking fed without error,
    every region of the resulting inspector holds exactly the stream's bytes at the offset it
    reports: `data = stream[offset : offset + len(data)]` (end-capture regions included: their
    reported offset is where the retained suffix starts).  Hypothesis `fwdFeed`: each plain region
    created by post-processing during the run starts at or after the start of the chunk that
    created it.  Missing: runs violating the proviso, where the statement is false (KF_D7). -/
theorem retained_is_stream_slice_partial (f : Fmt) (s0 : Insp) (h0 : Insp.init f = some s0)
    (chunks : List Bytes) (hfwd : fwdFeed s0 chunks []) (hok : (feed s0 chunks).2 = none) :
    ∀ x ∈ (feed s0 chunks).1.regions,
      x.2.data = sliceOf chunks.flatten x.2.offset x.2.data.length := by
  have := lemma_feed_slice chunks s0 [] (init_streamInv f s0 h0) hfwd hok
  simp only [List.nil_append] at this
  intro x hx
  exact lemma_regInv_slice _ _ (this.regs x hx)

/-- … and the inspector has counted exactly the bytes of the stream -/
theorem total_is_stream_length_partial (f : Fmt) (s0 : Insp) (h0 : Insp.init f = some s0)
    (chunks : List Bytes) (hfwd : fwdFeed s0 chunks []) (hok : (feed s0 chunks).2 = none) :
    (feed s0 chunks).1.total = chunks.flatten.length := by
  have := lemma_feed_slice chunks s0 [] (init_streamInv f s0 h0) hfwd hok
  simpa using this.total

/-- the same at the chunk on which an inspector raises (the state the wrapper keeps): every region
    still holds stream bytes at its offset, given the proviso up to that chunk -/
theorem retained_is_stream_slice_at_error_partial (s : Insp) (p c : Bytes) (h : StreamInv s p)
    (hf : fwdEat s c p) :
    ∀ x ∈ (eatChunk s c).1.regions, x.2.data = sliceOf (p ++ c) x.2.offset x.2.data.length :=
  (lemma_eat_slice s p c h hf).1

/-- the proviso holds automatically for the formats that never create regions while streaming -/
theorem fwdEat_static (s : Insp) (p c : Bytes) (hst : s.fmt.static = true) (h : StreamInv s p) :
    fwdEat s c p := by
  unfold fwdEat
  split
  · trivial
  · obtain ⟨hmid1, hall1⟩ := lemma_first_capture s p c h
    have hfmt : (({ s with total := s.total + c.length } : Insp).captureAll c []).fmt.static = true := hst
    have hpp := lemma_postProcess_static _ hfmt
    dsimp only
    refine ⟨?_, ?_⟩
    · intro x hx hge _
      rw [hpp] at hx
      have := hmid1.bnd x hx
      omega
    · rw [hpp]
      simp only
      unfold fwdFollow
      have : (({ s with total := s.total + c.length } : Insp).captureAll c []).regions.filter
          (fun x => !(s.regions.map (·.2.rid)).contains x.2.rid) = [] := by
        rw [List.filter_eq_nil_iff]
        intro x hx
        simpa using hall1 x hx
      dsimp only
      rw [this]
      simp

theorem fwdFeed_static (chunks : List Bytes) : ∀ (s : Insp) (p : Bytes), s.fmt.static = true →
    StreamInv s p → fwdFeed s chunks p := by
  induction chunks with
  | nil => intro s p _ _; trivial
  | cons c cs ih =>
    intro s p hst h
    unfold fwdFeed
    have hfe := fwdEat_static s p c hst h
    refine ⟨hfe, ?_⟩
    obtain ⟨_, hstream⟩ := lemma_eat_slice s p c h hfe
    cases heq : eatChunk s c with
    | mk s1 e =>
      cases e with
      | some e => trivial
      | none =>
        rw [heq] at hstream
        have hf1 : s1.fmt = s.fmt := by
          have := lemma_eatChunk_fmt s c
          rw [heq] at this
          exact this
        exact ih s1 (p ++ c) (by rw [hf1]; exact hst) (hstream rfl)

/-- **retained_is_stream_slice (static formats, from the general theorem)** — non-vacuity of the
    proviso: for the eight formats with fixed regions it holds for every stream and chunking -/
theorem retained_is_stream_slice_static_general (f : Fmt) (hf : f.static = true) (s0 : Insp)
    (h0 : Insp.init f = some s0) (chunks : List Bytes) (hok : (feed s0 chunks).2 = none) :
    ∀ x ∈ (feed s0 chunks).1.regions,
      x.2.data = sliceOf chunks.flatten x.2.offset x.2.data.length := by
  have hfmt : s0.fmt = f := by
    unfold Insp.init at h0
    split at h0
    · simp at h0
    · simp only [Option.some.injEq] at h0; subst h0; rfl
  exact retained_is_stream_slice_partial f s0 h0 chunks
    (fwdFeed_static chunks s0 [] (by rw [hfmt]; exact hf) (init_streamInv f s0 h0)) hok

end Oslo.Insp
