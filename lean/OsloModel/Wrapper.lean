/-
Model of InspectWrapper, detect_file_format (format_inspector.py:1318-1512) and the
exit status of imageutils/cli.py.  The wrapper is generic in the inspectors it
drives (`IOps`), so that C06's theorems can quantify over arbitrary inspector
behaviour (faults included); `realOps` instantiates it with the model inspectors.
-/
import OsloModel.Inspector
namespace Oslo.Insp

structure IOps (σ : Type) where
  name : σ → String
  eat : σ → Bytes → σ × Option Err
  complete : σ → Bool
  fmatch : σ → Except Err Bool
  finish : σ → σ

structure Wrap (σ : Type) where
  insps : List σ                 -- `_inspectors` (a set in the code; order of ALL_FORMATS here)
  errored : List String          -- names of `_errored_inspectors`
  expected : Option String
  finished : Bool

/-- outcome of `_process_chunk` -/
inductive POut
  | done                         -- returned normally
  | raised (e : Err)             -- the expected inspector's own error propagated
  | mismatch                     -- ImageFormatError: expected format complete without match
  deriving DecidableEq, Repr

/-- the loop body of `_process_chunk` over the not-yet-visited inspectors `todo`;
    `acc` are the already visited ones (in order) -/
def processLoop {σ} (ops : IOps σ) (expected : Option String) (chunk : Bytes) :
    List σ → List σ → List String → (List σ × List String × POut)
  | [], acc, errd => (acc.reverse, errd, .done)
  | i :: rest, acc, errd =>
    if errd.contains (ops.name i) then processLoop ops expected chunk rest (i :: acc) errd
    else
      match ops.eat i chunk with
      | (i', some e) =>
        if some (ops.name i) = expected then (acc.reverse ++ i' :: rest, errd, .raised e)
        else processLoop ops expected chunk rest (i' :: acc) (errd ++ [ops.name i])
      | (i', none) =>
        if some (ops.name i) = expected && ops.complete i' then
          match ops.fmatch i' with
          | .error e => (acc.reverse ++ i' :: rest, errd, .raised e)
          | .ok false => (acc.reverse ++ i' :: rest, errd, .mismatch)
          | .ok true => processLoop ops expected chunk rest (i' :: acc) errd
        else processLoop ops expected chunk rest (i' :: acc) errd

def Wrap.processChunk {σ} (ops : IOps σ) (w : Wrap σ) (chunk : Bytes) : Wrap σ × POut :=
  let (is, errd, out) := processLoop ops w.expected chunk w.insps [] w.errored
  ({ w with insps := is, errored := errd }, out)

/-- `_finish` -/
def Wrap.finish {σ} (ops : IOps σ) (w : Wrap σ) : Wrap σ :=
  { w with insps := w.insps.map ops.finish, finished := true }

/-- reading a whole source through the wrapper: the chunks handed to the reader, the final
    wrapper and how the stream ended (`none` = source exhausted, then `close()`).
    `read()`/`__next__` return the chunk only after `_process_chunk` returned. -/
def Wrap.pipe {σ} (ops : IOps σ) : Wrap σ → List Bytes → List Bytes → (List Bytes × Wrap σ × POut)
  | w, [], out => (out.reverse, w.finish ops, .done)
  | w, c :: cs, out =>
    match w.processChunk ops c with
    | (w', .done) => Wrap.pipe ops w' cs (c :: out)
    | (w', o) => (out.reverse, w', o)

/-- `[i for i in non_raw if i.format_match]`: the first format_match that raises propagates -/
def matchList {σ} (ops : IOps σ) : List σ → Except Err (List σ)
  | [] => .ok []
  | i :: rest =>
    match ops.fmatch i with
    | .error e => .error e
    | .ok b =>
      match matchList ops rest with
      | .error e => .error e
      | .ok r => .ok (if b then i :: r else r)

/-- `formats` (lines 1404-1436); the error is an exception out of a format_match -/
def Wrap.formats {σ} (ops : IOps σ) (w : Wrap σ) : Except Err (Option (List σ)) := do
  let nonRaw := w.insps.filter (fun i => ops.name i != "raw")
  let complete := nonRaw.all ops.complete
  let ms ← matchList ops nonRaw
  if !complete && !w.finished then return none
  if ms.isEmpty then return some (w.insps.filter (fun i => ops.name i == "raw"))
  return some ms

/-- `format` (lines 1438-1466) -/
def Wrap.format {σ} (ops : IOps σ) (w : Wrap σ) : Except Err (Option σ) := do
  match ← w.formats ops with
  | none => return none
  | some [] => throw .imageFormat
  | some [x] => return some x
  | some _ => throw .imageFormat

/-! ### the real inspectors -/

def realOps : IOps Insp where
  name s := s.fmt.name
  eat := eatChunk
  complete s := s.complete
  fmatch := formatMatch
  finish s := s.finish

/-- `InspectWrapper(source, expected_format, allowed_formats)`: `allowed = []` means all -/
def Wrap.mk' (expected : Option String) (allowed : List String) : Wrap Insp :=
  { insps := (Fmt.all.filter (fun f => Gen.allFormats.contains f.name &&
                (allowed.isEmpty || allowed.contains f.name))).filterMap Insp.init,
    errored := [], expected := expected, finished := false }

/-- split a stream into reads of `n` bytes, the way `_chunked_reader(wrapper, n)` consumes it:
    the final empty read is also processed by the wrapper -/
def readsOf (n : Nat) (fuel : Nat) (s : Bytes) : List Bytes :=
  match fuel with
  | 0 => [s]
  | fuel + 1 => if s.isEmpty || n = 0 then [[]] else s.take n :: readsOf n fuel (s.drop n)

/-- `detect_file_format` (lines 1493-1512) over a byte string: the chosen inspector (after
    `close()`), or the error -/
def detectFinal (w : Wrap Insp) : Except Err Insp := do
  let w' := w.finish realOps
  match ← w'.format realOps with
  | some i => return i
  | none => throw .value                         -- cannot happen: finished wrappers decide

def detectLoop : Wrap Insp → List Bytes → Except Err Insp
  | w, [] => detectFinal w
  | w, c :: cs =>
    match w.processChunk realOps c with
    | (_, .raised e) => .error e                 -- no expected format: cannot happen
    | (_, .mismatch) => .error .imageFormat
    | (w', .done) =>
      if c.isEmpty then detectFinal w' else       -- `if not chunk: break`
      match w'.format realOps with
      | .error e => .error e
      | .ok (some i) => .ok i.finish             -- returned, then `finally: close()`
      | .ok none => detectLoop w' cs

def detectFileFormat (content : Bytes) : Except Err Insp :=
  detectLoop (Wrap.mk' none []) (readsOf 4096 (content.length + 1) content)

/-- exit status of `python -m oslo_utils.imageutils -i FILE` for an existing file:
    0 = safe, 1 = SafetyCheckFailed, 2 = any other exception (traceback) -/
def cliExit (content : Bytes) : Nat :=
  match detectFileFormat content with
  | .error _ => 2
  | .ok i =>
    match safetyCheck i with
    | .ok => match virtualSize i with
      | .ok _ => 0
      | .error _ => 2
    | .failed _ => match virtualSize i with
      | .ok _ => 1
      | .error _ => 2
    | _ => 2

end Oslo.Insp
