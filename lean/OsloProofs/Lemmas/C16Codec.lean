/-
Helper lemmas for C16 (not property theorems): the codecs implemented in OsloModel/Encode.lean
(utf-8, latin-1, ascii) satisfy the codec laws the property theorems assume.
-/
import OsloModel.Encode
namespace Oslo.C16
open Oslo.Encode

theorem lemma_toNat_ofNat (n : Nat) (h : n.isValidChar) : (Char.ofNat n).toNat = n := by
  simp [Char.ofNat, h, Char.ofNatAux, Char.toNat]

theorem lemma_mkChar (c : Char) : mkChar? c.toNat = some c := by
  have : c.toNat.isValidChar := c.valid
  simp [mkChar?, this]

theorem lemma_start1 (b : Nat) (h : b < 0x80) : startByte b = (idle, [.ch b]) := by
  simp [startByte, h]

theorem lemma_start2 (b : Nat) (h : 0xC2 ≤ b ∧ b ≤ 0xDF) :
    startByte b = (⟨1, b - 0xC0, 0x80, 0xBF⟩, []) := by
  have h1 : ¬ b < 0x80 := by omega
  simp [startByte, h1, h]

theorem lemma_start3 (b : Nat) (h : 0xE0 ≤ b ∧ b ≤ 0xEF) :
    startByte b = (⟨2, b - 0xE0, if b = 0xE0 then 0xA0 else 0x80, if b = 0xED then 0x9F else 0xBF⟩, []) := by
  have h1 : ¬ b < 0x80 := by omega
  have h2 : ¬ (0xC2 ≤ b ∧ b ≤ 0xDF) := by omega
  simp only [startByte, h1, h2, h, if_false, if_true, and_self]

theorem lemma_start4 (b : Nat) (h : 0xF0 ≤ b ∧ b ≤ 0xF4) :
    startByte b = (⟨3, b - 0xF0, if b = 0xF0 then 0x90 else 0x80, if b = 0xF4 then 0x8F else 0xBF⟩, []) := by
  have h1 : ¬ b < 0x80 := by omega
  have h2 : ¬ (0xC2 ≤ b ∧ b ≤ 0xDF) := by omega
  have h3 : ¬ (0xE0 ≤ b ∧ b ≤ 0xEF) := by omega
  simp only [startByte, h1, h2, h3, h, if_false, if_true, and_self]

theorem lemma_feed_idle (b : Nat) : feed idle b = startByte b := by simp [feed, idle]

theorem lemma_feed_last (a lo hi b : Nat) (h : lo ≤ b ∧ b ≤ hi) :
    feed ⟨1, a, lo, hi⟩ b = (idle, [.ch (a * 64 + (b - 0x80))]) := by
  simp [feed, h]

theorem lemma_feed_more (k a lo hi b : Nat) (h : lo ≤ b ∧ b ≤ hi) :
    feed ⟨k + 2, a, lo, hi⟩ b = (⟨k + 1, a * 64 + (b - 0x80), 0x80, 0xBF⟩, []) := by
  simp [feed, h]

/-- decoding the encoding of one scalar value yields that value and returns to idle -/
theorem lemma_utf8_char (n : Nat) (hv : n.isValidChar) (rest : List Nat) :
    utf8Events idle (utf8EncodeNat n ++ rest) = .ch n :: utf8Events idle rest := by
  have hv' : n < 0xD800 ∨ (0xDFFF < n ∧ n < 0x110000) := hv
  unfold utf8EncodeNat
  by_cases h1 : n < 0x80
  · simp only [h1, if_true, List.cons_append, List.nil_append, utf8Events, lemma_feed_idle,
      lemma_start1 n h1]
  by_cases h2 : n < 0x800
  · have e0 := lemma_start2 (0xC0 + n / 64) (by omega)
    have e1 := lemma_feed_last (0xC0 + n / 64 - 0xC0) 0x80 0xBF (0x80 + n % 64) (by omega)
    have e : (0xC0 + n / 64 - 0xC0) * 64 + (0x80 + n % 64 - 0x80) = n := by omega
    simp only [h1, h2, if_true, if_false, List.cons_append, List.nil_append, utf8Events,
      lemma_feed_idle, e0, e1, e]
  by_cases h3 : n < 0x10000
  · have e0 := lemma_start3 (0xE0 + n / 4096) (by omega)
    have e1 := lemma_feed_more 0 (0xE0 + n / 4096 - 0xE0)
      (if 0xE0 + n / 4096 = 0xE0 then 0xA0 else 0x80) (if 0xE0 + n / 4096 = 0xED then 0x9F else 0xBF)
      (0x80 + n / 64 % 64) (by split <;> split <;> omega)
    have e2 := lemma_feed_last ((0xE0 + n / 4096 - 0xE0) * 64 + (0x80 + n / 64 % 64 - 0x80)) 0x80 0xBF
      (0x80 + n % 64) (by omega)
    have e : ((0xE0 + n / 4096 - 0xE0) * 64 + (0x80 + n / 64 % 64 - 0x80)) * 64 +
        (0x80 + n % 64 - 0x80) = n := by omega
    simp only [h1, h2, h3, if_true, if_false, List.cons_append, List.nil_append, utf8Events,
      lemma_feed_idle, e0, e1, e2, e]
  · have e0 := lemma_start4 (0xF0 + n / 262144) (by omega)
    have e1 := lemma_feed_more 1 (0xF0 + n / 262144 - 0xF0)
      (if 0xF0 + n / 262144 = 0xF0 then 0x90 else 0x80)
      (if 0xF0 + n / 262144 = 0xF4 then 0x8F else 0xBF)
      (0x80 + n / 4096 % 64) (by split <;> split <;> omega)
    have e2 := lemma_feed_more 0 ((0xF0 + n / 262144 - 0xF0) * 64 + (0x80 + n / 4096 % 64 - 0x80))
      0x80 0xBF (0x80 + n / 64 % 64) (by omega)
    have e3 := lemma_feed_last (((0xF0 + n / 262144 - 0xF0) * 64 + (0x80 + n / 4096 % 64 - 0x80)) * 64 +
      (0x80 + n / 64 % 64 - 0x80)) 0x80 0xBF (0x80 + n % 64) (by omega)
    have e : (((0xF0 + n / 262144 - 0xF0) * 64 + (0x80 + n / 4096 % 64 - 0x80)) * 64 +
      (0x80 + n / 64 % 64 - 0x80)) * 64 + (0x80 + n % 64 - 0x80) = n := by omega
    simp only [h1, h2, h3, if_false, List.cons_append, List.nil_append, utf8Events,
      lemma_feed_idle, e0, e1, e2, e3, e]

theorem lemma_utf8_events (t : Text) :
    utf8Events idle (utf8EncodeNats t) = t.map (fun c => Ev.ch c.toNat) := by
  induction t with
  | nil => simp [utf8EncodeNats, utf8Events, idle]
  | cons c cs ih => simp [utf8EncodeNats, lemma_utf8_char c.toNat c.valid, ih]

theorem lemma_collect_chars (p : Policy) (t : Text) :
    collect p (t.map (fun c => Ev.ch c.toNat)) = .ok t := by
  induction t with
  | nil => simp [collect]
  | cons c cs ih => simp [collect, lemma_mkChar, ih]

theorem lemma_utf8EncodeNat_lt (n : Nat) (h : n < 0x110000) : ∀ b ∈ utf8EncodeNat n, b < 256 := by
  unfold utf8EncodeNat
  intro b hb
  split at hb
  · simp at hb; omega
  split at hb
  · simp at hb; omega
  split at hb
  · simp at hb; omega
  · simp at hb; omega

theorem lemma_utf8EncodeNats_lt (t : Text) : ∀ b ∈ utf8EncodeNats t, b < 256 := by
  induction t with
  | nil => simp [utf8EncodeNats]
  | cons c cs ih =>
    intro b hb
    simp only [utf8EncodeNats, List.mem_append] at hb
    rcases hb with hb | hb
    · have hc : c.toNat < 0x110000 := by
        have : c.toNat.isValidChar := c.valid
        rcases this with h | h
        · exact Nat.lt_trans h (by decide)
        · exact h.2
      exact lemma_utf8EncodeNat_lt _ hc b hb
    · exact ih b hb

theorem lemma_bytes_nats (l : List Nat) (h : ∀ b ∈ l, b < 256) :
    (l.map Nat.toUInt8).map UInt8.toNat = l := by
  induction l with
  | nil => rfl
  | cons a l ih =>
    have ha : (Nat.toUInt8 a).toNat = a :=
      UInt8.toNat_ofNat_of_lt' (by simpa [UInt8.size] using h a (by simp))
    simp only [List.map_cons, ha]
    rw [ih (fun b hb => h b (by simp [hb]))]

/-- UTF-8: decoding what was encoded gives the text back, under every error policy -/
theorem lemma_utf8_roundtrip (p : Policy) (t : Text) : utf8Decode p (utf8Encode t) = .ok t := by
  unfold utf8Decode utf8Encode
  rw [lemma_bytes_nats _ (lemma_utf8EncodeNats_lt t), lemma_utf8_events, lemma_collect_chars]

/-- single-byte codecs: strict encoding succeeded ⇒ decoding (any policy) gives the text back -/
theorem lemma_sb_roundtrip (limit : Nat) (hl : limit ≤ 256) (p : Policy) (t : Text) :
    ∀ b, sbEncode limit .strict t = .ok b → sbDecode limit p b = .ok t := by
  induction t with
  | nil => intro b h; simp [sbEncode] at h; subst h; simp [sbDecode]
  | cons c cs ih =>
    intro b h
    by_cases hc : c.toNat < limit
    · simp only [sbEncode, hc, if_true] at h
      cases he : sbEncode limit .strict cs with
      | error e => simp [he, Except.map] at h
      | ok b' =>
        simp only [he, Except.map, Except.ok.injEq] at h
        subst h
        have hx : (Nat.toUInt8 c.toNat).toNat = c.toNat :=
          UInt8.toNat_ofNat_of_lt' (by simp [UInt8.size]; omega)
        simp [sbDecode, hx, hc, ih b' he, Except.map]
    · simp [sbEncode, hc] at h

/-- single-byte codecs: when strict encoding succeeds every policy gives the same bytes -/
theorem lemma_sb_policy (limit : Nat) (q : Policy) (t : Text) :
    ∀ b, sbEncode limit .strict t = .ok b → sbEncode limit q t = .ok b := by
  induction t with
  | nil => intro b h; simpa [sbEncode] using h
  | cons c cs ih =>
    intro b h
    by_cases hc : c.toNat < limit
    · simp only [sbEncode, hc, if_true] at h ⊢
      cases he : sbEncode limit .strict cs with
      | error e => simp [he, Except.map] at h
      | ok b' =>
        simp only [he, Except.map, Except.ok.injEq] at h
        subst h
        simp [ih b' he, Except.map]
    · simp [sbEncode, hc] at h

theorem lemma_lower_idem (c : Char) : lowerAscii (lowerAscii c) = lowerAscii c := by
  unfold lowerAscii
  by_cases h : 65 ≤ c.toNat ∧ c.toNat ≤ 90
  · have hv : (c.toNat + 32).isValidChar := Or.inl (by omega)
    simp only [h, and_self, if_true, lemma_toNat_ofNat _ hv]
    have : ¬ (65 ≤ c.toNat + 32 ∧ c.toNat + 32 ≤ 90) := by omega
    rw [if_neg this]
  · simp [h]

theorem lemma_lowerName_idem (n : Name) : lowerName (lowerName n) = lowerName n := by
  simp [lowerName, List.map_map, Function.comp_def, lemma_lower_idem]

theorem lemma_lookup_lower (n : Name) : lookup (lowerName n) = lookup n := by
  simp [lookup, normName, lemma_lowerName_idem]

theorem lemma_real_decode_known (n : Name) (k : Kind) (h : lookup n = some k) (p : Policy) (b : Bytes) :
    real.decode n p b = match k with
      | .utf8 => utf8Decode p b
      | .latin1 => sbDecode 256 p b
      | .ascii => sbDecode 128 p b := by
  cases b with
  | nil => cases k <;> simp [real, utf8Decode, utf8Events, idle, collect, sbDecode]
  | cons x xs => cases k <;> simp [real, h]

end Oslo.C16
