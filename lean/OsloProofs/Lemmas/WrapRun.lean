/-
Reading a whole source through an `InspectWrapper` without expected format, characterised
inspector by inspector: generic in the inspectors (`IOps σ`).  The only assumptions are that an
inspector keeps its name (`NameStable`) and that the wrapper's inspectors have pairwise distinct
names (`Distinct`; the model identifies members of `_errored_inspectors` by name).
Used by Props/C01Wrap.lean.
-/
import OsloProofs.Props.C06
namespace Oslo.Insp

variable {σ : Type}

/-- feed one inspector the way the wrapper does: stop at its first error (generic form of `feed`) -/
def gfeed (ops : IOps σ) : σ → List Bytes → σ × Option Err
  | s, [] => (s, none)
  | s, c :: cs =>
    match ops.eat s c with
    | (s1, some e) => (s1, some e)
    | (s1, none) => gfeed ops s1 cs

theorem lemma_gfeed_real : ∀ (cs : List Bytes) (s : Insp), gfeed realOps s cs = feed s cs := by
  intro cs
  induction cs with
  | nil => intro s; rfl
  | cons c cs ih =>
    intro s
    simp only [gfeed, feed]
    have : realOps.eat s c = eatChunk s c := rfl
    rw [this]
    cases he : eatChunk s c with
    | mk s1 e =>
      cases e with
      | none => exact ih s1
      | some e => rfl

theorem lemma_gfeed_name (ops : IOps σ) (hn : NameStable ops) : ∀ (cs : List Bytes) (s : σ),
    ops.name (gfeed ops s cs).1 = ops.name s := by
  intro cs
  induction cs with
  | nil => intro s; rfl
  | cons c cs ih =>
    intro s
    simp only [gfeed]
    have h1 := hn s c
    cases he : ops.eat s c with
    | mk s1 e =>
      rw [he] at h1
      cases e with
      | none => simp only; rw [ih s1]; exact h1
      | some e => exact h1

theorem lemma_gfeed_snoc_err (ops : IOps σ) (c : Bytes) : ∀ (pre : List Bytes) (s : σ),
    (gfeed ops s pre).2.isSome = true → gfeed ops s (pre ++ [c]) = gfeed ops s pre := by
  intro pre
  induction pre with
  | nil => intro s h; simp [gfeed] at h
  | cons p pre ih =>
    intro s h
    simp only [List.cons_append, gfeed] at h ⊢
    cases he : ops.eat s p with
    | mk s1 e =>
      rw [he] at h
      cases e with
      | none => exact ih s1 h
      | some e => rfl

theorem lemma_gfeed_snoc_ok (ops : IOps σ) (c : Bytes) : ∀ (pre : List Bytes) (s : σ),
    (gfeed ops s pre).2 = none → gfeed ops s (pre ++ [c]) = ops.eat (gfeed ops s pre).1 c := by
  intro pre
  induction pre with
  | nil =>
    intro s _
    simp only [List.nil_append, gfeed]
    cases he : ops.eat s c with
    | mk s1 e => cases e <;> rfl
  | cons p pre ih =>
    intro s h
    simp only [List.cons_append, gfeed] at h ⊢
    cases he : ops.eat s p with
    | mk s1 e =>
      rw [he] at h
      cases e with
      | none => exact ih s1 h
      | some e => simp at h

/-- pairwise distinct names -/
def Distinct (ops : IOps σ) (l : List σ) : Prop := l.Pairwise (fun a b => ops.name a ≠ ops.name b)

theorem lemma_distinct_inj (ops : IOps σ) : ∀ (l : List σ), Distinct ops l →
    ∀ a ∈ l, ∀ b ∈ l, ops.name a = ops.name b → a = b := by
  intro l
  induction l with
  | nil => intro _ a ha; simp at ha
  | cons x xs ih =>
    intro hd a ha b hb hab
    obtain ⟨hx, hxs⟩ := List.pairwise_cons.mp hd
    simp only [List.mem_cons] at ha hb
    rcases ha with rfl | ha <;> rcases hb with rfl | hb
    · rfl
    · exact absurd hab (hx b hb)
    · exact absurd hab.symm (hx a ha)
    · exact ih hxs a ha b hb hab

theorem lemma_distinct_map (ops : IOps σ) (g : σ → σ) (hg : ∀ i, ops.name (g i) = ops.name i) (l : List σ)
    (hd : Distinct ops l) : Distinct ops (l.map g) := by
  unfold Distinct at hd ⊢
  rw [List.pairwise_map]
  exact hd.imp (fun {a b} h => by rw [hg a, hg b]; exact h)

/-- what one `_process_chunk` does to one inspector when nothing is expected -/
def stepI (ops : IOps σ) (errd : List String) (c : Bytes) (i : σ) : σ :=
  if errd.contains (ops.name i) then i else (ops.eat i c).1

/-- the inspector is fed this chunk and raises -/
def newErr (ops : IOps σ) (errd : List String) (c : Bytes) (i : σ) : Bool :=
  !errd.contains (ops.name i) && (ops.eat i c).2.isSome

/-- the loop of `_process_chunk` without expected format over inspectors with distinct names:
    every inspector not yet errored is fed, the ones that raise are added to the errored set -/
theorem lemma_loop_none (ops : IOps σ) (c : Bytes) : ∀ (todo acc : List σ) (errd : List String),
    Distinct ops todo →
    ∃ errd', processLoop ops none c todo acc errd = (acc.reverse ++ todo.map (stepI ops errd c), errd', .done) ∧
      ∀ n, n ∈ errd' ↔ n ∈ errd ∨ ∃ i ∈ todo, ops.name i = n ∧ newErr ops errd c i = true := by
  intro todo
  induction todo with
  | nil =>
    intro acc errd _
    exact ⟨errd, by simp [processLoop], by simp⟩
  | cons i rest ih =>
    intro acc errd hd
    obtain ⟨hi, hrest⟩ := List.pairwise_cons.mp hd
    simp only [processLoop]
    by_cases herr : errd.contains (ops.name i) = true
    · rw [if_pos herr]
      have hm : ops.name i ∈ errd := by simpa using herr
      obtain ⟨errd', heq, hmem⟩ := ih (i :: acc) errd hrest
      refine ⟨errd', ?_, ?_⟩
      · rw [heq]; simp [stepI, hm]
      · intro n
        rw [hmem n]
        constructor
        · rintro (h | ⟨j, hj, hjn, hje⟩)
          · exact Or.inl h
          · exact Or.inr ⟨j, List.mem_cons_of_mem _ hj, hjn, hje⟩
        · rintro (h | ⟨j, hj, hjn, hje⟩)
          · exact Or.inl h
          · simp only [List.mem_cons] at hj
            rcases hj with rfl | hj
            · simp [newErr, hm] at hje
            · exact Or.inr ⟨j, hj, hjn, hje⟩
    · rw [if_neg herr]
      have hm : ops.name i ∉ errd := by simpa using herr
      cases he : ops.eat i c with
      | mk i' e =>
        cases e with
        | none =>
          simp only [reduceCtorEq, decide_false, Bool.false_and, Bool.false_eq_true, if_false]
          obtain ⟨errd', heq, hmem⟩ := ih (i' :: acc) errd hrest
          refine ⟨errd', ?_, ?_⟩
          · rw [heq]; simp [stepI, hm, he]
          · intro n
            rw [hmem n]
            constructor
            · rintro (h | ⟨j, hj, hjn, hje⟩)
              · exact Or.inl h
              · exact Or.inr ⟨j, List.mem_cons_of_mem _ hj, hjn, hje⟩
            · rintro (h | ⟨j, hj, hjn, hje⟩)
              · exact Or.inl h
              · simp only [List.mem_cons] at hj
                rcases hj with rfl | hj
                · simp [newErr, he] at hje
                · exact Or.inr ⟨j, hj, hjn, hje⟩
        | some e =>
          simp only [reduceCtorEq, if_false]
          obtain ⟨errd', heq, hmem⟩ := ih (i' :: acc) (errd ++ [ops.name i]) hrest
          have hsame : ∀ j ∈ rest, (errd ++ [ops.name i]).contains (ops.name j) = errd.contains (ops.name j) := by
            intro j hj
            have hne : ¬ (ops.name j = ops.name i) := fun h => hi j hj h.symm
            simp [hne]
          refine ⟨errd', ?_, ?_⟩
          · rw [heq]
            have : rest.map (stepI ops (errd ++ [ops.name i]) c) = rest.map (stepI ops errd c) := by
              apply List.map_congr_left
              intro j hj
              simp only [stepI, hsame j hj]
            rw [this]
            simp [stepI, hm, he]
          · intro n
            rw [hmem n]
            constructor
            · rintro (h | ⟨j, hj, hjn, hje⟩)
              · simp only [List.mem_append, List.mem_singleton] at h
                rcases h with h | rfl
                · exact Or.inl h
                · exact Or.inr ⟨i, by simp, rfl, by simp [newErr, hm, he]⟩
              · refine Or.inr ⟨j, List.mem_cons_of_mem _ hj, hjn, ?_⟩
                simpa only [newErr, hsame j hj] using hje
            · rintro (h | ⟨j, hj, hjn, hje⟩)
              · exact Or.inl (by simp [h])
              · simp only [List.mem_cons] at hj
                rcases hj with rfl | hj
                · exact Or.inl (by simp [← hjn])
                · refine Or.inr ⟨j, hj, hjn, ?_⟩
                  simpa only [newErr, hsame j hj] using hje

/-- the wrapper after the chunks `cs` (no abort: used only when nothing is expected) -/
def wfold (ops : IOps σ) (w : Wrap σ) (cs : List Bytes) : Wrap σ :=
  cs.foldl (fun w c => (w.processChunk ops c).1) w

theorem lemma_processChunk_expected (ops : IOps σ) (w : Wrap σ) (c : Bytes) :
    (w.processChunk ops c).1.expected = w.expected := rfl

/-- without an expected format the pipe delivers every chunk and closes normally -/
theorem lemma_pipe_none (ops : IOps σ) (hn : NameStable ops) : ∀ (cs : List Bytes) (w : Wrap σ) (out : List Bytes),
    w.expected = none →
    Wrap.pipe ops w cs out = (out.reverse ++ cs, (wfold ops w cs).finish ops, .done) := by
  intro cs
  induction cs with
  | nil => intro w out _; simp [Wrap.pipe, wfold]
  | cons c cs ih =>
    intro w out hx
    have hdone := nonexpected_fault_contained ops hn w c hx
    have hexp := lemma_processChunk_expected ops w c
    simp only [Wrap.pipe]
    cases hpc : w.processChunk ops c with
    | mk w' o =>
      rw [hpc] at hdone hexp
      simp only at hdone hexp
      subst hdone
      simp only
      rw [ih w' (c :: out) (hexp.trans hx)]
      simp [wfold, hpc]

/-- the wrapper `w` is what the initial inspectors `is0` became after the chunks `pre` -/
structure RunInv (ops : IOps σ) (is0 : List σ) (pre : List Bytes) (w : Wrap σ) : Prop where
  exp : w.expected = none
  insps : w.insps = is0.map (fun i => (gfeed ops i pre).1)
  err : ∀ n, n ∈ w.errored ↔ ∃ i ∈ is0, ops.name i = n ∧ (gfeed ops i pre).2.isSome = true

theorem lemma_runInv_mem (ops : IOps σ) (is0 : List σ) (hd : Distinct ops is0) (pre : List Bytes) (w : Wrap σ)
    (h : RunInv ops is0 pre w) (i : σ) (hi : i ∈ is0) :
    ops.name i ∈ w.errored ↔ (gfeed ops i pre).2.isSome = true := by
  rw [h.err]
  constructor
  · rintro ⟨j, hj, hjn, hje⟩
    have := lemma_distinct_inj ops is0 hd j hj i hi hjn
    subst this
    exact hje
  · intro he
    exact ⟨i, hi, rfl, he⟩

theorem lemma_runInv_step (ops : IOps σ) (hn : NameStable ops) (is0 : List σ) (hd : Distinct ops is0)
    (pre : List Bytes) (w : Wrap σ) (h : RunInv ops is0 pre w) (c : Bytes) :
    RunInv ops is0 (pre ++ [c]) (w.processChunk ops c).1 := by
  have hnm : ∀ i, ops.name ((fun i => (gfeed ops i pre).1) i) = ops.name i :=
    fun i => lemma_gfeed_name ops hn pre i
  have hdw : Distinct ops w.insps := by
    rw [h.insps]; exact lemma_distinct_map ops _ hnm is0 hd
  obtain ⟨errd', heq, hmem⟩ := lemma_loop_none ops c w.insps [] w.errored hdw
  have hpc : w.processChunk ops c =
      ({ w with insps := w.insps.map (stepI ops w.errored c), errored := errd' }, .done) := by
    simp only [Wrap.processChunk, h.exp, heq, List.reverse_nil, List.nil_append]
  rw [hpc]
  have hcontains : ∀ i ∈ is0, w.errored.contains (ops.name i) = (gfeed ops i pre).2.isSome := by
    intro i hi
    have := lemma_runInv_mem ops is0 hd pre w h i hi
    cases hs : (gfeed ops i pre).2.isSome
    · rw [hs] at this
      simpa using this
    · rw [hs] at this
      simpa using this
  refine ⟨h.exp, ?_, ?_⟩
  · show w.insps.map (stepI ops w.errored c) = _
    rw [h.insps, List.map_map]
    apply List.map_congr_left
    intro i hi
    simp only [Function.comp, stepI, hnm i, hcontains i hi]
    cases hs : (gfeed ops i pre).2.isSome
    · have hnone : (gfeed ops i pre).2 = none := by simpa using hs
      rw [lemma_gfeed_snoc_ok ops c pre i hnone]
      simp
    · rw [lemma_gfeed_snoc_err ops c pre i hs]
      simp
  · intro n
    show n ∈ errd' ↔ _
    rw [hmem n, h.err n]
    constructor
    · rintro (⟨i, hi, hin, hie⟩ | ⟨j, hj, hjn, hje⟩)
      · exact ⟨i, hi, hin, by rw [lemma_gfeed_snoc_err ops c pre i hie]; exact hie⟩
      · rw [h.insps] at hj
        obtain ⟨i, hi, rfl⟩ := List.mem_map.mp hj
        refine ⟨i, hi, (hnm i).symm.trans hjn, ?_⟩
        simp only [newErr, hnm i, hcontains i hi, Bool.and_eq_true, Bool.not_eq_true'] at hje
        have hnone : (gfeed ops i pre).2 = none := by simpa using hje.1
        rw [lemma_gfeed_snoc_ok ops c pre i hnone]
        exact hje.2
    · rintro ⟨i, hi, hin, hie⟩
      cases hs : (gfeed ops i pre).2.isSome
      · right
        have hnone : (gfeed ops i pre).2 = none := by simpa using hs
        rw [lemma_gfeed_snoc_ok ops c pre i hnone] at hie
        refine ⟨(gfeed ops i pre).1, ?_, (hnm i).trans hin, ?_⟩
        · rw [h.insps]; exact List.mem_map.mpr ⟨i, hi, rfl⟩
        · simp only [newErr, hnm i, hcontains i hi, hs, hie, Bool.not_false, Bool.and_self]
      · exact Or.inl ⟨i, hi, hin, hs⟩

theorem lemma_runInv_fold (ops : IOps σ) (hn : NameStable ops) (is0 : List σ) (hd : Distinct ops is0) :
    ∀ (cs pre : List Bytes) (w : Wrap σ), RunInv ops is0 pre w → RunInv ops is0 (pre ++ cs) (wfold ops w cs) := by
  intro cs
  induction cs with
  | nil => intro pre w h; simpa [wfold] using h
  | cons c cs ih =>
    intro pre w h
    have h1 := lemma_runInv_step ops hn is0 hd pre w h c
    have h2 := ih (pre ++ [c]) _ h1
    simpa [wfold] using h2

/-- **reading a whole source through a wrapper without expected format**: every chunk is
    delivered, the stream ends normally, and the closed wrapper holds, in order, each initial
    inspector fed the chunks up to its first error and then finished; the errored set is the set of
    names of the inspectors that raised. -/
theorem lemma_pipe_run (ops : IOps σ) (hn : NameStable ops) (w0 : Wrap σ) (hd : Distinct ops w0.insps)
    (he : w0.errored = []) (hx : w0.expected = none) (cs : List Bytes) :
    ∃ w', Wrap.pipe ops w0 cs [] = (cs, w', .done) ∧
      w'.insps = w0.insps.map (fun i => ops.finish (gfeed ops i cs).1) ∧
      w'.finished = true ∧ w'.expected = none ∧
      ∀ n, n ∈ w'.errored ↔ ∃ i ∈ w0.insps, ops.name i = n ∧ (gfeed ops i cs).2.isSome = true := by
  have h0 : RunInv ops w0.insps [] w0 :=
    ⟨hx, by simp [gfeed], by intro n; simp [he, gfeed]⟩
  have h1 := lemma_runInv_fold ops hn w0.insps hd cs [] w0 h0
  simp only [List.nil_append] at h1
  refine ⟨(wfold ops w0 cs).finish ops, ?_, ?_, rfl, h1.exp, h1.err⟩
  · simpa using lemma_pipe_none ops hn cs w0 [] hx
  · simp only [Wrap.finish, h1.insps, List.map_map]
    rfl

end Oslo.Insp
