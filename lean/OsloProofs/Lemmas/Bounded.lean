/-
The memory invariant of every inspector (all ten formats, VHDX and VMDK included):
region names are distinct and come from a fixed list, and every region holds at most
`length` bytes with `length` below a per-name cap.
-/
import OsloModel.Inspector
namespace Oslo.Insp

/-- length of the region `n` in the format's initial table (0 if absent) -/
def initLen (f : Fmt) (n : String) : Nat :=
  match f.initRegions.find? (fun e => e.1 == n) with
  | some e => e.2.2.1
  | none => 0

/-- caps of the regions created while streaming -/
def dynCap : Fmt → String → Nat
  | .vhdx, "metadata" => 2048 * 32
  | .vhdx, "vds" => Gen.vhdxMetaTableMax
  | .vmdk, "footer" => 1536
  | .vmdk, "descriptor" => Gen.vmdkDescMaxSize
  | _, _ => 0

def cap (f : Fmt) (n : String) : Nat := max (initLen f n) (dynCap f n)

def dynNames : Fmt → List String
  | .vhdx => ["metadata", "vds"]
  | .vmdk => ["footer"]
  | _ => []

/-- every region name the format can ever have -/
def allowed (f : Fmt) : List String := f.initRegions.map (·.1) ++ dynNames f

/-- the bound of property C05 -/
def limit : Fmt → Nat
  | .vmdk => 3 * 512 * 1024
  | _ => 512 * 1024

structure RInv (f : Fmt) (rs : List (String × Region)) : Prop where
  nodup : (rs.map (·.1)).Nodup
  each : ∀ p ∈ rs, p.1 ∈ allowed f ∧ p.2.data.length ≤ p.2.length ∧ p.2.length ≤ cap f p.1 ∧
            (p.2.isEnd = true → 0 < p.2.length ∧ p.1 = "footer")

theorem lemma_capture_len (r : Region) (c : Bytes) (pos : Nat) (h : r.data.length ≤ r.length)
    (he : r.isEnd = true → 0 < r.length) :
    (r.capture c pos).data.length ≤ (r.capture c pos).length ∧ (r.capture c pos).length = r.length ∧
    (r.capture c pos).isEnd = r.isEnd := by
  unfold Region.capture
  split
  · rename_i hE
    have := he hE
    simp only [lastN]
    split
    · omega
    · simp; omega
  · dsimp only
    split
    · simp; omega
    · exact ⟨h, rfl, rfl⟩

theorem lemma_rinv_map (f : Fmt) (rs : List (String × Region)) (g : String × Region → Region)
    (h : RInv f rs)
    (hg : ∀ p ∈ rs, (g p).data.length ≤ (g p).length ∧ (g p).length ≤ p.2.length ∧ (g p).isEnd = p.2.isEnd ∧
       ((g p).isEnd = true → 0 < (g p).length ∧ p.1 = "footer")) :
    RInv f (rs.map (fun p => (p.1, g p))) := by
  constructor
  · simpa [List.map_map, Function.comp_def] using h.nodup
  · intro q hq
    simp only [List.mem_map] at hq
    obtain ⟨p, hp, rfl⟩ := hq
    obtain ⟨a, b, c, d⟩ := h.each p hp
    obtain ⟨g1, g2, g3, g4⟩ := hg p hp
    exact ⟨a, g1, Nat.le_trans g2 c, g4⟩

theorem lemma_captureAll_eq (s : Insp) (c : Bytes) (only : List String) :
    s.captureAll c only = { s with regions := s.regions.map (fun p => (p.1,
      if (only.isEmpty || only.contains p.1) && (p.2.isEnd || !p.2.complete)
      then p.2.capture c s.total else p.2)) } := by
  unfold Insp.captureAll
  congr 1
  apply List.map_congr_left
  intro p _
  split <;> rfl

theorem lemma_rinv_captureAll (s : Insp) (c : Bytes) (only : List String) (h : RInv s.fmt s.regions) :
    RInv (s.captureAll c only).fmt (s.captureAll c only).regions := by
  rw [lemma_captureAll_eq]
  apply lemma_rinv_map s.fmt s.regions _ h
  intro p hp
  obtain ⟨a, b, c', d⟩ := h.each p hp
  split
  · obtain ⟨x, y, z⟩ := lemma_capture_len p.2 c s.total b (fun e => (d e).1)
    exact ⟨x, by omega, z, by rw [z, y]; exact d⟩
  · exact ⟨b, Nat.le_refl _, rfl, d⟩

theorem lemma_lookupR_mem (n : String) (rs : List (String × Region)) (r : Region)
    (h : lookupR n rs = some r) : (n, r) ∈ rs := by
  induction rs with
  | nil => simp [lookupR] at h
  | cons p rest ih =>
    obtain ⟨k, v⟩ := p
    simp only [lookupR] at h
    split at h
    · rename_i hk; subst hk; simp at h; subst h; simp
    · simp [ih h]

theorem lemma_lookupR_none (n : String) (rs : List (String × Region))
    (h : lookupR n rs = none) : n ∉ rs.map (·.1) := by
  induction rs with
  | nil => simp
  | cons p rest ih =>
    obtain ⟨k, v⟩ := p
    simp only [lookupR] at h
    split at h
    · simp at h
    · rename_i hk
      simp only [List.map_cons, List.mem_cons, not_or]
      exact ⟨fun e => hk e.symm, ih h⟩

theorem lemma_rinv_new (s s' : Insp) (n : String) (off len : Nat) (ml : Option Nat) (isEnd : Bool)
    (h : RInv s.fmt s.regions) (hn : s.newRegion n off len ml isEnd = .ok s')
    (ha : n ∈ allowed s.fmt) (hc : len ≤ cap s.fmt n) (he : isEnd = true → 0 < len ∧ n = "footer") :
    RInv s'.fmt s'.regions ∧ s'.fmt = s.fmt := by
  unfold Insp.newRegion at hn
  split at hn
  · simp at hn
  · rename_i hh
    simp only [Except.ok.injEq] at hn
    subst hn
    simp only [Insp.hasRegion, Bool.not_eq_true, Option.isSome_eq_false_iff, Option.isNone_iff_eq_none] at hh
    refine ⟨⟨?_, ?_⟩, rfl⟩
    · simp only [List.map_append, List.map_cons, List.map_nil]
      rw [List.nodup_append]
      refine ⟨h.nodup, by simp, ?_⟩
      intro a ha' b hb
      simp only [List.mem_singleton] at hb
      subst hb
      intro e; subst e
      exact lemma_lookupR_none _ _ hh ha'
    · intro p hp
      simp only [List.mem_append, List.mem_singleton] at hp
      rcases hp with hp | rfl
      · exact h.each p hp
      · exact ⟨ha, by simp, hc, he⟩

theorem lemma_rinv_delete (s s' : Insp) (n : String) (h : RInv s.fmt s.regions)
    (hn : s.deleteRegion n = .ok s') : RInv s'.fmt s'.regions ∧ s'.fmt = s.fmt := by
  unfold Insp.deleteRegion at hn
  split at hn
  · simp only [Except.ok.injEq] at hn
    subst hn
    refine ⟨⟨?_, ?_⟩, rfl⟩
    · exact List.Nodup.sublist (List.Sublist.map _ List.filter_sublist) h.nodup
    · intro p hp
      exact h.each p (List.mem_filter.mp hp).1
  · simp at hn

theorem lemma_rinv_trunc (s : Insp) (n : String) (hn : n ≠ "footer") (h : RInv s.fmt s.regions) :
    RInv s.fmt (s.updRegion n (fun r => { r with length := r.data.length })).regions := by
  have e : (s.updRegion n (fun r => { r with length := r.data.length })).regions =
      s.regions.map (fun p => (p.1, if p.1 = n then { p.2 with length := p.2.data.length } else p.2)) := by
    unfold Insp.updRegion
    apply List.map_congr_left
    intro p _
    split <;> rfl
  rw [e]
  apply lemma_rinv_map s.fmt s.regions _ h
  intro p hp
  obtain ⟨a, b, c', d⟩ := h.each p hp
  split
  · rename_i hpn
    refine ⟨Nat.le_refl _, b, rfl, ?_⟩
    intro hE
    exact absurd ((d hE).2) (by rw [hpn]; exact hn)
  · exact ⟨b, Nat.le_refl _, rfl, d⟩

end Oslo.Insp

namespace Oslo.Insp

/-- the invariant on an inspector -/
def SInv (s : Insp) : Prop := RInv s.fmt s.regions

theorem lemma_vhdxAddVds (s : Insp) (m : Region) (ioff ilen : Nat) (hf : s.fmt = .vhdx) (h : SInv s) :
    SInv (vhdxAddVds s m ioff ilen).1 ∧ (vhdxAddVds s m ioff ilen).1.fmt = s.fmt := by
  have h1 : SInv (s.updRegion "metadata" (fun r => { r with length := r.data.length })) :=
    lemma_rinv_trunc s "metadata" (by decide) h
  unfold vhdxAddVds
  split
  · exact ⟨h1, rfl⟩
  · rename_i s2 hn
    have := lemma_rinv_new _ s2 _ _ _ _ _ h1 hn
      (by show "vds" ∈ allowed s.fmt; rw [hf]; decide)
      (by show min ilen Gen.vhdxMetaTableMax ≤ cap s.fmt "vds"; rw [hf]
          have : Gen.vhdxMetaTableMax ≤ cap .vhdx "vds" := by decide
          omega)
      (by simp)
    exact ⟨this.1, this.2⟩

theorem lemma_vhdxPP (s : Insp) (hf : s.fmt = .vhdx) (h : SInv s) :
    SInv (vhdxPostProcess s).1 ∧ (vhdxPostProcess s).1.fmt = s.fmt := by
  unfold vhdxPostProcess
  split
  · exact ⟨h, rfl⟩
  · split
    · split
      · exact ⟨h, rfl⟩
      · exact ⟨h, rfl⟩
      · split
        · exact ⟨h, rfl⟩
        · rename_i s' hn
          exact lemma_rinv_new s s' _ _ _ _ _ h hn (by rw [hf]; decide) (by rw [hf]; decide) (by simp)
    · split
      · split
        · exact ⟨h, rfl⟩
        · exact ⟨h, rfl⟩
        · split
          · exact ⟨h, rfl⟩
          · exact lemma_vhdxAddVds s _ _ _ hf h
      · exact ⟨h, rfl⟩

theorem lemma_vmdkAddFooter (s s1 : Insp) (g : Nat) (hf : s.fmt = .vmdk) (h : SInv s)
    (he : vmdkAddFooter s g = .ok s1) : SInv s1 ∧ s1.fmt = s.fmt := by
  unfold vmdkAddFooter at he
  split at he
  · split at he
    · simp at he
    · rename_i s' hn
      have := lemma_rinv_new s s' _ _ _ _ _ h hn (by rw [hf]; decide) (by rw [hf]; decide) (by simp)
      split at he
      · simp at he
      · simp only [Except.ok.injEq] at he
        subst he
        exact ⟨this.1, this.2⟩
  · simp only [Except.ok.injEq] at he
    subst he
    exact ⟨h, rfl⟩

theorem lemma_vmdkRelocate (s1 : Insp) (ds dn : Nat) (hf : s1.fmt = .vmdk) (h1 : SInv s1) :
    SInv (vmdkRelocate s1 ds dn).1 ∧ (vmdkRelocate s1 ds dn).1.fmt = s1.fmt := by
  unfold vmdkRelocate
  split
  · exact ⟨h1, rfl⟩
  · split
    · exact ⟨h1, rfl⟩
    · split
      · split
        · exact ⟨h1, rfl⟩
        · rename_i s2 hdel
          obtain ⟨h2, f2⟩ := lemma_rinv_delete s1 s2 _ h1 hdel
          split
          · exact ⟨h2, f2⟩
          · rename_i s3 hn
            have := lemma_rinv_new s2 s3 _ _ _ _ _ h2 hn
              (by rw [f2, hf]; decide)
              (by rw [f2, hf]
                  have : Gen.vmdkDescMaxSize ≤ cap .vmdk "descriptor" := by decide
                  omega)
              (by simp)
            exact ⟨this.1, this.2.trans f2⟩
      · exact ⟨h1, rfl⟩

theorem lemma_vmdkPP (s : Insp) (hf : s.fmt = .vmdk) (h : SInv s) :
    SInv (vmdkPostProcess s).1 ∧ (vmdkPostProcess s).1.fmt = s.fmt := by
  unfold vmdkPostProcess
  split
  · exact ⟨h, rfl⟩
  · split
    · exact ⟨h, rfl⟩
    · split
      · exact ⟨h, rfl⟩
      · split
        · split
          · split
            · exact ⟨h, rfl⟩
            · rename_i s' hd
              exact lemma_rinv_delete s s' _ h hd
          · exact ⟨h, rfl⟩
        · split
          · exact ⟨h, rfl⟩
          · split
            · exact ⟨h, rfl⟩
            · rename_i s1 he
              obtain ⟨h1, f1⟩ := lemma_vmdkAddFooter s s1 _ hf h he
              rename_i hd _ _ _ _
              have := lemma_vmdkRelocate s1 hd.descSec hd.descNum (f1.trans hf) h1
              exact ⟨this.1, this.2.trans f1⟩

end Oslo.Insp

namespace Oslo.Insp

theorem lemma_postProcess_inv (s : Insp) (h : SInv s) :
    SInv (postProcess s).1 ∧ (postProcess s).1.fmt = s.fmt := by
  unfold postProcess
  split
  · rename_i hf; exact lemma_vhdxPP s hf h
  · rename_i hf; exact lemma_vmdkPP s hf h
  · exact ⟨h, rfl⟩

theorem lemma_captureAll_inv (s : Insp) (c : Bytes) (only : List String) (h : SInv s) :
    SInv (s.captureAll c only) ∧ (s.captureAll c only).fmt = s.fmt :=
  ⟨lemma_rinv_captureAll s c only h, rfl⟩

theorem lemma_followUp_inv (fuel : Nat) : ∀ (s : Insp) (c : Bytes) (seen : List Nat), SInv s →
    SInv (followUp fuel s c seen).1 ∧ (followUp fuel s c seen).1.fmt = s.fmt := by
  induction fuel with
  | zero => intro s c seen h; unfold followUp; split <;> exact ⟨h, rfl⟩
  | succ n ih =>
    intro s c seen h
    unfold followUp
    dsimp only
    split
    · exact ⟨h, rfl⟩
    · obtain ⟨h1, f1⟩ := lemma_captureAll_inv s c
        ((s.regions.filter (fun p => !seen.contains p.2.rid)).map (·.1)) h
      obtain ⟨h2, f2⟩ := lemma_postProcess_inv _ h1
      split
      · rename_i s2 e heq
        rw [heq] at h2 f2
        exact ⟨h2, f2.trans f1⟩
      · rename_i s2 heq
        rw [heq] at h2 f2
        obtain ⟨h3, f3⟩ := ih s2 c _ h2
        exact ⟨h3, f3.trans (f2.trans f1)⟩

theorem lemma_regionComplete_regions (s : Insp) (n : String) :
    (regionComplete s n).1.regions = s.regions ∧ (regionComplete s n).1.fmt = s.fmt := by
  unfold regionComplete
  split
  · unfold qcowRegionComplete
    split
    · exact ⟨rfl, rfl⟩
    · dsimp only
      split
      · exact ⟨rfl, rfl⟩
      · split <;> exact ⟨rfl, rfl⟩
  · split
    · unfold vmdkParseDescriptor
      split
      · exact ⟨rfl, rfl⟩
      · dsimp only
        repeat' split
        all_goals exact ⟨rfl, rfl⟩
    · exact ⟨rfl, rfl⟩
  · exact ⟨rfl, rfl⟩

theorem lemma_runCallbacks_regions (names : List String) : ∀ (s : Insp),
    (runCallbacks s names).1.regions = s.regions ∧ (runCallbacks s names).1.fmt = s.fmt := by
  induction names with
  | nil => intro s; exact ⟨rfl, rfl⟩
  | cons n ns ih =>
    intro s
    unfold runCallbacks
    obtain ⟨r1, f1⟩ := lemma_regionComplete_regions s n
    split
    · rename_i s1 e heq
      rw [heq] at r1 f1
      exact ⟨r1, f1⟩
    · rename_i s1 heq
      rw [heq] at r1 f1
      obtain ⟨r2, f2⟩ := ih s1
      exact ⟨r2.trans r1, f2.trans f1⟩

/-- `eat_chunk` preserves the invariant, whether or not it raises -/
theorem lemma_eatChunk_inv (s : Insp) (c : Bytes) (h : SInv s) :
    SInv (eatChunk s c).1 ∧ (eatChunk s c).1.fmt = s.fmt := by
  unfold eatChunk
  dsimp only
  split
  · exact ⟨h, rfl⟩
  · have h0 : SInv { s with total := s.total + c.length } := h
    obtain ⟨h1, f1⟩ := lemma_captureAll_inv { s with total := s.total + c.length } c [] h0
    obtain ⟨h2, f2⟩ := lemma_postProcess_inv _ h1
    split
    · rename_i s3 e heq
      rw [heq] at h2 f2
      exact ⟨h2, f2.trans f1⟩
    · rename_i s3 heq
      rw [heq] at h2 f2
      obtain ⟨h3, f3⟩ := lemma_followUp_inv 8 s3 c (s.regions.map (·.2.rid)) h2
      split
      · rename_i s4 e heq4
        rw [heq4] at h3 f3
        exact ⟨h3, f3.trans (f2.trans f1)⟩
      · rename_i s4 heq4
        rw [heq4] at h3 f3
        obtain ⟨r5, f5⟩ := lemma_runCallbacks_regions
          ((s4.regions.filter (fun p => p.2.complete &&
              !((s.regions.filter (·.2.complete)).map (·.2.rid)).contains p.2.rid)).map (·.1)) s4
        refine ⟨?_, f5.trans (f3.trans (f2.trans f1))⟩
        unfold SInv
        rw [r5, f5]
        exact h3

theorem lemma_finish_inv (s : Insp) (h : SInv s) : SInv s.finish := by
  unfold Insp.finish SInv
  simp only
  apply lemma_rinv_map s.fmt s.regions (fun p => p.2.finish) h
  intro p hp
  obtain ⟨a, b, c', d⟩ := h.each p hp
  unfold Region.finish
  split
  · exact ⟨b, Nat.le_refl _, rfl, d⟩
  · exact ⟨b, Nat.le_refl _, rfl, d⟩

/-! ### from the invariant to the byte bound -/

theorem lemma_sum_erase (w : String → Nat) (x : String) : ∀ (A : List String), x ∈ A →
    (A.map w).sum = w x + ((A.erase x).map w).sum := by
  intro A
  induction A with
  | nil => intro h; simp at h
  | cons a A ih =>
    intro h
    by_cases hax : a = x
    · subst hax; simp
    · have hx : x ∈ A := by
        simp only [List.mem_cons] at h
        rcases h with h | h
        · exact absurd h.symm hax
        · exact h
      have : (a :: A).erase x = a :: A.erase x := by
        simp [hax]
      rw [this]
      simp only [List.map_cons, List.sum_cons, ih hx]
      omega

theorem lemma_sum_nodup_subset (w : String → Nat) : ∀ (l A : List String), l.Nodup → (∀ x ∈ l, x ∈ A) →
    (l.map w).sum ≤ (A.map w).sum := by
  intro l
  induction l with
  | nil => intro A _ _; simp
  | cons x l ih =>
    intro A hn hs
    have hx : x ∈ A := hs x (by simp)
    rw [lemma_sum_erase w x A hx]
    simp only [List.map_cons, List.sum_cons]
    have hn' := List.nodup_cons.mp hn
    have := ih (A.erase x) hn'.2 (by
      intro y hy
      have hyA := hs y (by simp [hy])
      have hne : y ≠ x := by
        intro e; subst e; exact hn'.1 hy
      exact (List.mem_erase_of_ne hne).mpr hyA)
    omega

theorem lemma_retained_le (f : Fmt) (rs : List (String × Region)) (h : RInv f rs) :
    (rs.map (fun p => p.2.data.length)).sum ≤ ((allowed f).map (cap f)).sum := by
  have h1 : (rs.map (fun p => p.2.data.length)).sum ≤ ((rs.map (·.1)).map (cap f)).sum := by
    have : ∀ (l : List (String × Region)), (∀ p ∈ l, p.2.data.length ≤ cap f p.1) →
        (l.map (fun p => p.2.data.length)).sum ≤ ((l.map (·.1)).map (cap f)).sum := by
      intro l
      induction l with
      | nil => intro _; simp
      | cons a l ih =>
        intro hl
        simp only [List.map_cons, List.sum_cons]
        have := hl a (by simp)
        have := ih (fun p hp => hl p (by simp [hp]))
        omega
    apply this
    intro p hp
    obtain ⟨_, b, c, _⟩ := h.each p hp
    omega
  have h2 := lemma_sum_nodup_subset (cap f) (rs.map (·.1)) (allowed f) h.nodup (by
    intro x hx
    simp only [List.mem_map] at hx
    obtain ⟨p, hp, rfl⟩ := hx
    exact (h.each p hp).1)
  omega

/-- Boolean check of the invariant on a concrete region table -/
def rinvB (f : Fmt) (rs : List (String × Region)) : Bool :=
  decide (rs.map (·.1)).Nodup &&
  rs.all (fun p => (allowed f).contains p.1 && decide (p.2.data.length ≤ p.2.length) &&
    decide (p.2.length ≤ cap f p.1) && (!p.2.isEnd || (decide (0 < p.2.length) && p.1 == "footer")))

theorem lemma_rinvB (f : Fmt) (rs : List (String × Region)) (h : rinvB f rs = true) : RInv f rs := by
  unfold rinvB at h
  simp only [Bool.and_eq_true, decide_eq_true_eq, List.all_eq_true, List.contains_eq_mem,
    Bool.or_eq_true, Bool.not_eq_true', beq_iff_eq] at h
  obtain ⟨hn, he⟩ := h
  refine ⟨hn, fun p hp => ?_⟩
  obtain ⟨⟨⟨a, b⟩, c⟩, d⟩ := he p hp
  refine ⟨a, b, c, fun hE => ?_⟩
  rcases d with d | d
  · rw [hE] at d; simp at d
  · exact d

end Oslo.Insp
