/-
C07 for VMDK — `virtual_size` of a well-formed sparse VMDK is capacity sectors × 512, for every
representable capacity and every chunking; and it is 0 for as long as the descriptor (which carries
the createType that makes the capacity meaningful) has not been captured completely.
Both are corollaries of C01-7 (`vmdk_chunk_independent_partial`): a well-formed image is in
sparse-header mode (`wellformed_vmdk_sparse`), so for well-formed images the statements are full.
-/
import OsloProofs.Props.C01Vmdk
import OsloProofs.Props.C07
namespace Oslo.Insp

/-- length of the descriptor region the header announces (capped at `DESC_MAX_SIZE`) -/
def vmdkDescLen (s : Bytes) : Nat := min ((hdrOf s).descNum * 512) Gen.vmdkDescMaxSize

/-- **a well-formed sparse VMDK stream declaring `n` capacity sectors**: the 64-byte `KDMV` header with a
    supported version and the capacity field `n`; the embedded descriptor at sector 1, completely
    present, decodable, with createType monolithicSparse or streamOptimized (compared lower-cased, as
    the inspector does); and, if the header announces a footer, room for the 1536 footer bytes
    after the descriptor -/
structure WellFormedVmdk (n : Nat) (s : Bytes) : Prop where
  len : 64 ≤ s.length
  sig : s.take 4 = kdmv
  ver : (hdrOf s).ver = 1 ∨ (hdrOf s).ver = 2 ∨ (hdrOf s).ver = 3
  range : n < 2 ^ 64
  size : slice s 12 20 = encodeLE 8 n
  descSec : (hdrOf s).descSec * 512 = Gen.vmdkDescOffset
  descFull : 512 + vmdkDescLen s ≤ s.length
  createType : ∃ t ty, parseDesc (sliceOf s 512 (vmdkDescLen s)) = some (t, ty) ∧ ty ∈ sparseTypes
  footer : (hdrOf s).gdOffset = Gen.vmdkGdAtEnd → 512 + vmdkDescLen s + 1536 ≤ s.length

/-- **wellformed_vmdk_sparse** — a well-formed image satisfies the hypothesis of C01-7 -/
theorem wellformed_vmdk_sparse (n : Nat) (s : Bytes) (h : WellFormedVmdk n s) : VmdkSparse s :=
  ⟨h.len, h.sig, h.ver, fun hg => Or.inr (by have := h.footer hg; omega)⟩

theorem lemma_descType_nil : descType [] = formatNotFound := by decide

theorem lemma_parseDesc_nonempty (d t ty : Bytes) (h : parseDesc d = some (t, ty)) (hty : ty ∈ sparseTypes) :
    t ≠ [] := by
  intro ht
  unfold parseDesc at h
  split at h
  · simp at h
  · simp only [Option.some.injEq, Prod.mk.injEq] at h
    obtain ⟨h1, h2⟩ := h
    rw [h1, ht, lemma_descType_nil] at h2
    rw [← h2] at hty
    revert hty
    decide

theorem lemma_sliceOf_len_full (s : Bytes) (o l : Nat) (h : o + l ≤ s.length) : l = (sliceOf s o l).length := by
  rw [lemma_sliceOf_length]; omega

/-- **vsize_vmdk** — for every capacity `n < 2^64`, every well-formed sparse VMDK stream declaring it
    and every chunking of that stream, `virtual_size` after the whole stream is `n × 512` -/
theorem vsize_vmdk (s0 : Insp) (h0 : Insp.init .vmdk = some s0) (chunks : List Bytes) (n : Nat)
    (hw : WellFormedVmdk n chunks.flatten) :
    virtualSize (runChunks s0 chunks).1 = .ok ((n : Int) * 512) := by
  have hv := congrArg Verdict.vsize
    (vmdk_chunk_independent_partial s0 h0 chunks (wellformed_vmdk_sparse n _ hw))
  have hl : virtualSize (runChunks s0 chunks).1 = (verdict (runChunks s0 chunks)).vsize := rfl
  rw [hl, hv]
  generalize chunks.flatten = s at *
  obtain ⟨t, ty, hp, hty⟩ := hw.createType
  have hne := lemma_parseDesc_nonempty _ t ty hp hty
  have hfull := lemma_sliceOf_len_full s 512 (vmdkDescLen s) hw.descFull
  unfold vmdkDescLen at hp hfull
  have hsec : (hdrOf s).sectors = n := by
    show leNat (slice s 12 20) = n
    rw [hw.size, le_encode 8 n (by simpa using hw.range)]
  unfold specVmdk
  simp only [hw.descSec, ne_eq, not_true_eq_false, if_false, if_pos hfull, hp, Option.map_some, Option.getD_some,
    hsec]
  unfold vsizeOn
  have h1 : t.isEmpty = false := by
    cases t with
    | nil => exact absurd rfl hne
    | cons a l => rfl
  have h2 : sparseTypes.contains ty = true := by simpa using hty
  simp only [h1, h2, Bool.false_eq_true, if_false, Bool.not_true]
  congr 1


theorem lemma_hdrOf_append (q t : Bytes) (h : 64 ≤ q.length) : hdrOf (q ++ t) = hdrOf q := by
  have e : ∀ a b, b ≤ 64 → slice (q ++ t) a b = slice q a b := by
    intro a b hb
    simp only [slice]
    rw [List.take_append_of_le_length (by omega)]
  unfold hdrOf
  rw [e 4 8 (by omega), e 12 20 (by omega), e 28 36 (by omega), e 36 44 (by omega), e 56 64 (by omega),
    List.take_append_of_le_length (by omega)]

theorem lemma_parseDesc_nil : parseDesc [] = some ([], formatNotFound) := by decide

/-- in sparse-header mode `virtual_size` is 0 at every point of the feed at which the stream so far
    ends before the end of the descriptor (whatever the chunking) -/
theorem lemma_vsize_zero_vmdk_sparse (s0 : Insp) (h0 : Insp.init .vmdk = some s0) (chunks : List Bytes)
    (s : Bytes) (hs : VmdkSparse s) (hpre : chunks.flatten <+: s)
    (hshort : chunks.flatten.length < 512 + vmdkDescLen s) :
    virtualSize (feed s0 chunks).1 = .ok 0 := by
  obtain ⟨hlen, hsig, hver, _⟩ := hs
  have h5s : NulAt5 s := lemma_nulAt5_of_ver s hlen (by
    have : (hdrOf s).ver = leNat (slice s 4 8) := rfl
    rw [← this]; omega)
  have h5 : NulAt5 chunks.flatten := lemma_nulAt5_prefix hpre h5s
  by_cases hq : chunks.flatten.length < 64
  · obtain ⟨n, hd, d0, dt, hf⟩ := lemma_vmdk_feed_short s0 h0 chunks h5 hq
    rw [hf]
    exact lemma_err_vsize false n hd d0 false dt
  · have hq64 : 64 ≤ chunks.flatten.length := by omega
    obtain ⟨t, ht⟩ := hpre
    have hH : hdrOf s = hdrOf chunks.flatten := by rw [← ht, lemma_hdrOf_append _ _ hq64]
    have hpar := lemma_vmdk_parse_hdrOf chunks.flatten hq64
    have hsig' : (hdrOf chunks.flatten).sig = kdmv := by
      show chunks.flatten.take 4 = kdmv
      rw [← hsig, ← ht, List.take_append_of_le_length (by omega)]
    have hok : HdrOK (hdrOf chunks.flatten) := ⟨hsig', by rw [← hH]; exact hver⟩
    have hout := lemma_vmdk_feed (decide ((hdrOf chunks.flatten).gdOffset = Gen.vmdkGdAtEnd))
      (min ((hdrOf chunks.flatten).descNum * 512) Gen.vmdkDescMaxSize) (hdrOf chunks.flatten) hok rfl rfl
      s0 h0 chunks h5 hq64 hpar
    unfold vmdkDescLen at hshort
    rw [hH] at hshort
    generalize chunks.flatten = q at *
    generalize hdrOf q = H at *
    rcases hout with ⟨hds, hd, fo, fd, dt, vt, hr, hp, hl, hfi, hst⟩ | ⟨hds, n, hd, d0, dt, hr, hp, hl, hc⟩
    · rw [hr, lemma_post_vsize _ _ hd _ _ _ _ _ _ _ H hp]
      have hvt : vt = formatNotFound := by
        unfold DescSt at hst
        split at hst
        · rename_i hc
          rw [lemma_sliceOf_length] at hc
          have hq512 : q.length < 512 := by omega
          have hnil : sliceOf q 512 (min (H.descNum * 512) Gen.vmdkDescMaxSize) = [] :=
            lemma_vmdk_sliceOf_nil q 512 _ (by omega)
          rw [hnil, lemma_parseDesc_nil] at hst
          exact hst.2
        · exact hst
      rw [hvt, lemma_vsizeOn_fnf]
    · rw [hr]
      exact lemma_err_vsize _ _ _ _ _ _

/-- **vsize_zero_until_captured_vmdk** — while a well-formed sparse VMDK is being streamed (any
    chunking, any prefix that ends before the end of the descriptor), `virtual_size` is 0 -/
theorem vsize_zero_until_captured_vmdk (s0 : Insp) (h0 : Insp.init .vmdk = some s0) (chunks : List Bytes)
    (n : Nat) (s : Bytes) (hw : WellFormedVmdk n s) (hpre : chunks.flatten <+: s)
    (hshort : chunks.flatten.length < 512 + vmdkDescLen s) :
    virtualSize (feed s0 chunks).1 = .ok 0 :=
  lemma_vsize_zero_vmdk_sparse s0 h0 chunks s (wellformed_vmdk_sparse n s hw) hpre hshort

/-! ### non-vacuity: the concrete image of C01Vmdk is well-formed with 2048 sectors -/

theorem lemma_exVmdk_wellformed : WellFormedVmdk 2048 exVmdk :=
  ⟨by decide +kernel, by decide +kernel, by decide +kernel, by decide, by decide +kernel, by decide +kernel,
   by decide +kernel,
   ⟨ascii "createtype=\"monolithicsparse\"\nrw 2048 sparse \"x.vmdk\"\n", ascii "monolithicsparse",
     by decide +kernel, by decide +kernel⟩,
   by decide +kernel⟩

example : WellFormedVmdk 2048 exVmdk := lemma_exVmdk_wellformed

example (s0 : Insp) (h0 : Insp.init .vmdk = some s0) :
    virtualSize (runChunks s0 [exVmdk.take 7, exVmdk.drop 7]).1 = .ok (2048 * 512) ∧
    virtualSize (feed s0 [exVmdk.take 7, (exVmdk.drop 7).take 1000]).1 = .ok 0 := by
  have e : [exVmdk.take 7, exVmdk.drop 7].flatten = exVmdk := by simp
  refine ⟨vsize_vmdk s0 h0 _ 2048 (by rw [e]; exact lemma_exVmdk_wellformed), ?_⟩
  apply vsize_zero_until_captured_vmdk s0 h0 _ 2048 exVmdk lemma_exVmdk_wellformed
  · simp only [List.flatten_cons, List.flatten_nil, List.append_nil]
    rw [← List.take_add]
    exact List.take_prefix _ _
  · decide +kernel

end Oslo.Insp
