"""Layout-driven builders for the ten image formats.  Every builder takes keyword
fields (all mutable) and returns (bytes, boundaries) where `boundaries` are the
structure boundaries worth cutting / truncating at."""
import struct
import uuid

K = 1024
GUID_META = uuid.UUID('8B7CA206-4790-4B9A-B8FE-575F050F886E').bytes_le
GUID_VDS = uuid.UUID('2FA54224-CD1B-4876-B211-5DBED83BF4B8').bytes_le
GD_AT_END = 0xffffffffffffffff

FORMATS = ['raw', 'qcow2', 'vhd', 'vhdx', 'vmdk', 'vdi', 'qed', 'iso', 'gpt', 'luks']


def pad(b, n, fill=b'\0'):
    return b + fill * max(0, n - len(b))


def raw(size=1000, fill=0x00, **kw):
    return bytes([fill]) * size, [size // 2]


def qcow2(size=10 * K * K, version=3, bf_offset=0, features=0, magic=b'QFI\xfb', cluster_bits=16,
          bf_size=0, body=b'', total=1024, compat=0, autoclear=0, header_fill=0, refcount_order=None,
          header_length=None, **kw):
    h = struct.pack('>4sIQIIQ', magic, version, bf_offset, bf_size, cluster_bits, size)
    h = pad(h, 72, bytes([header_fill]))
    h += struct.pack('>QQQ', features, compat, autoclear)
    if refcount_order is not None or header_length is not None:      # v3 fields at 96 / 100 (default: fill)
        h += struct.pack('>II', refcount_order or 0, header_length or 0)
    img = pad(h, 512, bytes([header_fill])) + body
    img = pad(img, total)
    return img, [4, 8, 16, 24, 32, 72, 80, 104, 511, 512, 513]


def qed(total=1024, magic=b'QED\0', **kw):
    return pad(magic + b'\x01' * 60, total), [4, 511, 512, 513]


def vhd(size=5 * K * K, magic=b'conectix', total=1024, **kw):
    h = pad(magic, 40) + struct.pack('>Q', size)
    return pad(pad(h, 512), total), [8, 40, 48, 511, 512, 513]


def vdi(size=7 * K * K, signature=0xbeda107f, total=1024, **kw):
    h = bytearray(512)
    h[0:40] = pad(b'<<< Oracle VM VirtualBox Disk Image >>>\n', 40)
    h[0x40:0x44] = struct.pack('<I', signature)
    h[0x170:0x178] = struct.pack('<Q', size)
    return pad(bytes(h), total), [0x40, 0x44, 0x170, 0x178, 511, 512, 513]


def iso(blocks=300, block_size=2048, ident=b'CD001', desc_type=1, total=40 * K, sys_fill=0, blocks_be=None,
        block_size_be=None, **kw):
    """`blocks_be` / `block_size_be` make the big-endian halves of the both-endian fields disagree with the
    little-endian ones (ill-formed; the code reads the little-endian halves)"""
    h = bytearray(2048)
    h[0] = desc_type
    h[1:6] = ident
    h[6] = 1
    h[80:84] = struct.pack('<I', blocks)
    h[84:88] = struct.pack('>I', blocks if blocks_be is None else blocks_be)
    h[128:130] = struct.pack('<H', block_size)
    h[130:132] = struct.pack('>H', block_size if block_size_be is None else block_size_be)
    img = bytes([sys_fill]) * (32 * K) + bytes(h)
    return pad(img, total), [32 * K - 1, 32 * K, 32 * K + 1, 32 * K + 6, 32 * K + 88, 32 * K + 132, 34 * K - 1, 34 * K, 34 * K + 1]


def pte(boot=0, chs=(0, 2, 0), ostype=0x83, end=(0xfe, 0xff, 0xff), lba=1, size=1000):
    return struct.pack('<B3BB3BII', boot, chs[0], chs[1], chs[2], ostype, end[0], end[1], end[2], lba, size)


def gpt(ptes=None, signature=0xAA55, total=1024, fat=False, code_fill=0, **kw):
    if ptes is None:
        ptes = [pte(ostype=0xEE, lba=1, size=0xffffffff)]
    m = bytearray([code_fill]) * 446
    if fat:
        m[0x10] = 2
        m[0x15] = 0xF8
    else:
        m[0x10] = 0
        m[0x15] = 0
    tbl = b''.join(ptes)
    tbl = pad(tbl, 64)
    m = bytes(m) + tbl[:64] + struct.pack('<H', signature)
    return pad(m, total), [0x10, 0x15, 446, 462, 478, 494, 510, 511, 512, 513]


def luks(version=1, payload_offset=4096, magic=b'LUKS\xba\xbe', total=4096 * 512 + 5000, body_len=None, **kw):
    h = struct.pack('>6sh32s32s32sI', magic, version, b'aes', b'xts-plain64', b'sha256', payload_offset)
    h = pad(h, 592, b'\x07')
    if body_len is not None:
        total = 592 + body_len
    return pad(h, total), [6, 8, 104, 108, 591, 592, 593]


def vhdx(size=3 * K * K * K, meta_off=0x100000, nreg=2, midx=1, nmeta=5, vidx=2, item_off=None, item_len=8,
         ident=b'vhdxfile', regi=0x69676572, reg_count=None, meta_sig=b'metadata', meta_count=None,
         tail=100, other_off=0x200000, vds_guid=GUID_VDS, meta_guid=GUID_META, total=None, fill=0, **kw):
    """`total` fixes the stream length (hostile pointers / lengths would otherwise size the buffer);
    `fill` is the background byte."""
    H = 192 * K
    es = 32 + nmeta * 32
    if item_off is None:
        item_off = 0x10000
    if total is None:
        total = max(meta_off + item_off + max(item_len, 8) + tail, H + 64 * K)
    buf = bytearray([fill]) * total

    def put(o, b):
        if o < len(buf):
            b = b[:len(buf) - o]
            buf[o:o + len(b)] = b
    put(0, ident + 'oslo'.encode('utf-16-le'))
    put(H, struct.pack('<IIII', regi, 0, nreg if reg_count is None else reg_count, 0))
    for i in range(nreg):
        g = meta_guid if i == midx else bytes([0x10 + i % 200]) * 16
        put(H + 16 + 32 * i, g + struct.pack('<QII', meta_off if i == midx else other_off, 0x100000, 1))
    put(meta_off, struct.pack('<8sHH', meta_sig, 0, nmeta if meta_count is None else meta_count))
    for i in range(nmeta):
        g = vds_guid if i == vidx else bytes([0x20 + (i % 200)]) * 16
        put(meta_off + 32 + 32 * i, g + struct.pack('<III', item_off if i == vidx else 0x20000 + i * 8, item_len if i == vidx else 4, 0))
    put(meta_off + item_off, struct.pack('<Q', size))
    bounds = [8, 32, H, H + 16, H + 16 + 32 * max(nreg, 1), H + 64 * K, meta_off, meta_off + 12, meta_off + 32,
              meta_off + es, meta_off + item_off, meta_off + item_off + 8, meta_off + 64 * K]
    return bytes(buf), sorted({b for b in bounds if 0 < b < len(buf)})


DESC_LINES = ['# Disk DescriptorFile', 'version=1', 'CID=fffffffe', 'parentCID=ffffffff',
              'createType="%(typ)s"', '', '# Extent description', '%(extent)s', '',
              '# The Disk Data Base', '#DDB', 'ddb.virtualHWVersion = "4"', 'ddb.adapterType = "ide"']


def vmdk_desc(typ='monolithicSparse', extent='RW 2048 SPARSE "disk.vmdk"', extra=(), lines=None):
    ls = [l % {'typ': typ, 'extent': extent} for l in (lines or DESC_LINES)] + list(extra)
    return ('\n'.join(ls) + '\n').encode('ascii')


def sparse_header(sig=b'KDMV', ver=1, flags=3, sectors=2048, grain=128, desc_sec=1, desc_num=20,
                  gtes=512, rgd=0, gd=1234):
    return struct.pack('<4sIIQQQQIQQ', sig, ver, flags, sectors, grain, desc_sec, desc_num, gtes, rgd, gd)


def vmdk(sectors=2048, ver=1, desc_sec=1, desc_num=2, sig=b'KDMV', typ='monolithicSparse',
         extent='RW 2048 SPARSE "disk.vmdk"', extra=(), footer=False, desc=None, desc_pad=b'\0',
         body=700, header_fill=0, f_ver=None, f_desc_sec=None, f_desc_num=None, f_gd=1234, f_sig=None,
         fm_size=0, fm_type=3, fm_val=1, eos_val=0, eos_size=0, eos_type=0, fm_pad=b'\0', eos_pad=b'\0',
         lines=None, **kw):
    gd = GD_AT_END if footer else 1234
    h = pad(sparse_header(sig, ver, 3, sectors, 128, desc_sec, desc_num, 512, 0, gd), 512, bytes([header_fill]))
    d = desc if desc is not None else vmdk_desc(typ, extent, extra, lines)
    dl = min(desc_num * 512, (1 << 20) - 1)
    d = pad(d, min(dl, 4 * K * K), desc_pad)
    img = h + d + b'\x5a' * body
    if footer:
        fh = sparse_header(sig if f_sig is None else f_sig, ver if f_ver is None else f_ver, 3, sectors, 128,
                           desc_sec if f_desc_sec is None else f_desc_sec,
                           desc_num if f_desc_num is None else f_desc_num, 512, 0, f_gd)
        img += pad(struct.pack('<QII', fm_val, fm_size, fm_type), 512, fm_pad)
        img += pad(fh, 512)
        img += pad(struct.pack('<QII', eos_val, eos_size, eos_type), 512, eos_pad)
    bounds = [4, 44, 63, 64, 65, 511, 512, 513, 512 + len(d) - 1, 512 + len(d), 512 + len(d) + 1,
              len(img) - 1536, len(img) - 1024, len(img) - 512, len(img) - 1]
    return img, sorted({b for b in bounds if 0 < b < len(img)})


def vmdk_text(typ='monolithicSparse', extent='RW 2048 SPARSE "disk.vmdk"', extra=(), lines=None, **kw):
    d = vmdk_desc(typ, extent, extra, lines)
    return d, [4, 63, 64, 65, len(d) - 1]


BUILDERS = {'raw': raw, 'qcow2': qcow2, 'vhd': vhd, 'vhdx': vhdx, 'vmdk': vmdk, 'vdi': vdi, 'qed': qed,
            'iso': iso, 'gpt': gpt, 'luks': luks}


def clean(fmt, **kw):
    """a clean (well-formed, safe) image of the format"""
    return BUILDERS[fmt](**kw)


SIGNATURES = {           # (offset, bytes) that make each format_match true given enough length
    'qcow2': [(0, b'QFI\xfb')], 'qed': [(0, b'QED\0')], 'vhd': [(0, b'conectix')], 'vhdx': [(0, b'vhdxfile')],
    'vmdk': [(0, b'KDMV')], 'vdi': [(0x40, struct.pack('<I', 0xbeda107f))], 'iso': [(32 * K + 1, b'CD001')],
    'gpt': [(510, b'\x55\xaa')], 'luks': [(0, b'LUKS\xba\xbe')],
}
DECISION_POINTS = {'qcow2': 512, 'qed': 512, 'vhd': 512, 'vhdx': 256 * K, 'vmdk': 64, 'vdi': 512,
                   'iso': 34 * K, 'gpt': 512, 'luks': 592}


def chunkings(n, bounds, rng, small=False):
    """Chunk-size lists (summing to n) for a stream of length n."""
    out = [[n]]
    for cs in (512, 4096, 65536, 1 << 20):
        if cs < n:
            out.append(sizes_from_cuts(list(range(cs, n, cs)), n))
    for cs in (1, 17, 64):
        if n <= (3000 if small else 40 * K) and cs < n:
            out.append(sizes_from_cuts(list(range(cs, n, cs)), n))
    for b in bounds:
        for d in (-1, 0, 1):
            if 0 < b + d < n:
                out.append(sizes_from_cuts([b + d], n))
    bs = [b for b in bounds if 0 < b < n]
    for _ in range(4):
        if len(bs) >= 2:
            pick = rng.sample(bs, min(len(bs), rng.randint(2, 4)))
            cuts = sorted({min(n - 1, max(1, b + rng.choice((-1, 0, 1)))) for b in pick})
            out.append(sizes_from_cuts(cuts, n))
    for _ in range(4):
        k = rng.randint(1, 6)
        if n >= 1:
            cuts = sorted(rng.randrange(0, n + 1) for _ in range(k))
            out.append(sizes_from_cuts(cuts, n))      # duplicates give empty chunks
    out.append([0] + sizes_from_cuts([n // 2, n // 2], n) + [0])
    return out


def sizes_from_cuts(cuts, n):
    sizes, pos = [], 0
    for c in cuts:
        c = min(max(c, pos), n)
        sizes.append(c - pos)
        pos = c
    sizes.append(n - pos)
    return sizes
