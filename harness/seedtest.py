"""Confirm a seeded change and run a check against it.

usage: seedtest.py <Cxx> <worktree> <k> [--keep-as NAME] [--checks C01,C05]

Steps (all in the scratch worktree, never in /repo): patch applies cleanly -> with the
patch: test suite (must match the baseline), demo (must exit 1), `VERIF_REPO=<worktree>
./check Cxx` (records exit status and VIOLATION line) -> revert -> demo (must exit 0).
With --keep-as the patch, demo, notes and a meta.json go to /verif/seeded/NAME/.
"""
import json
import os
import re
import shutil
import subprocess
import sys
import time

VERIF = os.path.dirname(os.path.dirname(os.path.abspath(__file__)))


def sh(cmd, cwd=None, env=None, timeout=3600):
    p = subprocess.run(cmd, cwd=cwd, env=env, shell=isinstance(cmd, str), stdout=subprocess.PIPE,
                       stderr=subprocess.STDOUT, timeout=timeout)
    out = '\n'.join(l for l in p.stdout.decode('utf-8', 'replace').splitlines() if 'conda.cli' not in l)
    return p.returncode, out


def suite(wt):
    rc, out = sh('/venv/bin/python -m pytest -q -p no:cacheprovider --timeout=900 --continue-on-collection-errors '
                 '2>&1 | tail -12', cwd=wt)
    m = re.search(r'(\d+) failed, (\d+) passed', out)
    failed = sorted(re.findall(r'^FAILED (\S+)', out, re.M))
    return (int(m.group(1)), int(m.group(2))) if m else None, failed, out


BASE_FAILED = 7
BASE_PASSED = 472


def main():
    pid, wt, k = sys.argv[1], sys.argv[2], sys.argv[3]
    keep = sys.argv[sys.argv.index('--keep-as') + 1] if '--keep-as' in sys.argv else None
    checks = sys.argv[sys.argv.index('--checks') + 1].split(',') if '--checks' in sys.argv else [pid]
    sd = os.path.join(wt, '_seed', str(k))
    patch = os.path.join(sd, 'patch.diff')
    res = {'property': pid, 'worktree': wt, 'k': k}
    rc, out = sh(['git', 'status', '--short'], cwd=wt)
    dirty = [l for l in out.splitlines() if not l.strip().endswith('_seed/')]
    if dirty:
        print('worktree has modifications, reverting:', dirty)
        sh(['git', 'checkout', '--', '.'], cwd=wt)
    rc, out = sh(['git', 'apply', '--check', patch], cwd=wt)
    res['applies'] = rc == 0
    if rc != 0:
        print('PATCH DOES NOT APPLY', out)
        print(json.dumps(res))
        return 1
    sh(['git', 'apply', patch], cwd=wt)
    try:
        counts, failed, out = suite(wt)
        res['suite_with_change'] = counts
        res['suite_ok'] = counts == (BASE_FAILED, BASE_PASSED)
        rc, out = sh(['/venv/bin/python', os.path.join('_seed', str(k), 'demo.py')], cwd=wt, timeout=600)
        res['demo_with_change_exit'] = rc
        res['demo_with_change_tail'] = out[-400:]
        env = dict(os.environ, VERIF_REPO=wt)
        res['checks'] = {}
        for c in checks:
            t0 = time.time()
            rc, out = sh([os.path.join(VERIF, 'check'), c, '--tier', 'quick'], cwd=VERIF, env=env, timeout=3000)
            viol = [l for l in out.splitlines() if l.startswith('VIOLATION')]
            res['checks'][c] = {'exit': rc, 'violation_lines': viol, 'summary': out.splitlines()[-1:] , 'wall_s': round(time.time() - t0, 1)}
            for v in viol[:1]:
                m = re.search(r'replay=(\S+)', v)
                if m and os.path.exists(os.path.join(VERIF, m.group(1))):
                    rp = json.load(open(os.path.join(VERIF, m.group(1))))
                    res['checks'][c]['replay_excerpt'] = json.dumps(rp.get('failure', rp.get('no_longer_checks')), default=str)[:700]
    finally:
        sh(['git', 'checkout', '--', '.'], cwd=wt)
    rc, out = sh(['/venv/bin/python', os.path.join('_seed', str(k), 'demo.py')], cwd=wt, timeout=600)
    res['demo_without_change_exit'] = rc
    # leave the shared generated tables as the real tree has them
    if not os.environ.get('SEEDTEST_NO_RESTORE'):
        for c in checks:
            sh([os.path.join(VERIF, 'check'), c, '--tier', 'quick'], cwd=VERIF, timeout=3000)
    res['confirmed'] = bool(res.get('suite_ok') and res['demo_with_change_exit'] == 1 and res['demo_without_change_exit'] == 0)
    res['caught'] = {c: (v['exit'] == 1 and bool(v['violation_lines'])) for c, v in res['checks'].items()}
    print(json.dumps(res, indent=1))
    if keep and res['confirmed']:
        dst = os.path.join(VERIF, 'seeded', keep)
        os.makedirs(dst, exist_ok=True)
        for f in ('patch.diff', 'demo.py', 'notes.md'):
            if os.path.exists(os.path.join(sd, f)):
                shutil.copy(os.path.join(sd, f), os.path.join(dst, f))
        notes = open(os.path.join(sd, 'notes.md')).read() if os.path.exists(os.path.join(sd, 'notes.md')) else ''
        meta = {'property': pid, 'needs_to_manifest': notes[:1500],
                'confirmed_by': {'suite_with_change': res['suite_with_change'], 'demo_with_change_exit': 1,
                                 'demo_without_change_exit': 0,
                                 'commands': ['git apply patch.diff (scratch worktree)',
                                              '/venv/bin/python -m pytest -q -p no:cacheprovider --timeout=900 --continue-on-collection-errors',
                                              '/venv/bin/python _seed/%s/demo.py' % k,
                                              'VERIF_REPO=<worktree> ./check %s --tier quick' % ','.join(checks)]},
                'checks_run': res['checks'], 'caught_by': [c for c, v in res['caught'].items() if v]}
        json.dump(meta, open(os.path.join(dst, 'meta.json'), 'w'), indent=1)
        print('kept as', dst)
    return 0


if __name__ == '__main__':
    sys.exit(main())
