"""C15 - EUI-64, host:port and URL helpers round-trip (oslo_utils.netutils)."""
import ipaddress
import itertools
from urllib import parse

import common
from common import Disagreement, Failure, req, hexs

ID = 'C15'
DRIVER = 'drv_C15'
PROOF_MODULES = ['OsloProofs.Props.C15']
LEVEL = 'proof'
RULE = ('three streams. EUI-64: 48-bit MACs (all single-bit, all-but-one-bit, byte-boundary and alternating patterns, '
        'random) in six renderings x prefixes of length 0..128 with and without host bits, plus IPv4/malformed '
        'prefixes and malformed MACs; non-trivial = an address was produced from a non-zero MAC or a typed error was '
        'raised. host:port: hosts of the three families (names, dotted quads, IPv6 text in compressed/exploded/upper/'
        'embedded-IPv4 forms with and without scope) x ports 0..65535 x default ports, plus a malformed stream of '
        'bracket/colon/port-text mutations; non-trivial = the address is non-empty. URLs: scheme x netloc (userinfo, '
        'IPv6 literal, port) x path x query (repeated names) x fragment x allow_fragments x default scheme, plus '
        'random strings over the delimiter alphabet; non-trivial = at least one of query/fragment/netloc present. '
        'Call sequences: params() calls on reused / fresh / same-query result objects interleaved with 13 kinds of '
        'mutation of earlier results; non-trivial = at least one mutation and two calls. '
        'Call forms: every legal positional/keyword/omitted layout of the pinned signatures of the six public '
        'callables for the same logical arguments. Protocols: copy, deepcopy, pickle (all protocols), rebuild from '
        'own fields, _make, _replace of every urlsplit result; copy/deepcopy/pickle of the netaddr results. '
        'Distinct by the canonical input tuple.')
TRUSTED_BASE = [
    'Lean 4 kernel; axioms audited per theorem (subset of propext, Classical.choice, Quot.sound)',
    'hand-written models OsloModel/Eui64.lean and OsloModel/HostPort.lean, tied to netutils by this correspondence',
    'netaddr: EUI(mac) parsing and IPNetwork(prefix).first are parameters of the model (their results are inputs); '
    'EUI.eui64() and IPAddress(int) are transcribed and compared on every case',
    'glibc inet_pton (behind netaddr.valid_ipv6): re-implemented in the model (acceptance only), compared on every '
    'generated and mutated host',
    'CPython str.split/rsplit/count and int(str) on ASCII text: re-implemented in the model',
    'urllib.parse.urlsplit and parse_qsl are parameters: their results are inputs of the model; the search compares '
    'netutils.urlsplit with urllib.parse.urlsplit directly',
]
UNMODELLED = [
    'int() of port text containing non-ASCII characters (Unicode digits / spaces): the model answers "unmodelled"',
    'default_port values that are neither None, int nor str',
    'address arguments that are not str/None; bytes URLs (the wrapper raises TypeError on them, the stdlib does not)',
    'the text -> integer parsing inside netaddr (MAC formats, IPv6 network text)',
]
ASSUMPTIONS = [
    'urllib.parse.urlsplit never leaves "?" in the path, nor "#" when allow_fragments is true (hypotheses of '
    'urlsplit_agrees; checked on every generated URL)',
    'sys.get_int_max_str_digits() == 4300',
]

HEXD = '0123456789abcdef'


def _n():
    from oslo_utils import netutils
    return netutils


def exc_name(e):
    return type(e).__name__


# Behaviours at the edge of the property that are NOT counted as violations unless the coordinator lists them
# in known_findings.json under these ids (then they are searched for, classified and reported as KNOWN-FINDING):
KF_SCOPE = 'C15-scope-bracket'        # IPv6 host whose %scope contains ']': escape_ipv6 accepts, parse_host_port raises
KF_LONGPREFIX = 'C15-prefix-over-64'  # prefix longer than /64 with non-zero low 64 bits: MAC not recoverable


def listed_ids():
    return {f.get('id') for f in common.load_findings().get('findings', []) if ID in f.get('properties', [])}


# --------------------------------------------------------------------------
# JSON-able encoding of odd Python values used in the malformed streams

def enc(v):
    if isinstance(v, bytes):
        return {'bytes': v.hex()}
    if isinstance(v, float):
        return {'float': repr(v)}
    if isinstance(v, list):
        return {'list': [enc(x) for x in v]}
    return v


def dec(v):
    if isinstance(v, dict):
        if 'bytes' in v:
            return bytes.fromhex(v['bytes'])
        if 'float' in v:
            return float(v['float'])
        if 'list' in v:
            return [dec(x) for x in v['list']]
    return v


# --------------------------------------------------------------------------
# EUI-64 stream

def mac_patterns(rng, nrand):
    full = (1 << 48) - 1
    pats = [0, full, 0x020000000000, 0xfdffffffffff, 0x00163e334455, 0xaaaaaaaaaaaa, 0x555555555555,
            0xffffff000000, 0x000000ffffff, 0x000001000000, 0x000000ffffff ^ full, 0x0200005e0001,
            0xfffffe000000, 0x00fffe000000, 0xfffe00000000, 0x00000000fffe]
    pats += [1 << i for i in range(48)]
    pats += [full ^ (1 << i) for i in range(48)]
    pats += [rng.getrandbits(48) for _ in range(nrand)]
    return pats


def mac_render(v, style):
    b = v.to_bytes(6, 'big')
    if style == 'colon':
        return ':'.join('%02x' % x for x in b)
    if style == 'COLON':
        return ':'.join('%02X' % x for x in b)
    if style == 'dash':
        return '-'.join('%02x' % x for x in b)
    if style == 'cisco':
        return '.'.join('%04x' % (v >> s & 0xffff) for s in (32, 16, 0))
    if style == 'bare':
        return '%012x' % v
    return v                      # 'int'


MAC_STYLES = ['colon', 'COLON', 'dash', 'cisco', 'bare', 'int']
BAD_MACS = ['zz', '', None, '00:16:3e:33:44', '00:16:3e:33:44:55:66', 'gg:16:3e:33:44:55', ' 00:16:3e:33:44:55',
            '00:16:3e:33:44:55 ', -1, 1 << 64, 1.5, b'00:16:3e:33:44:55', '00-16-3e-33-44-55-66-77',
            '02-00-00-00-00-00-00-00', 1 << 48, (1 << 64) - 1, '0016.3e33', '00163e33445', True]
BAD_PREFIXES = ['', 'zz', '2001:db8::/129', '2001:db8::/64/1', ' 2001:db8::/64', '2001:db8::/64 ',
                'fe80::%eth0/64', None, 5, b'2001:db8::/64', '2001:db8::/-1', '2001:db8:::/64', '/64', '::/', '1::2::3/64']
V4_PREFIXES = ['10.0.0.1', '1', '1.2', '127.1', '0x7f.1', '255.255.255.255', '0.0.0.0', '192.168.1.10',
               '10.0.0.0/8', '0.0.0.0/0', '::ffff:1.2.3.4/96', '1.2.3.4/32', '010.1.1.1']


def v6_text(v, style, rng):
    a = ipaddress.IPv6Address(v)
    if style == 'comp':
        return a.compressed
    if style == 'expl':
        return a.exploded
    if style == 'UPPER':
        return a.compressed.upper()
    if style == 'v4tail':
        groups = ['%x' % (v >> sh & 0xffff) for sh in range(112, 16, -16)]
        tail = str(ipaddress.IPv4Address(v & 0xffffffff))
        # compress the first longest run of zero groups among the six, if any
        best, cur = (0, 0), None
        for i, g in enumerate(groups + ['x']):
            if g == '0':
                cur = i if cur is None else cur
            else:
                if cur is not None and i - cur > best[1]:
                    best = (cur, i - cur)
                cur = None
        if best[1] >= 1 and rng.random() < 0.8:
            left, right = groups[:best[0]], groups[best[0] + best[1]:]
            return ':'.join(left) + '::' + ':'.join(right + [tail])
        return ':'.join(groups + [tail])
    # 'nolead': groups without leading zeros, no '::' compression
    return ':'.join('%x' % (v >> s & 0xffff) for s in range(112, -1, -16))


V6_STYLES = ['comp', 'expl', 'UPPER', 'v4tail', 'nolead']


def prefix_cases(rng, nrand):
    """(text, length, has_host_bits)"""
    out = []
    lens = [0, 1, 10, 32, 48, 56, 63, 64, 65, 72, 96, 112, 127, 128]
    fixed = [0, (1 << 128) - 1, 0x20010db8 << 96, 0xfe80 << 112, ((1 << 64) - 1) << 64, (1 << 64) - 1,
             0xfe80 << 112 | 1, 1 << 57, 1 << 64, (1 << 57) | (0x20010db8 << 96)]
    for base in fixed + [rng.getrandbits(128) for _ in range(nrand)]:
        for L in (lens if base in fixed[:4] else rng.sample(lens, 4)):
            mask = ((1 << 128) - 1) ^ ((1 << (128 - L)) - 1)
            for host in (False, True):
                v = base & mask
                if host:
                    v |= rng.getrandbits(128) & ~mask & ((1 << 128) - 1)
                style = rng.choice(V6_STYLES[:3] + ['nolead'])
                out.append(('%s/%d' % (v6_text(v, style, rng), L), L, bool(v & ~mask)))
        out.append((v6_text(base, 'comp', rng), 128, False))          # no mask: /128
    out.append(('2001:db8::/ffff:ffff:ffff:ffff::', 64, False))
    return out


def classify_prefix(p):
    """What the code learns about the prefix (the parameters of the model)."""
    import netaddr
    if not isinstance(p, str):
        return 'notstr', '-'
    if _n().is_valid_ipv4(p, False):
        return 'ipv4', '-'
    try:
        return 'net', netaddr.IPNetwork(p).first
    except (ValueError, netaddr.AddrFormatError):
        return 'bad', '-'


def classify_mac(m):
    import netaddr
    try:
        e = netaddr.EUI(m)
    except TypeError:
        return 'type', '-'
    except (ValueError, netaddr.AddrFormatError):
        return 'bad', '-'
    return str(e.version), int(e)


def impl_eui(p, m):
    """-> (result text, IPAddress or None)"""
    try:
        a = _n().get_ipv6_addr_by_EUI64(p, m)
    except Exception as e:
        return exc_name(e), None
    return 'v%d:%d' % (a.version, int(a)), a


def impl_macof(a):
    try:
        return str(int(_n().get_mac_addr_by_ipv6(a)))
    except Exception as e:
        return exc_name(e)


def eui_cases(ctx, full_ports=False):
    rng = ctx.rng
    quick = ctx.quick
    macs = mac_patterns(rng, 600 if quick else 20000)
    prefixes = prefix_cases(rng, 120 if quick else 3000)
    cases = []
    for i, mv in enumerate(macs):
        picks = [prefixes[(7 * i + k) % len(prefixes)] for k in range(3)] + [rng.choice(prefixes)]
        if i < 16:
            picks = prefixes[:112] + picks             # fixed MAC patterns against every fixed prefix
        for (pt, L, hb) in picks:
            style = MAC_STYLES[(i + L) % len(MAC_STYLES)]
            cases.append((pt, mac_render(mv, style), 'mac/%s' % style,
                          'len<=64' if L <= 64 else 'len>64', hb))
    for pt in BAD_PREFIXES + V4_PREFIXES:
        for m in ['00:16:3e:33:44:55', 0, 'zz', None]:
            cases.append((pt, m, 'mac/fixed', 'prefix/odd', False))
    for m in BAD_MACS:
        for pt in ['2001:db8::/64', '::/0', 'fe80::1/64', '::/64', 'ffff:ffff:ffff:ffff:ffff:ffff:ffff:ffff']:
            cases.append((pt, m, 'mac/odd', 'prefix/ok', False))
    return cases


def corr_eui(ctx, out):
    import netaddr
    cases = eui_cases(ctx)
    lines, meta = [], []
    for (p, m, mtag, ptag, hb) in cases:
        pk, pf = classify_prefix(p)
        mk, mv = classify_mac(m)
        lines.append(req('eui', pk, pf, mk, mv))
        meta.append((p, m, mtag, ptag, hb, pk, mk))
    replies = ctx.driver.ask_many(lines)
    follow, fmeta = [], []
    for (p, m, mtag, ptag, hb, pk, mk), rep in zip(meta, replies):
        ctx.evaluations += 1
        ctx.count('corr/eui/%s/%s/%s' % (ptag, 'hostbits' if hb else 'nohostbits', mtag.split('/')[1]))
        impl, a = impl_eui(p, m)
        ctx.count('corr/eui/out/' + impl.split(':')[0])
        case = {'kind': 'eui', 'prefix': enc(p), 'mac': enc(m)}
        if impl != rep:
            out.append(Disagreement(case, impl, rep))
        if (a is not None and mk == '48' and int(netaddr.EUI(m)) != 0) or a is None:
            ctx.nontrivial(('eui', repr(p), repr(m)))
        if a is not None:
            ctx.sample({'prefix': p, 'mac': m, 'implementation': str(a)}, 2)
            follow.append(req('macof', a.version, int(a)))
            fmeta.append((case, a))
    # the inverse on every produced address, and on arbitrary addresses
    rng = ctx.rng
    extra = [0, 1, (1 << 128) - 1, (1 << 64) - 1, 1 << 57, 1 << 41, 0xffffff0000000000, 0xffffff, 0xfffe000000,
             (1 << 32) - 1, 1 << 32, 0x020000000000] + [1 << i for i in range(128)]
    extra += [rng.getrandbits(128) for _ in range(1000 if ctx.quick else 40000)]
    for v in extra:
        ver = 4 if v < (1 << 32) and rng.random() < 0.5 else 6
        a = netaddr.IPAddress(v, ver)
        follow.append(req('macof', ver, v))
        fmeta.append(({'kind': 'macof', 'version': ver, 'value': v}, a))
    for (case, a), rep in zip(fmeta, ctx.driver.ask_many(follow)):
        ctx.evaluations += 1
        ctx.count('corr/macof/v%d' % a.version)
        impl = impl_macof(a)
        if impl != rep:
            c = dict(case)
            c['then'] = 'macof'
            out.append(Disagreement(c, impl, rep))
        if a.version == 6:
            ctx.nontrivial(('macof', int(a)))


# --------------------------------------------------------------------------
# host:port stream

NAME_POOL = ['localhost', 'server01', 'a', 'A.B', 'my-host.example.org', 'x_y', 'h', 'xn--bcher-kva.example',
             'host.', '0', '1e3', 'a]b', 'a%b', 'a b', 'é.example', 'www.EXAMPLE.com', 'a[b', 'ffff', 'dead.beef',
             '1.2.3', '1.2.3.4.5', '256.1.1.1', '01.2.3.4', 'a%25b', '%25', 'h%2580', 'a%3Ab', 'a+b', '%5Bx%5D', 'a%']
SCOPES = ['eth0', '1', 'en0', 'wlan-0_1', 'a.b', 'abcdefghijklmno', 'a:b', 'a[b', 'x y', 'Ethernet_2', 'é', '0',
          'br-ex', 'vlan.100', '~!@#$^&*()=+', '{}|\\;\'",<>/?`']


# zone ids: the host class allows any 1..15 characters except ']' and '%' (the split is at the last '%').
# Deterministic part: every numeric interface index 0..300 and ids that look like the payload of a
# percent-escape or another encoding (a parser that "decodes" the host must not change them).
ESCAPE_LIKE = ['25', '2', '5', '20', '3A', '3a', '5B', '5D', '5d', '2F', '00', '7e', '7E', 'u0025', 'x25', '0x25', '&#37;',
               '+', '\\', '\\x25', '&amp;', '=25']
SCOPE_FIXED = [str(i) for i in range(0, 301)] + ESCAPE_LIKE + [
    '2500', '25eth0', '252525', '2525', '25g0', '25.1', '025', '125', 'eth25', 'ens25', 'wlan25', '25:1', '25[', ' 25',
    '5D5B', '3A80', '20eth0', 'a+b', 'a b', 'lo', 'LO', 'Eth0', '25' * 7 + '2', 'a' * 15, '9' * 15]
SCOPE_ALPHA = ('abcdefghijklmnopqrstuvwxyzABCDEFGHIJKLMNOPQRSTUVWXYZ0123456789' * 2 +
               '._-~!@#$^&*()=+{}|\\;\'",<>/?`:[ ')
SCOPE_BASES = ['fe80::1', 'fe80::216:3eff:fe33:4455', '::1', 'FE80::A', 'fe80:0:0:0:0:0:0:1', 'ff02::1:ff00:1',
               '::ffff:1.2.3.4', '2001:db8::']
# not in the host class (is_valid_ipv6 is false or the scope is out of range): for the escape / malformed streams
SCOPED_INVALID = ['fe80::1%%25', 'fe80::1%a%25b', 'fe80::1%25%', '%25', 'fe80::1%25%25', 'fe80::1%', 'fe80::1%%',
                  'fe80::1%' + '2' * 16, 'fe80::g%25', '%25eth0', 'fe80::1%2%5']


def gen_scope(rng):
    r = rng.random()
    if r < 0.2:
        return rng.choice(SCOPES)
    if r < 0.4:
        return str(rng.randrange(0, 301))
    if r < 0.5:
        return rng.choice(SCOPE_FIXED)
    n = rng.randrange(1, 16)
    if r < 0.7:
        # starts like an escape payload, then anything
        pre = rng.choice(ESCAPE_LIKE)[:n]
        return pre + ''.join(rng.choice(SCOPE_ALPHA) for _ in range(n - len(pre)))
    return ''.join(rng.choice(SCOPE_ALPHA) for _ in range(n))


def fixed_scoped_hosts():
    """every fixed zone id on a rotating base address: (host, in the property's host class)"""
    for i, sc in enumerate(SCOPE_FIXED + SCOPES):
        yield SCOPE_BASES[i % len(SCOPE_BASES)] + '%' + sc
        if sc in ESCAPE_LIKE or sc.startswith('2'):
            yield SCOPE_BASES[(i + 3) % len(SCOPE_BASES)] + '%' + sc


def gen_name(rng):
    if rng.random() < 0.4:
        return rng.choice(NAME_POOL)
    labels = []
    for _ in range(rng.randrange(1, 4)):
        labels.append(''.join(rng.choice('abcdefghijklmnopqrstuvwxyzABCXYZ0123456789-_')
                              for _ in range(rng.randrange(1, 9))))
    return '.'.join(labels)


def gen_v4(rng):
    return '.'.join(str(rng.choice([0, 1, 9, 10, 99, 100, 127, 199, 200, 249, 250, 255, rng.randrange(256)]))
                    for _ in range(4))


def gen_v6_value(rng):
    r = rng.random()
    if r < 0.15:
        return rng.choice([0, 1, (1 << 128) - 1, 0xfe80 << 112 | 1, 0xffff << 32 | 0x01020304, 1 << 127,
                           0x20010db8 << 96, 0x20010db8 << 96 | 1, 0x64ff9b << 96 | 0xc0000201])
    if r < 0.55:
        # sparse: a few non-zero groups so that '::' lands in different places
        v = 0
        for g in rng.sample(range(8), rng.randrange(1, 5)):
            v |= rng.choice([1, 0xffff, 0xa, 0x100, rng.getrandbits(16)]) << (16 * g)
        return v
    return rng.getrandbits(128)


def gen_v6(rng, scoped=None):
    t = v6_text(gen_v6_value(rng), rng.choice(V6_STYLES), rng)
    if scoped is None:
        scoped = rng.random() < 0.4
    if scoped:
        t += '%' + gen_scope(rng)
    return t


def gen_host(rng):
    fam = rng.choice(['name', 'v4', 'v6'])
    if fam == 'name':
        return fam, gen_name(rng)
    if fam == 'v4':
        return fam, gen_v4(rng)
    return fam, gen_v6(rng)


PORT_EDGE = [0, 1, 7, 22, 79, 80, 81, 443, 1023, 1024, 8080, 9999, 10000, 32767, 32768, 49151, 49152, 65534, 65535]
DEFAULTS = [None, 0, 80, 65535, '8080', 1234, ' 99 ', -1, 'x', '']
PORT_TEXTS = ['', ' 80 ', '+80', '-80', '8_0', '_80', '80_', '8__0', '0x10', '\t80\n', '\x1c80', '+ 80', '+', '-', '0080',
              '1e3', '80.0', '9' * 4300, '9' * 4301, '0' * 4301, '_'.join('9' * 30), ' ', '\x0b7\x0c', '8 0', '00', '٣',
              '80\xa0', '\x1c80\xa0', '-0', '+_1', '1_', 'a', '99999999999999999999']
ALPHA_BAD = '[]::%.09af _+-'


def mutate(rng, s, alphabet):
    s = list(s)
    for _ in range(rng.randrange(1, 3)):
        r = rng.random()
        if r < 0.35 and s:
            del s[rng.randrange(len(s))]
        elif r < 0.7:
            s.insert(rng.randrange(len(s) + 1), rng.choice(alphabet))
        elif s:
            s[rng.randrange(len(s))] = rng.choice(alphabet)
    return ''.join(s)


def dflt_field(d):
    if d is None:
        return 'N'
    if isinstance(d, int):
        return 'i:%d' % d
    return 's:' + hexs(d)


def impl_php(address, d):
    try:
        h, p = _n().parse_host_port(address, default_port=d)
    except Exception as e:
        return exc_name(e)
    return 'ok %s %s' % ('N' if h is None else hexs(h), 'N' if p is None else p)


def impl_esc(h):
    n = _n()
    try:
        return '%d %s' % (1 if n.is_valid_ipv6(h) else 0, hexs(n.escape_ipv6(h)))
    except Exception as e:
        return exc_name(e)


def hostport_cases(ctx):
    """yields (address, default, tag)"""
    rng = ctx.rng
    n = _n()
    nrand = 5000 if ctx.quick else 80000
    for _ in range(nrand):
        fam, h = gen_host(rng)
        p = rng.choice(PORT_EDGE) if rng.random() < 0.3 else rng.randrange(65536)
        d = rng.choice(DEFAULTS)
        r = rng.random()
        if r < 0.6:
            yield n.escape_ipv6(h) + ':' + str(p), d, fam + '/port'
        elif r < 0.85:
            yield n.escape_ipv6(h), d, fam + '/default'
        else:
            yield h, d, fam + '/raw'               # unescaped (IPv6 without brackets -> default port)
    if not ctx.quick:
        pool = {'name': [gen_name(rng) for _ in range(64)], 'v4': [gen_v4(rng) for _ in range(64)],
                'v6': [gen_v6(rng) for _ in range(64)]}
        for p in range(65536):
            for fam in ('name', 'v4', 'v6'):
                yield n.escape_ipv6(pool[fam][p % 64]) + ':' + str(p), None, fam + '/allports'
    for i, h in enumerate(fixed_scoped_hosts()):
        e = n.escape_ipv6(h)
        yield e + ':' + str(PORT_EDGE[i % len(PORT_EDGE)]), DEFAULTS[i % 6], 'v6/scope-fixed/port'
        yield e, DEFAULTS[(i + 1) % 6], 'v6/scope-fixed/default'
        yield h, DEFAULTS[(i + 2) % 6], 'v6/scope-fixed/raw'
    for h in SCOPED_INVALID + ['a%25b', 'fe80::1%25eth0', 'fe80::1%2525', 'x%5D']:
        for a in ['[' + h + ']:80', '[' + h + ']', h + ':80', h]:
            yield a, rng.choice(DEFAULTS[:6]), 'odd/percent'
    for pt in PORT_TEXTS:
        for a in ['h:' + pt, '[::1]:' + pt, '[fe80::1%eth0]x:' + pt + ':9']:
            yield a, rng.choice(DEFAULTS), 'odd/porttext'
        yield 'h', pt, 'odd/default-text'
    for a in [None, '', '[', ']', '[]', '[]:80', '[::1', '[::1]]:80', '[[::1]]:80', 'a:b:c', '::', ':', ':80', '[::1]:80:90',
              '[::1]x:80:90', 'h:80:', 'h::80', '[a]b]', '[a]:', '[a]::5', '[', '[]]', 'h:', '[x]y', '1.2.3.4:', 'fe80::1%eth0:80',
              '[fe80::1%]]:80', '[fe80::1%a]b]:80']:
        for d in DEFAULTS[:6]:
            yield a, d, 'odd/shape'
    for _ in range(2000 if ctx.quick else 50000):
        fam, h = gen_host(rng)
        base = n.escape_ipv6(h) + rng.choice(['', ':' + str(rng.randrange(70000))])
        yield mutate(rng, base, ALPHA_BAD), rng.choice(DEFAULTS), 'mutated'
    for _ in range(1000 if ctx.quick else 20000):
        yield ''.join(rng.choice(ALPHA_BAD) for _ in range(rng.randrange(0, 10))), rng.choice(DEFAULTS), 'random'


def esc_cases(ctx):
    rng = ctx.rng
    alpha = '0123456789abcdefABCDEFg:.%[] \x00'
    for h in NAME_POOL + ['', '%eth0', '::1%', 'fe80::1%' + 'a' * 15, 'fe80::1%' + 'a' * 16, 'fe80::1%a%b', '::1\n', '::1\x00',
                          'fe80::1%\x00', '::', ':', ':::', '1:2:3:4:5:6:7:8', '1:2:3:4:5:6:7:8:9', '1:2:3:4:5:6:7::',
                          '1:2:3:4:5:6:7:8::', '::2:3:4:5:6:7:8', '::1:2:3:4:5:6:7:8', '1:2:3:4:5:6:1.2.3.4',
                          '1:2:3:4:5:6:7:1.2.3.4', '::1.2.3.4', '::1.2.3', '::1.2.3.4.', '::01.2.3.4', '::1.2.3.256',
                          '::1.2.3.4.5', '::.1.2.3', '::1..2.3', '12345::', '::fffff', '::g', '1::1.2.3.4:5', '::é', '1:', ':1', '1::',
                          '::0x1', '1.2.3.4', '::1.2.3.4:', '1:2:3:4:5:6:7:1.2', '::ffff:1.2.3.4', '::00.0.0.0', '::0.0.0.0',
                          'fe80::1%]', 'fe80::1%a]b', 'fe80::1%[', '1:2::3:4::5', ':1::', '::1:', '1::2:', 'a:b', '1:2:3:4:5:6:7',
                          '0:0:0:0:0:0:0:0', 'FFFF:ffff::', '::255.255.255.255', '::256.0.0.0', '::1.2.3.04', '1::1.2.3.4',
                          '1:2:3:4:5::1.2.3.4', '1:2:3:4:5:6::1.2.3.4', '1:2:3:4:5:6:7::1.2.3.4', '::1.2.3.4::']:
        yield h, 'fixed'
    for h in fixed_scoped_hosts():
        yield h, 'v6/scope-fixed'
    for h in SCOPED_INVALID:
        yield h, 'fixed'
    for _ in range(4000 if ctx.quick else 60000):
        fam, h = gen_host(rng)
        yield h, fam
        if rng.random() < 0.7:
            yield mutate(rng, h, alpha), 'mutated/' + fam
    for _ in range(1000 if ctx.quick else 20000):
        yield ''.join(rng.choice(alpha) for _ in range(rng.randrange(0, 12))), 'random'


def corr_hostport(ctx, out):
    cases = list(hostport_cases(ctx))
    lines = [req('php', 'N' if a is None else hexs(a), dflt_field(d)) for a, d, _ in cases]
    for (a, d, tag), rep in zip(cases, ctx.driver.ask_many(lines)):
        ctx.evaluations += 1
        ctx.count('corr/php/' + tag)
        if rep == 'unmodelled':
            ctx.count('corr/php/skipped-unmodelled')
            continue
        impl = impl_php(a, d)
        ctx.count('corr/php/out/' + impl.split(' ')[0])
        if a:
            ctx.nontrivial(('php', a, repr(d)))
        ctx.sample({'address': a, 'default_port': d, 'implementation': impl}, 4)
        if impl != rep:
            out.append(Disagreement({'kind': 'php', 'address': a, 'default': d}, impl, rep))
    cases = list(esc_cases(ctx))
    lines = [req('esc', hexs(h)) for h, _ in cases]
    for (h, tag), rep in zip(cases, ctx.driver.ask_many(lines)):
        ctx.evaluations += 1
        ctx.count('corr/esc/' + tag)
        impl = impl_esc(h)
        ctx.count('corr/esc/valid=%s' % impl[:1])
        if h:
            ctx.nontrivial(('esc', h))
        if impl != rep:
            out.append(Disagreement({'kind': 'esc', 'host': h}, impl, rep))


# --------------------------------------------------------------------------
# URL stream

SCHEMES = [None, 'http', 'https', 'ftp', 'HTTP', 'git+ssh', 'x-y.z', 'file', 'mailto', 'urn', '1http', 'ws', '']
NETLOCS = [None, '', 'host', 'host:80', 'user@host', 'user:pw@host:8080', '[::1]', '[::1]:443',
           'u:p@[fe80::1%25eth0]:65535', 'h:99999', 'h:', 'Host.Example.COM', '[2001:db8::1]:8080', 'u@[::ffff:1.2.3.4]',
           'a@b@c:1', '[v1.x]', 'h:0', 'h:-1', 'h:x', '[::1', 'h]', '[::1]x', '1.2.3.4:80', 'u:p:q@h']
PATHS = ['', '/', '/a/b', '/a;p=1', 'rel/path', '/a%20b', '//x', '/a b', '/%3F', '/a\tb', '/.', 'p:q']
QUERIES = [None, '', 'a=1', 'a=1&a=2', 'a=1&b=2&a=3', 'a=&b', 'a=1;b=2', 'a=%26&a=+x', 'a=1?b=2', 'a=1&a=2&a=3&b=4&b=5&c',
           '=x&=y', 'a=1&&a=2', 'A=1&a=2', 'k=v=w&k=z', 'é=1&é=2', 'a+b=1&a%20b=2']
FRAGS = [None, '', 'frag', 'f?x=1', 'f#g', 'a=1&a=2']


def build_url(s, nl, p, q, f):
    u = ''
    if s is not None:
        u += s + ':'
    if nl is not None:
        u += '//' + nl
        if p and not p.startswith('/'):
            p = '/' + p
    u += p
    if q is not None:
        u += '?' + q
    if f is not None:
        u += '#' + f
    return u


def url_cases(ctx):
    rng = ctx.rng
    n = 2500 if ctx.quick else 40000
    if not ctx.quick:
        for s, nl, f in itertools.product(SCHEMES, NETLOCS, FRAGS):
            yield build_url(s, nl, rng.choice(PATHS), rng.choice(QUERIES), f), rng.choice(['', '', 'ftp']), \
                rng.random() < 0.5, 'grid'
    for _ in range(n):
        u = build_url(rng.choice(SCHEMES), rng.choice(NETLOCS), rng.choice(PATHS), rng.choice(QUERIES), rng.choice(FRAGS))
        tag = 'built'
        r = rng.random()
        if r < 0.15:
            u = mutate(rng, u, ':/?#[]@&=;% \t\n\x00a1')
            tag = 'mutated'
        elif r < 0.2:
            u = rng.choice([' ', '\t', '\x00', '\n']) + u + rng.choice([' ', '\n', ''])
            tag = 'padded'
        yield u, rng.choice(['', '', '', 'ftp', 'HTTP']), rng.random() < 0.5, tag
    for _ in range(800 if ctx.quick else 10000):
        yield ''.join(rng.choice(':/?#[]@&=;%ab1 \t') for _ in range(rng.randrange(0, 14))), '', rng.random() < 0.5, 'random'


def five(r):
    return [r.scheme, r.netloc, r.path, r.query, r.fragment]


def show_params(d):
    """canonical text of a params() result, insertion order kept; anything that is not a str / list of
    str (only possible when a result was tampered with) is shown by its repr so that it cannot match"""
    def hx(x):
        return hexs(x) if isinstance(x, str) and valid_text(x) else 'R' + repr(x).encode('utf-8', 'replace').hex()
    if not d:
        return '-'
    parts = []
    for k, v in d.items():
        if isinstance(v, list):
            parts.append('%s:m:%s' % (hx(k), '|'.join(hx(x) for x in v)))
        else:
            parts.append('%s:o:%s' % (hx(k), hx(v)))
    return ','.join(parts)


def valid_text(s):
    try:
        s.encode('utf-8')
        return True
    except UnicodeEncodeError:
        return False


def corr_url(ctx, out):
    n = _n()
    cases = list(url_cases(ctx))
    lines, meta = [], []
    for (u, sch, af, tag) in cases:
        ctx.evaluations += 1
        ctx.count('corr/url/' + tag)
        case = {'kind': 'url', 'url': u, 'scheme': sch, 'allow_fragments': af}
        try:
            std = five(parse.urlsplit(u, sch, af))
            std_e = None
        except Exception as e:
            std, std_e = None, exc_name(e)
        try:
            r = n.urlsplit(u, sch, af)
            impl = five(r)
        except Exception as e:
            r, impl = None, exc_name(e)
        if std is None:
            # the standard library raised before the wrapper's own code ran: nothing for the model to do
            ctx.count('corr/url/stdlib-raised')
            if impl != std_e:
                out.append(Disagreement(case, impl, std_e, where='correspondence (stdlib raised)'))
            continue
        if r is not None and (r.query or r.fragment or r.netloc):
            ctx.nontrivial(('url', u, sch, af))
        ctx.sample({'url': u, 'allow_fragments': af, 'implementation': impl}, 6)
        lines.append(req('url', 1 if af else 0, *[hexs(x) for x in std]))
        meta.append((case, impl, r))
    plines, pmeta = [], []
    for (case, impl, r), rep in zip(meta, ctx.driver.ask_many(lines)):
        model = [common.unhexs(x) for x in rep.split(' ')] if rep != 'bad-request' else rep
        if impl != model:
            out.append(Disagreement(case, impl, model))
        if r is None:
            continue
        # the model's five components are also what every clone of the result must carry
        for kind in clone_kinds():
            ctx.evaluations += 1
            try:
                c = five(make_clone(r, kind))
            except Exception as e:
                c = exc_name(e)
            if c != model:
                out.append(Disagreement(dict(case, clone=kind), '%s of the result: %r' % (kind, c), model))
                break
        try:
            qsl = parse.parse_qsl(r.query)
        except Exception:
            continue
        if not all(valid_text(k) and valid_text(v) for k, v in qsl):
            continue
        pairs = ','.join('%s=%s' % (hexs(k), hexs(v)) for k, v in qsl) or '-'
        for collapse in (True, False):
            plines.append(req('params', hexs(r.query), 1 if collapse else 0, pairs))
            pmeta.append((case, r, collapse, len(qsl) - len(dict(qsl))))
    for (case, r, collapse, dup), rep in zip(pmeta, ctx.driver.ask_many(plines)):
        ctx.evaluations += 1
        ctx.count('corr/params/%s/%s' % ('collapse' if collapse else 'all', 'repeated' if dup else 'norepeat'))
        try:
            impl = show_params(r.params(collapse=collapse))
        except Exception as e:
            impl = exc_name(e)
        if dup:
            ctx.nontrivial(('params', case['url'], collapse))
        if impl != rep:
            c = dict(case)
            c.update(kind='params', collapse=collapse)
            out.append(Disagreement(c, impl, rep))


# --------------------------------------------------------------------------
# call sequences: every function of the group is stateless, so a result must not depend on what callers
# did with earlier results.  A sequence interleaves calls (on a reused result object, on a fresh urlsplit of
# the same URL, on another URL with the same query) with mutations of previously returned containers.

SEQ_QUERIES = ['a=1&a=2&b=3&a=4', 'token=s3cr3t&x=1', 'a=1', 'k=v&k=w', 'a=&b', 'x=1&y=2&z=3&x=4&y=5', 'é=1&é=2',
               'a=1;b=2&a=3', '=x&=y', 'q=%26&q=+x&r=1']
SEQ_SHAPES = ['http://h/p?%s', 'https://other:8443/x/y?%s#frag', '//h?%s', '?%s', 'rabbit://u:p@[::1]:5672/v?%s']
MUT_OPS = ['clear', 'popfirst', 'poplast', 'set-existing', 'set-new', 'append', 'list-reverse', 'list-clear',
           'list-setitem', 'update', 'setdefault', 'del-all-but-one', 'value-to-list']
_nonce = [0]


def gen_seq(rng, long=False):
    qs = rng.sample(SEQ_QUERIES, 2)
    urls = []
    for q in qs:
        for sh in rng.sample(SEQ_SHAPES, 2):
            urls.append(sh % q)
    if rng.random() < 0.3:
        urls.append(rng.choice(['http://h/p', 'http://h/p?', '//h#f']))       # empty query: the `{}` branch
    steps = []
    for _ in range(rng.randrange(3, 25 if long else 10)):
        if not steps or rng.random() < 0.55:
            steps.append(['call', rng.randrange(len(urls)), rng.random() < 0.5, rng.random() < 0.4])
        else:
            steps.append(['mut', rng.randrange(8), rng.choice(MUT_OPS)])
    steps.append(['call', rng.randrange(len(urls)), steps[0][2] if steps[0][0] == 'call' else True, False])
    return {'kind': 'params-seq', 'urls': urls, 'steps': steps}


def with_nonce(u, nonce):
    """Append a parameter that makes the query string unique to this evaluation (the search shares one
    interpreter with thousands of other cases; a replay runs the literal URLs in a fresh interpreter)."""
    if not nonce:
        return u
    head, sep, frag = u.partition('#')
    if '?' not in head or head.endswith('?'):
        return u
    return head + '&zz%s=1' % nonce + sep + frag


def apply_mutation(d, op):
    """what a consumer may do with "its" dictionary"""
    keys = list(d)
    lists = [k for k in keys if isinstance(d[k], list)]
    if op == 'clear':
        d.clear()
    elif op == 'popfirst' and keys:
        d.pop(keys[0])
    elif op == 'poplast' and keys:
        d.popitem()
    elif op == 'set-existing' and keys:
        d[keys[0]] = 'CHANGED'
    elif op == 'set-new':
        d['injected'] = 'yes'
    elif op == 'append' and lists:
        d[lists[0]].append('EXTRA')
    elif op == 'list-reverse' and lists:
        d[lists[0]].reverse()
    elif op == 'list-clear' and lists:
        del d[lists[0]][:]
    elif op == 'list-setitem' and lists:
        d[lists[0]][0] = 'CHANGED'
    elif op == 'update':
        d.update({'u1': '1', 'u2': ['2']})
    elif op == 'setdefault':
        d.setdefault('sd', []).append('x')
    elif op == 'del-all-but-one':
        for k in keys[1:]:
            del d[k]
    elif op == 'value-to-list' and keys:
        d[keys[-1]] = [d[keys[-1]], 'more']


def run_seq(case, nonce=''):
    """Runs the sequence on the implementation.  Returns the per-call records
    (url, query, collapse, snapshot-at-call-time as text, identity problems)."""
    import copy
    n = _n()
    urls = [with_nonce(u, nonce) for u in case['urls']]
    objs = {}
    results = []            # every returned dict, kept alive so that ids stay distinct
    seen_ids = {}           # id(mutable) -> call number that returned it
    keep = []
    records = []
    for st in case['steps']:
        if st[0] == 'call':
            _, ui, collapse, reuse = st
            ui %= len(urls)
            if reuse and ui in objs:
                r = objs[ui]
            else:
                r = n.urlsplit(urls[ui])
                objs[ui] = r
            try:
                d = r.params(collapse=collapse)
            except Exception as e:
                records.append({'url': urls[ui], 'query': r.query, 'collapse': collapse, 'got': exc_name(e),
                                'snapshot': None, 'shared': None})
                continue
            snap = copy.deepcopy(d) if isinstance(d, dict) else d
            shared = None
            if isinstance(d, dict):
                for obj, what in [(d, 'dict')] + [(v, 'list for %r' % k) for k, v in d.items() if isinstance(v, list)]:
                    if id(obj) in seen_ids:
                        shared = 'call #%d returned the very same %s object as call #%d' % (
                            len(records), what, seen_ids[id(obj)])
                        break
                for obj in [d] + [v for v in d.values() if isinstance(v, list)]:
                    seen_ids.setdefault(id(obj), len(records))
                    keep.append(obj)            # alive until the end, so that an id is never reused
            results.append(d)
            records.append({'url': urls[ui], 'query': r.query, 'collapse': collapse,
                            'got': show_params(snap) if isinstance(snap, dict) else repr(snap),
                            'snapshot': snap, 'shared': shared})
        elif results:
            d = results[-1 - (st[1] % len(results))]
            if isinstance(d, dict):
                try:
                    apply_mutation(d, st[2])
                except Exception:
                    pass
    return records


def oracle_seq(case, nonce=''):
    """first wrong value (the property's own clause) if any, else the first shared mutable object"""
    return judge_seq(run_seq(case, nonce))


def judge_seq(recs):
    for i, rec in enumerate(recs):
        if rec['snapshot'] is None:
            return 'call #%d params(collapse=%s) on %r raised %s' % (i, rec['collapse'], rec['url'], rec['got'])
        want = spec_params(parse.parse_qsl(rec['query']), rec['collapse']) if rec['query'] else {}
        got = rec['snapshot']
        if not isinstance(got, dict) or got != want or list(got) != list(want):
            return 'call #%d: params(collapse=%s) on %r = %r, expected %r' % (i, rec['collapse'], rec['url'], got, want)
    for rec in recs:
        if rec['shared']:
            return 'shared object: ' + rec['shared'] + ' (%r): results of different calls share a mutable object' % rec['url']
    return None


def oracle_obj_seq(case):
    """get_ipv6_addr_by_EUI64 / get_mac_addr_by_ipv6 return mutable netaddr objects: a caller changing one
    must not change what the next call returns."""
    import netaddr
    n = _n()
    p, mv = case['prefix'], case['mac_int']
    m = mac_render(mv, 'colon')
    want = int(ipaddress.IPv6Network(p, strict=False).network_address) | int.from_bytes(iid_bytes(mv), 'big')
    a1 = n.get_ipv6_addr_by_EUI64(p, m)
    a1.value = 5
    a2 = n.get_ipv6_addr_by_EUI64(p, m)
    if a2 is a1 or int(a2) != want:
        return 'second get_ipv6_addr_by_EUI64(%r, %r) = %s after the first result was modified, expected %s' % (
            p, m, a2, ipaddress.IPv6Address(want))
    e1 = n.get_mac_addr_by_ipv6(a2)
    e1.value = 0
    e1.dialect = netaddr.mac_cisco
    e2 = n.get_mac_addr_by_ipv6(a2)
    if e2 is e1 or int(e2) != mv or e2.dialect is not netaddr.mac_unix_expanded:
        return 'second get_mac_addr_by_ipv6(%s) = %s (%s) after the first result was modified, MAC was %012x' % (
            a2, e2, e2.dialect.__name__, mv)
    t1 = n.parse_host_port('[::1]:80')
    u1 = n.urlsplit('http://h/p?a=1')
    if not isinstance(t1, tuple) or not isinstance(u1, tuple):
        return 'parse_host_port / urlsplit no longer return (immutable) tuples: %r %r' % (type(t1), type(u1))
    return None


def next_nonce():
    _nonce[0] += 1
    return 'n%d' % _nonce[0]


def fresh_oracle(case, budget=20):
    """Evaluate the property oracle on `case` in a fresh interpreter (no state left by earlier cases).
    Returns the failure text, None when the case passes, or 'unknown' on timeout / trouble."""
    import json
    import subprocess
    import sys
    import tempfile
    import shutil
    code = ('import sys, json; sys.path.insert(0, %r); sys.path.insert(0, %r); import common; '
            'from props import C15; print("RESULT " + json.dumps(C15.run_oracle(json.loads(sys.argv[1]))))'
            % (common.REPO, common.VERIF + '/harness'))
    pc = tempfile.mkdtemp(prefix='verif-pyc.')
    try:
        p = subprocess.run([sys.executable, '-X', 'pycache_prefix=' + pc, '-c', code, json.dumps(case)],
                           stdout=subprocess.PIPE, stderr=subprocess.PIPE, timeout=budget)
        for line in p.stdout.decode('utf-8', 'replace').splitlines():
            if line.startswith('RESULT '):
                return json.loads(line[7:])
    except Exception:
        pass
    finally:
        shutil.rmtree(pc, ignore_errors=True)
    return 'unknown'


def shrink_seq(case, t_end):
    """Fewer steps / URLs; every evaluation uses fresh query strings, the final answer is confirmed in a
    fresh interpreter (falls back to the unshrunk case if the small one does not reproduce there)."""
    import time

    def klass(why):
        return None if why is None else ('shared' if why.startswith('shared object') else 'value')
    k0 = klass(oracle_seq(case, next_nonce()))

    def still(steps):
        if time.time() > t_end:
            return False
        return klass(oracle_seq(dict(case, steps=steps), next_nonce())) == k0
    small = dict(case, steps=common.shrink_list(case['steps'], still, max_steps=120))
    used = sorted({st[1] % len(case['urls']) for st in small['steps'] if st[0] == 'call'})
    remap = {u: i for i, u in enumerate(used)}
    cand = dict(small, urls=[case['urls'][u] for u in used],
                steps=[[st[0], remap[st[1] % len(case['urls'])]] + st[2:] if st[0] == 'call' else st
                       for st in small['steps']])
    if klass(oracle_seq(cand, next_nonce())) == k0:
        small = cand
    why = fresh_oracle(small)
    if why and why != 'unknown':
        return small, why
    why = fresh_oracle(case)
    if why and why != 'unknown':
        # the state is not keyed on the query (the in-process shrink went too far): shrink again, each
        # candidate in its own interpreter, within a wall-clock budget
        t_fresh_end = min(t_end, time.time() + 45)

        def still_fresh(steps):
            if time.time() > t_fresh_end:
                return False
            w = fresh_oracle(dict(case, steps=steps), budget=10)
            return bool(w) and w != 'unknown' and klass(w) == klass(why)
        steps = common.shrink_list(case['steps'], still_fresh, max_steps=60)
        c2 = dict(case, steps=steps)
        w2 = fresh_oracle(c2)
        if w2 and w2 != 'unknown':
            return c2, w2
        return case, why
    return small, oracle_seq(small, next_nonce()) or 'fails only after earlier calls in the same interpreter'


def corr_seq(ctx, out):
    rng = ctx.rng
    cases = [gen_seq(rng, long=(i % 5 == 0)) for i in range(250 if ctx.quick else 5000)]
    lines, meta = [], []
    for case in cases:
        nonce = next_nonce()
        recs = run_seq(case, nonce)
        for i, rec in enumerate(recs):
            if rec['snapshot'] is None or not isinstance(rec['snapshot'], dict):
                out.append(Disagreement(case, rec['got'], 'a dict', where='correspondence (call #%d)' % i))
                continue
            try:
                qsl = parse.parse_qsl(rec['query'])
            except Exception:
                continue
            pairs = ','.join('%s=%s' % (hexs(k), hexs(v)) for k, v in qsl) or '-'
            lines.append(req('params', hexs(rec['query']), 1 if rec['collapse'] else 0, pairs))
            meta.append((case, i, rec))
        nmut = sum(1 for st in case['steps'] if st[0] == 'mut')
        ctx.count('corr/params-seq/%s' % ('with-mutation' if nmut else 'calls-only'))
        if nmut and len(recs) >= 2:
            ctx.nontrivial(('params-seq', repr(case['urls']), repr(case['steps'])))
    bad = set()
    for (case, i, rec), rep in zip(meta, ctx.driver.ask_many(lines)):
        ctx.evaluations += 1
        ctx.count('corr/params-seq/call/%s' % ('collapse' if rec['collapse'] else 'all'))
        if rec['got'] != rep and id(case) not in bad:
            bad.add(id(case))
            out.append(Disagreement(case, 'call #%d on %r: %s' % (i, rec['url'], rec['got']), rep))
    ctx.sample({'urls': cases[0]['urls'], 'steps': cases[0]['steps']}, 8)


# --------------------------------------------------------------------------
# calling convention and object protocols
#
# The pinned public signatures (clean tree, written out here as data - never read from the tree under test).
# REQ marks a parameter without default.  Every legal way of passing the same logical arguments must give
# the same answer: a positional prefix of any length, the rest by keyword in any order, optional
# parameters that have their default value passed or omitted.

REQ = '<required>'
PINNED = {
    'parse_host_port': [('address', REQ), ('default_port', None)],
    'escape_ipv6': [('address', REQ)],
    'urlsplit': [('url', REQ), ('scheme', ''), ('allow_fragments', True)],
    'get_ipv6_addr_by_EUI64': [('prefix', REQ), ('mac', REQ)],
    'get_mac_addr_by_ipv6': [('ipv6', REQ), ('dialect', 'mac_unix_expanded')],      # netaddr.<name>
    'params': [('collapse', True)],                                                   # method of the urlsplit result
}
DIALECTS = ['mac_unix_expanded', 'mac_cisco', 'mac_bare', 'mac_eui48', 'mac_unix', 'mac_pgsql']


def same_value(a, b):
    return type(a) is type(b) and a == b


def all_forms(fn, logical):
    """every legal call form for the logical arguments: {'pos': n positional, 'kw': [names in order]}"""
    params = PINNED[fn]
    forms = []
    for npos in range(len(params) + 1):
        rest = params[npos:]
        must = [nm for nm, d in rest if d is REQ or not same_value(logical[nm], d)]
        may = [nm for nm, d in rest if not (d is REQ or not same_value(logical[nm], d))]
        for k in range(len(may) + 1):
            for extra in itertools.combinations(may, k):
                names = must + list(extra)
                perms = itertools.permutations(names) if len(names) <= 3 else [names, names[::-1]]
                for perm in perms:
                    forms.append({'pos': npos, 'kw': list(perm)})
    return forms


def canonical_form(fn, logical):
    """the one form the rest of this harness uses (all positional)"""
    return {'pos': len(PINNED[fn]), 'kw': []}


def resolve(fn, name, value):
    if fn == 'get_mac_addr_by_ipv6' and name == 'dialect':
        import netaddr
        return getattr(netaddr, value)
    if fn == 'get_mac_addr_by_ipv6' and name == 'ipv6':
        import netaddr
        return netaddr.IPAddress(value, 6)
    return value


def invoke(fn, logical, form, target=None):
    """call the implementation's `fn` with the logical arguments laid out as `form` says"""
    params = PINNED[fn]
    f = getattr(target, 'params') if fn == 'params' else getattr(_n(), fn)
    args = [resolve(fn, nm, logical[nm]) for nm, _ in params[:form['pos']]]
    kwargs = {nm: resolve(fn, nm, logical[nm]) for nm in form['kw']}
    return f(*args, **kwargs)


def form_text(fn, logical, form):
    params = PINNED[fn]
    parts = [repr(logical[nm]) for nm, _ in params[:form['pos']]] + ['%s=%r' % (nm, logical[nm]) for nm in form['kw']]
    return '%s(%s)' % (fn, ', '.join(parts))


def result_text(fn, r):
    """canonical text of a result, the same as the model driver's reply for that function"""
    if isinstance(r, Exception):
        return exc_name(r)
    if fn == 'parse_host_port':
        h, p = r
        return 'ok %s %s' % ('N' if h is None else hexs(h), 'N' if p is None else p)
    if fn == 'escape_ipv6':
        return hexs(r)
    if fn == 'urlsplit':
        return ' '.join(hexs(x) for x in five(r))
    if fn == 'get_ipv6_addr_by_EUI64':
        return 'v%d:%d' % (r.version, int(r))
    if fn == 'get_mac_addr_by_ipv6':
        return str(int(r))
    if fn == 'params':
        return show_params(r)
    return repr(r)


def try_invoke(fn, logical, form, target=None):
    try:
        return invoke(fn, logical, form, target)
    except Exception as e:
        return e


def form_cases(ctx, per_fn):
    """logical argument sets per function, each with what the PROPERTY says the answer is (`expect`)"""
    rng = ctx.rng
    import netaddr
    for i in range(per_fn):
        fam, h = gen_host(rng)
        if fam == 'name' and (':' in h or h.startswith('[')):
            continue
        if fam == 'v6' and ']' in h.rpartition('%')[2]:
            continue
        esc = '[%s]' % h if fam == 'v6' else h
        d = [None, 1234, 0, 65535, '8080', None][i % 6]
        port = None if i % 2 else rng.choice(PORT_EDGE)
        want_port = port if port is not None else (None if d is None else int(d))
        yield {'kind': 'form', 'fn': 'parse_host_port',
               'args': {'address': esc if port is None else '%s:%d' % (esc, port), 'default_port': d},
               'expect': [h, want_port]}
        yield {'kind': 'form', 'fn': 'escape_ipv6', 'args': {'address': h}, 'expect': esc}
    urls = list(itertools.islice(url_cases(ctx), per_fn))
    for j, (u, sch, af, tag) in enumerate(urls):
        yield {'kind': 'form', 'fn': 'urlsplit', 'args': {'url': u, 'scheme': sch, 'allow_fragments': af}}
        if j % 3 == 0:
            try:
                parse.urlsplit(u)
            except ValueError:
                continue
            yield {'kind': 'form', 'fn': 'params', 'url': u, 'args': {'collapse': bool(j % 2)}}
    macs = mac_patterns(rng, per_fn // 4)
    for i, mv in enumerate(rng.sample(macs, min(len(macs), per_fn))):
        net = (rng.getrandbits(64) << 64) if i % 3 else (0x20010db8 << 96)
        L = [64, 48, 56, 10, 0, 63][i % 6]
        net &= ((1 << 128) - 1) ^ ((1 << (128 - L)) - 1)
        addr = net | int.from_bytes(iid_bytes(mv), 'big')
        yield {'kind': 'form', 'fn': 'get_ipv6_addr_by_EUI64',
               'args': {'prefix': '%s/%d' % (ipaddress.IPv6Address(net).compressed, L), 'mac': mac_render(mv, 'colon')},
               'expect': addr}
        dialect = DIALECTS[i % len(DIALECTS)]
        yield {'kind': 'form', 'fn': 'get_mac_addr_by_ipv6', 'args': {'ipv6': addr, 'dialect': dialect},
               'expect': [mv, str(netaddr.EUI(mv, dialect=getattr(netaddr, dialect)))]}


def form_target(case):
    if case['fn'] == 'params':
        return _n().urlsplit(case['url'])
    return None


def judge_form(case, r):
    """is result `r` what the property says for the logical arguments of `case`? -> None or a description"""
    fn, a = case['fn'], case['args']
    if fn == 'urlsplit':
        try:
            std = parse.urlsplit(a['url'], a['scheme'], a['allow_fragments'])
        except Exception as e:
            return None if exc_name(r) == exc_name(e) else 'got %r, urllib.parse.urlsplit raises %s' % (r, exc_name(e))
        if isinstance(r, Exception):
            return 'raised %s: %s' % (exc_name(r), r)
        if five(r) != five(std):
            return 'components %r, urllib.parse gives %r' % (five(r), five(std))
        return None
    if isinstance(r, Exception):
        return 'raised %s: %s' % (exc_name(r), r)
    if fn == 'parse_host_port':
        want = tuple(case['expect'])
        return None if r == want and type(r[1]) is type(want[1]) else 'returned %r, expected %r' % (r, want)
    if fn == 'escape_ipv6':
        return None if r == case['expect'] else 'returned %r, expected %r' % (r, case['expect'])
    if fn == 'get_ipv6_addr_by_EUI64':
        return None if (r.version == 6 and int(r) == case['expect']) else 'returned %s, expected %s' % (
            r, ipaddress.IPv6Address(case['expect']))
    if fn == 'get_mac_addr_by_ipv6':
        import netaddr
        mv, text = case['expect']
        if int(r) != mv or r.dialect is not getattr(netaddr, a['dialect']) or str(r) != text:
            return 'returned %s (dialect %s), expected %s (dialect %s)' % (r, r.dialect.__name__, text, a['dialect'])
        return None
    if fn == 'params':
        q = parse.urlsplit(case['url']).query
        want = spec_params(parse.parse_qsl(q), a['collapse']) if q else {}
        return None if (r == want and list(r) == list(want)) else 'returned %r, expected %r' % (r, want)
    return None


def oracle_form(case):
    forms = [case['form']] if case.get('form') else all_forms(case['fn'], case['args'])
    target = form_target(case)
    for form in forms:
        why = judge_form(case, try_invoke(case['fn'], case['args'], form, target))
        if why:
            return '%s %s' % (form_text(case['fn'], case['args'], form), why)
    return None


def model_line_form(case):
    """request line for the model for the logical arguments (None when the stdlib raised / not applicable)"""
    fn, a = case['fn'], case['args']
    if fn == 'parse_host_port':
        return req('php', 'N' if a['address'] is None else hexs(a['address']), dflt_field(a['default_port']))
    if fn == 'escape_ipv6':
        return req('esc', hexs(a['address']))
    if fn == 'get_ipv6_addr_by_EUI64':
        return req('eui', *(classify_prefix(a['prefix']) + classify_mac(a['mac'])))
    if fn == 'get_mac_addr_by_ipv6':
        return req('macof', 6, a['ipv6'])
    try:
        if fn == 'urlsplit':
            std = five(parse.urlsplit(a['url'], a['scheme'], a['allow_fragments']))
            if not all(valid_text(x) for x in std):
                return None
            return req('url', 1 if a['allow_fragments'] else 0, *[hexs(x) for x in std])
        if fn == 'params':
            q = parse.urlsplit(case['url']).query
            qsl = parse.parse_qsl(q)
            if not all(valid_text(k) and valid_text(v) for k, v in qsl) or not valid_text(q):
                return None
            pairs = ','.join('%s=%s' % (hexs(k), hexs(v)) for k, v in qsl) or '-'
            return req('params', hexs(q), 1 if a['collapse'] else 0, pairs)
    except Exception:
        return None
    return None


def model_text_form(fn, reply):
    """bring a driver reply to the shape of result_text"""
    if fn == 'escape_ipv6':
        return reply.split(' ', 1)[1] if ' ' in reply else reply
    return reply


def corr_forms(ctx, out):
    cases = list(form_cases(ctx, 120 if ctx.quick else 2500))
    lines, meta = [], []
    for case in cases:
        line = model_line_form(case)
        if line is None:
            continue
        lines.append(line)
        meta.append(case)
    for case, rep in zip(meta, ctx.driver.ask_many(lines)):
        fn = case['fn']
        if rep == 'unmodelled':
            continue
        want = model_text_form(fn, rep)
        target = form_target(case)
        for form in all_forms(fn, case['args']):
            ctx.evaluations += 1
            ctx.count('corr/forms/%s/pos%d+kw%d' % (fn, form['pos'], len(form['kw'])))
            got = result_text(fn, try_invoke(fn, case['args'], form, target))
            if got != want:
                out.append(Disagreement(dict(case, form=form), '%s -> %s' % (form_text(fn, case['args'], form), got), want))
                break
        ctx.nontrivial(('form', fn, repr(case['args'])))


# object protocols of what the functions return: a clone made by copy / deepcopy / pickle / rebuilding the
# tuple from its own fields must be indistinguishable from the original, and both stay usable.

def clone_kinds():
    import pickle
    return (['copy', 'deepcopy', 'rebuild(*r)', 'rebuild(**_asdict)', '_make', '_replace()', '_replace(same)']
            + ['pickle%d' % pr for pr in range(pickle.HIGHEST_PROTOCOL + 1)])


def make_clone(r, kind):
    import copy
    import pickle
    if kind == 'copy':
        return copy.copy(r)
    if kind == 'deepcopy':
        return copy.deepcopy(r)
    if kind.startswith('pickle'):
        return pickle.loads(pickle.dumps(r, int(kind[6:])))
    if not isinstance(r, tuple):
        return None                      # the namedtuple forms do not apply to netaddr objects
    if kind == 'rebuild(*r)':
        return type(r)(*r)
    if kind == 'rebuild(**_asdict)':
        return type(r)(**r._asdict())
    if kind == '_make':
        return type(r)._make(r)
    if kind == '_replace()':
        return r._replace()
    if kind == '_replace(same)':
        return r._replace(scheme=r.scheme, path=r.path, fragment=r.fragment)
    return None


def split_view(r):
    """everything the property compares on a split result"""
    def attr(name):
        try:
            return getattr(r, name)
        except ValueError:
            return 'ValueError'
    return {'components': five(r), 'tuple': tuple(r), 'geturl': r.geturl(), 'hostname': attr('hostname'),
            'port': attr('port'), 'username': attr('username'), 'password': attr('password')}


def oracle_split_clones(r, std, kinds):
    """r: netutils result, std: urllib.parse result of the same call.  Every clone of r must still agree
    with the standard library on every component (the stdlib's own clones do), equal r and hash like r;
    r itself must be unchanged afterwards."""
    want = split_view(std)
    qsl = parse.parse_qsl(std.query)
    for kind in kinds:
        try:
            c = make_clone(r, kind)
        except Exception as e:
            return '%s of the result raised %s: %s' % (kind, exc_name(e), e)
        for who, obj in (('%s of the result' % kind, c), ('the result itself, after %s,' % kind, r)):
            if type(obj) is not type(r):
                return '%s has type %s' % (who, type(obj).__name__)
            got = split_view(obj)
            for key in want:
                if got[key] != want[key]:
                    return '%s has %s %r, urllib.parse gives %r' % (who, key, got[key], want[key])
            for collapse in (True, False):
                gp, wp = obj.params(collapse=collapse), spec_params(qsl, collapse)
                if gp != wp or list(gp) != list(wp):
                    return '%s has params(collapse=%s) %r, expected %r' % (who, collapse, gp, wp)
        if not (c == r) or c != r or hash(c) != hash(r) or repr(c) != repr(r):
            return '%s differs from the original in ==/hash/repr: %r vs %r' % (kind, c, r)
    return None


def oracle_netaddr_clones(case):
    """the IPAddress / EUI objects returned by the EUI-64 helpers survive copy / deepcopy / pickle"""
    n = _n()
    p, mv = case['prefix'], case['mac_int']
    a = n.get_ipv6_addr_by_EUI64(p, mac_render(mv, 'colon'))
    e = n.get_mac_addr_by_ipv6(a)
    for kind in [k for k in clone_kinds() if k in ('copy', 'deepcopy') or k.startswith('pickle')]:
        for name, obj in (('get_ipv6_addr_by_EUI64', a), ('get_mac_addr_by_ipv6', e)):
            try:
                c = make_clone(obj, kind)
            except Exception as ex:
                return '%s of the %s result raised %s' % (kind, name, exc_name(ex))
            if type(c) is not type(obj) or c != obj or hash(c) != hash(obj) or int(c) != int(obj) or str(c) != str(obj):
                return '%s of the %s result %s is %s' % (kind, name, obj, c)
        back = n.get_mac_addr_by_ipv6(make_clone(a, kind))
        if int(back) != mv:
            return 'get_mac_addr_by_ipv6(%s of %s) = %s, MAC was %012x' % (kind, a, back, mv)
    return None


def correspondence(ctx):
    out = []
    corr_eui(ctx, out)
    corr_hostport(ctx, out)
    corr_url(ctx, out)
    corr_forms(ctx, out)
    corr_seq(ctx, out)      # last: see search()
    return out


# --------------------------------------------------------------------------
# failing-input search: the property stated directly on the real implementation

def iid_bytes(mac_int):
    b = mac_int.to_bytes(6, 'big')
    return bytes([b[0] ^ 0x02, b[1], b[2], 0xff, 0xfe, b[3], b[4], b[5]])


def oracle_eui(prefix_text, mac_int, mac_arg, strict_long=False):
    """prefix_text is a well-formed IPv6 network text, mac_arg a rendering of the 48-bit mac_int."""
    n = _n()
    net = ipaddress.IPv6Network(prefix_text, strict=False)
    first = int(net.network_address)
    try:
        a = n.get_ipv6_addr_by_EUI64(prefix_text, mac_arg)
    except Exception as e:
        a = e
    low = first & ((1 << 64) - 1)
    if low == 0:
        want = first | int.from_bytes(iid_bytes(mac_int), 'big')
        if isinstance(a, Exception):
            return 'raised %s for a well-formed prefix and MAC' % exc_name(a)
        if a.version != 6 or int(a) != want:
            return 'address %s, expected %s (network address + modified EUI-64 interface id)' % (
                a, ipaddress.IPv6Address(want))
        pk = a.packed
        if pk[:8] != net.network_address.packed[:8] or pk[8:] != iid_bytes(mac_int):
            return 'address %s does not have the ff:fe / inverted-U/L layout' % a
        try:
            back = int(n.get_mac_addr_by_ipv6(a))
        except Exception as e:
            return 'get_mac_addr_by_ipv6(%s) raised %s' % (a, exc_name(e))
        if back != mac_int:
            return 'get_mac_addr_by_ipv6(%s) = %012x, MAC was %012x' % (a, back, mac_int)
        return None
    # prefix longer than /64 whose network address overlaps the interface identifier: the property does
    # not say what "combined" means; the code adds.  Only the coded arithmetic and the exception contract
    # are checked here (see LEVEL_NOTE).
    eui = int.from_bytes(iid_bytes(mac_int), 'big') ^ (1 << 57)
    want = (first + eui) ^ (1 << 57)
    if want >= 1 << 128:
        if not isinstance(a, ValueError):
            return 'overflowing sum: expected ValueError, got %r' % (a,)
        return None
    if isinstance(a, Exception):
        return 'raised %s for a well-formed prefix and MAC' % exc_name(a)
    if int(a) != want:
        return 'address %s, expected %s' % (a, ipaddress.IPv6Address(want))
    if strict_long:
        back = int(n.get_mac_addr_by_ipv6(a))
        if back != mac_int:
            return 'prefix longer than /64: get_mac_addr_by_ipv6(%s) = %012x, MAC was %012x' % (a, back, mac_int)
    return None


def oracle_eui_error(p, m):
    """p / m as in the odd streams: the only exceptions allowed are ValueError and TypeError, an IPv4 address
    as prefix must give ValueError, a non-string prefix TypeError."""
    n = _n()
    try:
        a = n.get_ipv6_addr_by_EUI64(p, m)
    except (ValueError, TypeError) as e:
        if not isinstance(p, str) and not isinstance(e, TypeError):
            return 'non-string prefix raised %s, not TypeError' % exc_name(e)
        return None
    except Exception as e:
        return 'raised %s (only ValueError/TypeError are allowed)' % exc_name(e)
    if not isinstance(p, str):
        return 'non-string prefix accepted'
    try:
        ipaddress.IPv4Address(p)
        return 'IPv4 address %r accepted as prefix: %s' % (p, a)
    except ValueError:
        pass
    ok_prefix = True
    try:
        ipaddress.ip_network(p, strict=False)
    except ValueError:
        ok_prefix = False
    if not ok_prefix and '/' in p:
        # netaddr reads the prefix length with int(): ' 64', '64 ', '+64' are accepted (finding N5 of C11's
        # validators, same mechanism); that leniency is not counted against this property
        head, _, tail = p.partition('/')
        try:
            if not tail.isdigit() and 0 <= int(tail) <= 128:
                ipaddress.IPv6Address(head)
                ok_prefix = True
        except ValueError:
            pass
    if not ok_prefix and p not in ('2001:db8::/ffff:ffff:ffff:ffff::',):
        return 'malformed prefix %r accepted: %s' % (p, a)
    if m in (None, '', 'zz') or isinstance(m, (bytes, float)):
        return 'malformed MAC %r accepted: %s' % (m, a)
    return None


def oracle_hostport(h, port, d):
    n = _n()
    try:
        e = n.escape_ipv6(h)
        if port is None:
            got = n.parse_host_port(e, default_port=d)
            want = (h, d)
        else:
            got = n.parse_host_port(e + ':' + str(port), default_port=d)
            want = (h, port)
    except Exception as ex:
        return 'raised %s' % exc_name(ex)
    if got != want or type(got[1]) is not type(want[1]):
        return 'parse_host_port(%r) = %r, expected %r' % (e if port is None else e + ':' + str(port), got, want)
    return None


def spec_params(qsl, collapse):
    keys = []
    for k, _ in qsl:
        if k not in keys:
            keys.append(k)
    out = {}
    for k in keys:
        vals = [v for kk, v in qsl if kk == k]
        out[k] = vals[-1] if collapse else (vals[0] if len(vals) == 1 else vals)
    return out


def oracle_url(u, sch, af, kinds=None):
    n = _n()
    try:
        std = parse.urlsplit(u, sch, af)
        std5, std_e = five(std), None
    except Exception as e:
        std5, std_e = None, exc_name(e)
    try:
        r = n.urlsplit(u, sch, af)
    except Exception as e:
        if std_e == exc_name(e):
            return None
        return 'netutils.urlsplit raised %s, urllib.parse.urlsplit %s' % (exc_name(e), std_e or 'returned %r' % (std5,))
    if std5 is None:
        return 'urllib.parse.urlsplit raised %s, netutils.urlsplit returned %r' % (std_e, five(r))
    if five(r) != std5:
        return 'components %r, urllib.parse gives %r' % (five(r), std5)
    for attr in ('hostname', 'port', 'username', 'password'):
        def get(o):
            try:
                return getattr(o, attr)
            except ValueError:
                return 'ValueError'
        if get(r) != get(std):
            return '%s %r, urllib.parse gives %r' % (attr, get(r), get(std))
    if r.geturl() != std.geturl():
        return 'geturl %r vs %r' % (r.geturl(), std.geturl())
    qsl = parse.parse_qsl(std.query)
    for collapse in (True, False):
        got = r.params(collapse=collapse)
        want = spec_params(qsl, collapse)
        if got != want or list(got) != list(want):
            return 'params(collapse=%s) = %r, expected %r' % (collapse, got, want)
    return oracle_split_clones(r, std, clone_kinds() if kinds is None else kinds)


def run_oracle(case):
    k = case.get('kind')
    if k == 'eui':
        p, m = dec(case['prefix']), dec(case['mac'])
        mi = case.get('mac_int')
        if mi is None:
            # a correspondence seed: recover the class of the case
            import netaddr
            try:
                e = netaddr.EUI(m)
                net_ok = isinstance(p, str) and '.' not in p and ipaddress.IPv6Network(p, strict=False) is not None
                if e.version == 48 and net_ok:
                    return oracle_eui(p, int(e), m)
            except Exception:
                pass
            return oracle_eui_error(p, m)
        return oracle_eui(p, mi, m)
    if k == 'eui-long-prefix':
        return oracle_eui(case['prefix'], case['mac_int'], dec(case['mac']), strict_long=True)
    if k == 'hostport-scope-bracket':
        return oracle_hostport(case['host'], case['port'], case['default'])
    if k == 'eui-error':
        return oracle_eui_error(dec(case['prefix']), dec(case['mac']))
    if k == 'macof':
        return None
    if k == 'hostport':
        return oracle_hostport(case['host'], case['port'], case['default'])
    if k in ('url', 'params'):
        return oracle_url(case['url'], case['scheme'], case['allow_fragments'])
    if k == 'form':
        return oracle_form(case)
    if k == 'netaddr-clones':
        return oracle_netaddr_clones(case)
    if k == 'params-seq':
        return oracle_seq(case)
    if k == 'obj-seq':
        return oracle_obj_seq(case)
    if k == 'hostport-raw':
        try:
            got = _n().parse_host_port(case['host'], default_port=case['default'])
        except Exception as ex:
            return 'raised %s' % exc_name(ex)
        if got != (case['host'], case['default']):
            return 'parse_host_port(%r, default_port=%r) = %r' % (case['host'], case['default'], got)
        return None
    return None


def search(ctx, seeds, full=False):
    rng = ctx.rng
    n = _n()
    fails = []
    kinds = set()

    import time
    t_shrink_end = time.time() + 90
    leaky_kinds = set()
    leaked = []        # cases that fail here but pass in a fresh interpreter: state left by earlier calls

    def check(case):
        ctx.evaluations += 1
        if case['kind'] == 'params-seq':
            why = oracle_seq(case, next_nonce())
            if why and case['kind'] not in kinds and len(fails) < 6:
                kinds.add(case['kind'])
                small, what = shrink_seq(case, t_shrink_end)
                fails.append(Failure(small, {'kind': 'params-seq', 'what': what}))
            return why
        why = run_oracle(case)
        if why and case['kind'] in leaky_kinds:
            ctx.count('search/failed-only-after-earlier-calls')
            return why
        if why and case['kind'] not in kinds and len(fails) < 6:
            small = shrink(case)
            # a replay must stand on its own: confirm in a fresh interpreter (once per kind)
            if case['kind'] != 'obj-seq':
                fresh = fresh_oracle(small)
                if fresh is None:
                    fresh = fresh_oracle(case)
                    small = case
                if fresh is None:
                    ctx.count('search/failed-only-after-earlier-calls')
                    leaked.append((case, why))
                    leaky_kinds.add(case['kind'])
                    return why
            kinds.add(case['kind'])
            fails.append(Failure(small, {'kind': case['kind'], 'what': run_oracle(small) or why}))
        return why

    for s in seeds[:300]:
        if s.get('kind') in ('eui', 'url', 'params'):
            check(dict(s))
        elif s.get('kind') in ('php', 'esc'):
            ctx.count('search/seed-not-in-property-form')
    scale = (4 if full else 1) * (3 if ctx.quick else 30)
    # --- EUI-64 ---
    macs = mac_patterns(rng, 100 * scale)
    prefixes = prefix_cases(rng, 25 * scale)
    for i, mv in enumerate(macs):
        for (pt, L, hb) in [prefixes[(5 * i + k) % len(prefixes)] for k in range(2)] + [rng.choice(prefixes)]:
            if '/ffff' in pt:
                continue
            style = MAC_STYLES[(i + L) % len(MAC_STYLES)]
            ctx.count('search/eui/%s/%s' % ('len<=64' if L <= 64 else 'len>64(outside the round-trip claim)',
                                            'hostbits' if hb else 'nohostbits'))
            check({'kind': 'eui', 'prefix': pt, 'mac': mac_render(mv, style), 'mac_int': mv})
    for p in BAD_PREFIXES + V4_PREFIXES[:8]:
        for m in ['00:16:3e:33:44:55', 'zz', None]:
            ctx.count('search/eui/error-contract')
            check({'kind': 'eui-error', 'prefix': enc(p), 'mac': enc(m)})
    for m in BAD_MACS[:12]:
        check({'kind': 'eui-error', 'prefix': '2001:db8::/64', 'mac': enc(m)})
    # --- host:port ---
    for _ in range(1200 * scale):
        fam, h = gen_host(rng)
        if fam == 'name' and (':' in h or h.startswith('[')):
            continue
        if fam == 'v6':
            sc = h.rpartition('%')[2]
            if ']' in sc:
                continue        # outside the stated host class (see LEVEL_NOTE)
        ctx.count('search/hostport/' + fam)
        if fam == 'v6' and rng.random() < 0.15:
            # the docstring's bare IPv6 text: taken whole, default port
            check({'kind': 'hostport-raw', 'host': h, 'default': rng.choice([None, 0, 1234, 65535])})
            continue
        if rng.random() < 0.7:
            p = rng.choice(PORT_EDGE) if rng.random() < 0.3 else rng.randrange(65536)
            check({'kind': 'hostport', 'host': h, 'port': p, 'default': rng.choice([None, 1, 65535])})
        else:
            check({'kind': 'hostport', 'host': h, 'port': None, 'default': rng.choice([None, 0, 80, 65535, 1234])})
    for i, h in enumerate(fixed_scoped_hosts()):
        if ']' in h.rpartition('%')[2]:
            continue
        ctx.count('search/hostport/v6-scope-fixed')
        check({'kind': 'hostport', 'host': h, 'port': PORT_EDGE[i % len(PORT_EDGE)], 'default': None})
        check({'kind': 'hostport', 'host': h, 'port': None, 'default': [None, 0, 1234, 65535][i % 4]})
        check({'kind': 'hostport-raw', 'host': h, 'default': [None, 0, 1234, 65535][(i + 1) % 4]})
    if not ctx.quick:
        pool = [gen_name(rng) for _ in range(8)] + [gen_v4(rng) for _ in range(8)] + [gen_v6(rng) for _ in range(8)]
        pool = [h for h in pool if not (h.startswith('[') or (':' in h and not n.is_valid_ipv6(h)) or ']' in h)]
        for p in range(65536):
            ctx.count('search/hostport/allports')
            check({'kind': 'hostport', 'host': pool[p % len(pool)], 'port': p, 'default': None})
    # --- listed findings only: their classes are exercised so that they stay visible ---
    listed = listed_ids()
    if KF_SCOPE in listed:
        for sc in [']', 'a]b', 'eth0]']:
            check({'kind': 'hostport-scope-bracket', 'host': 'fe80::1%' + sc, 'port': 80, 'default': None})
    if KF_LONGPREFIX in listed:
        for pt, mv in [('::1', 0), ('2001:db8::1:0:0:1/96', 0x00163e334455)]:
            check({'kind': 'eui-long-prefix', 'prefix': pt, 'mac': mac_render(mv, 'colon'), 'mac_int': mv})
    # --- calling convention: every legal call form of the pinned signatures; clones of netaddr results ---
    for s in seeds[:300]:
        if s.get('kind') == 'form':
            check(dict(s))
    for case in form_cases(ctx, (150 if ctx.quick else 2000) * (2 if full else 1)):
        ctx.count('search/forms/' + case['fn'])
        check(case)
    for pt, mv in [('2001:db8::/64', 0x00163e334455), ('fe80::/10', 0xffffffffffff), ('::/0', 0),
                   ('::/64', 0x020000000000)]:
        ctx.count('search/netaddr-clones')
        check({'kind': 'netaddr-clones', 'prefix': pt, 'mac_int': mv})
    # --- URLs ---
    for (u, sch, af, tag) in url_cases(ctx) if (full or not ctx.quick) else itertools.islice(url_cases(ctx), 2000):
        ctx.count('search/url/' + tag)
        check({'kind': 'url', 'url': u, 'scheme': sch, 'allow_fragments': af})
    # --- call sequences last: on a stateful implementation they leave state behind, which must not leak
    #     into the single-call cases above (their replays have to reproduce on their own) ---
    for s in seeds[:300]:
        if s.get('kind') == 'params-seq':
            check(dict(s))
    for i in range((300 if ctx.quick else 4000) * (3 if full else 1)):
        ctx.count('search/params-seq')
        check(gen_seq(rng, long=(i % 4 == 0)))
    for pt, mv in [('2001:db8::/64', 0x00163e334455), ('fe80::/10', 0xffffffffffff), ('::/0', 0)]:
        ctx.count('search/obj-seq')
        check({'kind': 'obj-seq', 'prefix': pt, 'mac_int': mv})

    if leaked and not any(f.case.get('kind') in ('params-seq', 'obj-seq') for f in fails):
        # state-dependence was seen but no sequence pinned it down: report it rather than drop it
        case, why = leaked[0]
        fails.append(Failure(case, {'kind': 'state-dependent', 'what': why + ' -- only after earlier calls in the same '
                                    'interpreter (passes in a fresh one): some result depends on call history'}))
    return fails


def in_scope_bracket_class(host):
    addr, pct, scope = host.rpartition('%')
    return bool(pct) and ']' in scope and _n().is_valid_ipv6(host)


def in_long_prefix_class(prefix):
    try:
        net = ipaddress.IPv6Network(prefix, strict=False)
    except ValueError:
        return False
    return net.prefixlen > 64 and int(net.network_address) & ((1 << 64) - 1) != 0


def classify(ctx, failure, listed_findings):
    ids = {f.get('id') for f in listed_findings}
    case = failure.case
    k = case.get('kind')
    if KF_SCOPE in ids and k in ('hostport', 'hostport-scope-bracket') and in_scope_bracket_class(case['host']):
        return KF_SCOPE
    if KF_LONGPREFIX in ids and k == 'eui-long-prefix' and in_long_prefix_class(case['prefix']) \
            and str(failure.detail.get('what', '')).startswith('prefix longer than /64'):
        return KF_LONGPREFIX
    return None


def witness_reproduces(ctx, finding):
    n = _n()
    if finding.get('id') == KF_SCOPE:
        try:
            n.parse_host_port(n.escape_ipv6('fe80::1%]') + ':80')
        except ValueError:
            return True
        return False
    if finding.get('id') == KF_LONGPREFIX:
        a = n.get_ipv6_addr_by_EUI64('::1', '00:00:00:00:00:00')
        return int(n.get_mac_addr_by_ipv6(a)) != 0
    return False


def shrink(case):
    """Smaller failing case of the same kind."""
    case = dict(case)
    if case['kind'] in ('url', 'params'):
        def still(chars):
            c = dict(case)
            c['url'] = ''.join(chars)
            return run_oracle(c) is not None
        if len(case['url']) >= 2:
            case['url'] = ''.join(common.shrink_list(list(case['url']), still))
    elif case['kind'] == 'hostport':
        for port in (0, 1, 80):
            c = dict(case, port=port) if case['port'] is not None else case
            if run_oracle(c):
                case = c
                break

        def still(chars):
            c = dict(case)
            c['host'] = ''.join(chars)
            n = _n()
            h = c['host']
            # stay inside the host classes of the property
            if h.startswith('[') or (':' in h and not n.is_valid_ipv6(h)) or ']' in h:
                return False
            return run_oracle(c) is not None
        if len(case['host']) >= 2:
            case['host'] = ''.join(common.shrink_list(list(case['host']), still))
    elif case['kind'] == 'form' and not case.get('form'):
        # name the first call form that gives the wrong answer
        for form in all_forms(case['fn'], case['args']):
            c = dict(case, form=form)
            if run_oracle(c):
                return c
    elif case['kind'] == 'eui' and case.get('mac_int') is not None:
        for mv in (0, 1, 1 << 41, 1 << 24):
            c = dict(case, mac=mac_render(mv, 'colon'), mac_int=mv)
            if run_oracle(c):
                case = c
                break
        for pt in ('::/64', '2001:db8::/64', '::/0'):
            c = dict(case, prefix=pt)
            if run_oracle(c):
                case = c
                break
    return case


def pretty(reply):
    """decode the hex fields of a php/esc reply for display"""
    parts = reply.split(' ')
    if parts[0] == 'ok' and len(parts) == 3:
        return '(%r, %s)' % (None if parts[1] == 'N' else common.unhexs(parts[1]), 'None' if parts[2] == 'N' else parts[2])
    if parts[0] in ('0', '1') and len(parts) == 2:
        return 'is_valid_ipv6=%s escape_ipv6=%r' % (parts[0], common.unhexs(parts[1]))
    return reply


def model_line(case):
    k = case.get('kind')
    if k == 'form':
        return model_line_form(case)
    if k in ('eui', 'eui-error', 'eui-long-prefix'):
        p, m = dec(case['prefix']), dec(case['mac'])
        return req('eui', *(classify_prefix(p) + classify_mac(m)))
    if k == 'macof':
        return req('macof', case['version'], case['value'])
    if k == 'php':
        a = case['address']
        return req('php', 'N' if a is None else hexs(a), dflt_field(case['default']))
    if k == 'esc':
        return req('esc', hexs(case['host']))
    if k == 'hostport-raw':
        return req('php', hexs(case['host']), dflt_field(case['default']))
    if k in ('hostport', 'hostport-scope-bracket'):
        n = _n()
        e = n.escape_ipv6(case['host'])
        a = e if case['port'] is None else e + ':' + str(case['port'])
        return req('php', hexs(a), dflt_field(case['default']))
    return None


def replay(ctx, payload):
    case = payload.get('failure', {}).get('case') or payload.get('case')
    if not case:
        print('nothing to replay: this file names the obligation that no longer checks:')
        print(payload.get('no_longer_checks'))
        return 0
    n = _n()
    k = case.get('kind')
    print('case:', case)
    if k in ('eui', 'eui-error', 'eui-long-prefix'):
        p, m = dec(case['prefix']), dec(case['mac'])
        impl, a = impl_eui(p, m)
        print('implementation: get_ipv6_addr_by_EUI64(%r, %r) -> %s' % (p, m, a if a is not None else impl))
        if a is not None:
            r = impl_macof(a)
            print('implementation: get_mac_addr_by_ipv6(%s) -> %s' % (a, '%012x' % int(r) if r.isdigit() else r))
    elif k == 'macof':
        import netaddr
        print('implementation:', impl_macof(netaddr.IPAddress(case['value'], case['version'])))
    elif k == 'php':
        print('implementation:', pretty(impl_php(case['address'], case['default'])))
    elif k == 'esc':
        print('implementation:', pretty(impl_esc(case['host'])))
    elif k == 'hostport-raw':
        print('implementation: parse_host_port(%r, default_port=%r) -> %s' % (
            case['host'], case['default'], pretty(impl_php(case['host'], case['default']))))
    elif k in ('hostport', 'hostport-scope-bracket'):
        e = n.escape_ipv6(case['host'])
        a = e if case['port'] is None else e + ':' + str(case['port'])
        print('implementation: parse_host_port(%r, default_port=%r) -> %s' % (a, case['default'], pretty(impl_php(a, case['default']))))
    elif k == 'form':
        target = form_target(case)
        for form in ([case['form']] if case.get('form') else all_forms(case['fn'], case['args'])):
            r = try_invoke(case['fn'], case['args'], form, target)
            shown = ('raised %s: %s' % (exc_name(r), r)) if isinstance(r, Exception) else (
                five(r) if case['fn'] == 'urlsplit' else r)
            print('implementation: %s -> %s   [%s]' % (form_text(case['fn'], case['args'], form), shown,
                                                       judge_form(case, r) or 'as the property says'))
        if case['fn'] == 'params':
            print('  (called on urlsplit(%r))' % case['url'])
    elif k == 'netaddr-clones':
        print('clones (copy / deepcopy / pickle) of the results of get_ipv6_addr_by_EUI64(%r, %r) and of '
              'get_mac_addr_by_ipv6 on it' % (case['prefix'], mac_render(case['mac_int'], 'colon')))
    elif k == 'params-seq':
        recs = run_seq(case)                 # one run only: a second one would see what the first left behind
        calls = iter(recs)
        done = 0
        for st in case['steps']:
            if st[0] == 'call':
                rec = next(calls)
                done += 1
                want = spec_params(parse.parse_qsl(rec['query']), rec['collapse']) if rec['query'] else {}
                print('  #%d urlsplit(%r)%s.params(collapse=%s) -> %r   [last/all values of the query: %r]%s' % (
                    done - 1, rec['url'], ' (same result object as before)' if st[3] else '', rec['collapse'],
                    rec['snapshot'], want, '   !! ' + rec['shared'] if rec['shared'] else ''))
            elif done:
                print('  caller modifies the dict returned by call #%d: %s' % (done - 1 - st[1] % done, st[2]))
        why = judge_seq(recs)
        print('property oracle on the implementation:', why)
        return 1 if why else 0
    elif k in ('url', 'params'):
        for name, f in (('netutils.urlsplit', n.urlsplit), ('urllib.parse.urlsplit', parse.urlsplit)):
            try:
                r = f(case['url'], case['scheme'], case['allow_fragments'])
                extra = ''
                if f is n.urlsplit:
                    extra = ' params=%r params(all)=%r' % (r.params(), r.params(collapse=False))
                print('%s: %r%s' % (name, five(r), extra))
            except Exception as e:
                print('%s: raised %s' % (name, exc_name(e)))
        try:
            r = n.urlsplit(case['url'], case['scheme'], case['allow_fragments'])
            for kind in clone_kinds():
                try:
                    c = make_clone(r, kind)
                    print('  %-20s %r%s' % (kind, five(c), '' if (c == r and hash(c) == hash(r)) else '   != original'))
                except Exception as e:
                    print('  %-20s raised %s' % (kind, exc_name(e)))
        except Exception:
            pass
    line = model_line(case)
    if line:
        print('model         :', pretty(ctx.driver.ask(line)))
    elif k in ('url', 'params'):
        try:
            std = five(parse.urlsplit(case['url'], case['scheme'], case['allow_fragments']))
            rep = ctx.driver.ask(req('url', 1 if case['allow_fragments'] else 0, *[hexs(x) for x in std]))
            print('model (fix-ups applied to the stdlib result):', [common.unhexs(x) for x in rep.split(' ')])
            qsl = parse.parse_qsl(std[3])
            pairs = ','.join('%s=%s' % (hexs(a), hexs(b)) for a, b in qsl) or '-'
            for collapse in (1, 0):
                print('model params(collapse=%d):' % collapse, ctx.driver.ask(req('params', hexs(std[3]), collapse, pairs)),
                      ' implementation:', show_params(n.urlsplit(case['url'], case['scheme'],
                                                                 case['allow_fragments']).params(collapse=bool(collapse))))
        except Exception as e:
            print('model: not applicable (urllib.parse.urlsplit raised %s)' % exc_name(e))
    why = run_oracle(case)
    print('property oracle on the implementation:', why)
    return 1 if why else 0


LEVEL_TEXT = ('Machine-checked proof (Lean 4) over hand-written models of get_ipv6_addr_by_EUI64 / get_mac_addr_by_ipv6 '
              '(Nat bit arithmetic as coded), parse_host_port / is_valid_ipv6 / escape_ipv6 (over character lists, with '
              'int() and inet_pton re-implemented) and the urlsplit wrapper / params(). Full strength: the EUI-64 round trip '
              'and layout for every 48-bit MAC and every network address whose low 64 bits are zero, the error contract, '
              'the host:port round trip and default for every host of the three stated classes and every port digit '
              'string, params last/all for every parse_qsl result. Partial by design: urlsplit agreement is proved under '
              'the stated post-condition of urllib.parse.urlsplit (a parameter), and compared with the standard library '
              'on every generated URL.')
LEVEL_NOTE = ('Trusted: Lean kernel (axioms audited each run); the hand models and this correspondence; netaddr text '
              'parsing, glibc inet_pton, CPython int()/str methods and urllib.parse as listed in trusted_base. Not covered '
              'by the round-trip claim, on purpose: prefixes longer than /64 whose network address has non-zero low 64 bits '
              '(the code adds, the MAC is not recoverable) and IPv6 hosts whose scope contains "]" (escape_ipv6 accepts '
              'them, parse_host_port then raises ValueError).')
TECHNIQUE = 'Lean 4 theorems (Nat div/mod arithmetic, list induction) + model/implementation correspondence'
DESIGN_REF = 'DESIGN.md section 5, C15'
