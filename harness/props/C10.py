"""C10 - string_to_bytes computes the exact byte quantity or raises ValueError; QemuImgInfo size fields."""
import math
import os
import re
import unicodedata
import warnings
from fractions import Fraction

import contextlib
import sys as _sys

import common
from common import Disagreement, Failure, req, hexs

ID = 'C10'
DRIVER = 'drv_C10'
PROOF_MODULES = ['OsloProofs.Props.C10']
LEVEL = 'proof'
RULE = ('texts [junk][sign]magnitude[prefix]unit[suffix] built from the grammar (magnitudes: small / dyadic / '
        'non-dyadic decimals, leading dot, leading zeros, 20-60 digits, binary64 range boundaries; all 22 table '
        'prefixes plus foreign ones; units b/bit/B plus malformed) plus a mutated and an unstructured stream, x unit '
        'systems IEC/SI/mixed/unknown x return_int; qemu size fields "<number>[ws][unit][ (N bytes)]" as qemu-img '
        'prints them plus mutated ones. A case is non-trivial when the implementation accepted it with a prefix or a '
        'bit unit or an explicit byte figure, or rejected it after a magnitude was recognised (foreign prefix, bad '
        'unit, trailing text); distinct by (function, unit system, text, return_int)')
TRUSTED_BASE = [
    'Lean 4 kernel; axioms audited per theorem (subset of propext, Classical.choice, Quot.sound)',
    'hand-written model OsloModel/Units.lean (regex matching of the three unit patterns and of SIZE_RE re-implemented '
    'as a deterministic parser), tied to strutils.string_to_bytes / QemuImgInfo._extract_bytes by this correspondence',
    'translator generate(): tables and prefix classes read from the live modules; the rest of each unit regex and '
    'SIZE_RE are compared with the parse tree / pattern the hand parser transcribes (a change breaks the translator)',
    'IEEE-754 binary64: the model is exact; agreement is exact where the computation is exact in binary64 and '
    'within 2^-50 relative elsewhere; the range boundaries (overflow to inf, denormals) are modelled exactly for '
    'the magnitude and to within a 2^-40 relative band for the product',
]
UNMODELLED = [
    'binary64 rounding inside the normal range (harness tolerance 2^-50; class N3-float-rounding)',
    'digits of denormal results (model outcome `tiny`: harness checks an absolute error bound only)',
    'non-ASCII characters: Unicode decimal digits (accepted by \\d and float()), Unicode \\s / \\w, U+017F in "bytes" '
    '- the correspondence stays in ASCII plus a few inert symbols; the search exercises them against the oracle',
    'qemu e-notation magnitudes that are not integers below 2^53 (model outcome `unmodelled`)',
    'QemuImgInfo line splitting / key canonicalisation (only the size-field conversion is modelled)',
]
ASSUMPTIONS = ['text is a str; unit_system is any hashable value (an unhashable one cannot be looked up: TypeError)', 'a Unicode decimal digit counts as a digit of the magnitude in the oracle']

# ---------------------------------------------------------------------------
# translator


_IMPORTED = []


def _ambient_warnings():
    """warnings are left to the ambient configuration (filters are not touched by the harness)"""
    return contextlib.nullcontext()


def _import_all():
    """The tables string_to_bytes consults are public module-level state that any module of the package
    may touch at import: look at them the way a long-running service does, after the whole package is in."""
    if not _IMPORTED:
        _IMPORTED.append(True)
        import ambient
        ambient.import_everything()


def _strutils():
    _import_all()
    from oslo_utils import strutils
    return strutils


def _qemu_cls():
    _import_all()
    from oslo_utils.imageutils import QemuImgInfo
    return QemuImgInfo


def lean_char(c):
    if c.isascii() and c.isprintable() and c not in "'\\":
        return "'%s'" % c
    return 'Char.ofNat %d' % ord(c)


def lean_chars(s):
    return '[' + ', '.join(lean_char(c) for c in s) + ']'


EXPECTED_SIZE_RE = (r"([0-9]+[eE][-+][0-9]+|\d*\.?\d+)" r"\s*(\w+)?(\s*\(\s*(\d+)\s+bytes\s*\))?")


def read_unit_regex(name, rx):
    """(letters, optional_i, end_anchor_allows_newline) of a unit regex: group 2's class and whether the
    pattern ends in `$` (matches before one final newline) or `\\Z`; raises if the rest of the pattern is
    not what OsloModel/Units.lean transcribes."""
    from re import _parser as P
    from re import _constants as C
    if rx.flags != re.UNICODE:
        raise ValueError('%s: unexpected regex flags %r' % (name, rx.flags))
    tree = list(P.parse(rx.pattern, rx.flags))
    try:
        op, (lo, hi, sub) = tree[1]
        assert op is C.MAX_REPEAT and (lo, hi) == (0, 1) and len(sub) == 1
        op2, (gid, _a, _b, body) = sub[0]
        assert op2 is C.SUBPATTERN and gid == 2
        body = list(body)
        op3, members = body[0]
        assert op3 is C.IN and all(k is C.LITERAL for k, _ in members)
        letters = ''.join(chr(v) for _, v in members)
        if len(body) == 1:
            opt_i = False
        else:
            assert len(body) == 2
            op4, (lo4, hi4, sub4) = body[1]
            assert op4 is C.MAX_REPEAT and (lo4, hi4) == (0, 1) and list(sub4) == [(C.LITERAL, ord('i'))]
            opt_i = True
    except (AssertionError, ValueError, TypeError, IndexError):
        raise ValueError('%s: prefix group of %r is not ([letters]i?)?' % (name, rx.pattern))
    if set(letters) & set('bBi') or not letters.isascii() or not letters.isalpha():
        raise ValueError('%s: prefix class %r overlaps the unit letters' % (name, letters))
    last = tree[-1] if tree else None
    if last == (C.AT, C.AT_END):
        nl_ok, anchor = True, '$'
    elif last == (C.AT, C.AT_END_STRING):
        nl_ok, anchor = False, r'\Z'
    else:
        raise ValueError('%s: regex %r does not end in $ or \\Z' % (name, rx.pattern))
    expected = r'(^[-+]?\d*\.?\d+)([%s]%s)?(b|bit|B)%s' % (letters, 'i?' if opt_i else '', anchor)
    if str(P.parse(expected, rx.flags)) != str(P.parse(rx.pattern, rx.flags)):
        raise ValueError('%s: regex %r is not the shape the model transcribes (%r)' % (name, rx.pattern, expected))
    # cross-check by probing the compiled pattern with every 1- and 2-letter candidate
    alpha = 'abcdefghijklmnopqrstuvwxyzABCDEFGHIJKLMNOPQRSTUVWXYZ'
    admitted = set()
    for p in list(alpha) + [a + b for a in alpha for b in alpha]:
        m = rx.match('1' + p + 'B')
        if m and m.group(2) == p:
            admitted.add(p)
    want = set(letters) | ({c + 'i' for c in letters} if opt_i else set())
    if admitted != want:
        raise ValueError('%s: probed prefix set %r differs from the parsed class %r' % (name, sorted(admitted), sorted(want)))
    # cross-check the anchor by probing
    if bool(rx.match('1B\n')) != nl_ok or rx.match('1B\n\n') or not rx.match('1B'):
        raise ValueError('%s: end anchor of %r does not behave like %s' % (name, rx.pattern, anchor))
    return ''.join(sorted(set(letters))), opt_i, nl_ok


def tables():
    su = _strutils()
    exps = {}
    for k, v in su.UNIT_PREFIX_EXPONENT.items():
        if not isinstance(k, str) or type(v) is not int or v < 0:
            raise ValueError('UNIT_PREFIX_EXPONENT entry %r: %r is not str -> non-negative int' % (k, v))
        exps[k] = v
    systems = {}
    for k, (base, rx) in su.UNIT_SYSTEM_INFO.items():
        if not isinstance(k, str) or not (base is None or (type(base) is int and base >= 0)):
            raise ValueError('UNIT_SYSTEM_INFO entry %r has base %r' % (k, base))
        letters, opt_i, nl_ok = read_unit_regex(k, rx)
        systems[k] = (base, letters, opt_i, nl_ok)
    q = _qemu_cls()
    size_re = getattr(q, 'SIZE_RE', None)
    if not isinstance(size_re, re.Pattern):
        # renamed: the class attribute that is a compiled regex with the four groups of the size pattern
        cands = [v for v in vars(q).values() if isinstance(v, re.Pattern) and v.groups == 4]
        if len(cands) != 1:
            raise ValueError('QemuImgInfo has no recognisable size regex (SIZE_RE)')
        size_re = cands[0]
    if size_re.pattern != EXPECTED_SIZE_RE or size_re.flags != (re.UNICODE | re.IGNORECASE):
        raise ValueError('QemuImgInfo.SIZE_RE %r flags %r is not the pattern the model transcribes'
                         % (size_re.pattern, size_re.flags))
    spaces = [c for c in range(128) if re.fullmatch(r'\s', chr(c))]
    words = ''.join(chr(c) for c in range(128) if re.fullmatch(r'\w', chr(c)))
    if words != '0123456789ABCDEFGHIJKLMNOPQRSTUVWXYZ_abcdefghijklmnopqrstuvwxyz':
        raise ValueError('ASCII \\w set is %r' % words)
    if [c for c in range(128) if re.fullmatch(r'\d', chr(c))] != list(range(48, 58)):
        raise ValueError('ASCII \\d set changed')
    import inspect
    par = inspect.signature(su.string_to_bytes).parameters
    if list(par)[:3] != ['text', 'unit_system', 'return_int'] or type(par['return_int'].default) is not bool:
        raise ValueError('string_to_bytes signature changed: %s' % inspect.signature(su.string_to_bytes))
    default = par['unit_system'].default      # a str, or something else (then `none` in the generated table)
    # does building the 'Invalid unit system' message fail for tuple values? (probe the live function)
    outcomes = set()
    for probe in ((), ('S', 'I'), ('I', 'E', 'C')):
        try:
            su.string_to_bytes('1KB', unit_system=probe)
            outcomes.add('returned')
        except ValueError:
            outcomes.add('ValueError')
        except TypeError:
            outcomes.add('TypeError')
    if outcomes not in ({'ValueError'}, {'TypeError'}):
        raise ValueError('tuple-valued unit systems behave inconsistently: %s' % sorted(outcomes))
    return exps, systems, spaces, default, outcomes == {'TypeError'}, par['return_int'].default


def generate():
    exps, systems, spaces, default, tuple_fails, default_flag = tables()
    out = ['/- GENERATED by harness/props/C10.py (generate) from oslo_utils/strutils.py and',
           '   oslo_utils/imageutils/qemu.py of the working tree - do not edit. -/',
           'namespace Oslo.Generated.C10', '',
           '/-- UNIT_PREFIX_EXPONENT, sorted by key -/',
           'def unitPrefixExponent : List (List Char × Nat) := [']
    out.append(',\n'.join('  (%s, %d)' % (lean_chars(k), exps[k]) for k in sorted(exps)))
    out += [']', '',
            '/-- UNIT_SYSTEM_INFO, sorted by key: (key, base, letters of the prefix class of the compiled regex',
            '    (sorted), whether the class is followed by an optional `i`, whether the end anchor of the regex',
            '    lets one final newline through: `$` true, `\\Z` false) -/',
            'def unitSystemInfo : List (List Char × Option Nat × List Char × Bool × Bool) := [']
    rows = []
    for k in sorted(systems):
        base, letters, opt_i, nl_ok = systems[k]
        rows.append('  (%s, %s, %s, %s, %s)' % (lean_chars(k), 'none' if base is None else 'some %d' % base,
                                                lean_chars(letters), 'true' if opt_i else 'false',
                                                'true' if nl_ok else 'false'))
    out.append(',\n'.join(rows))
    out += [']', '',
            '/-- code points below 128 matched by `\\s` in a str pattern of the running interpreter -/',
            'def reSpaceAscii : List Nat := [%s]' % ', '.join(map(str, spaces)), '',
            '/-- default of the `unit_system` parameter of string_to_bytes when it is a str; `none` when the',
            '    default is any other value (which the model then treats like any non-string argument) -/',
            'def defaultUnitSystem : Option (List Char) := %s'
            % ('some ' + lean_chars(default) if isinstance(default, str) else 'none'), '',
            '/-- whether the live string_to_bytes raises TypeError (instead of ValueError) for a tuple-valued',
            '    unit system of length other than 1 (probed with `()`, `(\'S\', \'I\')`, `(\'I\', \'E\', \'C\')`): the',
            '    message `"...%s" % unit_system` cannot be built unless the value is wrapped in a 1-tuple -/',
            'def tupleMessageFails : Bool := %s' % ('true' if tuple_fails else 'false'), '',
            '/-- default of the `return_int` parameter in the live signature -/',
            'def defaultReturnInt : Bool := %s' % ('true' if default_flag else 'false'), '',
            'end Oslo.Generated.C10', '']
    common.write_if_changed(os.path.join(common.LEAN, 'OsloModel', 'Generated', 'C10.lean'), '\n'.join(out))


# ---------------------------------------------------------------------------
# exact helpers (harness side)

TOL = Fraction(1, 2 ** 50)
DBL_OVERFLOW = Fraction(2 ** 1024 - 2 ** 970)      # least magnitude that rounds to inf
DBL_MIN_NORMAL = Fraction(1, 2 ** 1022)
BAND = Fraction(1, 2 ** 40)


def is_b64(fr):
    """fr is exactly a binary64 number"""
    try:
        return Fraction(float(fr)) == fr
    except OverflowError:
        return False


def ceil_fr(fr):
    return -((-fr.numerator) // fr.denominator)


# ---------------------------------------------------------------------------
# running the implementation

def canon(fn, *a, **k):
    """('err', name) | ('int', n) | ('float', Fraction) | ('inf', neg) | ('nan',) | ('other', repr)"""
    try:
        with _ambient_warnings():
            pass
            r = fn(*a, **k)
    except Exception as e:
        return ('err', type(e).__name__)
    if type(r) is int:
        return ('int', r)
    if type(r) is float:
        if math.isinf(r):
            return ('inf', r < 0)
        if math.isnan(r):
            return ('nan',)
        return ('float', Fraction(r))
    return ('other', repr(r)[:80])


# A unit-system argument is a plain str (passed by keyword) or a triple [kind, name, form]:
#   kind 'str' (name is the string), 'py' (name is a key of NONSTR: a hashable value that is not a str),
#   'omitted' (the argument is left out: the documented default, IEC); form 'kw' or 'pos'.
NONSTR = {'None': None, '0': 0, '1': 1, '-1': -1, 'False': False, 'True': True, '1.0': 1.0, '1024': 1024,
          '1000.0': 1000.0, '2**70': 2 ** 70, 'nan': float('nan'), "b'IEC'": b'IEC', "b'SI'": b'SI',
          "b'mixed'": b'mixed', "('IEC',)": ('IEC',), "('S', 'I')": ('S', 'I'), '()': (), 'frozenset()': frozenset(),
          "frozenset({'IEC'})": frozenset({'IEC'}), 'Ellipsis': Ellipsis, 'NotImplemented': NotImplemented,
          'str': str, 'len': len, '1j': 1j}
OMITTED = ['omitted', '', 'kw']


def sys_parts(sys):
    if isinstance(sys, str):
        return 'str', sys, 'kw'
    kind, name, form = sys
    return kind, name, form


def sys_key(sys):
    """the unit-system name the documentation gives the call: the string itself, IEC when the argument is
    omitted, None (= unknown, whatever the value) for anything that is not a str"""
    kind, name, _ = sys_parts(sys)
    return name if kind == 'str' else ('IEC' if kind == 'omitted' else None)


def sys_bad_tuple(sys):
    """a tuple whose length is not 1: an unwrapped `'Invalid unit system: "%s"' % unit_system` could not format
    it (repaired defect; the model asks the generated `tupleMessageFails` which way the live code goes)"""
    kind, name, _ = sys_parts(sys)
    return kind == 'py' and isinstance(NONSTR[name], tuple) and len(NONSTR[name]) != 1


def bytes_warning_is_error():
    """the interpreter runs with -bb: str() of a bytes object raises BytesWarning (an implicit input)"""
    return _sys.flags.bytes_warning >= 2


def sys_is_bytes(sys):
    kind, name, _ = sys_parts(sys)
    return kind == 'py' and isinstance(NONSTR[name], (bytes, bytearray))


def sys_show(sys):
    kind, name, form = sys_parts(sys)
    if kind == 'omitted':
        return '<omitted>'
    return ('%r' % name if kind == 'str' else name) + ('' if form == 'kw' else ' (positional)') + \
        (' [a key found in the live UNIT_SYSTEM_INFO]' if kind == 'live' else '')


def sys_value(sys):
    kind, name, _ = sys_parts(sys)
    if kind == 'str':
        return name
    if kind == 'py':
        return NONSTR[name]
    for k in list(_strutils().UNIT_SYSTEM_INFO):      # kind 'live': a non-str key of the live table, by repr
        if repr(k) == name:
            return k
    return NONSTR.get(name, name)


def live_unpinned_systems():
    """unit-system descriptors for every key of the live public table that is not a documented system"""
    out = []
    for k in list(_strutils().UNIT_SYSTEM_INFO):
        if isinstance(k, str):
            if k not in PINNED_SYSTEMS:
                out.append(['str', k])
        else:
            out.append(['live', repr(k)])
    return out


def live_unpinned_prefixes():
    return sorted(k for k in _strutils().UNIT_PREFIX_EXPONENT if isinstance(k, str) and k not in ALL_PREFIXES)


def sys_label(sys):
    kind, name, form = sys_parts(sys)
    if kind == 'str':
        return (name if name in SYSTEMS else 'unknown-str') + ('' if form == 'kw' else '/pos')
    return {'py': 'non-str', 'live': 'live-key'}.get(kind, 'omitted') + ('' if form == 'kw' else '/pos')


def sys_in_domain(sys):
    kind, name, _ = sys_parts(sys)
    return kind != 'str' or in_model_domain(name)


def sys_json(sys):
    return sys if isinstance(sys, str) else list(sys)


class _Truthy:
    """an object that is true without being the singleton True (numpy bool, Mock, option wrapper ...)"""
    def __bool__(self):
        return True


class _Falsy:
    def __bool__(self):
        return False


class _Empty:
    """false through __len__"""
    def __len__(self):
        return 0


# The return_int argument is a bool (passed as it is) or a key of FLAGS: any object, of which the
# function may only use the truth value; 'omitted' leaves the argument out (default False).
FLAGS = {'True': True, 'False': False, '1': 1, '0': 0, '2': 2, '-1': -1, '1.0': 1.0, '0.0': 0.0, '0.5': 0.5,
         'nan': float('nan'), '0j': 0j, "'yes'": 'yes', "''": '', "'False'": 'False', "'0'": '0', "b''": b'',
         "b'0'": b'0', '(0,)': (0,), '()': (), '[]': [], '[0]': [0], '{}': {}, "{'a': 0}": {'a': 0},
         'set()': set(), 'None': None, 'object()': object(), 'Truthy()': _Truthy(), 'Falsy()': _Falsy(),
         'Empty()': _Empty(), 'Ellipsis': Ellipsis, 'len': len, 'range(0)': range(0), 'range(3)': range(3)}
TRUTHY_FLAGS = sorted(k for k, v in FLAGS.items() if bool(v))
FALSY_FLAGS = sorted(k for k, v in FLAGS.items() if not bool(v)) + ['omitted']


def flag_truth(ri):
    """the truth value of the return_int argument - all the documentation lets the function use"""
    if isinstance(ri, bool):
        return ri
    return False if ri == 'omitted' else bool(FLAGS[ri])


def flag_show(ri):
    return repr(ri) if isinstance(ri, bool) else ('<omitted>' if ri == 'omitted' else ri)


def impl_s2b(sys, text, ri):
    kind, name, form = sys_parts(sys)
    f = _strutils().string_to_bytes
    flag = {} if ri == 'omitted' and not isinstance(ri, bool) else \
        {'return_int': ri if isinstance(ri, bool) else FLAGS[ri]}
    if kind == 'omitted':
        return canon(f, text, **flag)
    v = sys_value(sys)
    if form == 'pos':
        return canon(f, text, v, *flag.values())
    return canon(f, text, unit_system=v, **flag)


_QCONV = []


def _behaves_like_extract_bytes(fn):
    """fn maps the details text of a size field to an int the way the pinned `_extract_bytes` does"""
    try:
        with _ambient_warnings():
            pass
            if fn('64M (67108844 bytes)') != 67108844 or fn('2K') != 2048 or fn(' 512') != 512:
                return False
            try:
                fn('no number here')
            except ValueError:
                return True
            return False
    except Exception:
        return False


def qemu_converter():
    """('method', f) with f(details) the private size-field conversion of QemuImgInfo - the pinned name
    `_extract_bytes` while it exists, otherwise the one-argument instance method that behaves like it -
    or ('public', None) when no such method exists and the conversion is only reachable through the
    constructor; HarnessBlind when not even that converts a size field."""
    if _QCONV:
        return _QCONV[0]
    import inspect
    import whitebox
    cls = _qemu_cls()
    try:
        with _ambient_warnings():
            pass
            obj = cls()
    except Exception as e:
        raise whitebox.HarnessBlind('QemuImgInfo() cannot be constructed: %s' % e)
    found = None
    pinned = getattr(obj, '_extract_bytes', None)
    if callable(pinned):
        found = ('method', pinned)          # the pinned name: used as it is, whatever it does
    else:
        hits = []
        for name, member in sorted(vars(cls).items()):
            if name.startswith('__') or not inspect.isfunction(member):
                continue
            try:
                params = list(inspect.signature(member).parameters.values())
            except (TypeError, ValueError):
                continue
            required = [q for q in params if q.default is q.empty and q.kind in (q.POSITIONAL_ONLY, q.POSITIONAL_OR_KEYWORD)]
            if len(required) != 2:
                continue
            bound = getattr(obj, name)
            if _behaves_like_extract_bytes(bound):
                hits.append(bound)
        if len(hits) == 1:
            found = ('method', hits[0])
        elif len(hits) > 1:
            raise whitebox.HarnessBlind('several QemuImgInfo methods behave like _extract_bytes')
    if found is None:
        def through(details):
            with _ambient_warnings():
                pass
                return cls('image: x\nvirtual size: %s\n' % details).virtual_size
        try:
            ok = type(through('2K')) is int
        except ValueError:
            ok = True
        except Exception:
            ok = False
        if not ok:
            raise whitebox.HarnessBlind('no QemuImgInfo method converts a size field text and the constructor '
                                        'does not either')
        found = ('public', None)
    _QCONV.append(found)
    return found


def expressible_as_field(details):
    """the details text reaches the size conversion unchanged when written after 'virtual size: '"""
    return (details == details.strip() and details not in ('', 'None', 'unavailable')
            and not re.search(r'[\n\r\x0b\x0c\x1c-\x1e\x85\u2028\u2029]', details))


def impl_qemu(details):
    """the size-field conversion on `details`; ('unobservable',) when it can only be reached through the
    public constructor and this text cannot be written as a field"""
    how, f = qemu_converter()
    if how == 'method':
        return canon(f, details)
    if not expressible_as_field(details):
        return ('unobservable',)
    return impl_field(details, 0)


FIELDS = [('virtual size', 'virtual_size'), ('disk size', 'disk_size'), ('cluster_size', 'cluster_size')]


def impl_field(details, which=0):
    """The value through the public object: QemuImgInfo('<key>: <details>').<attr>"""
    key, attr = FIELDS[which % 3]

    def go():
        return getattr(_qemu_cls()('image: x\n%s: %s\n' % (key, details)), attr)
    return canon(go)


def show(c):
    if c[0] == 'float':
        return 'float %s (= %r)' % (c[1], float(c[1]))
    return ' '.join(str(x) for x in c)


# ---------------------------------------------------------------------------
# model replies

def parse_reply(rep):
    f = rep.split(' ')
    if f[0] in ('float', 'tiny'):
        extra = {}
        if len(f) >= 5:
            extra['m'] = Fraction(int(f[3]), int(f[4]))
        return (f[0], Fraction(int(f[1]), int(f[2])), extra)
    if f[0] == 'int':
        return ('int', int(f[1]))
    if f[0] == 'inf':
        return ('inf', f[1] == '1')
    if f[0] in ('ValueError', 'OverflowError', 'KeyError', 'TypeError', 'BytesWarning'):
        return ('err', f[0])
    return (rep,)


def agree_float(py, q, m):
    """float rule of DESIGN.md section 4: exact where the computation is exact in binary64"""
    if py[0] != 'float':
        return near_overflow(q) and py[0] == 'inf' and (py[1] == (q < 0))
    x = py[1]
    if m is not None and is_b64(m) and is_b64(q):
        return x == q
    return abs(x - q) <= TOL * abs(q)


def near_overflow(q):
    return abs(abs(q) - DBL_OVERFLOW) <= BAND * DBL_OVERFLOW


def agree_int(py, q, m):
    if py[0] != 'int':
        return near_overflow(q) and py == ('err', 'OverflowError')
    k = py[1]
    if m is not None and is_b64(m) and is_b64(q):
        return k == ceil_fr(q)
    t = TOL * abs(q)
    return ceil_fr(q - t) <= k <= ceil_fr(q + t)


def agree_tiny(py, q, ri):
    if ri:
        return py[0] == 'int' and (py[1] in (0, 1) if q > 0 else py[1] == 0)
    return py[0] == 'float' and abs(py[1] - q) <= Fraction(1, 2 ** 974) + TOL * abs(q)


def agree_s2b(py0, py1, mo0, mo1):
    """py0/py1: implementation with return_int False/True; mo0/mo1 the model's replies"""
    ok = True
    if mo0[0] == 'float':
        q, m = mo0[1], mo0[2].get('m')
        ok = agree_float(py0, q, m)
        if mo1[0] == 'int':
            ok = ok and agree_int(py1, q, m)
            if is_b64(m or Fraction(1, 3)) and is_b64(q):
                ok = ok and mo1[1] == ceil_fr(q)
        else:
            ok = False
    elif mo0[0] == 'tiny':
        ok = agree_tiny(py0, mo0[1], False) and mo1[0] == 'tiny' and agree_tiny(py1, mo1[1], True)
    elif mo0[0] == 'inf':
        ok = (py0 == mo0) and mo1 == ('err', 'OverflowError') and py1 == mo1
    elif mo0[0] == 'err':
        ok = (py0 == mo0) and (py1 == mo1) and mo0 == mo1
    else:
        ok = False
    return ok


# ---------------------------------------------------------------------------
# generators

SYSTEMS = ['IEC', 'SI', 'mixed']
UNKNOWN_SYSTEMS = ['iec', 'si', 'Mixed', '', 'binary', 'IEC ', 'SI\n',
                   # near misses of the legal names and names a sibling module might register
                   'Iec', 'SI ', ' SI', 'MIXED', 'mixed ', 'qemu', 'QEMU', 'decimal', 'metric', 'IEC\n', 'IEC\x00',
                   'iec60027', 'JEDEC', 'kib', 'default', 'None', 'IECSI']
# the documented unit systems and prefixes (pinned as data: anything else found in the live public
# tables at run time is, by the property, unknown / foreign and must be refused)
PINNED_SYSTEMS = ('IEC', 'SI', 'mixed')
LETTERS = 'KMGTPEZYRQ'
ALL_PREFIXES = ['k', 'K', 'ki', 'Ki'] + [c + s for c in LETTERS[1:] for s in ('', 'i')]     # the 22 of the table
FOREIGN = ['m', 'g', 'Kb', 'KI', 'ii', 'i', 'Bi', 'kk', 'KK', 'D', 'h', 'da', 'mi', 'Kii', 'iK', 'μ', 'Ｋ']
UNITS = ['b', 'bit', 'B']
BAD_UNITS = ['', 'bits', 'Bit', 'BIT', 'byte', 'bytes', 'bb', 'Bb', 'iB', 'bi', 'bitt', 'b ', 'B\t', 'o']


def gen_magnitude(rng):
    """(text, kind)"""
    r = rng.random()
    if r < 0.22:
        return str(rng.randrange(0, 2000)), 'int-small'
    if r < 0.32:
        return str(rng.randrange(0, 2 ** 53)), 'int<2^53'
    if r < 0.46:
        k = rng.randrange(1, 12)
        v = Fraction(rng.randrange(0, 1 << (k + 8)), 1 << k)
        whole = v.numerator // v.denominator
        s = '%d.%0*d' % (whole, k, int((v - whole) * 10 ** k))
        return s, 'dyadic-decimal'
    if r < 0.62:
        return '%d.%0*d' % (rng.randrange(0, 5000), rng.randrange(1, 6), rng.randrange(0, 10)), 'decimal'
    if r < 0.68:
        return '.%0*d' % (rng.randrange(1, 5), rng.randrange(0, 100)), 'leading-dot'
    if r < 0.74:
        return '0' * rng.randrange(1, 4) + str(rng.randrange(0, 100)), 'leading-zeros'
    if r < 0.84:
        n = rng.randrange(17, 60)
        s = ''.join(rng.choice('0123456789') for _ in range(n))
        if rng.random() < 0.5:
            p = rng.randrange(0, n)
            s = s[:p] + '.' + s[p:] + rng.choice('0123456789')
        return s, 'many-digits'
    if r < 0.88:
        return rng.choice(['0', '0.0', '000', '.0', '0.000', '00.00']), 'zero'
    if r < 0.92:
        # binary64 overflow boundary of the magnitude itself (exact in the model)
        t = 2 ** 1024 - 2 ** 970
        v = t + rng.choice([-1, 0, 1, -10 ** 290, 10 ** 290, 10 ** 300])
        s = str(v)
        if rng.random() < 0.3:
            s += '.' + rng.choice(['0', '5', '999'])
        return s, 'overflow-boundary'
    if r < 0.95:
        return rng.choice('123456789') + ''.join(rng.choice('0123456789') for _ in range(rng.randrange(260, 420))), 'huge'
    if r < 0.98:
        return '0.' + '0' * rng.randrange(290, 420) + str(rng.randrange(1, 1000)), 'tiny'
    return '1' + '.' + '0' * rng.randrange(1, 30) + '1', 'one-plus-eps'


def gen_structured(rng):
    """(text, tag)"""
    sign = rng.choice(['', '', '', '+', '-', '-'])
    mag, mk = gen_magnitude(rng)
    r = rng.random()
    if r < 0.15:
        pfx = ''
    elif r < 0.88:
        pfx = rng.choice(ALL_PREFIXES)
    else:
        pfx = rng.choice(FOREIGN)
    unit = rng.choice(UNITS) if rng.random() < 0.9 else rng.choice(BAD_UNITS)
    text = sign + mag + pfx + unit
    tag = 'grammar/' + mk
    r = rng.random()
    if r < 0.04:
        text += '\n'
        tag = 'grammar+newline'
    elif r < 0.07:
        text += rng.choice(['\n\n', ' ', '\r', '\r\n', '\x0b', 'x', '\n '])
        tag = 'grammar+trailing'
    elif r < 0.10:
        text = rng.choice([' ', '\n', '0x', '--', '+-', 'a', '.', '1e', '1 ']) + text
        tag = 'grammar+leading'
    return text, tag


MUT_ALPHABET = '0123456789..+-kKMGTPEZYRQiibbtB \n\tezE_,'


def mutate(rng, text):
    if not text:
        return rng.choice(MUT_ALPHABET)
    i = rng.randrange(len(text))
    r = rng.random()
    if r < 0.3:
        return text[:i] + text[i + 1:]
    if r < 0.6:
        return text[:i] + rng.choice(MUT_ALPHABET) + text[i:]
    if r < 0.85:
        return text[:i] + rng.choice(MUT_ALPHABET) + text[i + 1:]
    j = rng.randrange(len(text))
    l = list(text)
    l[i], l[j] = l[j], l[i]
    return ''.join(l)


def gen_text(rng):
    r = rng.random()
    if r < 0.72:
        return gen_structured(rng)
    if r < 0.92:
        t, _ = gen_structured(rng)
        if len(t) > 80:
            t = t[:3] + t[-6:]
        for _ in range(rng.randrange(1, 3)):
            t = mutate(rng, t)
        return t, 'mutated'
    n = rng.randrange(0, 7)
    return ''.join(rng.choice(MUT_ALPHABET + '€§') for _ in range(n)), 'unstructured'


def gen_system(rng):
    r = rng.random()
    form = 'kw' if rng.random() < 0.8 else 'pos'
    if r < 0.85:
        s = rng.choice(SYSTEMS)
        return s if form == 'kw' else ['str', s, form]
    if r < 0.89:
        return OMITTED
    if r < 0.945:
        return ['str', rng.choice(UNKNOWN_SYSTEMS), form]
    return ['py', rng.choice(sorted(NONSTR)), form]


QEMU_UNITS = ['', '', 'K', 'M', 'G', 'T', 'P', 'E', 'B', 'KiB', 'MiB', 'GiB', 'TiB', 'KB', 'MB', 'GB', 'k', 'b', 'bit',
              'Kb', 'Kib', 'bytes', 'Z', 'YiB', 'QB', 'm', 'Ki', 'iB', 'e', 'e5', '_K', 'K_', 'BB', 'KBB']
QWS = ['', '', ' ', ' ', '  ', '\t', ' \t ']


BOUNDARY_N = [0, 0, 0, 1, 1, 2, 511, 2048, 2 ** 40 + 1, 2 ** 63, 2 ** 64 - 1, 10 ** 30]


def gen_byte_figure(rng):
    """N of an explicit "(N bytes)" figure: independent of the human-readable figure, boundary values included"""
    return rng.choice(BOUNDARY_N) if rng.random() < 0.3 else rng.randrange(0, 2 ** rng.choice([8, 20, 45, 70]))


def qemu_precedence_sweep():
    """human figure x explicit figure x spelling of the hint: the explicit figure must win, for every N"""
    figures = ['64M', '64 MiB', '4.4M', '4.4 MiB', '2K', '1.5 GiB', '1e+03 MiB', '512', '0', '0 B', '3 TiB', '7 foo', '.5G']
    for fig in figures:
        for n in (0, 1, 511, 2048, 4592640, 67108844, 2 ** 40 + 1, 2 ** 63, 10 ** 30):
            for hint in ('(%d bytes)', ' (%d bytes)', ' ( %d  BYTES )'):
                yield fig + hint % n


def gen_qemu(rng):
    """(details, tag, expected-by-construction or None)"""
    r = rng.random()
    if r < 0.55:
        mag = rng.choice([str(rng.randrange(0, 5000)), '%d.%d' % (rng.randrange(0, 2000), rng.randrange(0, 100)),
                          '%d.%d' % (rng.randrange(0, 64), rng.choice([0, 5, 25, 75, 125])), str(rng.randrange(0, 2 ** 40)),
                          '.%d' % rng.randrange(0, 10)])
        unit = rng.choice(QEMU_UNITS)
        d = mag + rng.choice(QWS) + unit
        tag = 'qemu/human'
        if rng.random() < 0.55:
            n = gen_byte_figure(rng)
            d += rng.choice(QWS) + '(' + rng.choice(['', '', ' ']) + str(n) + rng.choice([' ', ' ', '  ', '\t']) + \
                rng.choice(['bytes', 'bytes', 'Bytes', 'BYTES']) + rng.choice(['', '', ' ']) + ')'
            tag = 'qemu/human+bytes'
        if rng.random() < 0.15:
            d = rng.choice(['about ', 'x', '~', '= ', 'v', '-', '+', '..', 'a.']) + d
            tag += '+lead'
        if rng.random() < 0.15:
            d += rng.choice([' ', ', sparse', ')', ' (1 bytes)', 'i', '.5'])
            tag += '+trail'
        return d, tag
    if r < 0.67:
        ds = str(rng.randrange(0, 3000)) if rng.random() < 0.7 else '0' * rng.randrange(1, 3) + str(rng.randrange(0, 50))
        e = rng.choice('eE') + rng.choice(['+', '+', '-']) + str(rng.randrange(0, 14) if rng.random() < 0.9 else rng.randrange(14, 400))
        d = ds + e + rng.choice(QWS) + rng.choice(QEMU_UNITS[:12])
        if rng.random() < 0.35:
            d += rng.choice(QWS) + '(%d%sbytes)' % (gen_byte_figure(rng), rng.choice([' ', '  ']))
            return d, 'qemu/e-notation+bytes'
        return d, 'qemu/e-notation'
    if r < 0.72:
        return rng.choice(['None', 'unavailable', 'none', 'Unavailable', 'None ', '', 'n/a', 'unknown']), 'qemu/word'
    if r < 0.9:
        d, tag = gen_qemu(rng) if rng.random() < 0.5 else (gen_structured(rng)[0], '')
        if len(d) > 60:
            d = d[:4] + d[-8:]
        for _ in range(rng.randrange(1, 3)):
            i = rng.randrange(len(d) + 1)
            d = d[:i] + rng.choice('0123456789.()bytesBYTES eE+-KMGi_ \t') + d[i + rng.randrange(0, 2):]
        return d, 'qemu/mutated'
    n = rng.randrange(0, 8)
    return ''.join(rng.choice('0123456789.()bytes eE+-KMG_\t§') for _ in range(n)), 'qemu/unstructured'


# ---------------------------------------------------------------------------
# correspondence

def s2b_line(sys, text, ri):
    """the model sees the flag's truth value ('d': argument omitted, default of the live signature)"""
    kind, name, _ = sys_parts(sys)
    fl = 'd' if (ri == 'omitted' and not isinstance(ri, bool)) else int(flag_truth(ri))
    if kind == 'str':
        return req('s2b', hexs(name), hexs(text), fl)
    if sys_is_bytes(sys):
        # the model takes the interpreter's bytes-warning mode as an input
        return req('s2bb', hexs(text), fl, int(bytes_warning_is_error()))
    return req(('s2bt' if sys_bad_tuple(sys) else 's2bx') if kind in ('py', 'live') else 's2bd', hexs(text), fl)


def s2b_lines(sys, text, f0=False, f1=True):
    return [s2b_line(sys, text, f0), s2b_line(sys, text, f1)]


def gen_flag_pair(rng):
    """(a falsy flag, a truthy flag): mostly the two bools, sometimes other objects"""
    if rng.random() < 0.8:
        return False, True
    return (rng.choice(FALSY_FLAGS) if rng.random() < 0.7 else False,
            rng.choice(TRUTHY_FLAGS) if rng.random() < 0.8 else True)


def in_model_domain(text):
    """ASCII, or one of the inert symbols the generators add (no Unicode digit / space / word character)"""
    return all(c.isascii() or c in '€§μ' for c in text) and 'μ' not in text


def nontrivial_s2b(text, py0):
    if py0[0] in ('float', 'inf'):
        return bool(re.search(r'[kKMGTPEZYRQ]i?(b|bit|B)\n?$', text) or re.search(r'(b|bit)\n?$', text))
    return bool(re.match(r'[-+]?\d*\.?\d+.', text, re.S))


def correspondence(ctx):
    rng = ctx.rng
    n_txt = 12000 if ctx.quick else 150000
    n_qemu = 6000 if ctx.quick else 60000
    out = []
    cases, lines = [], []
    seen = set()
    # every admitted / foreign prefix x unit x system once, deterministically
    for sys in SYSTEMS + UNKNOWN_SYSTEMS[:2]:
        for pfx in [''] + ALL_PREFIXES + FOREIGN:
            for unit in UNITS + BAD_UNITS[:4]:
                for mag in ('1', '3.5', '-16.1'):
                    cases.append((sys, mag + pfx + unit, 'table-sweep'))
    # every non-string value, every unknown string and the omitted argument x keyword / positional
    for text in ('1KB', '-7.9Mib', '.5B', '12bit', '1kB', 'x'):
        for form in ('kw', 'pos'):
            for name in sorted(NONSTR):
                cases.append((['py', name, form], text, 'system-sweep'))
            for name in UNKNOWN_SYSTEMS + SYSTEMS:
                cases.append((['str', name, form], text, 'system-sweep'))
        cases.append((OMITTED, text, 'system-sweep'))
    for _ in range(n_txt):
        text, tag = gen_text(rng)
        cases.append((gen_system(rng), text, tag))
    cases = [c for c in cases if in_model_domain(c[1]) and sys_in_domain(c[0])]
    cases = [c + ((False, True) if c[2].endswith('-sweep') else gen_flag_pair(rng)) for c in cases]
    # every kind of return_int argument: each falsy one against each truthy one on a few texts
    for text in ('12b', '1.5KiB', '-12bit', '1KB', '.3Mb', '7'):
        for k, f1 in enumerate(TRUTHY_FLAGS):
            f0 = FALSY_FLAGS[k % len(FALSY_FLAGS)]
            for sys in ('IEC', ['str', 'mixed', 'pos'], OMITTED):
                cases.append((sys, text, 'flag-sweep', f0, f1))
        for k, f0 in enumerate(FALSY_FLAGS):
            cases.append((['str', 'IEC', 'pos'], text, 'flag-sweep', f0, TRUTHY_FLAGS[k % len(TRUTHY_FLAGS)]))
    for sys, text, tag, f0, f1 in cases:
        lines += s2b_lines(sys, text, f0, f1)
    replies = ctx.driver.ask_many(lines)
    for i, (sys, text, tag, f0, f1) in enumerate(cases):
        mo0, mo1 = parse_reply(replies[2 * i]), parse_reply(replies[2 * i + 1])
        py0, py1 = impl_s2b(sys, text, f0), impl_s2b(sys, text, f1)
        if (f0, f1) != (False, True):
            ctx.count('corr/s2b/flag/non-bool')
        ctx.evaluations += 2
        ctx.count('corr/s2b/' + tag)
        ctx.count('corr/s2b/sys/' + sys_label(sys))
        ctx.count('corr/s2b/impl/' + (py0[1] if py0[0] == 'err' else py0[0]))
        ctx.count('corr/s2b/model/' + (mo0[1] if mo0[0] == 'err' else mo0[0]))
        skey = repr((sys_json(sys), f0, f1))
        if (skey, text) not in seen and nontrivial_s2b(text, py0):
            ctx.nontrivial(('s2b', skey, text, 0))
            ctx.nontrivial(('s2b', skey, text, 1))
        seen.add((skey, text))
        if len(text) < 30:
            ctx.sample({'fn': 's2b', 'unit_system': sys_json(sys), 'text': text, 'implementation': [show(py0), show(py1)],
                        'model': [replies[2 * i], replies[2 * i + 1]]}, 5)
        if not agree_s2b(py0, py1, mo0, mo1):
            out.append(Disagreement({'fn': 's2b', 'unit_system': sys_json(sys), 'text': text, 'flags': [f0, f1]},
                                    [show(py0), show(py1)], [replies[2 * i], replies[2 * i + 1]]))
    # qemu size fields
    qcases = []
    for d in ['1.5G (1610612736 bytes)', '512', '1.5', '1e+3', '1e+3K', '15e-1', '25e-1', '2M', '2 M', '2k', '3 B', '3 b',
              '3 bit', '64K (5 bytes)', '64 ( 5  BYTES )', 'abc 12 KiB', '1e+3 (7 bytes)', 'foo', '12. K', '12_K',
              '12 (3 bytes', '1.5e+3', '12e5', 'None', 'unavailable', '', '1 GiB (1073741824 bytes)', '196 KiB',
              '0 B (0 bytes)', '1.1G', '9' * 400 + 'K', '1e+400', '1e-400', '5e-1', '12e+', '.5K', '..5', 'a.5 M']:
        qcases.append((d, 'qemu/fixed'))
    for d in qemu_precedence_sweep():
        qcases.append((d, 'qemu/precedence-sweep'))
    for _ in range(n_qemu):
        qcases.append(gen_qemu(rng))
    qcases = [c for c in qcases if in_model_domain(c[0])]
    lines = []
    for d, tag in qcases:
        lines += [req('qemu', hexs(d)), req('field', hexs(d))]
    replies = ctx.driver.ask_many(lines)
    for i, (d, tag) in enumerate(qcases):
        ctx.evaluations += 1
        ctx.count('corr/' + tag)
        py = impl_qemu(d)
        if py[0] == 'unobservable':
            ctx.count('corr/qemu/unobservable-without-private-method')
            continue
        mo = parse_reply(replies[2 * i].partition(';')[0])
        ctx.count('corr/qemu/impl/' + (py[1] if py[0] == 'err' else py[0]))
        ctx.count('corr/qemu/model/' + (mo[1] if mo[0] == 'err' else mo[0]))
        if py[0] == 'int' and ('(' in d or re.search(r'[A-Za-z]', d)) or py[0] == 'err' and re.search(r'\d', d):
            ctx.nontrivial(('qemu', d))
        if not agree_qemu(py, replies[2 * i]):
            out.append(Disagreement({'fn': 'qemu', 'details': d}, show(py), replies[2 * i]))
        # through the public object (details are stripped by _parse; a line break would end the field)
        ds = d.strip()
        if ds == d and not re.search(r'[\n\r\x0b\x0c\x1c-\x1e\x85  ]', d) and i % 3 == 0:
            ctx.evaluations += 1
            ctx.count('corr/qemu/object-path')
            pf = impl_field(d, i)
            if not agree_qemu(pf, replies[2 * i + 1]):
                out.append(Disagreement({'fn': 'field', 'details': d, 'which': i % 3}, show(pf), replies[2 * i + 1]))
        if len(d) < 40:
            ctx.sample({'fn': 'qemu', 'details': d, 'implementation': show(py), 'model': replies[2 * i]}, 9)
    return out


def agree_qemu(py, rep):
    """rep: the model's reply, `<result>` or `<result>;<float form>` when converted through string_to_bytes"""
    first, _, second = rep.partition(';')
    mo = parse_reply(first)
    if mo[0] == 'unmodelled':
        return py[0] in ('int', 'err')
    if mo[0] == 'err':
        return py == mo
    if mo[0] == 'tiny':
        return agree_tiny(py, mo[1], True)
    if mo[0] == 'int':
        if not second:
            return py == mo                       # plain number or "(N bytes)": exact
        fl = parse_reply(second)
        if fl[0] != 'float':
            return False
        q, m = fl[1], fl[2].get('m')
        if is_b64(m or Fraction(1, 3)) and is_b64(q) and mo[1] != ceil_fr(q):
            return False
        return agree_int(py, q, m)
    return False


# ---------------------------------------------------------------------------
# failing-input search: exact Fraction arithmetic, independent of the model and of the code's tables

SPEC_EXP = {c: i + 1 for i, c in enumerate(LETTERS)}
SPEC_EXP['k'] = 1
SPEC_ADMITS = {
    'IEC': {c + s for c in LETTERS for s in ('', 'i')},
    'SI': {'k'} | set(LETTERS[1:]),
    'mixed': {c + s for c in 'k' + LETTERS for s in ('', 'i')},
}
FORM_RE = re.compile(r'([-+]?)(?:(\d+)|(\d*)\.(\d+))([A-Za-z]*?)(b|bit|B)\Z')


def digits_value(ds):
    v = 0
    for c in ds:
        v = v * 10 + unicodedata.decimal(c)
    return v


def spec(sys, text):
    """None if the documented grammar does not admit `text` in `sys`, else (magnitude, quantity) as Fractions"""
    sys = sys_key(sys)          # a str, or None for any value that is not a str
    if sys is None or sys not in SPEC_ADMITS:
        return None
    m = FORM_RE.match(text)
    if not m:
        return None
    sign, whole, ip, fp, pfx, unit = m.groups()
    if pfx and pfx not in SPEC_ADMITS[sys]:
        return None
    if whole is not None:
        mag = Fraction(digits_value(whole))
    else:
        mag = Fraction(digits_value(ip + fp), 10 ** len(fp))
    if sign == '-':
        mag = -mag
    base = {'IEC': 1024, 'SI': 1000}.get(sys) or (1024 if pfx.endswith('i') else 1000)
    q = mag * (base ** SPEC_EXP[pfx[0]] if pfx else 1)
    if unit in ('b', 'bit'):
        q /= 8
        mdiv = mag / 8
    else:
        mdiv = mag
    return mag, q, mdiv


def out_of_range(mag, q, mdiv):
    if abs(mag) >= DBL_OVERFLOW * (1 - BAND) or abs(q) >= DBL_OVERFLOW * (1 - BAND):
        return True
    return mdiv != 0 and abs(mdiv) < DBL_MIN_NORMAL


def assess_s2b(sys, text, ri):
    """(kind, what, finding-class or None) when the property fails on the implementation, else None"""
    py = impl_s2b(sys, text, ri)
    flag, ri = ri, flag_truth(ri)       # the function may use nothing but the truth value of the flag
    sp = spec(sys, text)
    if sp is None:
        if py == ('err', 'ValueError'):
            return None
        if sys_key(sys) not in SPEC_ADMITS:
            return ('unknown-system', 'unit system %s is none of IEC, SI, mixed but the call %s instead of raising '
                    'ValueError' % (sys_show(sys), 'raised ' + py[1] if py[0] == 'err' else 'returned ' + show(py)),
                    'N7-bytes-unit-system-bb' if sys_is_bytes(sys) and bytes_warning_is_error()
                    and py == ('err', 'BytesWarning') else None)
        if py[0] == 'err':
            return ('wrong-exception', 'text outside the grammar of %r raised %s, not ValueError' % (sys, py[1]), None)
        if text.endswith('\n') and spec(sys, text[:-1]) is not None:
            # the repaired defect N3-trailing-newline (`$` instead of `\\Z`) is back
            return ('accepted-trailing-newline', 'text ending in a newline is accepted: %s' % show(py), None)
        return ('accepted', 'text outside the grammar of %r is accepted: %s' % (sys, show(py)), None)
    mag, q, mdiv = sp
    oor = out_of_range(mag, q, mdiv)
    if py[0] == 'err':
        if py[1] == 'OverflowError' and oor:
            return ('raised-OverflowError', 'admitted text raised OverflowError (magnitude beyond binary64)', 'N3-float-range')
        return ('raised', 'admitted text raised %s' % py[1], None)
    exact = is_b64(mag) and is_b64(q) and not oor
    if not ri:
        if py[0] != 'float':
            if py[0] == 'inf' and oor:
                return ('inf', 'returned %s for a finite quantity' % show(py), 'N3-float-range')
            return ('type', 'return_int=%s (falsy) returned %s, not the float' % (flag_show(flag), show(py)), None)
        x = py[1]
        if exact:
            return None if x == q else ('value', 'exactly representable input: got %s, exact %s' % (show(py), q), None)
        if abs(x - q) <= TOL * abs(q):
            return None
        return ('value', 'got %s, exact %s (relative error above 2^-50)' % (show(py), q), 'N3-float-range' if oor else None)
    if py[0] != 'int':
        return ('type', 'return_int=%s (truthy) returned %s, not the int ceiling %d' % (flag_show(flag), show(py), ceil_fr(q)), None)
    k = py[1]
    if k == ceil_fr(q):
        return None
    if exact:
        return ('int-not-ceil', 'exactly representable input: got %d, ceiling of the exact quantity is %d' % (k, ceil_fr(q)), None)
    if oor:
        return ('int-not-ceil', 'got %d, ceiling of the exact quantity is %d (denormal range)' % (k, ceil_fr(q)), 'N3-float-range')
    t = TOL * abs(q)
    if ceil_fr(q - t) <= k <= ceil_fr(q + t):
        return ('int-not-ceil', 'got %d, ceiling of the exact quantity %s is %d (binary64 rounding of an inexact operand)'
                % (k, q if q.denominator < 10 ** 6 else float(q), ceil_fr(q)), 'N3-float-rounding')
    return ('int-not-ceil', 'got %d, ceiling of the exact quantity is %d (beyond 2^-50)' % (k, ceil_fr(q)), None)


QEMU_NUM = r'([0-9]+[eE][-+][0-9]+|\d+|\d*\.\d+)'
# <number>[ws][unit] to the end of the field
QEMU_FORM = re.compile(QEMU_NUM + r'([ \t]*)([A-Za-z]*)\Z')
# [junk without digits or dots]<number>[ws][any letters][ws](<ws>N<ws>bytes<ws>)<anything>
QEMU_BYTES_FORM = re.compile(r'[^\d.]*' + QEMU_NUM + r'[ \t]*[A-Za-z]*[ \t]*\([ \t]*([0-9]+)[ \t]+[bB][yY][tT][eE][sS][ \t]*\)',
                             re.S)
QEMU_UNIT_OK = {c + s for c in LETTERS for s in ('', 'B', 'iB')} | {'B'}


QEMU_LOOSE = re.compile(r'(?:([0-9]+)[eE]([-+])([0-9]+)|(\d*\.?\d+))\s*([A-Za-z])?')


def qemu_beyond_binary64(details):
    """the first number of the field, scaled by its unit letter, is at or beyond the binary64 overflow bound"""
    m = QEMU_LOOSE.search(details)
    if not m:
        return False
    ds, sg, es, plain, letter = m.groups()
    if ds is not None:
        e = int(es)
        if e > 5000:
            return sg == '+' and int(ds) != 0
        mag = Fraction(int(ds)) * (Fraction(10) ** (e if sg == '+' else -e))
    else:
        ip, _, fp = plain.partition('.')
        mag = Fraction(digits_value(ip + fp), 10 ** len(fp))
    q = mag * 1024 ** SPEC_EXP.get(letter or '', 0)
    return q >= DBL_OVERFLOW * (1 - BAND)


def assess_qemu(details, through_object=None):
    """Oracle for size fields of the documented shapes only (returns None for other texts unless an
    exception other than ValueError escapes)."""
    py = impl_qemu(details) if through_object is None else impl_field(details, through_object)
    if py[0] == 'unobservable':
        return None
    if py[0] == 'err' and py[1] != 'ValueError':
        return ('wrong-exception', 'size field raised %s' % py[1],
                'N3-float-range' if py[1] == 'OverflowError' and qemu_beyond_binary64(details) else None)
    # (1) an explicit "(N bytes)" figure takes precedence whatever the magnitude and unit look like
    mb = QEMU_BYTES_FORM.match(details)
    if mb:
        n = int(mb.group(2))
        if py == ('int', n):
            return None
        return ('bytes-figure-ignored', 'size field %r gave %s, the explicit figure is %d bytes'
                % (details[:70], show(py), n), None)
    # (2) otherwise the human-readable arithmetic
    m = QEMU_FORM.match(details)
    if not m:
        return None
    num, _ws, unit = m.groups()
    n = None
    if unit and unit not in QEMU_UNIT_OK:
        return None
    if 'e' in num.lower():
        ds, es = re.split('[eE]', num)
        if len(es) > 4:
            return None
        mag = Fraction(int(ds)) * Fraction(10) ** int(es)
        if mag.denominator != 1 or mag >= 2 ** 53:
            return None                 # format(float(..), '.0f') rounds: no opinion
    elif '.' in num:
        ip, fp = num.split('.')
        mag = Fraction(digits_value(ip + fp), 10 ** len(fp))
    else:
        mag = Fraction(digits_value(num))
    if not unit or unit == 'B':
        if '.' in num and not unit:
            return None                 # qemu-img never prints a bare fractional number: no opinion
        q = mag
    else:
        q = mag * 1024 ** SPEC_EXP[unit[0]]
    want, exact = ceil_fr(q), is_b64(mag) and is_b64(q)
    if out_of_range(mag, q, mag):
        exact = False
    if py == ('int', want):
        return None
    if py[0] != 'int':
        return ('rejected', 'size field %r gave %s, expected %d' % (details[:60], show(py), want), None)
    if exact:
        return ('value', 'size field %r gave %d, expected %d' % (details[:60], py[1], want), None)
    if out_of_range(mag, q, mag):
        return ('value', 'size field gave %d, expected %d (denormal range)' % (py[1], want), 'N3-float-range')
    t = TOL * abs(q)
    if ceil_fr(q - t) <= py[1] <= ceil_fr(q + t):
        return ('int-not-ceil', 'size field %r gave %d, ceiling of the exact quantity is %d (binary64 rounding)'
                % (details[:60], py[1], want), 'N3-float-rounding')
    return ('value', 'size field %r gave %d, expected %d' % (details[:60], py[1], want), None)


def assess(case):
    if case.get('fn') == 's2b':
        if 'return_int' in case:
            return assess_s2b(case['unit_system'], case['text'], case['return_int'])
        f0, f1 = case.get('flags', [False, True])
        return assess_s2b(case['unit_system'], case['text'], f0) or assess_s2b(case['unit_system'], case['text'], f1)
    if case.get('fn') == 'qemu':
        return assess_qemu(case['details'])
    if case.get('fn') == 'field':
        return assess_qemu(case['details'], case.get('which', 0))
    return None


UNI_DIGITS = '٣۴५๓３'
QEMU_SEARCH_FIXED = ['1e+03 MiB (1048575488 bytes)', '1e+3 (7 bytes)', '2.5e+3G (5 bytes)', '1E-2 K ( 12  BYTES ) x',
                     '1.5G (1610612736 bytes)', '1 GiB (1073741824 bytes)', 'about 3 foo (9 bytes), sparse', '196 KiB',
                     '65536', '1e+3', '1e+3K', '12e+2 MiB']


def search_texts(ctx, n):
    rng = ctx.rng
    for sys in SYSTEMS:         # the repaired N3-trailing-newline: must be ValueError
        for ri in (False, True):
            yield sys, '1KB\n' if sys != 'SI' else '1kB\n', ri
            yield sys, '-2.5bit\n', ri
    # state of the public tables after the whole package is imported: every key that is not a documented
    # unit system is an unknown one (ValueError), every exponent key that is not a documented prefix a foreign one
    for key in live_unpinned_systems():
        for text in ('1KB', '-7.9Mib', '.5B', '12bit', '1kB', '3b'):
            for form in ('kw', 'pos'):
                for ri in (False, True, '1', "''"):
                    yield key + [form], text, ri
    for pfx in live_unpinned_prefixes():
        for sys in SYSTEMS:
            for unit in UNITS:
                for ri in (False, True):
                    yield sys, '1' + pfx + unit, ri
    for text in ('1KB', '-7.9Mib', '.5B', '12bit', '1kB'):       # every kind of unit-system argument
        for ri in (False, True):
            for form in ('kw', 'pos'):
                for name in sorted(NONSTR):
                    yield ['py', name, form], text, ri
                for name in UNKNOWN_SYSTEMS + SYSTEMS:
                    yield ['str', name, form], text, ri
            yield OMITTED, text, ri
    for text in ('12b', '1.5KiB', '-12bit', '1KB', '.3Mb'):         # every kind of return_int argument
        for sys in ('IEC', ['str', 'mixed', 'pos'], ['str', 'SI', 'pos'], OMITTED):
            for ri in TRUTHY_FLAGS + FALSY_FLAGS:
                yield sys, text if sys_key(sys) != 'SI' else text.replace('Ki', 'k').replace('K', 'k'), ri
    for sys in SYSTEMS:
        for pfx in [''] + ALL_PREFIXES:
            for unit in UNITS:
                for mag in ('1', '0.5', '7', '-3'):
                    for ri in (False, True):
                        yield sys, mag + pfx + unit, ri
    for _ in range(n):
        text, _tag = gen_text(rng)
        if rng.random() < 0.03:
            i = rng.randrange(len(text) + 1)
            text = text[:i] + rng.choice(UNI_DIGITS + '  ſİ') + text[i:]
        pair = gen_flag_pair(rng)
        yield gen_system(rng), text, pair[rng.random() < 0.5]


def listed_ids():
    return {f['id'] for f in common.load_findings().get('findings', []) if ID in f.get('properties', [])}


def shrink_text(case, key, still):
    """drop characters while the same kind of failure persists"""
    text = case[key]
    chars = common.shrink_list(list(text), lambda sub: still(dict(case, **{key: ''.join(sub)})), max_steps=300)
    small = ''.join(chars)
    return small if still(dict(case, **{key: small})) else text


def search(ctx, seeds, full=False):
    rng = ctx.rng
    listed = listed_ids()
    n = (60000 if full else 12000) if ctx.quick else (600000 if full else 150000)
    nq = n // 3
    new, known = [], {}
    skipped = {}

    def record(case, res):
        kind, what, klass = res
        if klass and klass not in listed:
            skipped[klass] = skipped.get(klass, 0) + 1
            ctx.count('search/in-unlisted-known-class/' + klass)
            return
        if klass:
            if len(known.setdefault(klass, [])) < 2:
                known[klass].append(Failure(case, {'kind': kind, 'what': what}, klass))
            ctx.count('search/known-class/' + klass)
            return
        if len(new) < 5:
            def still(c):
                r = assess(c)
                return r is not None and r[0] == kind and r[2] is None
            key = 'text' if 'text' in case else 'details'
            small = dict(case, **{key: shrink_text(case, key, still)})
            r = assess(small) or res
            new.append(Failure(small, {'kind': r[0], 'what': r[1]}))

    for s in seeds[:300]:
        ctx.evaluations += 1
        if s.get('fn') == 's2b' and 'return_int' not in s:
            for ri in s.get('flags', [False, True]):
                c = dict(s, return_int=ri)
                r = assess(c)
                if r:
                    record(c, r)
        else:
            r = assess(s)
            if r:
                record(s, r)
    for sys, text, ri in search_texts(ctx, n):
        ctx.evaluations += 1
        r = assess_s2b(sys, text, ri)
        if r:
            ctx.count('search/s2b/fail/' + r[0])
            record({'fn': 's2b', 'unit_system': sys_json(sys), 'text': text, 'return_int': ri}, r)
            if len(new) >= 5:
                break
    for d in QEMU_SEARCH_FIXED:
        ctx.evaluations += 1
        r = assess_qemu(d)
        if r:
            ctx.count('search/qemu/fail/' + r[0])
            record({'fn': 'qemu', 'details': d}, r)
    for d in qemu_precedence_sweep():       # also through the public object, all three size fields
        for which in (None, 0, 1, 2):
            if len(new) >= 5:
                break
            ctx.evaluations += 1
            r = assess_qemu(d, which)
            if r:
                ctx.count('search/qemu/fail/' + r[0])
                record({'fn': 'qemu' if which is None else 'field', 'details': d, 'which': which or 0}, r)
    for i in range(nq):
        if len(new) >= 5:
            break
        d, _tag = gen_qemu(rng)
        if rng.random() < 0.02:
            d = d + rng.choice(UNI_DIGITS)
        ctx.evaluations += 1
        which = None
        if i % 4 == 0 and d == d.strip() and not re.search(r'[\n\r\x0b\x0c\x1c-\x1e\x85  ]', d) \
                and d not in ('None', 'unavailable', ''):
            which = i % 3
        r = assess_qemu(d, which)
        if r:
            ctx.count('search/qemu/fail/' + r[0])
            record({'fn': 'qemu' if which is None else 'field', 'details': d, 'which': which or 0}, r)
    if skipped:
        ctx.notes.append('search: %s failing inputs fall in known-finding classes that are not (yet) listed in '
                         'known_findings.json and were not reported: %s' % (sum(skipped.values()), skipped))
    return new + [f for fs in known.values() for f in fs]


# ---------------------------------------------------------------------------
# known findings

KNOWN_CLASSES = ('N3-float-rounding', 'N3-float-range', 'N7-bytes-unit-system-bb')     # N3-trailing-newline is fixed: a violation if it returns


def classify(ctx, failure, listed_findings):
    ids = {f['id'] for f in listed_findings}
    r = assess(failure.case)
    if r is None or r[2] is None:
        return None
    return r[2] if (r[2] in ids and r[2] in KNOWN_CLASSES) else None


def witness_reproduces(ctx, finding):
    w = finding.get('witness')
    if not isinstance(w, dict):
        return False
    r = assess(w)
    return r is not None and r[2] == finding['id']


# ---------------------------------------------------------------------------

def replay(ctx, payload):
    case = payload.get('failure', {}).get('case') or payload.get('case')
    if not case:
        print('nothing to replay: this file names the obligation that no longer checks:')
        print(payload.get('no_longer_checks'))
        return 0
    if case.get('fn') == 's2b':
        ris = [case['return_int']] if 'return_int' in case else case.get('flags', [False, True])
        for ri in ris:
            print('string_to_bytes(%r, unit_system %s, return_int=%s)' % (case['text'], sys_show(case['unit_system']), flag_show(ri)))
            print('  implementation:', show(impl_s2b(case['unit_system'], case['text'], ri)))
            if in_model_domain(case['text']) and sys_in_domain(case['unit_system']):
                print('  model         :', ctx.driver.ask(s2b_line(case['unit_system'], case['text'], ri)))
            else:
                print('  model         : <input outside the modelled character domain>')
            sp = spec(case['unit_system'], case['text'])
            print('  exact oracle  :', 'ValueError expected' if sp is None else
                  ('%s (ceiling %d)' % (sp[1], ceil_fr(sp[1]))))
    else:
        which = case.get('which', 0)
        print('%s(%r)' % ('QemuImgInfo._extract_bytes' if case['fn'] == 'qemu' else
                          'QemuImgInfo("%s: ...").%s' % FIELDS[which % 3], case['details']))
        print('  implementation:', show(impl_qemu(case['details']) if case['fn'] == 'qemu' else impl_field(case['details'], which)))
        if in_model_domain(case['details']):
            print('  model         :', ctx.driver.ask(req(case['fn'], hexs(case['details']))))
    r = assess(case)
    print('property oracle on the implementation:', r)
    return 1 if r else 0


LEVEL_TEXT = ('Machine-checked proof (Lean 4) over a hand-written model of string_to_bytes and '
              'QemuImgInfo._extract_bytes using the tables and regex prefix classes extracted from the code on every '
              'run: for every sign, digit string, admitted prefix, unit and unit system the model returns the exact '
              'quantity (ceiling for return_int) - partial: inside the binary64 range; every other text, foreign prefix '
              'or unknown system - and a text with a trailing newline, the regexes ending in \\Z (generated anchor table) - gives ValueError (full); '
              'no error kind other than ValueError except OverflowError for magnitudes beyond binary64 (known finding); '
              'an explicit "(N bytes)" figure takes precedence in qemu size fields (full). Model tied to the code by a '
              'differential correspondence with exact Fraction comparison (2^-50 tolerance where binary64 is inexact).')
LEVEL_NOTE = ('Trusted: Lean kernel; axioms audited each run; the hand parser standing for Python re on these four '
              'patterns; the translator; IEEE-754 rounding inside the normal range is not modelled (tolerance).')
TECHNIQUE = 'Lean 4 theorems over generated tables + model/implementation correspondence with exact rational comparison'
DESIGN_REF = 'DESIGN.md section 5, C10'
