import OsloModel.Proto
import OsloModel.Eui64
import OsloModel.HostPort
open Oslo Oslo.Proto

/-! Line-protocol driver for C15 (EUI-64, host:port, URL helpers).  Requests:

  eui    <notstr|ipv4|bad|net> <first|-> <type|bad|48|64> <value|->   -> v4:<n> | v6:<n> | ValueError | TypeError
  macof  <4|6> <n>                                                     -> <n> | AddrFormatError
  php    <N|hex address> <N|i:<int>|s:<hex>>                            -> ok <N|hex host> <N|port> | <error>
  esc    <hex address>                                                 -> <0|1> <hex escaped>
  url    <0|1 allow_fragments> <hex scheme> <netloc> <path> <query> <fragment>  -> five hex fields
  params <hex query> <0|1 collapse> <k=v,k=v,…|->                       -> k:o:v,k:m:v|v,…  (insertion order)
-/

def showEuiErr : Eui64.Err → String
  | .valueError => "ValueError" | .typeError => "TypeError" | .addrFormatError => "AddrFormatError"

def showHpErr : HostPort.Err → String
  | .valueError => "ValueError" | .typeError => "TypeError" | .indexError => "IndexError"
  | .unmodelled => "unmodelled"

def parsePrefix (k f : String) : Option Eui64.PrefixIn :=
  match k, f with
  | "notstr", "-" => some .notStr
  | "ipv4", "-" => some .ipv4Addr
  | "bad", "-" => some .malformed
  | "net", f => f.toNat?.map .net
  | _, _ => none

def parseMac (k v : String) : Option Eui64.MacIn :=
  match k, v with
  | "type", "-" => some .wrongType
  | "bad", "-" => some .malformed
  | "48", v => v.toNat?.map .eui48
  | "64", v => v.toNat?.map .eui64
  | _, _ => none

def parseOptChars (s : String) : Option (Option (List Char)) :=
  if s = "N" then some none else (unhexChars s).map some

def parseDef (s : String) : Option HostPort.DefPort :=
  if s = "N" then some .none
  else match s.splitOn ":" with
    | ["i", n] => n.toInt?.map .int
    | ["s", h] => (unhexChars h).map .str
    | _ => none

def parsePair (s : String) : Option (List Char × List Char) :=
  match s.splitOn "=" with
  | [k, v] => do let k ← unhexChars k; let v ← unhexChars v; pure (k, v)
  | _ => none

def parsePairs (s : String) : Option (List (List Char × List Char)) :=
  if s = "-" then some [] else (s.splitOn ",").mapM parsePair

def showPVal : HostPort.PVal → String
  | .one v => "o:" ++ hexChars v
  | .many vs => "m:" ++ String.intercalate "|" (vs.map hexChars)

def parseBool (s : String) : Option Bool :=
  if s = "1" then some true else if s = "0" then some false else none

def handle : List String → String
  | ["eui", pk, pf, mk, mv] =>
    match parsePrefix pk pf, parseMac mk mv with
    | some p, some m =>
      match Eui64.addrByEUI64 p m with
      | .ok (.v4 n) => s!"v4:{n}"
      | .ok (.v6 n) => s!"v6:{n}"
      | .error e => showEuiErr e
    | _, _ => "bad-request"
  | ["macof", ver, n] =>
    match ver, n.toNat? with
    | "4", some n => (match Eui64.macOf (.v4 n) with | .ok v => toString v | .error e => showEuiErr e)
    | "6", some n => (match Eui64.macOf (.v6 n) with | .ok v => toString v | .error e => showEuiErr e)
    | _, _ => "bad-request"
  | ["php", a, d] =>
    match parseOptChars a, parseDef d with
    | some a, some d =>
      match HostPort.parseHostPort a d with
      | .ok (h, p) =>
        let hs := match h with | none => "N" | some h => hexChars h
        let ps := match p with | none => "N" | some p => toString p
        s!"ok {hs} {ps}"
      | .error e => showHpErr e
    | _, _ => "bad-request"
  | ["esc", a] =>
    match unhexChars a with
    | some a => (if HostPort.isValidIPv6 a then "1 " else "0 ") ++ hexChars (HostPort.escapeIPv6 a)
    | none => "bad-request"
  | ["url", af, s, n, p, q, f] =>
    match parseBool af, unhexChars s, unhexChars n, unhexChars p, unhexChars q, unhexChars f with
    | some af, some s, some n, some p, some q, some f =>
      let r := HostPort.urlsplitFix af ⟨s, n, p, q, f⟩
      String.intercalate " " ([r.scheme, r.netloc, r.path, r.query, r.fragment].map hexChars)
    | _, _, _, _, _, _ => "bad-request"
  | ["params", q, c, pairs] =>
    match unhexChars q, parseBool c, parsePairs pairs with
    | some q, some c, some pairs =>
      let d := HostPort.params q pairs c
      if d.isEmpty then "-"
      else String.intercalate "," (d.map (fun kv => hexChars kv.1 ++ ":" ++ showPVal kv.2))
    | _, _, _ => "bad-request"
  | _ => "bad-request"

def main : IO Unit := serve handle
