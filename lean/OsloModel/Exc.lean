/-
Model of the exception helpers of oslo.utils:

* `excutils.save_and_reraise_exception`   (excutils.py:184-227)
* `excutils.exception_filter`             (excutils.py:321-361)
* `excutils.raise_with_cause`             (excutils.py:108-142)
* `fileutils.remove_path_on_error`        (fileutils.py:67-80) and `delete_if_exists` (60-64)

together with the part of the CPython 3.12 runtime they rely on (this part is
*modelled, not verified*; the correspondence exercises it on every run):

* exception objects are ids; the heap gives each id its class, its current
  `__traceback__`, its `__cause__` and its `__suppress_context__`.  A traceback is
  the list of frame tags in `tb_next` order (outermost frame first); `[]` is `None`.
  Only `raise … from c` assigns `__cause__` (and sets `__suppress_context__`); a
  plain `raise e` leaves both alone.  (`__context__`, which the interpreter itself
  assigns on every raise made while another exception is handled, is not modelled;
  the implementation-only oracle checks it.)
* every time an exception is raised by a `raise e` statement in a frame, or comes
  out of a call made by a frame, that frame's tag is put in front of the
  exception's traceback (`Heap.through`).  A context manager's `__exit__`
  returning a false value, and leaving an `except` block, re-raise *without* a new
  entry.  `with_traceback(tb)` replaces the traceback.
* `sys.exc_info()` is the top of the handled-exception stack `excInfo` (entering an
  `except` block pushes, leaving it pops); a callee sees its caller's stack.
* `contextlib._GeneratorContextManager.__exit__`: throws the exception into the
  generator; if the same object comes back out its traceback is reset to the one it
  had at the `with` statement and it is re-raised, a different object propagates
  through one more frame, a generator that returns suppresses.

Handler programs are the inductive type `Body`; `exec` runs one in the frame
`scen` of the rendered scenario against the innermost open
`save_and_reraise_exception` (`Sre`) and the interpreter state `St`.
-/
namespace Oslo.Exc

abbrev ExcId := Nat

/-- frame tags (one per code object that can appear in a traceback) -/
inductive Frame
  | scen          -- the scenario function the body is rendered into
  | sreExit       -- save_and_reraise_exception.__exit__
  | sreForce      -- save_and_reraise_exception.force_reraise
  | sreCapture    -- save_and_reraise_exception.capture
  | filtExit      -- exception_filter.__exit__
  | filtCall      -- exception_filter.__call__
  | pred          -- the user's predicate
  | rwc           -- raise_with_cause
  | rpoeGen       -- the generator remove_path_on_error
  | cmExit        -- contextlib._GeneratorContextManager.__exit__
  | delete        -- fileutils.delete_if_exists
  | removeFn      -- a user supplied `remove`
  | prior (n : Nat)   -- frames of a traceback the exception carried before the scenario
  deriving DecidableEq, Repr

abbrev Tb := List Frame

/-- exception classes, as far as the helpers can tell them apart -/
inductive Cls
  | user (cid : Nat) (needsArgs isExc : Bool)   -- isExc: subclass of `Exception`
  | runtimeError | typeError | osError
  | caused                                      -- a CausedByException subclass
  deriving DecidableEq, Repr

/-- does `cls()` raise TypeError? -/
def Cls.needsArgs : Cls → Bool
  | .user _ n _ => n
  | .caused => true            -- CausedByException.__init__(self, message, cause=None)
  | _ => false

def Cls.isExc : Cls → Bool
  | .user _ _ b => b
  | _ => true

structure Heap where
  cls : ExcId → Cls
  tb : ExcId → Tb
  cause : ExcId → Option ExcId
  suppress : ExcId → Bool      -- `__suppress_context__`
  next : Nat                   -- ids from `next` on are unallocated

def Heap.setTb (h : Heap) (e : ExcId) (t : Tb) : Heap :=
  { h with tb := fun i => if i = e then t else h.tb i }

/-- the exception is raised in / propagates out of a call made by frame `f` -/
def Heap.through (h : Heap) (e : ExcId) (f : Frame) : Heap := h.setTb e (f :: h.tb e)

/-- a new exception object of class `c` (`__traceback__` is None); `from` is the `raise … from`
    clause it is raised with, if any (it sets `__cause__` and `__suppress_context__`) -/
def Heap.alloc (h : Heap) (c : Cls) (frm : Option (Option ExcId)) : Heap × ExcId :=
  ({ cls := fun i => if i = h.next then c else h.cls i,
     tb := fun i => if i = h.next then [] else h.tb i,
     cause := fun i => if i = h.next then frm.join else h.cause i,
     suppress := fun i => if i = h.next then frm.isSome else h.suppress i,
     next := h.next + 1 }, h.next)

/-- what a symbolic link points at -/
inductive LinkTarget | file | dir | missing | loop
  deriving DecidableEq, Repr

/-- what the protected path is, in the `lstat` sense (a dangling link *is* there) -/
inductive PathKind
  | absent | file | dir
  | link (t : LinkTarget)
  deriving DecidableEq, Repr

/-- which logger object a context reports to: the one the scenario's own constructor calls designate
    (the `logger=` argument, or the default when they pass none), or the one the library's internal
    `save_and_reraise_exception()` of remove_path_on_error uses (always the default: the root logger) -/
inductive Sink | scenario | library
  deriving DecidableEq, Repr

/-- one `self.logger.error('Original exception being dropped: %s', format_exception(type_, value, tb))`:
    the call is made on the context's own logger; whether a record comes out is that logger's business
    (`isEnabledFor(ERROR)`), not the helper's -/
structure LogEntry where
  value : Option ExcId
  tb : Tb
  sink : Sink
  deriving DecidableEq, Repr

structure St where
  heap : Heap
  excInfo : List ExcId         -- handled exceptions, innermost first
  log : List LogEntry          -- oldest first
  path : PathKind              -- the path given to remove_path_on_error

def St.through (s : St) (e : ExcId) (f : Frame) : St := { s with heap := s.heap.through e f }

/-- `sys.exc_info()[1]` -/
def St.active (s : St) : Option ExcId := s.excInfo.head?

/-- `sys.exc_info()[2]`: the traceback of the exception being handled -/
def St.activeTb (s : St) : Tb :=
  match s.active with
  | some a => s.heap.tb a
  | none => []

/-- a new exception of class `c` is raised in frame `f` -/
def St.raiseFresh (s : St) (c : Cls) (frm : Option (Option ExcId)) (f : Frame) : St × ExcId :=
  let (h, r) := s.heap.alloc c frm
  ({ s with heap := h.through r f }, r)

inductive Compl
  | ok
  | raised (e : ExcId)
  deriving DecidableEq, Repr

/-! ### save_and_reraise_exception -/

/-- the fields (excutils.py:185-189); records sent to `logger` are collected in the state's `log` -/
structure Sre where
  reraise : Bool
  type_ : Option Cls
  value : Option ExcId
  tb : Tb
  sink : Sink                  -- `self.logger`
  deriving DecidableEq, Repr

/-- `__init__` (184-189) -/
def Sre.init (reraise : Bool) (sink : Sink := .scenario) : Sre := ⟨reraise, none, none, [], sink⟩

/-- `capture(check)` (205-210), run in frame `sreCapture` -/
def capture (check : Bool) (c : Sre) (s : St) : St × Sre × Compl :=
  match s.active with
  | none =>
    if check then
      let (s1, r) := s.raiseFresh .runtimeError none .sreCapture      -- 207-208
      (s1, c, .raised r)
    else (s, { c with type_ := none, value := none, tb := [] }, .ok)
  | some a =>
    (s, { c with type_ := some (s.heap.cls a), value := some a, tb := s.heap.tb a }, .ok)

/-- `__enter__` (212-216): `capture(check=False)`, which cannot raise (`lemma_capture_nocheck`) -/
def enter (c : Sre) (s : St) : Sre := (capture false c s).2.1

/-- lines 198-203: re-raise `v` with the saved traceback, then clear `value` and `tb` -/
def raiseSaved (v : ExcId) (c : Sre) (s : St) : St × Sre × ExcId :=
  let h1 := if s.heap.tb v ≠ c.tb then s.heap.setTb v c.tb else s.heap      -- with_traceback
  ({ s with heap := h1.through v .sreForce }, { c with value := none, tb := [] }, v)

/-- `force_reraise()` (191-203), run in frame `sreForce`; it always raises: the result is the
    state, the context afterwards and the exception that comes out -/
def force (c : Sre) (s : St) : St × Sre × ExcId :=
  match c.value, c.type_ with
  | none, none =>                                                    -- 192-194
    let (s1, r) := s.raiseFresh .runtimeError none .sreForce
    (s1, c, r)
  | some v, _ => raiseSaved v c s
  | none, some cl =>                                                 -- 196-197 `self.type_()`
    if cl.needsArgs then
      let (s1, t) := s.raiseFresh .typeError none .sreForce
      (s1, { c with value := none, tb := [] }, t)                    -- finally 201-203
    else
      let (h1, v) := s.heap.alloc cl none
      raiseSaved v c { s with heap := h1 }

/-- `__exit__` (218-227) of a `with` statement written in frame `withFrame`, given how the
    body ended -/
def exitSre (withFrame : Frame) (c : Sre) (s : St) : Compl → St × Compl
  | .raised e =>                                                     -- 219-225
    (if c.reraise then { s with log := s.log ++ [⟨c.value, c.tb, c.sink⟩] } else s, .raised e)
  | .ok =>
    if c.reraise then                                                -- 226-227
      let (s1, _, v) := force c s
      ((s1.through v .sreExit).through v withFrame, .raised v)
    else (s, .ok)

/-- the four fields after `__exit__` (same lines 218-227): only the `force_reraise()` of a normal exit
    with the flag on touches them; a raising body, or a normal exit with the flag off, leaves the saved
    type / value / traceback in place, so a later `ctxt.force_reraise()` can still use them -/
def exitCtx (c : Sre) (s : St) : Compl → Sre
  | .raised _ => c
  | .ok => if c.reraise then (force c s).2.1 else c

/-! ### exception_filter -/

/-- what a predicate may return: any Python object; `__exit__` hands it to the `with` statement
    (334-336) and `__call__` tests `not …` (347), so only its truth value matters -/
inductive PyVal
  | bool (b : Bool)
  | int (n : Int)
  | str (len : Nat) | list (len : Nat) | tuple (len : Nat)
  | none
  | object                    -- a plain object: true
  | matchObj                  -- an `re.Match`: true
  | custom (b : Bool)         -- an object whose `__bool__` returns `b`
  deriving DecidableEq, Repr

/-- Python truth value testing -/
def PyVal.truthy : PyVal → Bool
  | .bool b => b
  | .int n => n != 0
  | .str n | .list n | .tuple n => n != 0
  | .none => false
  | .object | .matchObj => true
  | .custom b => b

/-- a predicate as a finite table: the ids in `accept` get the answer `yes`, every other `no` (any
    Python values), except the ids in `raises`, on which it raises (and what) -/
structure Pred where
  accept : List ExcId
  raises : List (ExcId × ExcId)
  yes : PyVal := .bool true
  no : PyVal := .bool false
  deriving DecidableEq, Repr

/-- the object the predicate returns for `e` (when it does not raise) -/
def Pred.value (p : Pred) (e : ExcId) : PyVal := if p.accept.contains e then p.yes else p.no

inductive PredRes
  | accept | reject
  | raises (e : ExcId)
  deriving DecidableEq, Repr

def Pred.eval (p : Pred) (e : ExcId) : PredRes :=
  match p.raises.lookup e with
  | some r => .raises r
  | none => if (p.value e).truthy then .accept else .reject      -- truth value of the returned object

/-- an `exception_filter` instance: its `_should_ignore_ex` (321-326) -/
structure Filter where
  shouldIgnore : ExcId → PredRes

/-- what an `exception_filter` stored as a class attribute wraps: a plain function `fn(self, ex)`,
    a `classmethod` `fn(cls, ex)` or a `staticmethod` `fn(ex)`; `σ` is the instance state, `κ` the
    class state -/
inductive Wrapped (σ κ : Type)
  | method (fn : σ → ExcId → PredRes)
  | classMethod (fn : κ → ExcId → PredRes)
  | staticMethod (fn : ExcId → PredRes)

/-- `_should_ignore_ex.__get__(obj, owner)` of the three kinds of wrapped object, for a lookup made
    through the instance `obj` of class `owner` (a lookup on the class itself passes no instance; the
    class method and the static method do not look at it) -/
def Wrapped.bind {σ κ : Type} (w : Wrapped σ κ) (obj : σ) (owner : κ) : ExcId → PredRes :=
  match w with
  | .method fn => fn obj
  | .classMethod fn => fn owner
  | .staticMethod fn => fn

/-- `exception_filter.__get__(obj, owner)` (328-329): a *new* filter around the bound callable — bound
    to the very instance (class) the lookup went through, whatever was looked up before -/
def filterGet {σ κ : Type} (w : Wrapped σ κ) (obj : σ) (owner : κ) : Filter := ⟨w.bind obj owner⟩

/-- how a filter is made and reached -/
inductive FilterForm
  | func                              -- decorator on a module-level function
  | method                            -- decorator on an instance method, reached through an instance
  | classMethod (viaInstance : Bool)  -- on a classmethod, reached through the class / an instance
  | staticMethod (viaInstance : Bool) -- on a staticmethod, reached through the class / an instance
  deriving DecidableEq, Repr

/-- the filter an operation uses: `p` is the predicate table held by the function's closure
    (func, staticmethod), by the instance (`self.accept`; method) or by the class (`cls.accept`;
    classmethod).  Other instances / subclasses with other tables may exist and may have been used
    before: `__get__` does not depend on them. -/
def mkFilter (form : FilterForm) (p : Pred) : Filter :=
  match form with
  | .func => ⟨p.eval⟩
  | .method => filterGet (.method (fun (self : Pred) e => self.eval e) : Wrapped Pred Unit) p ()
  | .classMethod _ => filterGet (.classMethod (fun (cls : Pred) e => cls.eval e) : Wrapped Unit Pred) () p
  | .staticMethod _ => filterGet (.staticMethod p.eval : Wrapped Unit Unit) () ()

/-- calling the predicate (frame `pred`) -/
def callPred (fl : Filter) (e : ExcId) (s : St) : St × PredRes :=
  match fl.shouldIgnore e with
  | .raises x => (s.through x .pred, .raises x)
  | r => (s, r)

/-- `exception_filter.__exit__` (334-336) of a `with` written in frame `scen` -/
def filterExit (fl : Filter) (s : St) : Compl → St × Compl
  | .ok => (s, .ok)                                  -- exc_val is None: returns None
  | .raised e =>
    match callPred fl e s with
    | (s1, .accept) => (s1, .ok)
    | (s1, .reject) => (s1, .raised e)               -- falsy: the `with` re-raises, no new frame
    | (s1, .raises x) => ((s1.through x .filtExit).through x .scen, .raised x)

/-- `exception_filter.__call__(ex)` (338-361) called from frame `scen` -/
def filterCall (fl : Filter) (e : ExcId) (s : St) : St × Compl :=
  let excVal := s.active                                             -- 344
  let traceback : Tb := s.activeTb
  match callPred fl e s with                                         -- 347
  | (s1, .raises x) => ((s1.through x .filtCall).through x .scen, .raised x)
  | (s1, .accept) => (s1, .ok)
  | (s1, .reject) =>
    if excVal = some e then
      -- 348-357 (`exc_val is None` on 350 is false here: exc_val is ex, an exception)
      let h1 := if s1.heap.tb e ≠ traceback then s1.heap.setTb e traceback else s1.heap
      (({ s1 with heap := h1.through e .filtCall }).through e .scen, .raised e)
    else
      ((s1.through e .filtCall).through e .scen, .raised e)          -- 359 `raise ex`

/-! ### remove_path_on_error -/

inductive RemoveFn
  | default                 -- fileutils.delete_if_exists
  | noop                    -- a user function that returns
  | raises (e : ExcId)      -- a user function that raises
  | wrapped                 -- a user function that calls fileutils.delete_if_exists(path)
  deriving DecidableEq, Repr

/-- `delete_if_exists(path)` (fileutils.py:60-64) with the default `os.unlink` (modelled, not verified:
    unlink removes the directory entry itself - a regular file or a symbolic link whatever it points at,
    dangling and looping links included -, fails with ENOENT on a missing entry and with EISDIR/EPERM on
    a directory) -/
def deleteIfExists (s : St) : St × Compl :=
  match s.path with
  | .absent => (s, .ok)                              -- ENOENT is swallowed
  | .file => ({ s with path := .absent }, .ok)
  | .link _ => ({ s with path := .absent }, .ok)
  | .dir =>                                          -- re-raised by the bare `raise`
    let (s1, o) := s.raiseFresh .osError none .delete
    (s1, .raised o)

/-- `remove(path)` called from the generator frame -/
def callRemove (rm : RemoveFn) (s : St) : St × Compl :=
  match rm with
  | .default => deleteIfExists s
  | .noop => (s, .ok)
  | .raises e => (s.through e .removeFn, .raised e)
  | .wrapped =>
    match deleteIfExists s with
    | (s1, .raised o) => (s1.through o .removeFn, .raised o)
    | r => r

/-- tail of `_GeneratorContextManager.__exit__`: `x` came out of `gen.throw(value)` -/
def cmExit (value : ExcId) (tbAtWith : Tb) (x : ExcId) (s : St) : St × Compl :=
  let s1 := s.through x .cmExit
  if x = value then ({ s1 with heap := s1.heap.setTb value tbAtWith }, .raised value)
  else (s1.through x .scen, .raised x)

/-- an exception raised by `remove(path)` passes through the generator frame -/
def removeOut (s : St) : Compl → St
  | .raised x => s.through x .rpoeGen
  | .ok => s

/-- what `with remove_path_on_error(path, remove)` does with an exception `e` leaving its body
    (fileutils.py:76-80) -/
def rpoeExit (rm : RemoveFn) (e : ExcId) (s : St) : St × Compl :=
  let tbAtWith := s.heap.tb e
  let s1 := s.through e .rpoeGen                     -- thrown into the generator at `yield`
  if (s1.heap.cls e).isExc then                      -- `except Exception:`
    let s2 := { s1 with excInfo := e :: s1.excInfo }
    let ci := enter (Sre.init true .library) s2               -- `with excutils.save_and_reraise_exception():`
    let cr := callRemove rm s2                       --     `remove(path)`
    let ex := exitSre .rpoeGen ci (removeOut cr.1 cr.2) cr.2
    let s5 := { ex.1 with excInfo := s1.excInfo }    -- leaving the `except` block
    match ex.2 with
    | .raised x => cmExit e tbAtWith x s5
    | .ok => (s5, .ok)                               -- generator returned: StopIteration, suppressed
  else cmExit e tbAtWith e s1

/-! ### handler programs -/

inductive Body
  | nop
  | raiseCatch (e : ExcId)            -- try: raise E[e] / except BaseException: pass
  | raiseNew (e : ExcId)              -- raise E[e]
  | setReraise (b : Bool)             -- ctxt.reraise = b
  | nest (reraise : Bool) (body : Body)   -- with save_and_reraise_exception(reraise=…) as ctxt': body
  | forceReraise (caught : Bool)      -- ctxt.force_reraise(), inside try/except-pass if `caught`
  | capture                           -- ctxt.capture()
  | seq (a b : Body)
  | handle (e : ExcId) (handler : Body)   -- try: raise E[e] / except BaseException: handler
  | filterCtx (form : FilterForm) (p : Pred) (body : Body)   -- with filt: body
  | filterCall (form : FilterForm) (p : Pred) (e : ExcId)    -- filt(E[e])
  | rpoe (rm : RemoveFn) (body : Body)    -- with remove_path_on_error(path, remove=rm): body
  | rwc (explicit : Option (Option ExcId))  -- raise_with_cause(Caused, 'm'[, cause=…])
  /-- `with save_and_reraise_exception(reraise=…) as ctxt': body` and then, if the `with` statement ended
      normally, `late` run with `ctxt` naming the *exited* context `ctxt'` -/
  | nestThen (reraise : Bool) (body late : Body)
  /-- `try: raise E[e] / except BaseException: with save_and_reraise_exception(reraise=…) as ctxt': body`
      and then, after the whole `try` statement (nothing being handled any more), `late` on `ctxt'` -/
  | handleNestThen (e : ExcId) (reraise : Bool) (body late : Body)
  /-- `with ctxt: body` — the context object `ctxt` already names (made earlier, possibly used before, e.g.
      created once outside a retry loop) is entered (again): `__enter__` captures whatever is active now,
      its `reraise` attribute is whatever it was left at, and afterwards `ctxt` still names it -/
  | enterCur (body : Body)
  /-- `try: body / except BaseException: pass` -/
  | swallow (body : Body)
  deriving DecidableEq, Repr

structure Res where
  st : St
  ctx : Sre
  out : Compl

/-- run a body in frame `scen`; `c` is the innermost open context (the one `ctxt` names) -/
def exec : Body → Sre → St → Res
  | .nop, c, s => ⟨s, c, .ok⟩
  | .raiseNew e, c, s => ⟨s.through e .scen, c, .raised e⟩
  | .raiseCatch e, c, s =>
    -- raised in scen, handled (exc_info pushed), handler passes (popped)
    ⟨s.through e .scen, c, .ok⟩
  | .setReraise b, c, s => ⟨s, { c with reraise := b }, .ok⟩
  | .nest fl body, c, s =>
    let r := exec body (enter (Sre.init fl) s) s
    let (s2, out) := exitSre .scen r.ctx r.st r.out
    ⟨s2, c, out⟩
  | .forceReraise caught, c, s =>
    let (s1, c1, v) := force c s
    ⟨s1.through v .scen, c1, if caught then .ok else .raised v⟩
  | .capture, c, s =>
    match capture true c s with
    | (s1, c1, .ok) => ⟨s1, c1, .ok⟩
    | (s1, c1, .raised r) => ⟨s1.through r .scen, c1, .raised r⟩
  | .seq a b, c, s =>
    let r := exec a c s
    match r.out with
    | .ok => exec b r.ctx r.st
    | .raised _ => r
  | .handle e h, c, s =>
    let s1 := s.through e .scen
    let r := exec h c { s1 with excInfo := e :: s1.excInfo }
    ⟨{ r.st with excInfo := s.excInfo }, r.ctx, r.out⟩
  | .filterCtx bound p body, c, s =>
    let r := exec body c s
    let (s2, out) := filterExit (mkFilter bound p) r.st r.out
    ⟨s2, r.ctx, out⟩
  | .filterCall bound p e, c, s =>
    let (s1, out) := filterCall (mkFilter bound p) e s
    ⟨s1, c, out⟩
  | .rpoe rm body, c, s =>
    let r := exec body c s
    match r.out with
    | .ok => r                          -- generator resumes after `yield` and returns
    | .raised e =>
      let (s2, out) := rpoeExit rm e r.st
      ⟨s2, r.ctx, out⟩
  | .rwc explicit, c, s =>              -- excutils.py:133-142, frame `rwc`
    let cause := match explicit with
      | some given => given
      | none => s.active
    let (s1, w) := s.raiseFresh .caused (some cause) .rwc          -- 142 `raise … from cause`
    ⟨s1.through w .scen, c, .raised w⟩
  | .nestThen fl body late, c, s =>
    let r := exec body (enter (Sre.init fl) s) s
    let ex := exitSre .scen r.ctx r.st r.out
    match ex.2 with
    | .ok =>
      let r2 := exec late (exitCtx r.ctx r.st r.out) ex.1
      ⟨r2.st, c, r2.out⟩
    | .raised x => ⟨ex.1, c, .raised x⟩
  | .handleNestThen e fl body late, c, s =>
    let s1 := s.through e .scen
    let sh := { s1 with excInfo := e :: s1.excInfo }
    let r := exec body (enter (Sre.init fl) sh) sh
    let ex := exitSre .scen r.ctx r.st r.out
    let s3 := { ex.1 with excInfo := s.excInfo }      -- leaving the `except` block
    match ex.2 with
    | .ok =>
      let r2 := exec late (exitCtx r.ctx r.st r.out) s3
      ⟨r2.st, c, r2.out⟩
    | .raised x => ⟨s3, c, .raised x⟩
  | .enterCur body, c, s =>
    let r := exec body (enter c s) s                  -- 212-216: always `capture(check=False)`
    let ex := exitSre .scen r.ctx r.st r.out
    ⟨ex.1, exitCtx r.ctx r.st r.out, ex.2⟩
  | .swallow body, c, s =>
    let r := exec body c s
    match r.out with
    | .ok => r
    | .raised _ => ⟨r.st, r.ctx, .ok⟩                 -- handled (exc_info pushed), `pass`, popped

/-- a whole scenario: `ctxt = save_and_reraise_exception(reraise=flag)` then the body, started
    with no exception being handled -/
def run (flag : Bool) (body : Body) (s0 : St) : Res := exec body (Sre.init flag) s0

/-- operations that address *this* context's saved exception directly (not those of a nested one) -/
def Body.direct : Body → Bool
  | .forceReraise _ => true
  | .capture => true
  | .seq a b => a.direct || b.direct
  | .handle _ h => h.direct
  | .filterCtx _ _ b => b.direct
  | .rpoe _ b => b.direct
  | .enterCur _ => true
  | .swallow b => b.direct
  | _ => false

/-- class of finding N1: a direct `force_reraise()` whose exception cannot leave the body
    (caught by `except`, or raised under an `exception_filter` context) -/
def Body.forceCaught (underFilter : Bool) : Body → Bool
  | .forceReraise caught => caught || underFilter
  | .seq a b => a.forceCaught underFilter || b.forceCaught underFilter
  | .handle _ h => h.forceCaught underFilter
  | .filterCtx _ _ b => b.forceCaught true
  | .rpoe _ b => b.forceCaught underFilter
  | .enterCur b => underFilter || b.forceCaught underFilter    -- its `__exit__` calls force_reraise()
  | .swallow b => b.forceCaught true
  | _ => false

/-- largest exception id a body mentions (the driver rejects ids that were not declared) -/
def Pred.maxId (p : Pred) : Nat :=
  (p.accept.foldl max 0).max (p.raises.foldl (fun m x => m.max (x.1.max x.2)) 0)

def Body.maxId : Body → Nat
  | .raiseCatch e | .raiseNew e => e
  | .nest _ b => b.maxId
  | .seq a b => a.maxId.max b.maxId
  | .handle e h => e.max h.maxId
  | .filterCtx _ p b => p.maxId.max b.maxId
  | .filterCall _ p e => p.maxId.max e
  | .rpoe (.raises e) b => e.max b.maxId
  | .rpoe _ b => b.maxId
  | .rwc (some (some e)) => e
  | .nestThen _ b l => b.maxId.max l.maxId
  | .handleNestThen e _ b l => e.max (b.maxId.max l.maxId)
  | .enterCur b | .swallow b => b.maxId
  | _ => 0

end Oslo.Exc
