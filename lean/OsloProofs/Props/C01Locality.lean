/-
C01 / C05 locality — bytes outside every region's window are never looked at.

For an inspector of ANY of the ten formats at a chunk boundary (`Good2`, Lemmas/StableStep.lean:
every state reached from `Insp.init` by `eat_chunk`s that returned normally — `reachable_good2`)
and a chunk from which no region can take anything (`skippable s c.length`, a decidable predicate
of the state and the chunk LENGTH only), `eat_chunk` moves `_total_count` by the chunk length and
does nothing else, whatever the chunk's bytes are.  Hence a driver may skip such runs without
materialising them (`eatSkip`, `eatSkip_sound`, `feed_skip_run`).

Nothing stronger than `Good2` + `skippable` is needed: a `min_length` region completes only through
the bytes it holds, and those do not change; post-processing reads only the region table, the
identity counter and the check list (`lemma_setAux_postProcess`), so it sees the same state again.
`Good2` itself is needed (a state that is not a fixpoint of post-processing may grow a region on
any chunk, also an empty one).
-/
import OsloProofs.Lemmas.LocalityReach
namespace Oslo.Insp

/-- **eat_ignores_bytes_outside_windows** — at a chunk boundary, if no region of `s` can take
    anything from the next `c.length` bytes (`skippable`: every region is a plain region that is
    complete, or whose window starts at or after `s.total + c.length`, or ends strictly before
    `s.total`; or the chunk is empty), then `eat_chunk(c)` returns normally and the new state is the
    old one with `_total_count` moved by `c.length` — for every content of `c`. -/
theorem eat_ignores_bytes_outside_windows (s : Insp) (c : Bytes) (hg : Good2 s)
    (h : skippable s c.length = true) :
    eatChunk s c = ({ s with total := s.total + c.length }, none) :=
  lemma_eat_no_capture s c hg (lemma_captureAll_skippable s c hg.sinv h)

/-- **eat_skippable_content_irrelevant** — under the same hypothesis two chunks of equal length
    give equal results (state and error) -/
theorem eat_skippable_content_irrelevant (s : Insp) (c1 c2 : Bytes) (hg : Good2 s)
    (hl : c1.length = c2.length) (h : skippable s c1.length = true) :
    eatChunk s c1 = eatChunk s c2 := by
  rw [eat_ignores_bytes_outside_windows s c1 hg h,
    eat_ignores_bytes_outside_windows s c2 hg (hl ▸ h), hl]

/-- **advance_good** — moving `_total_count` keeps the boundary invariant, so the skipping rule can
    be applied again and again along a stream -/
theorem advance_good (s : Insp) (n : Nat) (hg : Good2 s) : Good2 (s.advance n) :=
  lemma_advance_good s n hg

/-- **eatSkip_sound** — when `eatSkip s n` answers `some s'`, every chunk of `n` bytes, whatever its
    content, takes `s` to exactly `s'` without raising; and `s'` is again at a boundary -/
theorem eatSkip_sound (s s' : Insp) (n : Nat) (hg : Good2 s) (h : eatSkip s n = some s') :
    (∀ c : Bytes, c.length = n → eatChunk s c = (s', none)) ∧ Good2 s' := by
  unfold eatSkip at h
  split at h
  · rename_i hsk
    simp only [Option.some.injEq] at h
    subst h
    refine ⟨fun c hc => ?_, lemma_advance_good s n hg⟩
    subst hc
    exact eat_ignores_bytes_outside_windows s c hg hsk
  · simp at h

/-- `eatSkip` answers exactly when the run is skippable -/
theorem eatSkip_isSome (s : Insp) (n : Nat) : (eatSkip s n).isSome = skippable s n := by
  unfold eatSkip
  split <;> simp_all

/-- **skippable_split** — a skippable run may be skipped in pieces (a driver may cap the run length) -/
theorem skippable_split (s : Insp) (m n : Nat) (h : skippable s (m + n) = true) :
    skippable s m = true ∧ skippable (s.advance m) n = true := by
  simp only [skippable, List.all_eq_true] at h ⊢
  refine ⟨fun p hp => ?_, fun p hp => ?_⟩
  · obtain ⟨hE, hr⟩ := (lemma_regionSkips_iff _ _ _).mp (h p hp)
    refine (lemma_regionSkips_iff _ _ _).mpr ⟨hE, ?_⟩
    rcases hr with hr | hr
    · exact Or.inl hr
    · right; omega
  · have hp' : p ∈ s.regions := hp
    obtain ⟨hE, hr⟩ := (lemma_regionSkips_iff _ _ _).mp (h p hp')
    refine (lemma_regionSkips_iff _ _ _).mpr ⟨hE, ?_⟩
    rcases hr with hr | hr
    · exact Or.inl hr
    · right
      show n = 0 ∨ s.total + m + n ≤ p.2.offset ∨ p.2.offset + p.2.length < s.total + m
      omega

/-- **feed_split_skippable** — feeding `a`, then a run `z` that is skippable in the state reached,
    then `b`, is feeding `a`, advancing `_total_count` by `z.length`, and feeding `b`: same final
    state, same error.  Only `a` and `b` need to be materialised. -/
theorem feed_split_skippable (s s1 : Insp) (a z b : Bytes) (hg : Good2 s)
    (ha : eatChunk s a = (s1, none)) (hz : skippable s1 z.length = true) :
    feed s [a, z, b] = eatChunk (s1.advance z.length) b := by
  have hg1 : Good2 s1 := by
    have := lemma_eat_good s a hg (by rw [ha])
    rw [ha] at this
    exact this
  simp only [feed, ha, eat_ignores_bytes_outside_windows s1 z hg1 hz, Insp.advance]
  cases eatChunk { s1 with total := s1.total + z.length } b with
  | mk s2 e => cases e <;> rfl

/-- **feed_skip_run** — the same inside any chunk list (InspectWrapper's feeding discipline): if
    feeding `pre` returned normally in state `s1` and the run `z` is skippable there, then
    `pre ++ z :: post` ends as feeding `post` from `s1` advanced by `z.length` does -/
theorem feed_skip_run (s s1 : Insp) (pre post : List Bytes) (z : Bytes) (hg : Good2 s)
    (hpre : feed s pre = (s1, none)) (hz : skippable s1 z.length = true) :
    feed s (pre ++ z :: post) = feed (s1.advance z.length) post := by
  have hg1 : Good2 s1 := by
    have := lemma_loc_feed_good2 pre s hg (by rw [hpre])
    rw [hpre] at this
    exact this
  rw [lemma_feed_append, hpre]
  simp only [feed, eat_ignores_bytes_outside_windows s1 z hg1 hz, Insp.advance]

/-- **reachable_good2** — every state reached from a fresh inspector of any format by chunks that
    were all processed normally is at a boundary, so the theorems above apply to it; and so is
    every state reached from there by skipping -/
theorem reachable_good2 (f : Fmt) (s0 : Insp) (h0 : Insp.init f = some s0) (chunks : List Bytes)
    (h : (feed s0 chunks).2 = none) : Good2 (feed s0 chunks).1 :=
  lemma_loc_feed_good2 chunks s0 (lemma_loc_init_good2 f s0 h0) h

/-! ### non-vacuity -/

/-- the complete `ident` region of a VHDX image -/
def farIdent : Region :=
  { rid := 0, offset := 0, length := 32, minLength := none,
    data := ascii "vhdxfile" ++ List.replicate 24 0, isEnd := false, endDone := false }

/-- a VHDX inspector after the header region (any 64 KiB `hd`) has been captured and post-processing
    has created the metadata region at file offset `mo`; `t` bytes streamed so far -/
def farMetaState (hd : Bytes) (t mo : Nat) : Insp :=
  { fmt := .vhdx, total := t,
    regions := [("ident", farIdent),
                ("header", { rid := 1, offset := 196608, length := 65536, minLength := none,
                             data := hd, isEnd := false, endDone := false }),
                ("metadata", { rid := 2, offset := mo, length := 65536, minLength := none,
                               data := [], isEnd := false, endDone := false })],
    nextRid := 3, finished := false, checks := ["null"], qcowInfo := none, descText := none,
    vmdkType := formatNotFound }

theorem lemma_farIdent : farIdent.complete = true ∧ farIdent.data.length ≤ farIdent.length ∧
    farIdent.isEnd = false ∧ farIdent.endDone = false ∧ farIdent.rid = 0 ∧ farIdent.length = 32 := by decide

theorem lemma_farMeta_good (hd : Bytes) (hh : hd.length = 65536) (t mo : Nat) : Good2 (farMetaState hd t mo) := by
  have hal : "ident" ∈ allowed .vhdx ∧ "header" ∈ allowed .vhdx ∧ "metadata" ∈ allowed .vhdx := by decide
  have hcap : 32 ≤ cap .vhdx "ident" ∧ 65536 ≤ cap .vhdx "header" ∧ 65536 ≤ cap .vhdx "metadata" := by decide
  have hnd : (["ident", "header", "metadata"] : List String).Nodup := by decide
  obtain ⟨_, hil, hiE, hiD, hir, hilen⟩ := lemma_farIdent
  refine ⟨rfl, ?_, ⟨hnd, ?_⟩, ?_, ?_⟩
  · intro p hp
    simp only [farMetaState, List.mem_cons, List.not_mem_nil, or_false] at hp
    rcases hp with rfl | rfl | rfl
    · exact hiD
    · rfl
    · rfl
  · intro p hp
    simp only [farMetaState, List.mem_cons, List.not_mem_nil, or_false] at hp
    rcases hp with rfl | rfl | rfl
    · exact ⟨hal.1, hil, by rw [hilen]; exact hcap.1, fun h => by rw [hiE] at h; simp at h⟩
    · exact ⟨hal.2.1, by simp [hh], hcap.2.1, by simp⟩
    · exact ⟨hal.2.2, by simp, hcap.2.2, by simp⟩
  · intro p hp
    simp only [farMetaState, List.mem_cons, List.not_mem_nil, or_false] at hp
    rcases hp with rfl | rfl | rfl
    · show farIdent.rid < 3; rw [hir]; omega
    · show 1 < 3; omega
    · show 2 < 3; omega
  · simp [postProcess, vhdxPostProcess, farMetaState, Insp.region, Insp.hasRegion, lookupR,
      vhdxFindMetaEntry, bind, Except.bind, pure, Except.pure]

theorem lemma_farMeta_skippable (hd : Bytes) (hh : hd.length = 65536) (t mo n : Nat)
    (h : n = 0 ∨ t + n ≤ mo ∨ mo + 65536 < t) : skippable (farMetaState hd t mo) n = true := by
  simp only [skippable, farMetaState, List.all_cons, List.all_nil, Bool.and_true, Bool.and_eq_true]
  refine ⟨(lemma_regionSkips_iff _ _ _).mpr ⟨lemma_farIdent.2.2.1, Or.inl lemma_farIdent.1⟩,
    (lemma_regionSkips_iff _ _ _).mpr ⟨rfl, Or.inl ?_⟩, (lemma_regionSkips_iff _ _ _).mpr ⟨rfl, Or.inr h⟩⟩
  simp [Region.complete, hh]

theorem lemma_farMeta_not_skippable (hd : Bytes) (t mo n : Nat)
    (h : 0 < n ∧ mo < t + n ∧ t ≤ mo + 65536) : skippable (farMetaState hd t mo) n = false := by
  cases hs : skippable (farMetaState hd t mo) n
  · rfl
  · exfalso
    simp only [skippable, farMetaState, List.all_cons, List.all_nil, Bool.and_true, Bool.and_eq_true] at hs
    obtain ⟨_, hr⟩ := (lemma_regionSkips_iff _ _ _).mp hs.2.2
    rcases hr with hr | hr
    · simp [Region.complete] at hr
    · simp only at hr
      omega

/-- header complete, metadata region created at 8 GiB, 256 KiB streamed: the next 1 MiB — any
    bytes — is skippable, `eat_chunk` only moves `_total_count`, and `eatSkip` says so -/
example (hd : Bytes) (hh : hd.length = 65536) (c : Bytes) (hc : c.length = 1048576) :
    skippable (farMetaState hd 262144 8589934592) 1048576 = true ∧
    eatChunk (farMetaState hd 262144 8589934592) c = (farMetaState hd (262144 + 1048576) 8589934592, none) ∧
    eatSkip (farMetaState hd 262144 8589934592) 1048576 = some (farMetaState hd (262144 + 1048576) 8589934592) := by
  have hsk := lemma_farMeta_skippable hd hh 262144 8589934592 1048576 (by omega)
  refine ⟨hsk, ?_, ?_⟩
  · have := eat_ignores_bytes_outside_windows _ c (lemma_farMeta_good hd hh 262144 8589934592) (hc ▸ hsk)
    rw [this, hc]
    rfl
  · simp only [eatSkip, hsk, if_true]
    rfl

/-- … and the whole run right up to the region's first byte (8 GiB − 256 KiB bytes) is skippable -/
example (hd : Bytes) (hh : hd.length = 65536) :
    skippable (farMetaState hd 262144 8589934592) (8589934592 - 262144) = true :=
  lemma_farMeta_skippable hd hh _ _ _ (by omega)

/-- … but a 1 MiB run that reaches into the metadata region's window is not: `eatSkip` refuses -/
example (hd : Bytes) :
    skippable (farMetaState hd (8589934592 - 524288) 8589934592) 1048576 = false ∧
    eatSkip (farMetaState hd (8589934592 - 524288) 8589934592) 1048576 = none := by
  have hsk := lemma_farMeta_not_skippable hd (8589934592 - 524288) 8589934592 1048576 (by omega)
  exact ⟨hsk, by simp [eatSkip, hsk]⟩

/-- the hypothesis is needed: on a fresh qcow2 inspector one byte is not skippable, and its value
    does change the result -/
example : (Insp.init .qcow2).map (fun s => (skippable s 1, decide (eatChunk s [0] = eatChunk s [1]))) =
    some (false, false) := by decide

end Oslo.Insp
