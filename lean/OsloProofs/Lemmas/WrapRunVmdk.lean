/-
The VMDK inspector on streams it cannot match: streams that do not start with `KDMV` and that are
either shorter than the 64-byte sparse header or have a non-text byte among their first 64 bytes.
For every chunking the inspector ends with its header region still in place, so `format_match` is
`False`; it raised ImageFormatError exactly when 64 bytes were streamed.  (What is chunk-dependent
in the final state — the residue of an early parse of the offset-0 descriptor region, `vt`/`dt`
below — never reaches the caller of `InspectWrapper.format`, which only returns matching
inspectors.)  Used by Props/C01Wrap.lean to cover non-VMDK content in wrappers that include the
VMDK inspector.
-/
import OsloProofs.Props.C01Vmdk
namespace Oslo.Insp

/-- `vPre` with an arbitrary `vmdktype` (no `NulAt5` assumption: an early parse may set it) -/
def vPreG (n : Nat) (hd d0 : Bytes) (dt : Option Bytes) (vt : Bytes) : Insp :=
  { fmt := .vmdk, total := n, regions := [("header", vHdrR hd), ("descriptor", vDesc0R d0)],
    nextRid := 2, finished := false, checks := ["descriptor"], qcowInfo := none,
    descText := dt, vmdkType := vt }

theorem lemma_preG_capture (p c d0 d0' : Bytes) (dt : Option Bytes) (vt : Bytes) (h : p.length < 64)
    (hd0 : stepRegion c (p.length + c.length) (vDesc0R d0) = vDesc0R d0') :
    ({ vPreG p.length (sliceOf p 0 512) d0 dt vt with total := p.length + c.length } : Insp).captureAll c [] =
      vPreG (p.length + c.length) (sliceOf (p ++ c) 0 512) d0' dt vt := by
  rw [lemma_captureAll_nil]
  simp only [vPreG, List.map_cons, List.map_nil, lemma_vmdk_step_hdr_pre p c h, hd0]

theorem lemma_preG_pp (n : Nat) (hd d0 : Bytes) (dt : Option Bytes) (vt : Bytes) (h : hd.length < 64) :
    postProcess (vPreG n hd d0 dt vt) = (vPreG n hd d0 dt vt, none) := by
  have : postProcess (vPreG n hd d0 dt vt) = vmdkPostProcess (vPreG n hd d0 dt vt) := rfl
  rw [this]
  unfold vmdkPostProcess
  have hl : lookupR "header" (vPreG n hd d0 dt vt).regions = some (vHdrR hd) := rfl
  rw [hl]
  have hc : (vHdrR hd).complete = false := by
    simp [Region.complete, vHdrR, Nat.not_le.mpr h]
  simp only [hc, Bool.not_false, if_true]

/-- the header is complete, is not `KDMV…` and is not text: `post_process` raises ImageFormatError -/
theorem lemma_preG_pp_err (n : Nat) (hd d0 : Bytes) (dt : Option Bytes) (vt : Bytes) (hlen : 64 ≤ hd.length)
    (hsig : startsWith hd kdmv = false) (htxt : isTextHeader hd = false) :
    postProcess (vPreG n hd d0 dt vt) = (vPreG n hd d0 dt vt, some .imageFormat) := by
  have : postProcess (vPreG n hd d0 dt vt) = vmdkPostProcess (vPreG n hd d0 dt vt) := rfl
  rw [this]
  unfold vmdkPostProcess
  have hl : lookupR "header" (vPreG n hd d0 dt vt).regions = some (vHdrR hd) := rfl
  rw [hl]
  simp only [lemma_vmdk_hdr_complete hd hlen, Bool.not_true, Bool.false_eq_true, if_false]
  have hdat : (vHdrR hd).data = hd := rfl
  rw [hdat, lemma_vmdk_parse_hdrOf hd hlen]
  have hne : (hdrOf hd).sig ≠ kdmv := by
    have hl4 : kdmv.length = 4 := by decide
    simp only [startsWith, hl4, beq_eq_false_iff_ne, ne_eq] at hsig
    exact hsig
  simp only [hne, ne_eq, not_false_eq_true, if_true, htxt, Bool.false_eq_true, if_false]

theorem lemma_preG_callbacks (n : Nat) (hd d0 : Bytes) (dt : Option Bytes) (vt : Bytes) :
    ∃ dt' vt', runCallbacks (vPreG n hd d0 dt vt) ["descriptor"] = (vPreG n hd d0 dt' vt', none) := by
  have hr : (vPreG n hd d0 dt vt).region "descriptor" = .ok (vDesc0R d0) := rfl
  have hrc : regionComplete (vPreG n hd d0 dt vt) "descriptor" = vmdkParseDescriptor (vPreG n hd d0 dt vt) := by
    simp [regionComplete, vPreG]
  simp only [runCallbacks, hrc, lemma_vmdkParse_eq _ _ hr]
  have : (vDesc0R d0).data = d0 := rfl
  rw [this]
  cases hp : parseDesc d0 with
  | none => exact ⟨dt, vt, rfl⟩
  | some x =>
    obtain ⟨t, ty⟩ := x
    exact ⟨some t, ty, rfl⟩

/-- one `eat_chunk` that still leaves fewer than 64 bytes streamed (any content) -/
theorem lemma_preG_step (p c d0 : Bytes) (dt : Option Bytes) (vt : Bytes) (hlt : (p ++ c).length < 64)
    (hinv : PlainInv (vDesc0R d0) p) :
    ∃ d0' dt' vt', eatChunk (vPreG p.length (sliceOf p 0 512) d0 dt vt) c =
        (vPreG (p.length + c.length) (sliceOf (p ++ c) 0 512) d0' dt' vt', none) ∧
      PlainInv (vDesc0R d0') (p ++ c) := by
  obtain ⟨d0', hstep, hinv', _⟩ := lemma_vmdk_step_desc0 p c d0 hinv
  simp only [List.length_append] at hlt
  have hpl : p.length < 64 := by omega
  have hql : (sliceOf (p ++ c) 0 512).length < 64 := by
    rw [lemma_sliceOf_length, List.length_append]; omega
  rw [lemma_vmdk_eat_unfold _ c _ _ _ rfl (lemma_preG_capture p c d0 d0' dt vt hpl hstep)
    (lemma_preG_pp _ _ d0' dt vt hql)
    (lemma_followUp_none 8 _ c _ (by simp [vPreG, vHdrR, vDesc0R]))]
  have hc : (vHdrR (sliceOf (p ++ c) 0 512)).complete = false := by
    simp [Region.complete, vHdrR, lemma_sliceOf_length]; omega
  have hc0 : (vHdrR (sliceOf p 0 512)).complete = false := by
    simp [Region.complete, vHdrR, lemma_sliceOf_length]; omega
  have hnames : ((vPreG (p.length + c.length) (sliceOf (p ++ c) 0 512) d0' dt vt).regions.filter (fun x => x.2.complete &&
        !(((vPreG p.length (sliceOf p 0 512) d0 dt vt).regions.filter (·.2.complete)).map (·.2.rid)).contains x.2.rid)).map (·.1) =
      if (vDesc0R d0').complete && !(vDesc0R d0).complete then ["descriptor"] else [] := by
    simp only [vPreG, List.filter_cons, List.filter_nil, hc, hc0, Bool.false_and, Bool.false_eq_true, if_false]
    generalize (vDesc0R d0').complete = b1
    generalize (vDesc0R d0).complete = b2
    cases b1 <;> cases b2 <;> simp [vDesc0R]
  rw [hnames]
  split
  · obtain ⟨dt', vt', hcb⟩ := lemma_preG_callbacks (p.length + c.length) (sliceOf (p ++ c) 0 512) d0' dt vt
    exact ⟨d0', dt', vt', hcb, hinv'⟩
  · exact ⟨d0', dt, vt, rfl, hinv'⟩

theorem lemma_isText_take (x : Bytes) (k : Nat) (h : isTextHeader (x.take k) = false) : isTextHeader x = false := by
  have hx : x = x.take k ++ x.drop k := (List.take_append_drop k x).symm
  unfold isTextHeader at h ⊢
  rw [hx, List.all_append, h]
  rfl

/-- the `eat_chunk` that completes a 64-byte header that is neither `KDMV…` nor text -/
theorem lemma_preG_step_err (p c d0 : Bytes) (dt : Option Bytes) (vt : Bytes)
    (hp64 : p.length < 64) (hq64 : 64 ≤ (p ++ c).length) (hinv : PlainInv (vDesc0R d0) p)
    (hsig : startsWith (p ++ c) kdmv = false) (htxt : isTextHeader ((p ++ c).take 64) = false) :
    ∃ d0', eatChunk (vPreG p.length (sliceOf p 0 512) d0 dt vt) c =
        (vPreG (p.length + c.length) (sliceOf (p ++ c) 0 512) d0' dt vt, some .imageFormat) := by
  obtain ⟨d0', hstep, _, _⟩ := lemma_vmdk_step_desc0 p c d0 hinv
  have hhl : 64 ≤ (sliceOf (p ++ c) 0 512).length := by rw [lemma_sliceOf_length]; omega
  have hl4 : kdmv.length = 4 := by decide
  have hsig' : startsWith (sliceOf (p ++ c) 0 512) kdmv = false := by
    rw [← hsig]
    simp only [startsWith, hl4, sliceOf, List.drop_zero, List.take_take]
    congr 2
  have htxt' : isTextHeader (sliceOf (p ++ c) 0 512) = false := by
    apply lemma_isText_take _ 64
    rw [← htxt]
    simp only [sliceOf, List.drop_zero, List.take_take]
    congr 2
  exact ⟨d0', lemma_vmdk_eat_unfold_err _ c _ _ _ rfl (lemma_preG_capture p c d0 d0' dt vt hp64 hstep)
    (lemma_preG_pp_err _ _ d0' dt vt hhl hsig' htxt')⟩

/-- feeding any chunk list from a state with fewer than 64 bytes streamed, when the whole stream
    `s` is shorter than 64 bytes, or is not `KDMV…` and has a non-text byte among its first 64 -/
theorem lemma_preG_feed (chunks : List Bytes) : ∀ (p d0 : Bytes) (dt : Option Bytes) (vt : Bytes),
    p.length < 64 → PlainInv (vDesc0R d0) p →
    ((p ++ chunks.flatten).length < 64 ∨
      (startsWith (p ++ chunks.flatten) kdmv = false ∧ isTextHeader ((p ++ chunks.flatten).take 64) = false)) →
    ∃ n hd d0' dt' vt',
      feed (vPreG p.length (sliceOf p 0 512) d0 dt vt) chunks =
        (vPreG n hd d0' dt' vt', if (p ++ chunks.flatten).length < 64 then none else some .imageFormat) ∧
      startsWith hd kdmv = startsWith (p ++ chunks.flatten) kdmv := by
  induction chunks with
  | nil =>
    intro p d0 dt vt h64 _ _
    refine ⟨p.length, sliceOf p 0 512, d0, dt, vt, by simp [feed, h64], ?_⟩
    have hl4 : kdmv.length = 4 := by decide
    simp only [List.flatten_nil, List.append_nil, startsWith, hl4, sliceOf, List.drop_zero, List.take_take]
    congr 2
  | cons c cs ih =>
    intro p d0 dt vt h64 hinv hyp
    have hassoc : p ++ (c :: cs).flatten = (p ++ c) ++ cs.flatten := by simp
    rw [hassoc] at hyp ⊢
    by_cases hlt : (p ++ c).length < 64
    · obtain ⟨d0', dt', vt', heat, hinv'⟩ := lemma_preG_step p c d0 dt vt hlt hinv
      rw [← List.length_append] at heat
      simp only [feed, heat]
      exact ih (p ++ c) d0' dt' vt' hlt hinv' hyp
    · have hq64 : 64 ≤ (p ++ c).length := by omega
      have hlong : ¬ ((p ++ c) ++ cs.flatten).length < 64 := by
        rw [List.length_append]; omega
      rcases hyp with hyp | ⟨hsig, htxt⟩
      · exact absurd hyp hlong
      · have hl4 : kdmv.length = 4 := by decide
        have hsw : startsWith ((p ++ c) ++ cs.flatten) kdmv = startsWith (p ++ c) kdmv := by
          simp only [startsWith, hl4]
          rw [List.take_append_of_le_length (by omega)]
        have htk : ((p ++ c) ++ cs.flatten).take 64 = (p ++ c).take 64 :=
          List.take_append_of_le_length hq64
        rw [hsw] at hsig
        rw [htk] at htxt
        obtain ⟨d0', heat⟩ := lemma_preG_step_err p c d0 dt vt h64 hq64 hinv hsig htxt
        refine ⟨p.length + c.length, sliceOf (p ++ c) 0 512, d0', dt, vt, by simp only [feed, heat, if_neg hlong], ?_⟩
        rw [hsw]
        simp only [startsWith, hl4, sliceOf, List.drop_zero, List.take_take]
        congr 2

/-- streams the VMDK inspector cannot match, whatever the chunking -/
def VmdkNoMatch (s : Bytes) : Prop :=
  startsWith s kdmv = false ∧ (s.length < 64 ∨ isTextHeader (s.take 64) = false)

instance (s : Bytes) : Decidable (VmdkNoMatch s) := by unfold VmdkNoMatch; infer_instance

theorem lemma_preG_finish_match (n : Nat) (hd d0 : Bytes) (dt : Option Bytes) (vt : Bytes) :
    formatMatch (vPreG n hd d0 dt vt).finish = .ok (startsWith hd kdmv) := by
  simp [formatMatch, vPreG, Insp.finish, lookupR, Region.finish, vHdrR]

/-- **the VMDK inspector on a stream it cannot match**: for every chunking `format_match` ends
    `False`, and the inspector raised (ImageFormatError) exactly when 64 bytes were streamed -/
theorem lemma_vmdk_nomatch (s0 : Insp) (h0 : Insp.init .vmdk = some s0) (chunks : List Bytes)
    (h : VmdkNoMatch chunks.flatten) :
    formatMatch (runChunks s0 chunks).1 = .ok false ∧
    (feed s0 chunks).2 = if chunks.flatten.length < 64 then none else some .imageFormat := by
  rw [lemma_vmdk_init s0 h0]
  have hyp : (([] : Bytes) ++ chunks.flatten).length < 64 ∨
      (startsWith ([] ++ chunks.flatten) kdmv = false ∧ isTextHeader (([] ++ chunks.flatten).take 64) = false) := by
    rcases h.2 with h2 | h2
    · exact Or.inl (by simpa using h2)
    · exact Or.inr ⟨by simpa using h.1, by simpa using h2⟩
  obtain ⟨n, hd, d0', dt', vt', hfeed, hsw⟩ := lemma_preG_feed chunks [] [] none formatNotFound (by simp)
    lemma_vmdk_plainInv_init hyp
  have hinit : vPre ([] : Bytes).length (sliceOf [] 0 512) [] none =
      vPreG ([] : Bytes).length (sliceOf [] 0 512) [] none formatNotFound := rfl
  rw [hinit]
  simp only [List.nil_append] at hfeed hsw
  refine ⟨?_, by rw [hfeed]⟩
  show formatMatch (feed _ chunks).1.finish = _
  rw [hfeed, lemma_preG_finish_match, hsw, h.1]

end Oslo.Insp
