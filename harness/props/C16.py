"""C16 - text coding helpers round-trip, keep their type contract, are idempotent.

safe_decode / safe_encode / to_utf8 (oslo_utils/encodeutils.py) and to_slug
(oslo_utils/strutils.py).  Model: lean/OsloModel/Encode.lean, lean/OsloModel/Slug.lean;
theorems: lean/OsloProofs/Props/C16.lean; generated tables: lean/OsloModel/Generated/C16.lean.
"""
import os
import re
import types
import unicodedata

import common
from common import Disagreement, Failure, req, hexs, hexb

ID = 'C16'
DRIVER = 'drv_C16'
PROOF_MODULES = ['OsloProofs.Props.C16']
LEVEL = 'proof'
RULE = ('(function, value, incoming, encoding, errors, locale) tuples: values are unicode strings (ASCII, latin-1, BMP, '
        'astral, combining, compatibility characters; surrogate-free), byte strings (valid encodings of such strings, '
        'truncated / mutated / hand-made ill-formed UTF-8, random bytes), each either as an exact str / bytes or as an '
        'instance of a proper subclass (plain, tagged, __str__/__repr__/__format__ overriding, __eq__ overriding, '
        'encode/decode overriding, str-/bytes-mixin Enum member, StrEnum, oslo_i18n Message), and non-text objects '
        '(None, numbers, containers, bytearray, memoryview, array, UserString, StringIO, Path, duck-typed text); codec names in random '
        'letter case and alias spelling, plus unknown names; errors in strict/ignore/replace; sys.stdin.encoding and '
        'sys.getdefaultencoding() scripted.  A case is non-trivial when the call got past the type dispatch and the str '
        'pass-through, i.e. a codec (or the slug pipeline) really ran on a non-empty value, on both sides; distinct by '
        'the full request line.'
        ' Every call goes through a CALL FORM of the pinned public signature (written into this module as data: '
        'safe_decode(text, incoming=None, errors="strict"), safe_encode(text, incoming=None, encoding="utf-8", '
        'errors="strict"), to_utf8(text), to_slug(value, incoming=None, errors="strict")): each parameter positional, '
        'by keyword (every keyword order) or omitted; an omitted parameter has the pinned default as its logical '
        'value and the model applies its own pinned default. How two codec names are judged to AGREE (bytes returned '
        'untouched): exactly when they are equal after lower-casing, as the unchanged code compares them and the model '
        'follows; two aliases of one codec (utf8 / utf-8 / U8, latin1 / latin-1 / iso-8859-1) do NOT agree and the '
        'bytes are transcoded (decoded with incoming, UTF-8 on a decoding error, encoded with encoding), which differs '
        'from "untouched" only on bytes that are ill-formed in the codec - such bytes are generated on purpose, with a '
        'default on one side (encoding omitted; incoming omitted and taken from sys.stdin.encoding / '
        'sys.getdefaultencoding()) against every spelling on the other side.')

TRUSTED_BASE = [
    'Lean 4 kernel; axioms audited per theorem (subset of propext, Classical.choice, Quot.sound)',
    'hand-written models OsloModel/Encode.lean and OsloModel/Slug.lean, tied to encodeutils / strutils.to_slug by this '
    'correspondence',
    'CPython codecs and unicodedata are NOT modelled: the codec table is a parameter of the model with the laws '
    '"decode(encode t) = t when strict encode succeeds", "a policy does not matter when strict succeeds", "lookup is '
    'case-insensitive" as hypotheses (proved for the three codecs implemented in Lean: utf-8, latin-1, ascii; '
    'utf-16, cp1252, shift_jis, ... are exercised by the search against CPython only)',
    'the NFKD + ASCII-ignore front end of to_slug is a parameter assumed to be the identity on ASCII and to yield ASCII',
    'translator generate(): the ASCII membership tables of the two slug regexes (via re._parser.parse of the live '
    'patterns) and of str.isspace denote what Python computes',
]
UNMODELLED = [
    'codecs other than utf-8 / latin-1 / ascii (search oracle only, against CPython)',
    'unicodedata.normalize (parameter of the model)',
    'error policies other than strict / ignore / replace; lone surrogates in str values',
    'codec names outside ASCII; non-string incoming/encoding arguments',
    'str / bytes subclasses whose overridden encode/decode/lower/strip change the meaning of the text protocol '
    '(the model, like the property, speaks about the character / byte content of the instance)',
]
ASSUMPTIONS = [
    'encodeutils reads the locale only through sys.stdin.encoding and sys.getdefaultencoding() (the harness scripts both)',
    'CPython codec lookup ignores letter case (exercised on every run by the search)',
]

GEN_PATH = os.path.join(common.LEAN, 'OsloModel', 'Generated', 'C16.lean')

POLICIES = ['strict', 'ignore', 'replace']

# names the Lean table knows (Encode.lean: utf8Aliases / latin1Aliases / asciiAliases)
MODEL_NAMES = {
    'utf-8': ['utf-8', 'utf8', 'utf_8', 'u8', 'utf', 'cp65001', 'utf 8'],
    'latin-1': ['latin-1', 'latin1', 'latin_1', 'iso-8859-1', 'iso8859-1', 'iso_8859_1', 'l1', 'latin', '8859',
                'cp819'],
    'ascii': ['ascii', 'us-ascii', 'us_ascii', '646', 'us'],
}
UNKNOWN_NAMES = ['no-such-codec', 'utf-88', 'latin-99', 'ascii2', 'x-none']
# codecs exercised against CPython only
EXTRA_CODECS = ['utf-16', 'cp1252', 'shift_jis', 'utf-16-le', 'utf-16-be', 'utf-32', 'cp437', 'koi8-r', 'euc-jp',
                'iso-8859-15', 'big5', 'gb18030', 'mac-roman', 'cp932']

class _UserText:
    """duck-typed text: has encode/decode/lower/strip, is neither str nor bytes"""

    def __init__(self, s):
        self.s = s

    def encode(self, *a):
        return self.s.encode(*a)

    def decode(self, *a):
        return self.s

    def lower(self):
        return self

    def __str__(self):
        return self.s

    def __bytes__(self):
        return self.s.encode('utf-8')

    def __len__(self):
        return len(self.s)


def _others():
    import array
    import collections
    import io
    import pathlib
    return {
        'None': None, 'int': 5, 'float': 1.5, 'bool': True, 'list': ['a'], 'tuple': (b'a',), 'dict': {'a': 1},
        'set': {1}, 'bytearray': bytearray(b'ab'), 'memoryview': memoryview(b'ab'), 'object': object(),
        'exception': ValueError('x'), 'type': str, 'bytes-type': bytes,
        # near-text types that are neither str nor bytes
        'empty-bytearray': bytearray(), 'array': array.array('b', b'ab'), 'UserString': collections.UserString('ab'),
        'StringIO': io.StringIO('ab'), 'BytesIO': io.BytesIO(b'ab'), 'Path': pathlib.PurePosixPath('ab'),
        'duck-text': _UserText('ab'), 'list-of-str': ['a', 'b'], 'int-zero': 0, 'complex': 1j,
    }


OTHERS = _others()


# Proper subclasses of str / bytes.  Their instances ARE str / bytes (isinstance), so the property's
# clauses for str and bytes apply to them; every override below is transparent (it keeps the
# character / byte content and the meaning of the text protocol), it only changes what a helper
# would see if it dispatched on the exact type, on str()/repr()/format(), or on ==.
class PlainStr(str):
    pass


class TaggedStr(str):
    """a str carrying extra attributes (like a lazy translation message)"""

    def __new__(cls, s):
        self = super().__new__(cls, s)
        self.tag = 'tagged'
        return self


class DunderStr(str):
    """__str__/__repr__/__format__ render something else than the content"""

    def __str__(self):
        return '<lazy text>'

    def __repr__(self):
        return '<DunderStr>'

    def __format__(self, spec):
        return '<lazy text>'


class EqStr(str):
    """== is identity-like (never equal to a plain str), hash kept"""

    def __eq__(self, other):
        return self is other

    def __ne__(self, other):
        return self is not other

    __hash__ = str.__hash__


class EncodeStr(str):
    """encode() overridden, delegating to str.encode"""

    def encode(self, *a, **k):
        return super().encode(*a, **k)


class TaggedBytes(bytes):
    def __new__(cls, b):
        self = super().__new__(cls, b)
        self.tag = 'tagged'
        return self


class PlainBytes(bytes):
    pass


class DunderBytes(bytes):
    def __str__(self):
        return '<blob>'

    def __repr__(self):
        return '<DunderBytes>'

    def __bytes__(self):
        return bytes.__getitem__(self, slice(None))


class EqBytes(bytes):
    def __eq__(self, other):
        return self is other

    def __ne__(self, other):
        return self is not other

    __hash__ = bytes.__hash__


class DecodeBytes(bytes):
    def decode(self, *a, **k):
        return super().decode(*a, **k)


def _enum_member(name, mixin, value):
    import enum
    return enum.Enum(name, {'MEMBER': value}, type=mixin).MEMBER


def _str_enum_member(value):
    import enum
    return enum.StrEnum('TextStrEnum', {'MEMBER': value}).MEMBER


def _message(value):
    from oslo_i18n import _message as m
    return m.Message(value, domain='oslo_utils')


STR_SUBCLASSES = {
    'PlainStr': PlainStr, 'TaggedStr': TaggedStr, 'DunderStr': DunderStr, 'EqStr': EqStr, 'EncodeStr': EncodeStr,
    'str-mixin-Enum': lambda s: _enum_member('TextEnum', str, s), 'StrEnum': _str_enum_member,
}
try:
    _message('x')
    STR_SUBCLASSES['oslo_i18n.Message'] = _message
except Exception:        # oslo.i18n not installed: the other subclasses remain
    pass
BYTES_SUBCLASSES = {
    'PlainBytes': PlainBytes, 'TaggedBytes': TaggedBytes, 'DunderBytes': DunderBytes, 'EqBytes': EqBytes,
    'DecodeBytes': DecodeBytes, 'bytes-mixin-Enum': lambda b: _enum_member('BlobEnum', bytes, b),
}


def plain(x):
    """the exact str / bytes with the same content as x (no overridable method of x is used)"""
    if isinstance(x, str):
        return str.__getitem__(x, slice(None))
    if isinstance(x, bytes):
        return bytes.__getitem__(x, slice(None))
    return x


# ---------------------------------------------------------------------------
# translator

def _category(cat, flags):
    from re import _constants as K
    table = {K.CATEGORY_WORD: (r'\w', False), K.CATEGORY_NOT_WORD: (r'\w', True),
             K.CATEGORY_SPACE: (r'\s', False), K.CATEGORY_NOT_SPACE: (r'\s', True),
             K.CATEGORY_DIGIT: (r'\d', False), K.CATEGORY_NOT_DIGIT: (r'\d', True)}
    if cat not in table:
        raise ValueError('unsupported category %r' % (cat,))
    pat, neg = table[cat]
    rx = re.compile(pat, flags & re.ASCII)
    return lambda ch: (rx.fullmatch(ch) is not None) != neg


def _single(item, flags):
    """ASCII code points matched by a one-character regex node."""
    from re import _constants as K
    op, arg = item
    if op is K.LITERAL:
        return {arg} & set(range(128))
    if op is K.NOT_LITERAL:
        return set(range(128)) - {arg}
    if op is K.CATEGORY:
        f = _category(arg, flags)
        return {c for c in range(128) if f(chr(c))}
    if op is K.RANGE:
        return {c for c in range(128) if arg[0] <= c <= arg[1]}
    if op is K.IN:
        items = list(arg)
        neg = bool(items) and items[0][0] is K.NEGATE
        if neg:
            items = items[1:]
        acc = set()
        for it in items:
            acc |= _single(it, flags)
        return (set(range(128)) - acc) if neg else acc
    raise ValueError('unsupported regex node %r' % (op,))


def extract_tables(strutils):
    """(stripClass, hyphenClass, hyphenPlus, pySpace) from the live module."""
    import re._parser as P
    from re import _constants as K
    srx, hrx = strutils.SLUGIFY_STRIP_RE, strutils.SLUGIFY_HYPHENATE_RE
    for rx in (srx, hrx):
        if rx.flags & ~(re.UNICODE | re.ASCII):
            raise ValueError('unsupported regex flags %r on %r' % (rx.flags, rx.pattern))
    sp = list(P.parse(srx.pattern, srx.flags))
    if len(sp) != 1:
        raise ValueError('SLUGIFY_STRIP_RE is not a single character class: %r' % (sp,))
    strip = _single(sp[0], srx.flags)
    hp = list(P.parse(hrx.pattern, hrx.flags))
    if len(hp) != 1:
        raise ValueError('SLUGIFY_HYPHENATE_RE is not a (repeated) character class: %r' % (hp,))
    op, arg = hp[0]
    if op is K.MAX_REPEAT:
        lo, hi, body = arg
        body = list(body)
        if lo != 1 or hi is not K.MAXREPEAT or len(body) != 1:
            raise ValueError('SLUGIFY_HYPHENATE_RE repeat is not "+": %r' % (hp,))
        plus, hyph = True, _single(body[0], hrx.flags)
    else:
        plus, hyph = False, _single(hp[0], hrx.flags)
    # self-check of the translation against the compiled patterns
    for c in range(128):
        if (srx.fullmatch(chr(c)) is not None) != (c in strip):
            raise ValueError('translator: strip class disagrees with the compiled pattern at %d' % c)
        if (hrx.fullmatch(chr(c)) is not None) != (c in hyph):
            raise ValueError('translator: hyphen class disagrees with the compiled pattern at %d' % c)
    space = {c for c in range(128) if chr(c).isspace()}
    for c in range(128):
        want = chr(c + 32) if 65 <= c <= 90 else chr(c)
        if chr(c).lower() != want:
            raise ValueError('str.lower on ASCII is not the A-Z shift at %d' % c)
    return sorted(strip), sorted(hyph), plus, sorted(space)


def render(strip, hyph, plus, space, patterns):
    def nats(l):
        return '[' + ', '.join(str(x) for x in l) + ']'
    return (
        '/- GENERATED by harness/props/C16.py (generate) from the live oslo_utils.strutils - do not edit.\n'
        '   ASCII (0..127) membership of the two to_slug regular expressions, read through re._parser.parse. -/\n'
        'namespace Oslo.Generated.C16\n\n'
        '-- SLUGIFY_STRIP_RE = %s : code points it matches (these are removed)\n'
        'def stripClass : List Nat := %s\n\n'
        '-- SLUGIFY_HYPHENATE_RE = %s : code points its character class matches\n'
        'def hyphenClass : List Nat := %s\n\n'
        '-- the class is repeated with `+` (a maximal run becomes one hyphen)\n'
        'def hyphenPlus : Bool := %s\n\n'
        "-- Python's str.isspace on ASCII (what str.strip() removes)\n"
        'def pySpace : List Nat := %s\n\n'
        'end Oslo.Generated.C16\n'
    ) % (ascii(patterns[0]), nats(strip), ascii(patterns[1]), nats(hyph), 'true' if plus else 'false', nats(space))


def generate():
    from oslo_utils import strutils
    strip, hyph, plus, space = extract_tables(strutils)
    text = render(strip, hyph, plus, space,
                  (strutils.SLUGIFY_STRIP_RE.pattern, strutils.SLUGIFY_HYPHENATE_RE.pattern))
    common.write_if_changed(GEN_PATH, text)


# ---------------------------------------------------------------------------
# running the implementation

class _FakeSys:
    """what encodeutils sees as `sys`: only stdin.encoding and getdefaultencoding() are read"""

    def __init__(self, stdin, default):
        kind, name = stdin
        if kind == 'none':
            self.stdin = None
        elif kind == 'noattr':
            self.stdin = object()
        else:
            self.stdin = types.SimpleNamespace(encoding=name)
        self._default = default

    def getdefaultencoding(self):
        return self._default


class locale:
    def __init__(self, stdin, default):
        self.fake = _FakeSys(stdin, default)

    def __enter__(self):
        from oslo_utils import encodeutils
        self.mod = encodeutils
        self.saved = encodeutils.sys
        encodeutils.sys = self.fake

    def __exit__(self, *a):
        self.mod.sys = self.saved


def stdin_enc(stdin):
    kind, name = stdin
    return name if kind == 'attr' else None


def case_content(case):
    """the character / byte content of the argument as an exact str / bytes (None for other types)"""
    vk = case['vk']
    if vk == 's':
        return common.unhexs(case['val'])
    if vk == 'b':
        return common.unhexb(case['val'])
    return None


def case_value(case):
    """the argument object itself: an exact str / bytes, an instance of the subclass named by
    case['cls'], or a non-text object"""
    vk = case['vk']
    if vk == 'o':
        return OTHERS[case['val']]
    content = case_content(case)
    cls = case.get('cls')
    if not cls:
        return content
    v = (STR_SUBCLASSES if vk == 's' else BYTES_SUBCLASSES)[cls](content)
    assert type(v) is not type(content) and isinstance(v, type(content)) and plain(v) == content
    return v


def canon(r):
    """a result by what it IS (isinstance) and its content; subclass instances are str / bytes"""
    if isinstance(r, str):
        return 'str:' + hexs(plain(r))
    if isinstance(r, bytes):
        return 'bytes:' + hexb(plain(r))
    return 'other:' + type(r).__name__


# The pinned public signatures (as on the clean tree; never read from the tree under test):
# name of the required parameter, then (optional parameter, default) in declaration order.
SIGNATURES = {
    'safe_decode': ('text', [('incoming', None), ('errors', 'strict')]),
    'safe_encode': ('text', [('incoming', None), ('encoding', 'utf-8'), ('errors', 'strict')]),
    'to_utf8': ('text', []),
    'to_slug': ('value', [('incoming', None), ('errors', 'strict')]),
}


def all_forms(fn):
    """Every legal call form: a list of [parameter, 'pos'|'kw'] in the order the arguments are
    written; parameters not listed are omitted.  Positional arguments are a prefix of the
    declaration order; keyword arguments in every order."""
    import itertools
    required, optional = SIGNATURES[fn]
    names = [n for n, _ in optional]
    out = []
    for req_mode in ('pos', 'kw'):
        for npos in range(0, (len(names) if req_mode == 'pos' else 0) + 1):
            head = ([[required, 'pos']] if req_mode == 'pos' else []) + [[n, 'pos'] for n in names[:npos]]
            rest = names[npos:]
            for mask in itertools.product((False, True), repeat=len(rest)):
                kws = ([required] if req_mode == 'kw' else []) + [n for n, m in zip(rest, mask) if m]
                for perm in itertools.permutations(kws):
                    out.append(head + [[n, 'kw'] for n in perm])
    return out


FORMS = {fn: all_forms(fn) for fn in SIGNATURES}


def default_form(fn):
    """everything passed positionally (the only form used before call forms were generated)"""
    required, optional = SIGNATURES[fn]
    return [[required, 'pos']] + [[n, 'pos'] for n, _ in optional]


def omitted(case, fn=None):
    """optional parameters the call form does not pass"""
    form = case.get('form')
    if not form:
        return []
    passed = {n for n, _ in form}
    return [n for n, _ in SIGNATURES[fn or case['fn']][1] if n not in passed]


def with_form(case, form):
    """the case called in the given form; an omitted parameter's logical value is the pinned default"""
    c = dict(case, form=form)
    passed = {n for n, _ in form}
    for n, d in SIGNATURES[case['fn']][1]:
        if n not in passed:
            c[n] = d
    return c


def call_args(case, v):
    form = case.get('form') or default_form(case['fn'])
    required = SIGNATURES[case['fn']][0]
    args, kwargs = [], {}
    for n, mode in form:
        a = v if n == required else case[n]
        if mode == 'pos':
            args.append(a)
        else:
            kwargs[n] = a
    return args, kwargs


def show_call(case):
    form = case.get('form') or default_form(case['fn'])
    required = SIGNATURES[case['fn']][0]
    what = (case.get('cls') or {'s': 'str', 'b': 'bytes'}.get(case['vk'])) if case['vk'] != 'o' else case['val']
    parts = []
    for n, mode in form:
        a = '<%s>' % what if n == required else repr(case[n])
        parts.append(a if mode == 'pos' else '%s=%s' % (n, a))
    return '%s(%s)' % (case['fn'], ', '.join(parts))


def call_impl(case):
    """Run the real function in the case's call form; returns (canonical outcome, raw result or
    exception).  A TypeError raised by the call itself (the arguments do not bind to the
    signature) is reported as err:CallTypeError, never confused with the helper's own TypeError."""
    from oslo_utils import encodeutils, strutils
    v = case_value(case)
    fn = case['fn']
    f = {'safe_decode': encodeutils.safe_decode, 'safe_encode': encodeutils.safe_encode,
         'to_utf8': encodeutils.to_utf8, 'to_slug': strutils.to_slug}[fn]
    args, kwargs = call_args(case, v)
    with locale(case['stdin'], case['default']):
        try:
            r = f(*args, **kwargs)
        except TypeError as e:
            tb = e.__traceback__
            if tb is not None and tb.tb_next is None:
                return 'err:CallTypeError', e
            return 'err:TypeError', e
        except Exception as e:
            return 'err:' + type(e).__name__, e
    return canon(r), r


def opt_name(n):
    return 'N' if n is None else hexs(n)


def front_end(t):
    """the NFKD + ASCII-ignore front end of to_slug (strutils.py:288-289): a parameter of the model"""
    return unicodedata.normalize('NFKD', t).encode('ascii', 'ignore').decode('ascii')


def model_line(case):
    """Request line for the Lean driver.  A parameter the call form omits is sent as `D`: the model
    applies its own pinned default (OsloModel/Encode.lean: defaultIncoming/Encoding/Errors)."""
    fn, vk = case['fn'], case['vk']
    val = case['val'] if vk in 'sb' else '-'
    if case.get('cls') and vk in 'sb':
        vk = vk.upper()                 # instance of a proper subclass: Cls.sub in the model
    env = [opt_name(stdin_enc(case['stdin'])), hexs(case['default'])]
    om = omitted(case, fn)
    inc = 'D' if 'incoming' in om else opt_name(case['incoming'])
    pol = 'D' if 'errors' in om else case['errors']
    if fn == 'safe_decode':
        return req('dec', vk, val, inc, pol, *env)
    if fn == 'safe_encode':
        enc = 'D' if 'encoding' in om else hexs(case['encoding'])
        return req('enc', vk, val, inc, enc, pol, *env)
    if fn == 'to_utf8':
        return req('utf8', vk, val)
    if fn == 'to_slug':
        return req('slug', vk, val, inc, pol, *env)
    raise KeyError(fn)


def model_answers(driver, cases):
    """The model's outcome for each case.

    to_slug on text that is not ASCII is outside the domain of the ASCII pipeline model: there the
    model's own safe_decode result goes through the front end computed by unicodedata (the model's
    parameter) and then through the model's `slugPipe`.  Returns (answers, request lines).
    """
    lines = [model_line(c) for c in cases]
    extra = {}
    for i, c in enumerate(cases):
        if c['fn'] == 'to_slug' and c['vk'] in 'sb':
            extra[i] = len(lines)
            lines.append(model_line(dict(c, fn='safe_decode')))
    replies = driver.ask_many(lines)
    answers = replies[:len(cases)]
    pipes = []
    for i, j in extra.items():
        r = replies[j]
        if r.startswith('str:'):
            t = common.unhexs(r[4:])
            if not t.isascii():
                pipes.append((i, req('pipe', hexs(front_end(t)))))
    if pipes:
        for (i, line), rep in zip(pipes, driver.ask_many([l for _, l in pipes])):
            answers[i] = rep
            lines[i] = lines[i] + ' => ' + line
    return answers, lines[:len(cases)]


# ---------------------------------------------------------------------------
# generators

BOUNDARY = [0x00, 0x1c, 0x1f, 0x20, 0x2d, 0x5f, 0x7f, 0x80, 0xa0, 0xa5, 0xff, 0x100, 0x7ff, 0x800, 0xd7ff, 0xe000,
            0xfffd, 0xffff, 0x10000, 0x1f600, 0x10ffff]
COMBINING = [0x300, 0x301, 0x308, 0x323, 0x20dd, 0x3099, 0x1ab0, 0xfe0f, 0x200d]
COMPAT = [0xfb01, 0x212a, 0xff21, 0xb2, 0xbd, 0xa0, 0x2003, 0x1680, 0x2028, 0x85, 0x130, 0x131, 0x17f, 0x1c5,
          0x2460, 0x3392, 0xfdfa, 0x2126, 0xc5, 0xe9, 0xf1, 0xdf, 0x3000, 0xff0d, 0x2010, 0x2212, 0xfe63]
SLUGGY = ' \t\n\r\x0b\x0c\x1c\x1d\x1e\x1f-_--  aAbZz09!@#.,/\\\'"()[]~'


def gen_char(rng, kind):
    if kind == 'ascii':
        return chr(rng.randrange(0x20, 0x7f))
    if kind == 'sluggy':
        return rng.choice(SLUGGY)
    if kind == 'ctl':
        return chr(rng.randrange(0, 0x20))
    if kind == 'latin1':
        return chr(rng.randrange(0x80, 0x100))
    if kind == 'bmp':
        lo, hi = rng.choice([(0x100, 0x250), (0x370, 0x400), (0x400, 0x500), (0x3040, 0x3100), (0x4e00, 0x4f00),
                             (0xac00, 0xad00), (0x2000, 0x2070), (0xff00, 0xff60), (0xe000, 0xe010)])
        return chr(rng.randrange(lo, hi))
    if kind == 'astral':
        lo, hi = rng.choice([(0x10000, 0x10100), (0x1f300, 0x1f700), (0x20000, 0x20100), (0x1d400, 0x1d500),
                             (0x10fff0, 0x110000)])
        return chr(rng.randrange(lo, hi))
    if kind == 'combining':
        return rng.choice('aeounAEO') + chr(rng.choice(COMBINING))
    if kind == 'compat':
        return chr(rng.choice(COMPAT))
    return chr(rng.choice(BOUNDARY))


KINDS = ['ascii', 'sluggy', 'ctl', 'latin1', 'bmp', 'astral', 'combining', 'compat', 'boundary']


def gen_text(rng, ascii_only=False, sluggy=False):
    n = rng.choice([0, 1, 1, 2, 3, 4, 6, 9, 14])
    if ascii_only:
        kinds = ['ascii', 'sluggy', 'sluggy', 'ctl']
    elif sluggy:
        kinds = ['sluggy', 'sluggy', 'ascii', 'compat', 'combining', 'bmp', 'latin1', 'astral', 'boundary']
    else:
        kinds = KINDS if rng.random() < 0.7 else [rng.choice(KINDS)]
    s = ''.join(gen_char(rng, rng.choice(kinds)) for _ in range(n))
    if ascii_only:
        s = ''.join(c for c in s if ord(c) < 128)
    return s


ILL_FORMED = [b'\xc0\x80', b'\xc1\xbf', b'\xe0\x80\x80', b'\xe0\x9f\xbf', b'\xed\xa0\x80', b'\xed\xbf\xbf',
              b'\xf0\x80\x80\x80', b'\xf0\x8f\xbf\xbf', b'\xf4\x90\x80\x80', b'\xf5\x80\x80\x80', b'\xff', b'\xfe',
              b'\x80', b'\xbf', b'\xe2\x82', b'\xe2', b'\xf0\x9f\x98', b'\xf0\x9f', b'\xf0', b'\xc3', b'\xe2\x82\xe2\x82\xac',
              b'\xf0\x9f\x98\xf0\x9f\x98\x80', b'\xc3\xc3\xa9', b'\xef\xbb\xbf', b'\xff\xfe', b'\xfe\xff']


def gen_bytes(rng, codec_pool):
    r = rng.random()
    if r < 0.05:
        return b''
    if r < 0.45:
        t = gen_text(rng)
        try:
            return t.encode(rng.choice(codec_pool), rng.choice(['ignore', 'replace', 'strict']))
        except (UnicodeError, LookupError):
            return t.encode('utf-8')
    if r < 0.65:
        b = bytearray(gen_text(rng).encode('utf-8'))
        for _ in range(rng.randrange(1, 3)):
            op = rng.randrange(4)
            if op == 0 and b:
                del b[rng.randrange(len(b))]
            elif op == 1:
                b.insert(rng.randrange(len(b) + 1), rng.choice([0x80, 0xbf, 0xc0, 0xc2, 0xe0, 0xed, 0xf0, 0xf4, 0xf5,
                                                                   0xff, rng.randrange(256)]))
            elif op == 2 and b:
                b[rng.randrange(len(b))] ^= 1 << rng.randrange(8)
            elif b:
                del b[rng.randrange(len(b)):]
        return bytes(b)
    if r < 0.85:
        parts = []
        for _ in range(rng.randrange(1, 4)):
            parts.append(rng.choice(ILL_FORMED) if rng.random() < 0.6 else gen_text(rng).encode('utf-8')[:4])
        return b''.join(parts)
    return bytes(rng.randrange(256) for _ in range(rng.randrange(1, 9)))


def recase(rng, name):
    m = rng.randrange(4)
    if m == 0:
        return name
    if m == 1:
        return name.upper()
    if m == 2:
        return name.title()
    return ''.join(c.upper() if rng.random() < 0.5 else c.lower() for c in name)


def gen_model_name(rng, unknown=0.08):
    if rng.random() < unknown:
        return recase(rng, rng.choice(UNKNOWN_NAMES))
    fam = rng.choice(['utf-8', 'utf-8', 'latin-1', 'ascii'])
    return recase(rng, rng.choice(MODEL_NAMES[fam]))


def gen_any_name(rng):
    r = rng.random()
    if r < 0.45:
        return gen_model_name(rng, 0.05)
    return recase(rng, rng.choice(EXTRA_CODECS + ['utf-16', 'cp1252', 'shift_jis']))


def gen_locale(rng, namegen):
    r = rng.random()
    if r < 0.35:
        stdin = ['attr', namegen(rng)]
    elif r < 0.5:
        stdin = ['attr', None]
    elif r < 0.6:
        stdin = ['attr', '']
    elif r < 0.8:
        stdin = ['noattr', None]
    else:
        stdin = ['none', None]
    return stdin, rng.choice(['utf-8', 'utf-8', 'ascii', 'latin-1'])


def gen_value(rng, pool, p_other=0.08, ascii_text=False, sluggy=False, p_sub=0.3):
    """(vk, val, cls): cls names a proper subclass of str / bytes for about p_sub of the text values"""
    r = rng.random()
    if r < p_other:
        return 'o', rng.choice(sorted(OTHERS)), None
    sub = rng.random() < p_sub
    if r < 0.5:
        return ('s', hexs(gen_text(rng, ascii_only=ascii_text, sluggy=sluggy)),
                rng.choice(sorted(STR_SUBCLASSES)) if sub else None)
    return 'b', hexb(gen_bytes(rng, pool)), rng.choice(sorted(BYTES_SUBCLASSES)) if sub else None


def gen_case(rng, namegen, pool, fn=None, ascii_text=False):
    fn = fn or rng.choice(['safe_decode', 'safe_decode', 'safe_encode', 'safe_encode', 'safe_encode', 'to_utf8',
                           'to_slug', 'to_slug'])
    vk, val, cls = gen_value(rng, pool, ascii_text=ascii_text and fn == 'to_slug', sluggy=fn == 'to_slug')
    stdin, default = gen_locale(rng, namegen)
    r = rng.random()
    incoming = None if r < 0.15 else ('' if r < 0.2 else namegen(rng))
    encoding = namegen(rng)
    if fn == 'safe_encode' and incoming and rng.random() < 0.3:
        encoding = recase(rng, incoming)          # the "same codec" branch, in another letter case
    case = {'fn': fn, 'vk': vk, 'val': val, 'cls': cls, 'incoming': incoming, 'encoding': encoding,
            'errors': rng.choice(POLICIES), 'stdin': stdin, 'default': default}
    if rng.random() < 0.3:
        return case                       # everything positional
    case = with_form(case, rng.choice(FORMS[fn]))
    om = omitted(case)
    if fn == 'safe_encode' and vk == 'b':
        # a default on one side against an explicit spelling (or the locale) on the other side
        if 'encoding' in om and 'incoming' not in om and rng.random() < 0.5:
            case['incoming'] = recase(rng, rng.choice(MODEL_NAMES['utf-8']))
        if 'incoming' in om and rng.random() < 0.5:
            fam = [l for l in MODEL_NAMES.values() if case['encoding'].lower() in [a.lower() for a in l]]
            name = recase(rng, rng.choice(fam[0] if fam else MODEL_NAMES['utf-8']))
            if rng.random() < 0.7:
                case['stdin'] = ['attr', name]
            else:
                case['stdin'], case['default'] = ['none', None], name
    return case


FIXED_CASES = [
    # (fn, vk, value, incoming, encoding, errors)
    ('safe_decode', 'b', 'niño'.encode('latin-1'), 'ascii', 'utf-8', 'strict'),
    ('safe_decode', 'b', 'niño'.encode('utf-8'), 'ASCII', 'utf-8', 'strict'),
    ('safe_decode', 'b', b'\xff\xfe', 'ascii', 'utf-8', 'strict'),
    ('safe_decode', 'b', b'\xff\xfe', 'ascii', 'utf-8', 'replace'),
    ('safe_encode', 'b', 'niño'.encode('latin-1'), 'latin-1', 'UTF-8', 'strict'),
    ('safe_encode', 'b', 'niño'.encode('latin-1'), 'Latin-1', 'LATIN-1', 'strict'),
    ('safe_encode', 'b', b'\xff', 'UTF-8', 'utf-8', 'strict'),
    ('safe_encode', 'b', b'\xff', 'utf8', 'utf-8', 'strict'),
    ('safe_encode', 'b', b'', 'utf-8', 'no-such-codec', 'strict'),
    ('safe_encode', 's', '€\U0001f600', None, 'UTF8', 'strict'),
    ('safe_encode', 's', '€', None, 'ascii', 'replace'),
    ('to_utf8', 's', 'á\U0001f600', None, 'utf-8', 'strict'),
    ('to_slug', 's', ' -Foo  Bar- ', None, 'utf-8', 'strict'),
    ('to_slug', 's', 'a\x1cb - -  c__D', None, 'utf-8', 'strict'),
    ('to_slug', 's', '- -', None, 'utf-8', 'strict'),
    ('to_slug', 'b', b'Hello  World\xff', 'ascii', 'utf-8', 'ignore'),
]


def fixed_cases():
    for fn, vk, v, inc, enc, pol in FIXED_CASES:
        yield {'fn': fn, 'vk': vk, 'val': hexs(v) if vk == 's' else hexb(v), 'incoming': inc, 'encoding': enc,
               'errors': pol, 'stdin': ['attr', 'utf-8'], 'default': 'utf-8'}
    for name in sorted(OTHERS):
        for fn in ('safe_decode', 'safe_encode', 'to_utf8', 'to_slug'):
            yield {'fn': fn, 'vk': 'o', 'val': name, 'incoming': None, 'encoding': 'utf-8', 'errors': 'strict',
                   'stdin': ['none', None], 'default': 'utf-8'}
    # every str / bytes subclass through every helper (empty and non-empty content)
    for fn in ('safe_decode', 'safe_encode', 'to_utf8', 'to_slug'):
        for cls in sorted(STR_SUBCLASSES):
            for text in ('', 'H\xe9llo  World \u20ac'):
                yield {'fn': fn, 'vk': 's', 'val': hexs(text), 'cls': cls, 'incoming': None, 'encoding': 'UTF-8',
                       'errors': 'strict', 'stdin': ['none', None], 'default': 'utf-8'}
        for cls in sorted(BYTES_SUBCLASSES):
            for data in (b'', 'H\xe9llo  World'.encode('latin-1'), 'H\xe9llo  World'.encode('utf-8')):
                for inc, enc in (('latin-1', 'utf-8'), ('Latin-1', 'LATIN-1'), ('utf-8', 'latin-1')):
                    yield {'fn': fn, 'vk': 'b', 'val': hexb(data), 'cls': cls, 'incoming': inc, 'encoding': enc,
                           'errors': 'strict', 'stdin': ['none', None], 'default': 'utf-8'}


def spellings(name):
    return sorted({name, name.upper(), name.title(), name.swapcase()})


ILL = {'utf-8': [b'\xff\xfe', b'caf\xe9', b'\xc3', b'\xe2\x82 ok'], 'ascii': [b'caf\xe9', b'\xff'],
       'latin-1': [b'caf\xe9', b'\xff\xfe']}


def signature_cases():
    """The pinned signatures: every call form of every helper; and, for safe_encode on bytes, a
    default on one side against every spelling of the same codec on the other side (explicit, from
    sys.stdin.encoding, from sys.getdefaultencoding()) with bytes that are ill-formed in it."""
    base = {'cls': None, 'stdin': ['none', None], 'default': 'utf-8'}
    # (a) every call form, with logical arguments that differ per parameter
    for fn in sorted(SIGNATURES):
        for form in FORMS[fn]:
            for vk, val in (('s', hexs('Caf\xe9  Ol\xe9')), ('b', hexb('Caf\xe9'.encode('utf-8'))),
                            ('b', hexb('Caf\xe9'.encode('latin-1'))), ('o', 'None')):
                for inc, enc, pol in (('utf-8', 'latin-1', 'strict'), ('ascii', 'utf-8', 'replace'),
                                      ('latin-1', 'ascii', 'ignore')):
                    yield with_form(dict(base, fn=fn, vk=vk, val=val, incoming=inc, encoding=enc, errors=pol), form)
    # (b) safe_encode(bytes): encoding omitted, incoming spelled in every way / taken from the locale
    enc_omitted = [f for f in FORMS['safe_encode'] if 'encoding' not in [n for n, _ in f]]
    inc_passed = [f for f in enc_omitted if 'incoming' in [n for n, _ in f]]
    inc_omitted = [f for f in enc_omitted if 'incoming' not in [n for n, _ in f]]
    k = 0
    for fam, aliases in sorted(MODEL_NAMES.items()):
        for alias in aliases:
            for name in spellings(alias):
                for data in ILL[fam] + [b'plain']:
                    for pol in POLICIES:
                        k += 1
                        c = dict(base, fn='safe_encode', vk='b', val=hexb(data), incoming=name, encoding='utf-8',
                                 errors=pol)
                        yield with_form(c, inc_passed[k % len(inc_passed)])
                        f = inc_omitted[k % len(inc_omitted)]
                        yield with_form(dict(c, stdin=['attr', name]), f)
                        yield with_form(dict(c, stdin=['attr', None], default=name), f)
    # (c) both names explicit: every pair of spellings inside a family (same codec, names agree or not)
    for fam, aliases in sorted(MODEL_NAMES.items()):
        names = aliases + [aliases[0].upper(), aliases[-1].title()]
        for a in names:
            for b in names:
                for pol in POLICIES:
                    yield dict(base, fn='safe_encode', vk='b', val=hexb(ILL[fam][0]), incoming=a, encoding=b,
                               errors=pol)
    # (d) safe_decode / to_slug with everything omitted, the codec coming from the locale
    for fn in ('safe_decode', 'to_slug'):
        required = SIGNATURES[fn][0]
        for name in ['utf-8', 'UTF8', 'ascii', 'Latin-1', 'no-such-codec']:
            for data in (b'caf\xe9  X', b'caf\xc3\xa9  X', b'\xff'):
                for form in ([[required, 'pos']], [[required, 'kw']]):
                    c = dict(base, fn=fn, vk='b', val=hexb(data), incoming=None, encoding='utf-8', errors='strict')
                    yield with_form(dict(c, stdin=['attr', name]), form)
                    yield with_form(dict(c, default=name), form)


# ---------------------------------------------------------------------------
# correspondence: model (Lean driver) vs implementation

def in_model_domain(case):
    for k in ('incoming', 'encoding', 'default'):
        n = case[k]
        if n is not None and not n.isascii():
            return False
    n = stdin_enc(case['stdin'])
    return n is None or n.isascii()


def correspondence(ctx):
    rng = ctx.rng
    pool = ['utf-8', 'utf-8', 'latin-1', 'ascii']
    n = 40000 if ctx.quick else 400000
    cases = list(fixed_cases()) + list(signature_cases())
    for _ in range(n):
        cases.append(gen_case(rng, gen_model_name, pool, ascii_text=rng.random() < 0.5))
    cases = [c for c in cases if in_model_domain(c)]
    replies, lines = model_answers(ctx.driver, cases)
    out = []
    for case, line, rep in zip(cases, lines, replies):
        ctx.evaluations += 1
        impl, _ = call_impl(case)
        ctx.count('corr/%s/%s' % (case['fn'], case['vk']))
        if case.get('cls'):
            ctx.count('corr-class/%s/%s' % (case['fn'], case['cls']))
        if case.get('form'):
            ctx.count('corr-form/%s/%s/omitted:%s' % (
                case['fn'], ''.join(m[0] for _, m in case['form']), ','.join(omitted(case)) or '-'))
        ctx.count('corr-branch/' + branch_of(case))
        ctx.count('corr-out/' + (impl if impl.startswith('err:') else impl.split(':')[0]))
        v = case_content(case)
        passthrough = case['fn'] == 'safe_decode' and case['vk'] == 's'
        if v and not passthrough and impl != 'err:TypeError' and rep == impl:
            ctx.nontrivial(line)
        ctx.sample({'case': case, 'implementation': impl, 'model': rep}, 6)
        if impl != rep:
            out.append(Disagreement(case, impl, rep))
    return out


# ---------------------------------------------------------------------------
# failing-input search: the property stated on the implementation only

def outcome(f):
    try:
        return ('ok', f())
    except Exception as e:
        return ('err', type(e).__name__)


def spec_decode(b, name, errors):
    """bytes decoded with the given codec, UTF-8 when that codec reports a decoding error"""
    try:
        return bytes(b).decode(name, errors)
    except UnicodeDecodeError:
        return bytes(b).decode('utf-8', errors)


SLUG_OK = re.compile(r'[a-z0-9_-]*\Z', re.ASCII)


def check_slug_output(out):
    if not isinstance(out, str):
        return 'to_slug returned %s' % type(out).__name__
    out = plain(out)
    if not SLUG_OK.match(out):
        return 'to_slug output %r has characters outside [a-z0-9_-]' % out
    if '--' in out:
        return 'to_slug output %r has two adjacent hyphens' % out
    return None


def branch_of(case):
    """Which part of the property a case exercises (for the input-distribution histogram)."""
    fn, vk = case['fn'], case['vk']
    if vk == 'o':
        return 'other-type'
    v = case_content(case)
    resolved = case['incoming'] or (stdin_enc(case['stdin']) or case['default'])
    src = 'explicit' if case['incoming'] else ('stdin' if stdin_enc(case['stdin']) else 'default')
    if vk == 's':
        return {'safe_decode': 'str-passthrough', 'safe_encode': 'str-encode', 'to_utf8': 'str-utf8',
                'to_slug': 'slug-ascii-text' if v.isascii() else 'slug-unicode-text'}[fn]
    if fn == 'to_utf8':
        return 'bytes-identity'
    if fn == 'safe_encode' and (not v or resolved.lower() == case['encoding'].lower()):
        return 'bytes-untouched/' + ('empty' if not v else 'same-name')
    try:
        v.decode(resolved, case['errors'])
        how = 'codec-ok'
    except UnicodeDecodeError:
        how = 'utf8-fallback'
    except LookupError:
        how = 'unknown-codec'
    pre = {'safe_decode': 'bytes-decode', 'safe_encode': 'bytes-transcode', 'to_slug': 'slug-bytes'}[fn]
    return '%s/%s/incoming-%s' % (pre, how, src)


def oracle(case, note=None):
    """First way the property fails on this case (a string), or None."""
    from oslo_utils import encodeutils, strutils
    note = note or (lambda k: None)
    fn, vk = case['fn'], case['vk']
    # the content of the argument as an exact str / bytes: what the property speaks about, whatever
    # the concrete class (case['cls']) of the object handed to the helper
    v = case_content(case)
    what = (case.get('cls') or {'s': 'str', 'b': 'bytes'}.get(vk, '')) + ' instance'
    errors = case['errors']
    resolved = case['incoming'] or (stdin_enc(case['stdin']) or case['default'])
    got, raw = call_impl(case)
    if got == 'err:CallTypeError':
        return ('the call %s does not bind to the signature (%s); the pinned signature %s(%s) accepts this form'
                % (show_call(case), raw, fn, ', '.join([SIGNATURES[fn][0]] + ['%s=%r' % nd for nd in SIGNATURES[fn][1]])))
    if vk == 'o':
        return None if got == 'err:TypeError' else '%s(%s) gave %s, expected TypeError' % (fn, case['val'], got)
    if got == 'err:TypeError':
        return '%s(%s) raised TypeError, but the argument is a %s' % (fn, what, {'s': 'str', 'b': 'bytes'}[vk])
    if case.get('cls'):
        # an instance of a subclass IS a str / bytes: same outcome as for the exact str / bytes
        exact, _ = call_impl(dict(case, cls=None))
        if exact != got:
            return ('%s(%s) gave %s but %s for the %s with the same content'
                    % (fn, what, got, exact, {'s': 'str', 'b': 'bytes'}[vk]))
    if fn == 'to_utf8':
        if vk == 'b':
            return None if (isinstance(raw, bytes) and plain(raw) == v) else 'to_utf8(%s) gave %s, expected the bytes themselves' % (what, got)
        want = outcome(lambda: str(v).encode('utf-8'))
        if want[0] == 'ok' and not (isinstance(raw, bytes) and plain(raw) == want[1] and plain(raw).decode('utf-8') == v):
            return 'to_utf8(%s) gave %s, UTF-8 is %r' % (what, got, want[1])
        if want[0] == 'err' and got != 'err:' + want[1]:
            return 'to_utf8(%s) gave %s, expected %s' % (what, got, want[1])
        return None
    if fn == 'safe_decode':
        if vk == 's':
            return None if (isinstance(raw, str) and plain(raw) == v) else 'safe_decode(%s) gave %s, expected the text itself' % (what, got)
        want = outcome(lambda: spec_decode(v, resolved, errors))
        if want[0] == 'ok':
            if not (isinstance(raw, str) and plain(raw) == want[1]):
                return 'safe_decode(bytes, %r, %r) gave %s, the codec (UTF-8 on failure) gives %r' % (
                    resolved, errors, got, want[1])
        elif got != 'err:' + want[1]:
            return 'safe_decode(bytes, %r, %r) gave %s, expected %s' % (resolved, errors, got, want[1])
        return None
    if fn == 'safe_encode':
        enc = case['encoding']
        if vk == 's':
            want = outcome(lambda: str(v).encode(enc, errors))
            if want[0] == 'err':
                return None if got == 'err:' + want[1] else 'safe_encode(str, %r) gave %s, expected %s' % (enc, got, want[1])
            if not (isinstance(raw, bytes) and plain(raw) == want[1]):
                return 'safe_encode(str, encoding=%r, errors=%r) gave %s, the codec gives %r' % (enc, errors, got, want[1])
            # round trip, when the codec itself represents the text
            strict = outcome(lambda: str(v).encode(enc, 'strict'))
            if strict[0] != 'ok' or strict[1] != plain(raw):
                note('roundtrip/not-representable')
            elif outcome(lambda: plain(raw).decode(enc))[1] != v:
                note('roundtrip/codec-itself-unfaithful')       # e.g. shift_jis maps U+00A5 to 0x5C
            else:
                note('roundtrip/checked')
                for enc2 in (enc, enc.upper(), enc.lower(), enc.swapcase()):
                    for pol2 in POLICIES:
                        with locale(case['stdin'], case['default']):
                            back = outcome(lambda: encodeutils.safe_decode(raw, incoming=enc2, errors=pol2))
                        if back[0] == 'ok' and isinstance(back[1], str):
                            back = ('ok', plain(back[1]))
                        if back != ('ok', v):
                            return ('round trip: safe_decode(safe_encode(%r, encoding=%r), incoming=%r, errors=%r) '
                                    'gave %r' % (v, enc, enc2, pol2, back[1]))
            return None
        # bytes
        if not v or resolved.lower() == enc.lower():
            return None if (isinstance(raw, bytes) and plain(raw) == v) else (
                'safe_encode(bytes, incoming=%r, encoding=%r) must return the bytes untouched, gave %s'
                % (resolved, enc, got))
        want = outcome(lambda: spec_decode(v, resolved, errors).encode(enc, errors))
        if want[0] == 'ok':
            if not (isinstance(raw, bytes) and plain(raw) == want[1]):
                return 'safe_encode(bytes, incoming=%r, encoding=%r, errors=%r) gave %s, transcoding gives %r' % (
                    resolved, enc, errors, got, want[1])
        elif got != 'err:' + want[1]:
            return 'safe_encode(bytes, incoming=%r, encoding=%r, errors=%r) gave %s, expected %s' % (
                resolved, enc, errors, got, want[1])
        return None
    if fn == 'to_slug':
        if vk == 'b':
            want = outcome(lambda: spec_decode(v, resolved, errors))
            if want[0] == 'err':
                return None if got == 'err:' + want[1] else 'to_slug(bytes) gave %s, expected %s' % (got, want[1])
        if got.startswith('err:'):
            return 'to_slug(%s) raised %s on text input' % (what, got[4:])
        if vk == 's':
            # what the theorems assume about the front end (a parameter of the model)
            f = front_end(v)
            if not f.isascii() or (v.isascii() and f != v):
                return 'assumption: the NFKD/ASCII-ignore front end maps %r to %r' % (v, f)
        why = check_slug_output(raw)
        if why:
            return why
        with locale(case['stdin'], case['default']):
            again = outcome(lambda: strutils.to_slug(raw))
        if again[0] == 'ok' and isinstance(again[1], str):
            again = ('ok', plain(again[1]))
        if again != ('ok', plain(raw)):
            return 'to_slug is not idempotent: to_slug(%r) = %r' % (raw, again[1])
        return None
    return 'unknown function %r' % fn


def shrink_case(case):
    """Shrink the value (characters / bytes) while the oracle still fails."""
    if case['vk'] == 'o':
        return case
    if case['vk'] == 's':
        items = list(common.unhexs(case['val']))
        mk = lambda l: hexs(''.join(l))
    else:
        items = list(common.unhexb(case['val']))
        mk = lambda l: hexb(bytes(l))

    def still(sub):
        c = dict(case, val=mk(sub))
        try:
            return oracle(c) is not None
        except Exception:
            return False
    small = common.shrink_list(items, still) if len(items) > 1 else items
    out = dict(case, val=mk(small))
    if out.get('form'):
        # does it also fail with every (logical) argument spelled out positionally?  then show that
        explicit = {k: v for k, v in out.items() if k != 'form'}
        try:
            if oracle(explicit) is not None:
                out = explicit
        except Exception:
            pass
    return out


def search(ctx, seeds, full=False):
    rng = ctx.rng
    pool = ['utf-8', 'utf-8', 'latin-1', 'ascii', 'utf-16', 'cp1252', 'shift_jis'] + EXTRA_CODECS
    n = (100000 if full else 40000) if ctx.quick else (600000 if full else 400000)
    todo = [s for s in seeds[:300] if isinstance(s, dict) and 'fn' in s]
    todo += list(fixed_cases()) + list(signature_cases())

    def gen():
        for i in range(n):
            r = rng.random()
            if r < 0.3:
                yield gen_case(rng, gen_any_name, pool, fn='to_slug')
            else:
                yield gen_case(rng, gen_any_name, pool)
    fails, kinds = [], set()
    import itertools
    for case in itertools.chain(todo, gen()):
        ctx.evaluations += 1
        ctx.count('search/%s/%s' % (case['fn'], case['vk']))
        ctx.count('search-branch/' + branch_of(case).split('/incoming')[0])
        why = oracle(case, lambda k: ctx.count('search-' + k))
        if why:
            kind = '%s/%s%s: %s' % (case['fn'], case['vk'], '-subclass' if case.get('cls') else '',
                                    re.split(r'[(:]| gave| output| is not| raised', why)[0][:40])
            if kind in kinds:
                continue
            kinds.add(kind)
            small = shrink_case(case)
            fails.append(Failure(small, {'kind': kind, 'call': show_call(small), 'what': oracle(small) or why}))
            if len(fails) >= 5:
                break
    return fails


def replay(ctx, payload):
    case = payload.get('failure', {}).get('case') or payload.get('case')
    if not case:
        print('nothing to replay: this file names the obligation that no longer checks:')
        print(payload.get('no_longer_checks'))
        return 0
    print('case          :', case)
    print('call          :', show_call(case))
    if case['vk'] != 'o':
        print('value         : %s with content %r' % (case.get('cls') or 'exact', case_content(case)))
    impl, _ = call_impl(case)
    print('implementation:', impl)
    dom = in_model_domain(case)
    names = [case['incoming'], case['encoding'], stdin_enc(case['stdin']), case['default']]
    print('model         :', model_answers(ctx.driver, [case])[0][0] if dom else '<outside the model domain>',
          '' if all(n is None or not n or _known(n) for n in names) else
          '(codec names unknown to the Lean table are LookupError there)')
    why = oracle(case)
    print('property oracle on the implementation:', why)
    return 1 if why else 0


def _known(name):
    n = name.lower().replace('-', '_').replace(' ', '_')
    return any(n == a.lower().replace('-', '_').replace(' ', '_') for l in MODEL_NAMES.values() for a in l)


LEVEL_TEXT = ('Machine-checked proof (Lean 4) over hand-written models of encodeutils.safe_decode / safe_encode / to_utf8 '
              'and of strutils.to_slug. For every text, byte string, codec name, locale and error policy: safe_decode is '
              'the identity on str and decodes bytes with the given codec, UTF-8 on a decoding error; safe_encode then '
              'safe_decode with the same name (any letter case) returns the text whenever the codec can represent it; '
              'safe_encode returns bytes untouched when they are empty or the two names agree up to case and transcodes '
              'otherwise; to_utf8 is UTF-8 on str and the identity on bytes; all four treat an instance of any subclass of '
              'str / bytes like the str / bytes with the same content and raise TypeError exactly on the other types; '
              'to_slug yields only [a-z0-9_-] with no two adjacent hyphens (a leading or trailing hyphen is possible) '
              'and is idempotent. The codec table and the NFKD front end are parameters: their laws are hypotheses '
              '(proved for the utf-8, latin-1 and ascii codecs implemented in Lean); the slug character classes are '
              'generated from the live regular expressions. Tied to the code by a differential correspondence on every '
              'run; other codecs (utf-16, cp1252, shift_jis, ...) are checked against CPython by the search only.')
LEVEL_NOTE = ('Trusted: Lean kernel (axioms audited each run); the hand models; the translator of the two regexes; CPython '
              'codecs and unicodedata are parameters with their laws as hypotheses (partial by nature, DESIGN.md C16).')
TECHNIQUE = 'Lean 4 theorems over an abstract codec table + generated regex tables + model/implementation correspondence'
DESIGN_REF = 'DESIGN.md section 5, C16'
