import OsloModel.Proto
import OsloModel.Specs
open Oslo Oslo.Specs Oslo.Proto

/-
Requests
  match  <hex value> <hex spec>      -> <tree> TAB <outcome>
      tree    = PE | hex,hex,…      (tokens of the prefix parse)
      outcome = ok:1 | ok:0 | ValueError | TypeError | KeyError | IndexError | unmodelled
  float  <hex text>                  -> num:<n>/<d> | inf | -inf | nan | ValueError | unmodelled
  lit    <hex text>                  -> unmodelled | item:<i> | list:<i>,<i>,…   (i = s<hex> | n<n>/<d>)
-/

def showOutcome : Outcome → String
  | .ok true => "ok:1"
  | .ok false => "ok:0"
  | .err .valueError => "ValueError"
  | .err .typeError => "TypeError"
  | .err .keyError => "KeyError"
  | .err .indexError => "IndexError"
  | .unmodelled => "unmodelled"

def showTree : Option (List Str) → String
  | none => "PE"
  | some toks => String.intercalate "," (toks.map hexChars)

def showRat (q : Rat) : String := s!"{q.num}/{q.den}"

def showFloat : FloatRes → String
  | .num (.fin q) => "num:" ++ showRat q
  | .num (.inf false) => "inf"
  | .num (.inf true) => "-inf"
  | .num .nan => "nan"
  | .valueError => "ValueError"
  | .unmodelled => "unmodelled"

def showItem : Item → String
  | .str s => "s" ++ hexChars s
  | .num q => "n" ++ showRat q

def showLit : Option LitVal → String
  | none => "unmodelled"
  | some (.item i) => "item:" ++ showItem i
  | some (.list l) => "list:" ++ String.intercalate "," (l.map showItem)

def handle : List String → String
  | ["match", v, spec] =>
    match unhexChars v, unhexChars spec with
    | some v, some spec => showTree (parse spec) ++ "\t" ++ showOutcome (matchSpec v spec)
    | _, _ => "bad-request"
  | ["float", t] =>
    match unhexChars t with
    | some t => showFloat (pyFloat t)
    | none => "bad-request"
  | ["lit", t] =>
    match unhexChars t with
    | some t => showLit (pyLiteral t)
    | none => "bad-request"
  | _ => "bad-request"

def main : IO Unit := serve handle
