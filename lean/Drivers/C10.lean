import OsloModel.Proto
import OsloModel.Units
open Oslo Oslo.Units Oslo.Proto

/-
Requests (TAB separated, text fields hex-encoded UTF-8, "-" = empty):
  s2b   <unit_system> <text> <0|1|d>    the flag is the truth value of return_int, d = argument omitted
  s2bx  <text> <0|1>              unit_system is any value that is not a str
  s2bd  <text> <0|1>              unit_system omitted (default of the live signature)
  qemu  <details>                 QemuImgInfo._extract_bytes
  field <details>                 the virtual_size/cluster_size/disk_size rule of _extract_details
Reply: float <num> <den> [<mant> <10^scale>] | int <n> | inf <0|1 negative> | tiny <num> <den> | unmodelled
       | ValueError | OverflowError | KeyError | TypeError | bad-request
-/

def showErr : Err → String
  | .valueError => "ValueError"
  | .overflowError => "OverflowError"
  | .keyError => "KeyError"
  | .typeError => "TypeError"
  | .bytesWarning => "BytesWarning"

def showOutcome : Outcome → String
  | .float n d => s!"float {n} {d}"
  | .int n => s!"int {n}"
  | .inf neg => if neg then "inf 1" else "inf 0"
  | .tiny n d => s!"tiny {n} {d}"
  | .unmodelled => "unmodelled"

def showRes : Except Err Outcome → String
  | .ok o => showOutcome o
  | .error e => showErr e

/-- the magnitude the model parsed, ` <mant> <10^scale>` (lets the harness decide whether the
    computation is exact in binary64); glue, not part of any theorem -/
def magOf (text : List Char) : String :=
  match parseNumber (splitSign text).2 with
  | some (d1, d2, _) => s!" {natOfDigits (d1 ++ fracDigits d2)} {10 ^ (fracDigits d2).length}"
  | none => ""

def showS2b (text : List Char) : Except Err Outcome → String
  | .ok (.float n d) => s!"float {n} {d}" ++ magOf text
  | r => showRes r

/-- for a size field converted through string_to_bytes the reply is `<result>;<the same text with
    return_int=False>` so that the harness can apply the float rule to the exact quantity -/
def showQemu (d : List Char) (r : Except Err Outcome) : String :=
  match extractStep d with
  | .viaS2b text => showRes r ++ ";" ++ showS2b text (stringToBytes ['I', 'E', 'C'] text false)
  | .done _ => showRes r

def flagOf : String → Option FlagArg
  | "0" => some (.obj false)
  | "1" => some (.obj true)
  | "d" => some .omitted
  | _ => none

def s2bReply (a : SysArg) (text fl : String) : String :=
  match unhexChars text, flagOf fl with
  | some text, some f => showS2b text (stringToBytesCall a text f)
  | _, _ => "bad-request"

def handle : List String → String
  | ["s2b", sys, text, fl] =>
    match unhexChars sys with
    | some sys => s2bReply (.str sys) text fl
    | none => "bad-request"
  | ["s2bx", text, fl] => s2bReply .other text fl        -- unit_system is a value that is not a str
  | ["s2bt", text, fl] => s2bReply .badTuple text fl     -- unit_system is a tuple whose length is not 1
  | ["s2bd", text, fl] => s2bReply .omitted text fl      -- unit_system omitted
  | ["s2bb", text, fl, bw] =>                            -- unit_system is bytes; bw: interpreter runs with -bb
    match unhexChars text, flagOf fl, bw with
    | some _, some _, "0" => showRes (stringToBytesBytesSys false)
    | some _, some _, "1" => showRes (stringToBytesBytesSys true)
    | _, _, _ => "bad-request"
  | ["qemu", details] =>
    match unhexChars details with
    | some d => showQemu d (extractBytes d)
    | none => "bad-request"
  | ["field", details] =>
    match unhexChars details with
    | some d => if isUnavailable d then showRes (sizeField d) else showQemu d (sizeField d)
    | none => "bad-request"
  | _ => "bad-request"

def main : IO Unit := serve handle
