"""C18 - the spec matcher implements its documented operator table."""
import ast
import json
import os
import re
import subprocess
import sys
from fractions import Fraction

import common
from common import Disagreement, Failure, req

ID = 'C18'
DRIVER = 'drv_C18'
PROOF_MODULES = ['OsloProofs.Props.C18']
LEVEL = 'proof'
RULE = ('(value, spec) pairs: 17 operators x operand pairs (integers, decimals, negatives, equal / adjacent values, '
        'every spelling of the same number on either side: trailing zeros, leading zeros, "+", leading dot ".5", trailing '
        'dot "5.", exponent notation "1e3" / "2.5E-1", blanks around the value; the oracle judges a numeric operand when '
        'it is a decimal numeral in positional or scientific notation with at most 15 significant digits - meaning: the '
        'rational it denotes - and does not judge digit-group underscores, inf / nan, non-ASCII digits and other Unicode '
        'blanks, on which the documentation is silent and which stay in the model/implementation correspondence; the '
        'value families of the typed operators (list / tuple / dict / string / number literals, str(list), bracketed '
        'non-literals) crossed with the untyped operators <in>, s-operators, <or> and no operator, with operands that '
        'are pieces of the value text touching its brackets, quotes and commas; strings over letters, digits and punctuation, equal / prefix / '
        'adjacent) x 1..5 alternatives or list items x four bracket combinations with values on, inside and outside '
        'both ends x leading / separating / trailing whitespace, plus a malformed stream (token soup, glued operators, '
        'non-pyparsing whitespace), plus in-process call sequences: families of specs with the same characters once '
        'whitespace is removed (operands split at different places), evaluated back to back in both orders against '
        'the same values (the model is stateless; the oracle of each call uses that call\'s arguments alone); '
        'match() in every call form of its pinned signature match(cmp_value, spec) (positional, keyword, mixed, '
        'keywords permuted); match() before and after a caller takes the grammar from the public make_grammar() and uses / '
        'copies / names / streamlines / customises it (ignore, leave_whitespace, set_whitespace_chars, add_parse_action, |=); '
        'a case is non-trivial when the parse has an operator token and at least one '
        'operand and both sides return a boolean; distinct by (value, spec)')
TRUSTED_BASE = [
    'Lean 4 kernel; axioms audited per theorem (subset of propext, Classical.choice, Quot.sound)',
    'hand-written model OsloModel/Specs.lean (hand parser for the pyparsing grammar, op table, float(), '
    'literal_eval on flat literals), tied to specs_matcher by this correspondence (parse tree and outcome compared)',
    'translator generate(): operator literals and their order, op_methods keys, pyparsing whitespace set, the '
    'code points rejected by the atom regex, the characters float() strips - read from the live module / interpreter',
    'numbers are exact rationals in the model; binary64 comparison equals rational comparison for the generated '
    'numeric text (at most 15 significant digits, small exponents)',
]
UNMODELLED = [
    'binary64 rounding / overflow of numeric text beyond 15 significant digits',
    'float() of text with non-ASCII characters (Unicode digits): model outcome "unmodelled"',
    'ast.literal_eval outside string / number literals and flat lists of them (names, tuples, nesting, escapes, '
    'exponents, underscores, other bases, leading zeros): model outcome "unmodelled"',
    'non-str arguments to match()',
]
ASSUMPTIONS = [
    'pyparsing: Literal/Regex skip the element whitespace then match at that position; MatchFirst takes the first '
    'alternative; OneOrMore is greedy; no backtracking (checked by the correspondence on the parse tree)',
    'the grammar has the shape the hand parser was written for (generate() fails otherwise)',
    'match() is a function of its two arguments: the model is stateless; checked on every run by in-process call '
    'sequences (same-characters spec families in both orders, shuffled re-evaluation) in the correspondence and the search',
]

GEN_PATH = os.path.join(common.LEAN, 'OsloModel', 'Generated', 'C18.lean')


def _sm():
    from oslo_utils import specs_matcher
    return specs_matcher


# --------------------------------------------------------------------------
# translator

def _shape(e):
    import pyparsing as pp
    act = bool(getattr(e, 'parseAction', None))
    if isinstance(e, pp.Literal):
        return ('lit', e.match)
    if isinstance(e, pp.Regex):
        return ('re', e.pattern, int(e.flags))
    if isinstance(e, pp.NotAny):
        return ('not', _shape(e.expr))
    if isinstance(e, pp.OneOrMore):
        return ('many1+action' if act else 'many1', _shape(e.expr))
    if isinstance(e, (pp.And, pp.MatchFirst)):
        tag = 'and' if isinstance(e, pp.And) else 'first'
        kids = []
        for k in e.exprs:
            s = _shape(k)
            if s[0] == tag and not getattr(k, 'parseAction', None) and not getattr(k, 'resultsName', None):
                kids.extend(s[1])
            else:
                kids.append(s)
        if act:
            raise ValueError('unexpected parse action on %s' % tag)
        return (tag, kids)
    raise ValueError('unexpected grammar element %r' % type(e).__name__)


def _elements(e, acc):
    acc.append(e)
    for k in getattr(e, 'exprs', []) or []:
        _elements(k, acc)
    if getattr(e, 'expr', None) is not None:
        _elements(e.expr, acc)
    return acc


def _lean_char(c):
    if 32 < ord(c) < 127 and c not in "'\\":
        return "'%s'" % c
    return 'Char.ofNat %d' % ord(c)


def _lean_str(s):
    return '[' + ', '.join(_lean_char(c) for c in s) + ']'


def _lean_strs(l):
    return '[' + ', '.join(_lean_str(s) for s in l) + ']'


_SPACE_CACHE = {}


def extract():
    """Read the tables out of the live module; raises if the grammar is not of the modelled shape."""
    import pyparsing as pp
    sm = _sm()
    g = sm.make_grammar()
    sh = _shape(g)
    if sh[0] != 'first' or len(sh[1]) != 5:
        raise ValueError('grammar is not a choice of five alternatives: %r' % (sh,))
    d, n, r, u, a = sh[1]
    if not (a[0] == 'and' and len(a[1]) == 2 and a[1][0][0] == 'not' and a[1][1][0] == 're'):
        raise ValueError('atom is not ~(...) + Regex: %r' % (a,))
    NOT, RE = a[1]
    if RE != ('re', r'\S+', 0):
        raise ValueError('atom regex is %r, the model is written for \\S+' % (RE,))
    if NOT[1][0] != 'first' or any(x[0] != 'lit' for x in NOT[1][1]):
        raise ValueError('~(...) is not a choice of literals: %r' % (NOT,))
    not_lits = [x[1] for x in NOT[1][1]]
    ok = (d[0] == 'many1+action' and d[1][0] == 'and' and len(d[1][1]) == 3 and d[1][1][0][0] == 'lit'
          and d[1][1][1:] == [NOT, RE])
    ok = ok and (n[0] == 'and' and len(n[1]) == 2 and n[1][0][0] == 'lit' and n[1][1] == ('many1', ('and', [NOT, RE])))
    ok = ok and (r[0] == 'and' and len(r[1]) == 9 and r[1][0][0] == 'lit' and r[1][1:] == [NOT, RE] * 4)
    ok = ok and (u[0] == 'and' and len(u[1]) == 3 and u[1][0][0] == 'first'
                 and all(x[0] == 'lit' for x in u[1][0][1]) and u[1][1:] == [NOT, RE])
    if not ok:
        raise ValueError('grammar does not have the modelled shape: %r' % (sh,))
    els = _elements(g, [])
    whites = {frozenset(e.whiteChars) for e in els}
    if len(whites) != 1:
        raise ValueError('elements with different whitespace sets')
    if not all(e.skipWhitespace for e in els if isinstance(e, (pp.Literal, pp.Regex))):
        raise ValueError('a literal / regex does not skip whitespace')
    regex = [e for e in els if isinstance(e, pp.Regex)][0].re
    key = (regex.pattern, regex.flags)
    if key not in _SPACE_CACHE:
        _SPACE_CACHE[key] = [c for c in range(0x110000) if not regex.fullmatch(chr(c))]
    keys = list(sm.op_methods)
    if not all(isinstance(k, str) for k in keys):
        raise ValueError('non-string key in op_methods')
    return {
        'opKeys': keys,
        'unaryLits': [x[1] for x in u[1][0][1]],
        'allInLit': n[1][0][1], 'orLit': d[1][1][0][1], 'rangeLit': r[1][0][1],
        'notLits': not_lits,
        'ppWhite': sorted(ord(c) for c in next(iter(whites))),
        'reSpace': _SPACE_CACHE[key],
        'pySpace': _py_space(),
    }


def _py_space():
    """Code points float() strips on either side (observed: str.isspace minus U+001C..U+001F)."""
    def ok(t):
        try:
            return float(t) == 5.0
        except ValueError:
            return False
    if 'py' not in _SPACE_CACHE:
        cand = [c for c in range(0x110000) if chr(c).isspace()]
        lead = [c for c in cand if ok(chr(c) + '5')]
        if lead != [c for c in cand if ok('5' + chr(c))]:
            raise ValueError('float() strips different characters on the two sides')
        _SPACE_CACHE['py'] = lead
    return _SPACE_CACHE['py']


def render(t):
    return '''-- GENERATED by harness/props/C18.py (generate) from oslo_utils/specs_matcher.py and the running
-- interpreter -- do not edit; rewritten on every run.
namespace Oslo.Specs.Gen

/-- keys of `op_methods`, in dict order -/
def opKeys : List (List Char) := %s

/-- the alternatives of `unary_ops`, in the order pyparsing tries them -/
def unaryLits : List (List Char) := %s

def allInLit : List Char := %s
def orLit : List Char := %s
def rangeLit : List Char := %s

/-- the literals under the `~( … )` of `atom`, in order -/
def notLits : List (List Char) := %s

/-- pyparsing's whitespace characters for the grammar's elements (code points) -/
def ppWhite : List Nat := %s

/-- code points the atom regex does not accept (`\\S` fails) -/
def reSpace : List Nat := %s

/-- code points `float()` strips from both ends of its argument -/
def pySpace : List Nat := %s

end Oslo.Specs.Gen
''' % (_lean_strs(t['opKeys']), _lean_strs(t['unaryLits']), _lean_str(t['allInLit']), _lean_str(t['orLit']),
       _lean_str(t['rangeLit']), _lean_strs(t['notLits']), t['ppWhite'], t['reSpace'], t['pySpace'])


def generate():
    common.write_if_changed(GEN_PATH, render(extract()))


# --------------------------------------------------------------------------
# running the implementation

_GRAMMAR = {}


def impl_tree(spec):
    """Tokens of the real grammar's prefix parse, or None for ParseException."""
    import pyparsing
    sm = _sm()
    if 'g' not in _GRAMMAR:
        _GRAMMAR['g'] = sm.make_grammar()
    g = _GRAMMAR['g']
    parse = getattr(g, 'parse_string', None) or g.parseString      # the harness's own use: the current spelling
    try:
        return [t if isinstance(t, str) else repr(t) for t in parse(spec)]
    except pyparsing.ParseException:
        return None


# The pinned public interface (as on the clean tree; written here as data, not read from the tree under test).
SIGNATURES = {'match': ('cmp_value', 'spec'), 'make_grammar': ()}
# call forms of match(cmp_value, spec): both positional, second by keyword, both by keyword, keywords permuted
FORMS = ['pp', 'pk', 'kk', 'kr']


def call_match(sm, value, spec, form='pp'):
    a, b = SIGNATURES['match']
    if form == 'pp':
        return sm.match(value, spec)
    if form == 'pk':
        return sm.match(value, **{b: spec})
    if form == 'kk':
        return sm.match(**{a: value, b: spec})
    if form == 'kr':
        return sm.match(**{b: spec, a: value})
    raise ValueError('unknown call form %r' % (form,))


def impl_match(value, spec, form='pp'):
    sm = _sm()
    try:                           # the harness touches no filter, logger level or other ambient state here
        r = call_match(sm, value, spec, form)
    except Exception as e:         # noqa: the class name is the canonical outcome
        return type(e).__name__
    if r is True:
        return 'ok:1'
    if r is False:
        return 'ok:0'
    return 'value:%r' % (r,)


# What a caller may do with the object the public helper make_grammar() hands out (it is documented to return
# "a pyparsing.MatchFirst object"): use it, copy it, name it, streamline it, and customise it in place.
# None of this may change what match() answers afterwards.
MUTATIONS = ['none', 'parse', 'copy', 'set_name', 'streamline', 'ignore', 'leave_whitespace',
             'set_whitespace_chars', 'add_parse_action', 'ior', 'twice']
_EVENTS = []        # grammar events applied to the implementation in this process, in order


def apply_event(name):
    """Call the public make_grammar() (pinned signature: no parameters) and treat the result as a caller would."""
    import pyparsing as pp
    sm = _sm()
    _EVENTS.append((None, name))

    def meth(obj, snake, camel):
        return getattr(obj, snake, None) or getattr(obj, camel)
    g = sm.make_grammar(*SIGNATURES['make_grammar'])
    if name == 'parse':
        try:
            meth(g, 'parse_string', 'parseString')('>= 5 trailing')
        except pp.ParseException:
            pass
    elif name == 'copy':
        meth(g.copy(), 'leave_whitespace', 'leaveWhitespace')()
    elif name == 'set_name':
        meth(g, 'set_name', 'setName')('spec')
    elif name == 'streamline':
        g.streamline()
    elif name == 'ignore':
        g.ignore('#' + (getattr(pp, 'rest_of_line', None) or pp.restOfLine))
    elif name == 'leave_whitespace':
        meth(g, 'leave_whitespace', 'leaveWhitespace')()
    elif name == 'set_whitespace_chars':
        meth(g, 'set_whitespace_chars', 'setWhitespaceChars')('\t')
    elif name == 'add_parse_action':
        meth(g, 'add_parse_action', 'addParseAction')(lambda t: ['customised'])
    elif name == 'ior':
        g |= pp.Literal('zzz')
    elif name == 'twice':
        h = sm.make_grammar()
        meth(h, 'leave_whitespace', 'leaveWhitespace')()
        meth(g, 'add_parse_action', 'addParseAction')(lambda t: [])
    elif name != 'none':
        raise ValueError('unknown grammar event %r' % (name,))
    return 'event'


def is_event(c):
    return c[0] is None


def vsf(c):
    """(value, spec, form) of a match call"""
    return c[0], c[1], (c[2] if len(c) > 2 else 'pp')


def mk_call(v, s, form='pp'):
    return (v, s) if form == 'pp' else (v, s, form)


def show_call(c):
    if is_event(c):
        return 'g = make_grammar(); <%s on g>' % c[1]
    v, s, form = vsf(c)
    a, b = SIGNATURES['match']
    return {'pp': 'match(%r, %r)' % (v, s), 'pk': 'match(%r, %s=%r)' % (v, b, s),
            'kk': 'match(%s=%r, %s=%r)' % (a, v, b, s), 'kr': 'match(%s=%r, %s=%r)' % (b, s, a, v)}[form]


def do_call(c):
    return apply_event(c[1]) if is_event(c) else impl_match(*vsf(c))


def run_calls(calls):
    """Execute a call sequence on the implementation (used by the fresh-interpreter child)."""
    return [do_call(tuple(c)) for c in calls]


def show_tree(tree):
    return 'PE' if tree is None else ','.join(common.hexs(t) for t in tree)


def match_line(value, spec):
    return req('match', common.hexs(value), common.hexs(spec))


# --------------------------------------------------------------------------
# generators (structure-directed; every choice from ctx.rng)

NUM_OPS = ['=', '!=', '<=', '<', '==', '>=', '>']
STR_OPS = ['s!=', 's<', 's<=', 's==', 's>', 's>=']
ALL_OPS = NUM_OPS + STR_OPS + ['<all-in>', '<in>', '<or>', '<range-in>']
LETTERS = 'abcdefghijklmnopqrstuvwxyzABCDEFGHIJKLMNOPQRSTUVWXYZ'
PUNCT = '_-.:/+*@#%&,;?~^|$`{}[]()!<>=\'"\\'
LEADS = ['', '', '', ' ', '  ', '\t', '\n ', ' \r\n']
SEPS = [' ', ' ', ' ', '  ', '\t', ' \n', '\r\n ', '   ']
TAILS = ['', '', '', ' ', '  \n', '\t']


def starts_with_op(s):
    return any(s.startswith(k) for k in ALL_OPS)


def gen_int(rng):
    k = rng.choice([1, 1, 2, 3, 6, 9, 12, 15])
    n = rng.randrange(0, 10 ** k)
    return Fraction(-n if rng.random() < 0.3 else n)


def gen_dec(rng):
    digits = rng.choice([1, 2, 3, 5, 8, 12, 15])
    scale = rng.randrange(0, digits + 1)
    n = rng.randrange(0, 10 ** digits)
    q = Fraction(n, 10 ** scale)
    return -q if rng.random() < 0.3 else q


def render_num(q, rng, plain=False):
    """Decimal text of a rational with a finite decimal expansion (several renderings)."""
    neg = q < 0
    a = -q if neg else q
    scale = 0
    while (a * 10 ** scale).denominator != 1:
        scale += 1
    digits = str((a * 10 ** scale).numerator)
    if scale:
        digits = digits.rjust(scale + 1, '0')
        text = digits[:-scale] + '.' + digits[-scale:]
    else:
        text = digits
    if not plain:
        # every spelling float() reads as the same number: trailing zeros, trailing dot, leading dot,
        # leading zeros, explicit plus sign, exponent notation
        r = rng.random()
        if r < 0.08 and len(text.replace('.', '')) < 14:
            text = text + ('0' if scale else '.0')
        elif r < 0.13 and not scale:
            text = text + '.'
        elif r < 0.19 and text.startswith('0.'):
            text = text[1:]
        elif r < 0.23 and len(text.replace('.', '')) < 14:
            text = '0' + text
        elif r < 0.27 and not neg:
            text = '+' + text
        elif r < 0.39:
            k = rng.choice([-3, -2, -1, 0, 1, 2, 3, 5])
            m = render_num(a / Fraction(10) ** k, rng, plain=True)
            r2 = rng.random()
            if r2 < 0.25 and m.startswith('0.'):
                m = m[1:]
            elif r2 < 0.4 and '.' not in m:
                m = m + '.'
            esign = '-' if k < 0 else rng.choice(['', '', '+'])
            text = m + rng.choice('eE') + esign + ('0' if rng.random() < 0.1 else '') + str(abs(k))
    return ('-' if neg else '') + text


def sig_digits(q):
    scale = 0
    while (q * 10 ** scale).denominator != 1:
        scale += 1
    return len(str(abs((q * 10 ** scale).numerator)))


def num_pair(rng):
    """(value, operand) as rationals: equal, adjacent in the last decimal place, or unrelated."""
    a = gen_int(rng) if rng.random() < 0.5 else gen_dec(rng)
    r = rng.random()
    if r < 0.3:
        b = a
    elif r < 0.6:
        scale = 0
        while (a * 10 ** scale).denominator != 1:
            scale += 1
        b = a + rng.choice([-1, 1]) * Fraction(1, 10 ** scale)
    elif r < 0.7:
        b = -a
    else:
        b = gen_int(rng) if rng.random() < 0.5 else gen_dec(rng)
    return a, b


def gen_word(rng, maxlen=6, allow_empty=False):
    """A string over letters, digits and punctuation that does not start with an operator."""
    while True:
        n = rng.randrange(0 if allow_empty else 1, maxlen + 1)
        alpha = LETTERS + '0123456789' + (PUNCT if rng.random() < 0.5 else '')
        w = ''.join(rng.choice(alpha) for _ in range(n))
        if not starts_with_op(w):
            return w


def word_pair(rng):
    a = gen_word(rng)
    r = rng.random()
    if r < 0.25:
        b = a
    elif r < 0.45:
        b = a[:-1] + chr(max(33, min(126, ord(a[-1]) + rng.choice([-1, 1]))))
    elif r < 0.6:
        b = a + gen_word(rng, 2)
    elif r < 0.7 and len(a) > 1:
        b = a[:rng.randrange(1, len(a))]
    elif r < 0.8:
        b = a.swapcase()
    else:
        b = gen_word(rng)
    if starts_with_op(b) or not b:
        b = 'x' + b
    return (a, b) if rng.random() < 0.5 else (b, a)


def odd_number_text(rng):
    return rng.choice(['1e3', '1E-2', 'inf', '-inf', 'nan', 'Infinity', '1_0', '1__0', '0x10', '', 'abc', '1.2.3',
                       '--1', '+-1', '1e', '.', '-', ' 5', '5 ', '٣', '1e5_0', '5e+2', '.e1', '1.e1'])


def list_value(items, rng):
    """Python list-literal text for a list of str / Fraction items."""
    q = rng.choice(["'", '"'])
    parts = []
    for it in items:
        if isinstance(it, str):
            qq = q if q not in it else ("'" if q == '"' else '"')
            parts.append(qq + it + qq)
        else:
            parts.append(render_num(it, rng, plain=True))
    sep = rng.choice([', ', ',', ' , ', ',  '])
    body = sep.join(parts)
    if parts and rng.random() < 0.1:
        body += ','
    pad = rng.choice(['', '', ' '])
    return rng.choice(['', '', ' ']) + '[' + pad + body + pad + ']' + rng.choice(['', '', ' '])


def lit_word(rng):
    """A word that can stand between quotes in a modelled list literal and be an operand."""
    while True:
        w = gen_word(rng, 5)
        if '\\' not in w and not ("'" in w and '"' in w):
            return w


def spacing(rng):
    return rng.choice(LEADS), rng.choice(SEPS), rng.choice(TAILS)


def shaped_value(rng):
    """A value that looks like what another operator reads: a Python list / tuple / dict / string /
    number literal, str(list), bracketed text that is no literal, a `<range-in>`-like text.  For the
    untyped operators (`<in>`, the s-operators, `<or>`, no operator) it is just a string."""
    items = [lit_word(rng) if rng.random() < 0.75 else gen_int(rng) % 1000 for _ in range(rng.randrange(0, 4))]
    r = rng.random()
    if r < 0.30:
        v = list_value(items, rng)
        if rng.random() < 0.6:
            v = v.replace(' ', '')
        return v
    if r < 0.42:
        return str([i if isinstance(i, str) else int(i) for i in items])          # exactly str(list)
    if r < 0.50:
        return rng.choice(['[]', '[1,2]', '[1, 2]', "['aes']", "['aes', 'mmx']", '["aes","mmx"]', "[['a'],'b']",
                           '[a,b]', '[aes]', "['a'", "'a']", '[,]', '[1 2]'])
    if r < 0.60:
        return '(' + ','.join(repr(i) if isinstance(i, str) else str(i) for i in items) + (',)' if items else ')')
    if r < 0.68:
        return '{' + ','.join('%r:%d' % (str(i), n) for n, i in enumerate(items)) + '}'
    if r < 0.78:
        q = rng.choice(['"', "'"])
        return q + gen_word(rng, 5).replace(q, '') + q
    if r < 0.90:
        return render_num(gen_dec(rng) if rng.random() < 0.5 else gen_int(rng), rng)
    return rng.choice(['[ 10 20 ]', '( 1 2 )', 'True', 'None', "b'a'", '1,2', "'a','b'"])


def window(text, rng, marks='[](){}\'",:'):
    """A piece of `text` usable as an operand (no blank, not starting with an operator), preferably one
    that is a substring only through the rendering: it touches a bracket, quote, comma or colon."""
    best = None
    for _ in range(30):
        if not text:
            break
        i = rng.randrange(0, len(text))
        j = rng.randrange(i + 1, min(len(text), i + 6) + 1)
        w = text[i:j]
        if any(c.isspace() for c in w) or starts_with_op(w):
            continue
        if any(c in marks for c in w):
            return w
        best = best or w
    return best


def gen_cross(rng, lead, sep, tail):
    """The value families of the typed operators crossed with the untyped ones."""
    v = shaped_value(rng)
    kind = rng.choice(['in'] * 6 + ['str'] * 3 + ['or', 'plain', 'num'])
    if kind == 'in':
        x = window(v, rng)
        r = rng.random()
        if x and r < 0.2:                       # near miss: one character changed
            k = rng.randrange(len(x))
            x = x[:k] + rng.choice('x,]\'["0') + x[k + 1:]
        elif r < 0.3:
            x = rng.choice([',', "',", "'", '"', '[', ']', '[]', "['", "']", '1,', ',2', '2]', '(', ')', '{', ':'])
        if not x or starts_with_op(x) or any(c.isspace() for c in x):
            x = ','
        return v, lead + '<in>' + sep + x + tail, 'cross/in'
    # operands for whole-string comparisons: the value itself, one of its pieces, a near copy
    r = rng.random()
    solid = not any(c.isspace() for c in v) and v and not starts_with_op(v)
    if r < 0.45 and solid:
        x = v
    elif r < 0.75:
        x = window(v, rng, marks='') or 'x'
    elif solid:
        x = v[:-1] + rng.choice(['', ']', "'", '0', 'x'])
    else:
        x = gen_word(rng)
    if not x or starts_with_op(x) or any(c.isspace() for c in x):
        x = 'x' + ''.join(c for c in x if not c.isspace())
    if kind == 'str':
        op = rng.choice(STR_OPS)
        return v, lead + op + sep + x + tail, 'cross/str'
    if kind == 'or':
        alts = [x] + [window(v, rng) or gen_word(rng) for _ in range(rng.randrange(0, 3))]
        alts = [a for a in alts if a and not starts_with_op(a)]
        rng.shuffle(alts)
        return v, lead + ''.join('<or>' + sep + a + rng.choice(SEPS) for a in alts).rstrip() + tail, 'cross/or'
    if kind == 'plain':
        return v, lead + x + tail, 'cross/plain'
    return v, lead + rng.choice(NUM_OPS) + sep + x + tail, 'cross/num'


def gen_case(rng):
    """One structured (value, spec, tag)."""
    lead, sep, tail = spacing(rng)
    kind = rng.choice(['num'] * 7 + ['str'] * 6 + ['in', 'in', 'or', 'or', 'or', 'allin', 'allin', 'allin',
                                                     'range', 'range', 'range', 'range', 'plain', 'plain']
                      + ['cross'] * 6)
    if kind == 'cross':
        return gen_cross(rng, lead, sep or ' ', tail)
    if kind == 'num':
        op = rng.choice(NUM_OPS)
        a, b = num_pair(rng)
        va, vb = render_num(a, rng), render_num(b, rng)
        if rng.random() < 0.06:
            va = rng.choice(['', ' ', '\t']) + va + rng.choice(['', ' ', '\n', ' \t'])
        r = rng.random()
        if r < 0.04:
            va = odd_number_text(rng)
        elif r < 0.08:
            vb = odd_number_text(rng).strip() or 'x'
            if starts_with_op(vb) or any(c.isspace() for c in vb):
                vb = 'x'
        if rng.random() < 0.05:
            sep = ''
        return va, lead + op + sep + vb + tail, 'num/' + op
    if kind == 'str':
        op = rng.choice(STR_OPS)
        a, b = word_pair(rng)
        if rng.random() < 0.03:
            a = ''
        if rng.random() < 0.05:
            sep = ''
        return a, lead + op + sep + b + tail, 'str/' + op
    if kind == 'in':
        v = gen_word(rng, 8, allow_empty=True)
        r = rng.random()
        if r < 0.4 and v:
            i = rng.randrange(0, len(v))
            x = v[i:rng.randrange(i + 1, len(v) + 1)]
        elif r < 0.55:
            x = v + gen_word(rng, 2)
        elif r < 0.7 and len(v) > 2:
            x = v[0] + v[2:]
        else:
            x = gen_word(rng, 3)
        if starts_with_op(x) or not x:
            x = 'q' + x
        return v, lead + '<in>' + sep + x + tail, 'in'
    if kind == 'or':
        n = rng.randrange(1, 6)
        alts = [gen_word(rng) for _ in range(n)]
        r = rng.random()
        if r < 0.5:
            v = rng.choice(alts)
        elif r < 0.7:
            v = rng.choice(alts) + rng.choice(['', 'x', ' '])
        else:
            v = gen_word(rng)
        spec = lead
        for i, a in enumerate(alts):
            spec += (rng.choice(SEPS) if i else '') + '<or>' + rng.choice(SEPS + ['']) + a
        return v, spec + tail, 'or/%d' % n
    if kind == 'allin':
        n = rng.randrange(0, 6)
        items = []
        for _ in range(n):
            items.append(lit_word(rng) if rng.random() < 0.85 else gen_int(rng))
        k = rng.randrange(1, 6)
        words = [i for i in items if isinstance(i, str)]
        ops = []
        for _ in range(k):
            r = rng.random()
            if words and r < 0.8:
                ops.append(rng.choice(words))
            elif r < 0.9 and items and not words:
                ops.append(render_num(rng.choice(items), rng, plain=True).lstrip('-') or '0')
            else:
                ops.append(lit_word(rng))
        r = rng.random()
        if r < 0.06:
            v = rng.choice(["'aes'", '12', 'aes', '', '[', "['a' 'b']", "('a',)", "[['a']]", '{"a"}', "['a\\n']",
                            '[007]', "[ 'a', ]", '[1e3]', "[u'a']", '["a"]\n'])
        else:
            v = list_value(items, rng)
        spec = lead + '<all-in>' + ''.join(rng.choice(SEPS) + o for o in ops) + tail
        return v, spec, 'allin/%d/%d' % (n, k)
    if kind == 'range':
        lo, hi = sorted(num_pair(rng))
        r = rng.random()
        if r < 0.08:
            lo, hi = hi, lo
        elif r < 0.16:
            hi = lo
        step = Fraction(1, 10 ** rng.choice([0, 1, 3]))
        where = rng.choice(['lo', 'hi', 'lo', 'hi', 'inside', 'below', 'above', 'lo-', 'lo+', 'hi-', 'hi+'])
        q = {'lo': lo, 'hi': hi, 'inside': (lo + hi) / 2,
             'below': lo - 1 - abs(gen_int(rng)) % 1000, 'above': hi + 1 + abs(gen_int(rng)) % 1000,
             'lo-': lo - step, 'lo+': lo + step, 'hi-': hi - step, 'hi+': hi + step}[where]
        if sig_digits(q) > 15:
            q = lo
        lb, rb = rng.choice('[('), rng.choice('])')
        r = rng.random()
        if r < 0.03:
            lb = rng.choice(['{', '<x', '[[', 'x'])
        elif r < 0.06:
            rb = rng.choice(['}', ']]', 'x', '>'])
        v = render_num(q, rng, plain=rng.random() < 0.7)
        r = rng.random()
        if r < 0.05:
            v = rng.choice(["'%s'" % v, '"%s"' % v, ' ' + v, v + ' ', '[%s]' % v])
        elif r < 0.08:
            v = odd_number_text(rng)
        slo, shi = render_num(lo, rng), render_num(hi, rng)
        if rng.random() < 0.03:
            slo = rng.choice(['a', '1e1', 'nan', 'inf'])
        spec = (lead + '<range-in>' + rng.choice(SEPS) + lb + rng.choice(SEPS) + slo + rng.choice(SEPS) + shi
                + rng.choice(SEPS) + rb + rng.choice(TAILS + [' junk', '\x0cjunk']))
        return v, spec, 'range/%s%s/%s' % (lb if lb in '[(' else '?', rb if rb in '])' else '?', where)
    # plain: no operator
    a, b = word_pair(rng)
    return a, lead + b + tail, 'plain'


SOUP = ALL_OPS + [' ', '  ', '\t', '\n', '\r', '\x0c', '\x0b', '\xa0', ' ', '\x1c', 'a', 'b', 'ab', 's', '5',
                  '10', '-1', '1.5', '.5', '5.', '1e2', '[', ']', '(', ')', 'x=', '<o', 'r>', 'in>', '!', 'nan',
                  'inf', '1_0', "'a'", '["a"]', 'é', '٣', '<', '>', '=', 'all-in>', 'range-in>']
SOUP_VALUES = ['5', '10', '-1', '1.5', 'a', 'ab', 'abc', '', ' 5', '5 ', '["a","b"]', "['a', 'ab']", "[ 'a' , 1, ]",
               '[]', '[1,2]', '"5"', "'a'", 'nan', 'inf', '-inf', '1e2', '1_0', '05', '0.50', '+5', '--5', '5.0',
               '٣', '[', '["a" "b"]', '[[1]]', 'True', 'x=', '<or>', '=', '>=', 'or>']


def gen_soup(rng):
    spec = ''.join(rng.choice(SOUP) for _ in range(rng.randrange(0, 9)))
    v = rng.choice(SOUP_VALUES) if rng.random() < 0.7 else ''.join(rng.choice(SOUP) for _ in range(rng.randrange(0, 4)))
    return v, spec, 'soup'


def mutate_spec(v, spec, rng):
    """Malformed stream: glue / drop / duplicate pieces of a well-formed spec."""
    r = rng.random()
    if r < 0.3:
        spec = spec.replace(' ', '', 1)
    elif r < 0.5 and spec:
        i = rng.randrange(len(spec))
        spec = spec[:i] + spec[i + 1:]
    elif r < 0.7 and spec:
        i = rng.randrange(len(spec))
        spec = spec[:i] + rng.choice(['<', '=', '>', 's', ' ', '\x0c', '<or>', '!']) + spec[i:]
    elif r < 0.85:
        spec = spec + rng.choice([' <or> z', ' = 1', '<in>', ' s', ' <all-in> q'])
    else:
        spec = rng.choice(ALL_OPS) + rng.choice(['', ' ']) + spec
    return v, spec, 'mutated'


def fixed_cases():
    """The behaviours recorded in DESIGN.md section 5-C18 and the documented examples."""
    out = [('a', '<or> a b'), ('<or>', '<or>'), ('5', '>=5'), ('5', '<=5'), ('x', 's<=x'), ('<in>', '<in>'),
           ('=', '='), ('> =5', '> =5'), ('abc', 'abc def'), ('abc def', 'abc def'), ('a', '<or>a<or>b'),
           ('a<or>b', '<or>a<or>b'), ('61', '>= 60'), ('spam', '<or> spam <or> eggs'), ('2.1.0', 's== 2.1.0'),
           ('xgccx', '<in> gcc'), ("['aes', 'mmx']", '<all-in> aes mmx'), ('10', '<range-in> [ 10 20 ]'),
           ('10', '<range-in> ( 10 20 ]'), ('20', '<range-in> ( 10 20 )'), ('05', '<range-in> [ 1 10 ]'),
           ('5', '<range-in> [1 10]'), ('5', '<all-in>'), ('5', '<range-in> 1 2 3 4 5'), ('', ''), ('', '   ')]
    for op in ALL_OPS:
        out += [('5', op), ('5', op + ' '), ('5', op + ' 5'), ('5', op + '5'), (op, op), ('5', ' ' + op + '  5 6')]
    return [(v, s, 'fixed') for v, s in out]


def all_cases(ctx, n_struct, n_soup):
    rng = ctx.rng
    for c in fixed_cases():
        yield c
    for _ in range(n_struct):
        c = gen_case(rng)
        yield c
        if rng.random() < 0.12:
            yield mutate_spec(c[0], c[1], rng)
    for _ in range(n_soup):
        yield gen_soup(rng)


# --------------------------------------------------------------------------
# call sequences: match() must be a function of its two arguments, whatever was matched before

def _simple_word(rng, lo=1, hi=4):
    return ''.join(rng.choice('abcdefgmnstxyz0123456789') for _ in range(rng.randrange(lo, hi + 1)))


def _resplit(chars, k, rng):
    """`chars` cut into k non-empty pieces, none starting like an operator; None if impossible."""
    if k > len(chars):
        return None
    for _ in range(20):
        cuts = sorted(rng.sample(range(1, len(chars)), k - 1)) if k > 1 else []
        parts = [chars[i:j] for i, j in zip([0] + cuts, cuts + [len(chars)])]
        if not any(starts_with_op(x) for x in parts):
            return parts
    return None


def _spread(op, parts, rng, amount_only=False):
    lead = rng.choice(LEADS) if amount_only or rng.random() < 0.3 else ''
    tail = rng.choice(TAILS) if amount_only or rng.random() < 0.3 else ''
    return lead + op + ''.join((rng.choice(SEPS) if amount_only or rng.random() < 0.3 else ' ') + x for x in parts) + tail


def gen_family(rng):
    """(values, specs, tag): specs that contain the same characters once whitespace is removed."""
    kind = rng.choice(['allin'] * 4 + ['range'] * 4 + ['or', 'or', 'amount', 'amount'])
    if kind == 'allin':
        words = [_simple_word(rng) for _ in range(rng.randrange(2, 5))]
        chars = ''.join(words)
        splits = [words, [chars]]
        for _ in range(rng.randrange(1, 4)):
            parts = _resplit(chars, rng.randrange(1, min(4, len(chars)) + 1), rng)
            if parts and parts not in splits:
                splits.append(parts)
        specs = [_spread('<all-in>', parts, rng) for parts in splits]
        specs.append(_spread('<all-in>', words, rng, amount_only=True))
        vals = [list_value(parts, rng) for parts in splits]
        vals.append(list_value(sorted(set(x for parts in splits for x in parts)), rng))
        vals.append(list_value([_simple_word(rng)], rng))
        return vals, specs, 'allin'
    if kind == 'range':
        digits = ''.join(rng.choice('0123456789') for _ in range(rng.randrange(2, 7))).lstrip('0') or '10'
        if len(digits) < 2:
            digits += '5'
        neg = rng.random() < 0.25
        lb, rb = rng.choice('[('), rng.choice('])')
        specs, vals = [], set()
        for i in range(1, len(digits)):
            lo, hi = digits[:i], digits[i:]
            if (len(hi) > 1 and hi[0] == '0') or (len(lo) > 1 and lo[0] == '0'):
                continue
            if neg and lo != '0':
                lo = '-' + lo
            specs.append(_spread('<range-in>', [lb, lo, hi, rb], rng))
            for b in (int(lo), int(hi)):
                vals.update([b - 1, b, b + 1])
            vals.add((int(lo) + int(hi)) // 2)
        if len(specs) < 2:
            return gen_family(rng)
        specs.append(_spread('<range-in>', specs[0].split()[1:], rng, amount_only=True))
        vals = sorted(vals)
        if len(vals) > 8:
            vals = rng.sample(vals, 8)
        return [str(v) for v in vals], specs, 'range'
    if kind == 'or':
        words = [_simple_word(rng) for _ in range(rng.randrange(2, 4))]
        joined = '<or>'.join(words)
        specs = [' <or> '.join([''] + words).strip(), '<or> ' + joined,
                 _spread('', [x for w in words for x in ('<or>', w)], rng, amount_only=True)]
        if len(words) == 3:
            specs.append('<or> %s <or> %s<or>%s' % tuple(words))
            specs.append('<or> %s<or>%s <or> %s' % tuple(words))
        vals = words + [joined, ''.join(words), words[0] + '<or>' + words[1], _simple_word(rng)]
        return vals, specs, 'or'
    # the same spec with different amounts of whitespace
    v, spec, _ = gen_case(rng)
    toks = spec.split()
    if not toks or documented_meaning(v, spec) is None:
        return gen_family(rng)
    specs = [' '.join(toks)] + [_spread(toks[0], toks[1:], rng, amount_only=True) for _ in range(3)]
    vals = [v]
    if len(toks) == 2:
        vals.append(toks[1])
    return vals, specs, 'amount'


def family_calls(vals, specs, rng):
    """The family as one call sequence: every spec against every value, then the specs in the
    opposite order."""
    order = list(specs)
    rng.shuffle(order)
    calls = [(v, s) for s in order for v in vals]
    calls += [(v, s) for s in reversed(order) for v in vals]
    return calls


_FRESH_BODY = r"""
import sys, json
json.dump(C18.run_calls(json.load(sys.stdin)), sys.stdout)
"""


def fresh_run(calls):
    """Outcomes of the call sequence in a new interpreter (no state from this process) that is in the same
    ambient configuration as this one.  Bounded by the wall-clock budget of the run."""
    import time
    import ambient
    hdir = os.path.join(common.VERIF, 'harness')
    code = ambient.setup_snippet('import sys\nsys.path[:0] = [%r, %r]\nimport common\nfrom props import C18'
                                 % (hdir, os.path.join(hdir, 'props'))) + _FRESH_BODY
    cmd = ambient.fresh_interpreter_argv()
    if getattr(sys, 'pycache_prefix', None):
        cmd += ['-X', 'pycache_prefix=' + sys.pycache_prefix]
    cmd += ['-c', code]
    env = dict(os.environ, PYTHONDONTWRITEBYTECODE='1', VERIF_REPO=common.REPO)
    left = 120 if _BUDGET['until'] is None else max(10, min(60, _BUDGET['until'] - time.time() + 10))
    p = subprocess.run(cmd, input=json.dumps([list(c) for c in calls]).encode(), stdout=subprocess.PIPE,
                       stderr=subprocess.PIPE, env=env, timeout=left)
    if p.returncode != 0:
        raise RuntimeError('fresh interpreter failed: ' + p.stderr.decode('utf-8', 'replace')[-800:])
    return json.loads(p.stdout.decode())


_ALONE = {}
_BUDGET = {'until': None}


def start_budget(seconds):
    import time
    _BUDGET['until'] = time.time() + seconds


def time_left():
    import time
    return _BUDGET['until'] is None or time.time() < _BUDGET['until']


def alone(v, s, form='pp'):
    """Outcome of the single call in a fresh interpreter."""
    if (v, s, form) not in _ALONE:
        _ALONE[(v, s, form)] = fresh_run([mk_call(v, s, form)])[0]
    return _ALONE[(v, s, form)]


def expected_outcome(v, s, form='pp'):
    """What the last call of a sequence has to return: the documented meaning of its own arguments
    when the spec is in the documented language, else whatever the call returns on its own."""
    want = documented_meaning(v, s)
    return 'ok:%d' % want if want is not None else alone(v, s, form)


def sequence_fails(calls):
    """In a fresh interpreter: does the last call of the sequence give a wrong answer?"""
    if not calls or is_event(calls[-1]):
        return False
    return fresh_run(calls)[-1] != expected_outcome(*vsf(calls[-1]))


def shrink_sequence(calls):
    """Shortest call sequence (fresh interpreter each time) whose last call is still wrong."""
    calls = [tuple(c) for c in calls]
    last = calls[-1]
    pre, have = [], set()
    for c in calls[:-1]:            # repeated calls add nothing for a stateless function; try without
        if c not in have:
            have.add(c)
            pre.append(c)
    if not sequence_fails(pre + [last]):
        pre = calls[:-1]

    def squash(spec):
        return ''.join(spec.split())
    # first guesses: only the calls that are not match() calls; only the earlier calls whose spec has the
    # same characters once whitespace is removed
    for guess in ([c for c in pre if is_event(c)],
                  [c for c in pre if not is_event(c) and squash(c[1]) == squash(last[1])]):
        if guess and len(guess) < len(pre) and time_left() and sequence_fails(guess + [last]):
            pre = guess
            break
    if len(pre) >= 2:
        pre = common.shrink_list(pre, lambda sub: time_left() and sequence_fails(list(sub) + [last]),
                                 max_steps=60 if len(pre) < 2000 else 25)
    return pre + [last]


def show(out):
    return out.replace('ok:1', 'True').replace('ok:0', 'False')


def history_failure(prefix, got, log):
    """A call gave `got` in this process, which is not what its arguments mean.  Find a short call
    sequence that reproduces it in a fresh interpreter."""
    try:
        return _history_failure(prefix, got, log)
    except subprocess.TimeoutExpired:
        last = tuple(prefix[-1])
        return Failure({'calls': [list(c) for c in (list(_EVENTS) + log)[-200:]]},
                       {'kind': 'wrong answer (not confirmed in a fresh interpreter within the time budget)',
                        'what': 'in the checking process %s was %s; the last 200 calls are kept'
                                % (show_call(last), show(got))})


def _history_failure(prefix, got, log):
    last = tuple(prefix[-1])
    v, s, form = vsf(last)
    op = (s.split() or ['?'])[0]
    opname = op if op in DOC_OPS else 'no-operator'
    if not time_left():
        raise subprocess.TimeoutExpired('fresh interpreter', 0)
    want = expected_outcome(v, s, form)
    if alone(v, s, form) != want:
        v2, s2, form2 = shrink_case(v, s, form)
        case = {'value': v2, 'spec': s2}
        if form2 != 'pp':
            case['form'] = form2
        return Failure(case, {'kind': ('operator ' if form2 == 'pp' else 'call form %s, operator ' % form2)
                                      + (s2.split()[0] if s2.split() and s2.split()[0] in DOC_OPS
                                         else 'no-operator'),
                              'what': oracle_fresh(v2, s2, form2), 'tree': impl_tree(s2)})
    squashed = ''.join(s.split())
    events = list(_EVENTS) + [last]           # every non-match() public call made earlier in this process
    guess = [c for c in dict.fromkeys(log[:-1])
             if not is_event(c) and ''.join(c[1].split()) == squashed] + [last]
    for cand in (prefix, events, guess, log):
        if not time_left():
            break
        if cand and len(cand) > 1 and tuple(cand[-1]) == last and sequence_fails(cand):
            seq = shrink_sequence(cand)
            outs = fresh_run(seq)
            return Failure({'calls': [list(c) for c in seq]},
                           {'kind': 'result depends on call history: ' + opname,
                            'what': 'after %d earlier call(s) [%s]: %s; the same call on its own is %s' % (
                                        len(seq) - 1, '; '.join(show_call(c) for c in seq[:-1][:6]),
                                        describe(v, s, outs[-1], documented_meaning(v, s), form),
                                        show(alone(v, s, form)))})
    tail = [list(c) for c in (list(_EVENTS) + log)[-200:]]
    return Failure({'calls': tail},
                   {'kind': 'result depends on call history (not confirmed in a fresh interpreter within the '
                            'time budget): ' + opname,
                    'what': 'in the checking process %s was %s, expected %s; the last 200 calls are kept'
                            % (show_call(last), show(got), show(want))})


def gen_grammar_sequence(rng):
    """match() calls, then a caller obtains the grammar from the public make_grammar() and uses / customises
    it, then the same and further match() calls (in every call form)."""
    hashy = [('#1', 's== #1'), ('#b', '<or> #a <or> #b'), ('a#b', '<in> #'), ('5', '>= 3 #7'), ('x', 'x')]
    before = [gen_case(rng)[:2] for _ in range(3)] + [rng.choice(hashy)]
    calls = [mk_call(v, s) for v, s in before]
    for _ in range(rng.randrange(1, 3)):
        calls.append((None, rng.choice(MUTATIONS)))
    after = before + [gen_case(rng)[:2] for _ in range(3)] + hashy
    rng.shuffle(after)
    calls += [mk_call(v, s, rng.choice(FORMS) if rng.random() < 0.3 else 'pp') for v, s in after]
    return calls


# --------------------------------------------------------------------------
# correspondence

def float_cases(rng, n):
    out = ['5', '-5', '+5', '5.', '.5', '0.50', '05', '1e3', '1E+3', '1e-3', 'inf', '-INF', 'Infinity', '+infinity',
           'nan', '-nan', 'NaN', 'infinit', '1_0', '1__0', '_1', '1_', '1_.5', '1._5', '1_e5', '1e_5', '1e1_0', '',
           ' ', '.', '-', '+', 'e5', '.e5', '1.e5', '1e', '1e+', ' 5 ', '\t5\n', '\x1c5\x1f', '\xa05 ', '5 5',
           '+ 5', '++5', '0x10', '1.2.3', '5a', 'abc', '٣', '1٣', 'é', '--1', '1.5e2', '00', '-0', '-0.0',
           '12345678901234.5', '1e22']
    for _ in range(n):
        r = rng.random()
        if r < 0.5:
            out.append(render_num(gen_dec(rng), rng))
        elif r < 0.7:
            out.append(render_num(gen_dec(rng), rng) + rng.choice(['e', 'E']) + rng.choice(['', '+', '-'])
                       + str(rng.randrange(0, 20)))
        else:
            out.append(''.join(rng.choice('0123456789.+-eE_ infa') for _ in range(rng.randrange(0, 7))))
    return out


def canon_float(text):
    try:
        f = float(text)
    except ValueError:
        return 'ValueError'
    if f != f:
        return 'nan'
    if f in (float('inf'), float('-inf')):
        return 'inf' if f > 0 else '-inf'
    return f


def lit_cases(rng, n):
    out = ["'a'", '"a"', '5', '-5', '+5', '5.', '.5', '05', '00', '007.5', '1e3', '1_0', '0x1', '[]', '[ ]', '[,]',
           "['a']", "['a',]", "['a',,]", "[ 'a' , \"b\" ]", '[1, 2.5, -3]', "['a' 'b']", "['a\\n']", "[['a']]",
           "('a',)", '{"a"}', 'abc', '', ' ', '[', ']', "['a'", "'a", "'a'x", '5 ', ' 5', '1e3', '1E-2', '2.5e+1', '.5e1', '5.e1', '01e2', '1e', '1e+', '[1e2, 2.5E-1]',
           '-1e3', '+.5E0', '1e0_1', '\t[1]\t', '5\n', '\n5',
           "[\n'a']", '- 1', '--1', '1-2', "b'a'", "u'a'", "'''a'''", "''", '""', "''''", '[1,2,]', '[1 2]', 'True',
           'None', "['é']", "['\x7f']", "['a\tb']", '[1j]', '[.]', '[-.5]', '[+.5, 5.]']
    for _ in range(n):
        items = [lit_word(rng) if rng.random() < 0.7 else gen_dec(rng) for _ in range(rng.randrange(0, 5))]
        t = list_value(items, rng)
        if rng.random() < 0.2 and t:
            i = rng.randrange(len(t))
            t = t[:i] + rng.choice(['', ',', "'", ' ', ']', '[', '\\', '0']) + t[i + 1:]
        out.append(t)
    return out


def canon_item(x):
    if isinstance(x, str):
        return 's' + common.hexs(x)
    if isinstance(x, bool) or not isinstance(x, (int, float)):
        return None
    return x


def check_lit(text, reply):
    """Where the model gives a value, literal_eval must give the same one."""
    if reply == 'unmodelled':
        return None
    try:
        v = ast.literal_eval(text)
    except Exception as e:     # noqa
        return type(e).__name__
    kind, _, body = reply.partition(':')
    items = [x for x in body.split(',')] if body else []
    vals = v if isinstance(v, list) else [v]
    if (kind == 'list') != isinstance(v, list) or len(items) != len(vals):
        return repr(v)
    for m, x in zip(items, vals):
        c = canon_item(x)
        if m.startswith('s'):
            if c != m:
                return repr(v)
        else:
            n, _, d = m[1:].partition('/')
            if c is None or isinstance(c, str) or float(Fraction(int(n), int(d))) != float(c):
                return repr(v)
            if isinstance(c, int) and Fraction(int(n), int(d)) != c:
                return repr(v)
    return None


def correspondence(ctx):
    rng = ctx.rng
    out = []
    div = 4 if getattr(ctx, 'ambient', None) else 1     # ambient children: a quarter of every generated family
    n_struct, n_soup = (8000 // div, 2400 // div) if ctx.quick else (110000 // div, 30000 // div)
    cases = list(all_cases(ctx, n_struct, n_soup))
    replies = ctx.driver.ask_many([match_line(v, s) for v, s, _ in cases])
    for (v, s, tag), rep in zip(cases, replies):
        ctx.evaluations += 1
        ctx.count('corr/' + tag.split('/')[0])
        tree = impl_tree(s)
        form = rng.choice(FORMS) if rng.random() < 0.1 else 'pp'
        ctx.count('call-form/' + form)
        res = impl_match(v, s, form)
        mt, _, mo = rep.partition('\t')
        ctx.count('impl-outcome/' + res)
        ctx.count('tree/' + ('PE' if tree is None else 'atom' if len(tree) == 1 else tree[0]))
        if mo == 'unmodelled':
            ctx.count('model-unmodelled')
            agree = mt == show_tree(tree)
        else:
            agree = (mt, mo) == (show_tree(tree), res)
        if tree is not None and len(tree) >= 2 and res in ('ok:0', 'ok:1') and mo == res:
            ctx.nontrivial((v, s))
        if ctx.hist.get('corr/' + tag.split('/')[0]) == 3:
            ctx.sample({'value': v, 'spec': s, 'tree': tree, 'implementation': res, 'model': mo}, 12)
        if not agree:
            case = {'value': v, 'spec': s}
            if form != 'pp':
                case['form'] = form
            out.append(Disagreement(case, show_tree(tree) + '\t' + res, rep))
    # call sequences: specs that differ only in where the whitespace falls, back to back, both orders;
    # and match() around a caller that takes the grammar from the public make_grammar() and customises it
    n_fam, n_gram = (60 // div, 30 // div) if ctx.quick else (800 // div, 300 // div)
    for k in range(n_fam + n_gram):
        if k < n_fam:
            vals, specs, tag = gen_family(rng)
            calls = family_calls(vals, specs, rng)
        else:
            calls, tag = gen_grammar_sequence(rng), 'grammar'
        matches = [c for c in calls if not is_event(c)]
        replies = iter(ctx.driver.ask_many([match_line(c[0], c[1]) for c in matches]))
        for i, c in enumerate(calls):
            if is_event(c):
                do_call(c)
                ctx.count('corr/grammar-event-' + c[1])
                continue
            v, s, form = vsf(c)
            rep = next(replies)
            ctx.evaluations += 1
            ctx.count('corr/sequence-' + tag)
            res = impl_match(v, s, form)
            mt, _, mo = rep.partition('\t')
            if mo == 'unmodelled':
                ctx.count('model-unmodelled')
                continue
            if res in ('ok:0', 'ok:1') and mo == res:
                ctx.nontrivial((v, s))
            if mo != res:
                out.append(Disagreement({'value': v, 'spec': s, 'calls': [list(x) for x in calls[:i + 1]]},
                                        res, rep, where='call sequence (the model is stateless)'))
                break
    # float() and literal_eval models on their own
    texts = float_cases(rng, (1500 if ctx.quick else 20000) // div)
    for t, rep in zip(texts, ctx.driver.ask_many([req('float', common.hexs(t)) for t in texts])):
        ctx.evaluations += 1
        ctx.count('corr/float')
        want = canon_float(t)
        if rep == 'unmodelled':
            ctx.count('float-unmodelled')
            continue
        if rep.startswith('num:'):
            n, _, d = rep[4:].partition('/')
            if len(n) > 400 or len(d) > 400:      # far outside binary64: only validity is compared
                ctx.count('float-out-of-range')
                got = want if want not in ('ValueError', 'nan') else 'num'
            else:
                try:
                    got = float(Fraction(int(n), int(d)))
                except OverflowError:              # rounds to infinity, as float() does
                    got = '-inf' if n.startswith('-') else 'inf'
        else:
            got = rep
        if got != want:
            out.append(Disagreement({'float': t}, repr(want), rep, where='float()'))
    texts = lit_cases(rng, (1500 if ctx.quick else 20000) // div)
    for t, rep in zip(texts, ctx.driver.ask_many([req('lit', common.hexs(t)) for t in texts])):
        ctx.evaluations += 1
        ctx.count('corr/literal')
        if rep == 'unmodelled':
            ctx.count('literal-unmodelled')
        bad = check_lit(t, rep)
        if bad is not None:
            out.append(Disagreement({'literal': t}, bad, rep, where='literal_eval'))
    return out


# --------------------------------------------------------------------------
# failing-input search: the documented meaning, computed without Lean and without pyparsing

DOC_NUM = {'=': lambda a, b: a >= b, '!=': lambda a, b: a != b, '<=': lambda a, b: a <= b,
           '<': lambda a, b: a < b, '==': lambda a, b: a == b, '>=': lambda a, b: a >= b,
           '>': lambda a, b: a > b}
DOC_STR = {'s!=': lambda a, b: a != b, 's<': lambda a, b: a < b, 's<=': lambda a, b: a <= b,
           's==': lambda a, b: a == b, 's>': lambda a, b: a > b, 's>=': lambda a, b: a >= b}
DOC_OPS = list(DOC_NUM) + list(DOC_STR) + ['<all-in>', '<in>', '<or>', '<range-in>']
# The documentation calls the operands of the numeric operators "Float/integer value"s.  The oracle reads that as:
# a decimal numeral in positional or scientific notation - optional sign, digits with an optional fraction
# ("12", "12.5", "5.", ".5", leading zeros allowed: the project's own tests use "01"), optional exponent
# ("1e3", "2.5E-1") - optionally surrounded (value side only; an operand cannot contain any) by the blanks
# the grammar itself treats as insignificant (space, tab, CR, LF).  Its meaning is the rational it denotes.
# Not judged (the documentation is silent; they stay in the model/implementation correspondence):
# digit-group underscores ("1_000"), inf / infinity / nan, non-ASCII digits, other Unicode blanks.
NUMERAL_RE = re.compile(r'[+-]?(?:[0-9]+(?:\.[0-9]*)?|\.[0-9]+)(?:[eE][+-]?[0-9]+)?\Z')
# what a Python literal of the same number may look like (value of <range-in>, read by ast.literal_eval):
# the same, but an integer part with superfluous leading zeros is not a Python literal
PYLIT_RE = re.compile(r'[+-]?(?:(?:0|[1-9][0-9]*)(?:\.[0-9]*)?|\.[0-9]+)(?:[eE][+-]?[0-9]+)?\Z')
LIST_RE = re.compile(r"""\s*\[\s*(?:(?:'[^'\\\n]*'|"[^"\\\n]*")\s*(?:,\s*(?:'[^'\\\n]*'|"[^"\\\n]*")\s*)*)?\]\s*\Z""")
ITEM_RE = re.compile(r"""'([^'\\\n]*)'|"([^"\\\n]*)\"""")


def doc_number(text, blanks=False, pylit=False):
    """The rational a numeral denotes (see NUMERAL_RE), or None when the text is outside the class the
    oracle judges.  At most 15 significant digits and a small exponent, so that comparing the doubles is
    comparing the rationals."""
    if blanks:
        text = text.strip(' \t' if pylit else ' \t\r\n')
    if not (PYLIT_RE if pylit else NUMERAL_RE).match(text):
        return None
    mant, _, exp = text.lower().partition('e')
    digits = mant.lstrip('+-').replace('.', '').lstrip('0')
    if len(digits) > 15 or (exp and abs(int(exp)) > 40):
        return None
    return Fraction(text)


def documented_meaning(value, spec):
    """What the documentation of make_grammar says match(value, spec) is, for specs of the documented
    language (operator and operands separated by spaces/tabs/newlines, operands not starting with an
    operator); None when the spec (or the value, for the typed operators) is outside it."""
    if any(c.isspace() and c not in ' \t\n\r' for c in spec):
        return None
    toks = spec.split()
    if not toks:
        return None

    def is_op(t):
        return any(t.startswith(k) for k in DOC_OPS)
    op, args = toks[0], toks[1:]
    if op in DOC_NUM:
        if len(args) != 1 or is_op(args[0]):
            return None
        a, b = doc_number(value, blanks=True), doc_number(args[0])
        return None if a is None or b is None else DOC_NUM[op](a, b)
    if op in DOC_STR:
        if len(args) != 1 or is_op(args[0]):
            return None
        return DOC_STR[op](value, args[0])
    if op == '<in>':
        if len(args) != 1 or is_op(args[0]):
            return None
        return args[0] in value
    if op == '<or>':
        if len(toks) % 2 or any(t != '<or>' for t in toks[0::2]) or any(is_op(t) for t in toks[1::2]):
            return None
        return value in toks[1::2]
    if op == '<all-in>':
        if not args or any(is_op(t) for t in args) or not LIST_RE.match(value):
            return None
        items = [a if a or not b else b for a, b in ITEM_RE.findall(value)]
        return all(t in items for t in args)
    if op == '<range-in>':
        if len(args) != 4 or args[0] not in '[(' or args[3] not in '])' or len(args[0]) != 1 or len(args[3]) != 1:
            return None
        q, lo, hi = doc_number(value, blanks=True, pylit=True), doc_number(args[1]), doc_number(args[2])
        if q is None or lo is None or hi is None or lo > hi:
            return None
        return (q >= lo if args[0] == '[' else q > lo) and (q <= hi if args[3] == ']' else q < hi)
    if len(toks) == 1 and not is_op(op):
        return value == op
    return None


def describe(value, spec, got, want, form='pp'):
    """One line: what the call did and what its arguments mean."""
    call = show_call(mk_call(value, spec, form))
    toks = spec.split()
    meaning = 'the documented meaning is %s' % want
    if toks and toks[0] in DOC_NUM and len(toks) == 2:
        a, b = doc_number(value, blanks=True), doc_number(toks[1])
        meaning = 'the documented meaning is the numeric comparison %s %s %s = %s' % (
            a, '>=' if toks[0] == '=' else toks[0], b, want)
    elif toks and toks[0] == '<range-in>' and len(toks) == 5:
        meaning = 'the documented meaning is the interval test %s in %s%s, %s%s = %s' % (
            doc_number(value, blanks=True, pylit=True), toks[1], doc_number(toks[2]), doc_number(toks[3]), toks[4], want)
    if got in ('ok:0', 'ok:1'):
        return '%s is %s; %s' % (call, show(got), meaning)
    return '%s raised %s where %s' % (call, got, meaning)


def oracle(value, spec):
    """Description of how the implementation departs from the documented meaning, or None."""
    want = documented_meaning(value, spec)
    if want is None:
        return None
    got = impl_match(value, spec)
    return describe(value, spec, got, want) if got != 'ok:%d' % want else None


def oracle_fresh(value, spec, form='pp'):
    """`oracle`, with the call made on its own in a fresh interpreter."""
    want = documented_meaning(value, spec)
    if want is None:
        return None
    got = alone(value, spec, form)
    return describe(value, spec, got, want, form) if got != 'ok:%d' % want else None


def plain_numeral(text):
    q = doc_number(text, blanks=True)
    if q is None:
        return text
    return render_num(q, None, plain=True)


def shrink_case(value, spec, form='pp'):
    """Fewer / simpler tokens (and the plain call form) while the single call (fresh interpreter) still fails."""
    if form != 'pp' and time_left() and oracle_fresh(value, spec, 'pp'):
        form = 'pp'                      # the call form is not what matters
    toks = spec.split()
    if len(toks) > 2:
        def still(sub):
            return time_left() and oracle_fresh(value, ' '.join(sub), form) is not None
        toks = common.shrink_list(toks, still, max_steps=40)
    cand = ' '.join(toks)
    if not (time_left() and oracle_fresh(value, cand, form)):
        return value, spec, form
    # numeric operands: write each side plainly when the failure survives, so that the spelling that
    # matters is the one left in the replay
    if toks[0] in DOC_NUM or toks[0] == '<range-in>':
        for i in [None] + list(range(1, len(toks))):
            if not time_left():
                break
            v2, t2 = value, list(toks)
            if i is None:
                v2 = plain_numeral(value)
            else:
                t2[i] = plain_numeral(toks[i])
            if (v2, t2) != (value, toks) and oracle_fresh(v2, ' '.join(t2), form):
                value, toks = v2, t2
    return value, ' '.join(toks), form


def search(ctx, seeds, full=False):
    rng = ctx.rng
    fails, seen = [], set()
    log = []                       # every call made on the implementation in this search, in order
    first = {}                     # call -> first outcome in this process

    def call(c):
        log.append(c)
        got = do_call(c)
        if not is_event(c):
            first.setdefault(c, got)
        return got

    start_budget(60)               # wall clock for all confirming / shrinking in fresh interpreters, per run

    def report(prefix, got):
        """Confirm / shrink (fresh interpreters - expensive) once per operator only."""
        op = (prefix[-1][1].split() or ['?'])[0]
        op = op if op in DOC_OPS else 'no-operator'
        ctx.count('search/wrong-answers-seen')
        if op in seen or len(seen) >= 8:
            return
        seen.add(op)
        fails.append(history_failure(prefix, got, list(log)))

    def run_sequence(calls, tag):
        """Back-to-back calls; each match() judged by the documented meaning of its own arguments."""
        for i, c in enumerate(calls):
            if is_event(c):
                call(c)
                ctx.count('search/grammar-event-' + c[1])
                continue
            v, s, form = vsf(c)
            ctx.evaluations += 1
            want = documented_meaning(v, s)
            got = call(c)
            if want is None:
                ctx.count('search/outside-documented-language')
                continue
            ctx.count('search/sequence-' + tag)
            if got != 'ok:%d' % want:
                report([tuple(x) for x in calls[:i + 1]], got)
                return

    # 1. what the correspondence disagreed on: single calls and call sequences
    for sd in seeds[:300]:
        if len(fails) >= 5:
            break
        if 'calls' in sd:
            run_sequence([tuple(c) for c in sd['calls']], 'seed')
    todo = [mk_call(sd['value'], sd['spec'], sd.get('form', 'pp'))
            for sd in seeds[:300] if 'spec' in sd and 'calls' not in sd]
    todo += [mk_call(v, s, form) for v, s, _ in fixed_cases()[:40] for form in FORMS]
    todo += [mk_call(v, s) for v, s, _ in fixed_cases()]
    # 2. single calls, in every call form of the pinned signature match(cmp_value, spec)
    div = 4 if getattr(ctx, 'ambient', None) else 1     # ambient children: a quarter of every generated family
    n = ((18000 if full else 5000) if ctx.quick else (150000 if full else 40000)) // div
    judged = 0
    for i in range(n + len(todo)):
        if len(fails) >= 5:
            break
        if i < len(todo):
            c = todo[i]
        else:
            v, s, _ = gen_case(rng) if rng.random() < 0.9 else gen_soup(rng)
            if rng.random() < 0.05:
                v, s, _ = mutate_spec(v, s, rng)
            c = mk_call(v, s, rng.choice(FORMS) if rng.random() < 0.12 else 'pp')
        v, s, form = vsf(c)
        ctx.evaluations += 1
        ctx.count('search/call-form-' + form)
        want = documented_meaning(v, s)
        got = call(c)
        if want is None:
            ctx.count('search/outside-documented-language')
            continue
        judged += 1
        if got != 'ok:%d' % want:
            report([c], got)
    ctx.count('search/judged', judged)
    # 3. call sequences: families of specs that differ only in where the whitespace falls (both orders, same
    #    values); match() before and after a caller customises the grammar the public make_grammar() returned
    n_fam = ((600 if full else 100) if ctx.quick else (6000 if full else 1500)) // div
    n_gram = ((200 if full else 40) if ctx.quick else (1500 if full else 400)) // div
    for k in range(n_fam + n_gram):
        if len(fails) >= 5:
            break
        if k % 5 == 4 and n_gram:
            n_gram -= 1
            run_sequence(gen_grammar_sequence(rng), 'grammar')
        elif n_fam:
            n_fam -= 1
            vals, specs, tag = gen_family(rng)
            run_sequence(family_calls(vals, specs, rng), tag)
    # 4. re-evaluation in shuffled order: the answer to a call may not change during the process
    again = list(first.items())
    rng.shuffle(again)
    for c, was in again[:(1500 if ctx.quick else 10000) // div]:
        if len(fails) >= 5:
            break
        ctx.evaluations += 1
        ctx.count('search/re-evaluated')
        got = call(c)
        if got != was:
            bad = got if got != expected_outcome(*vsf(c)) else was
            report([c], bad)
    return fails


def replay(ctx, payload):
    case = payload.get('failure', {}).get('case') or payload.get('case')
    if case and 'calls' in case:
        calls = [tuple(c) for c in case['calls']]
        outs = fresh_run(calls)
        matches = [c for c in calls if not is_event(c)]
        reps = iter(ctx.driver.ask_many([match_line(c[0], c[1]) for c in matches]))
        print('call sequence in a fresh interpreter (implementation / model / documented meaning of the call):')
        for c, o in zip(calls, outs):
            if is_event(c):
                print('  ' + show_call(c))
                continue
            print('  %s -> %s / %s / %s' % (show_call(c), show(o), show(next(reps).partition('\t')[2]),
                                           documented_meaning(c[0], c[1])))
        print('the last call on its own in a fresh interpreter -> %s' % show(alone(*vsf(calls[-1]))))
        bad = outs[-1] != expected_outcome(*vsf(calls[-1]))
        print('property oracle on the implementation:',
              'the result of the last call depends on the calls before it' if bad else None)
        return 1 if bad else 0
    if not case or 'spec' not in case:
        print('nothing to replay: this file names the obligation that no longer checks:')
        print(payload.get('no_longer_checks'))
        return 0
    v, s, form = case['value'], case['spec'], case.get('form', 'pp')
    print('call %s' % show_call(mk_call(v, s, form)))
    print('implementation: tree=%r result=%s' % (impl_tree(s), impl_match(v, s, form)))
    rep = ctx.driver.ask(match_line(v, s))
    mt, _, mo = rep.partition('\t')
    print('model         : tree=%r result=%s' % (
        None if mt == 'PE' else [common.unhexs(t) for t in mt.split(',')], mo))
    print('documented    :', documented_meaning(v, s))
    why = oracle_fresh(v, s, form)
    print('property oracle on the implementation:', why)
    return 1 if why else 0


LEVEL_TEXT = ('Machine-checked proof (Lean 4) over a hand-written model of specs_matcher (hand parser for the pyparsing '
              'grammar, match, op_methods), for every value, every operand and all amounts of whitespace: each of the 17 '
              'operators denotes its documented meaning (numeric comparison of exact rationals with = meaning >=; '
              'code-point lexicographic string order with s<=/s>= differing from s</s> exactly at equality; substring; '
              'all listed items present; equality with one of 1..n alternatives; interval membership for all four '
              'bracket combinations with the ends honoured), the longest operator literal wins, a spec without '
              'operator is string equality, and no parse leads to a KeyError. All clauses full strength over the '
              'modelled operand classes. The operator literals, their order and the op_methods keys are extracted '
              'from the live module on every run; the model is tied to the code by a differential correspondence '
              '(parse tree and result) on every run.')
LEVEL_NOTE = ('Trusted: Lean kernel (axioms propext/Classical.choice/Quot.sound, audited each run); the hand model of the '
              'pyparsing grammar, float() and literal_eval (flat literals only; everything else is the explicit outcome '
              '"unmodelled"); numbers are exact rationals, binary64 rounding is not modelled (numeric text is kept '
              'within 15 significant digits in the correspondence).')
TECHNIQUE = 'Lean 4 theorems over a hand parser + generated operator tables + model/implementation correspondence'
DESIGN_REF = 'DESIGN.md section 5, C18'
