/-
Helper lemmas about FileInspector.eat_chunk for the formats whose regions are fixed at
initialisation (everything except VHDX and VMDK).
-/
import OsloModel.Inspector
import OsloProofs.Lemmas.Capture
namespace Oslo.Insp

/-- formats without post-processing -/
def Fmt.static (f : Fmt) : Bool := f != .vhdx && f != .vmdk

/-- formats without post-processing and without a region_complete callback -/
def Fmt.plain (f : Fmt) : Bool := f.static && f != .qcow2

theorem lemma_postProcess_static (s : Insp) (h : s.fmt.static = true) : postProcess s = (s, none) := by
  unfold postProcess
  cases hf : s.fmt <;> simp_all [Fmt.static]

/-- one chunk presented to one region under the skip-when-complete rule -/
def stepRegion (c : Bytes) (pos' : Nat) (r : Region) : Region :=
  if r.isEnd || !r.complete then r.capture c pos' else r

theorem lemma_stepRegion_rid (c : Bytes) (pos' : Nat) (r : Region) : (stepRegion c pos' r).rid = r.rid := by
  unfold stepRegion Region.capture
  split
  · split
    · rfl
    · dsimp only; split <;> rfl
  · rfl

theorem lemma_captureAll_nil (s : Insp) (c : Bytes) :
    (s.captureAll c []) = { s with regions := s.regions.map (fun p => (p.1, stepRegion c s.total p.2)) } := by
  unfold Insp.captureAll stepRegion
  congr 1
  apply List.map_congr_left
  intro p _
  simp only [List.isEmpty_nil, Bool.true_or, Bool.true_and]
  split <;> rfl

theorem lemma_followUp_none (fuel : Nat) (s : Insp) (c : Bytes) (seen : List Nat)
    (h : ∀ p ∈ s.regions, p.2.rid ∈ seen) : followUp fuel s c seen = (s, none) := by
  have hf : s.regions.filter (fun p => !seen.contains p.2.rid) = [] := by
    rw [List.filter_eq_nil_iff]
    intro p hp
    simpa using h p hp
  cases fuel with
  | zero =>
    simp only [followUp]
    have : s.regions.any (fun p => !seen.contains p.2.rid) = false := by
      rw [List.any_eq_false]
      intro p hp
      simpa using h p hp
    rw [this]; rfl
  | succ n => simp only [followUp, hf, List.isEmpty_nil, if_true]

theorem lemma_runCallbacks_plain (names : List String) (s : Insp) (h : s.fmt.plain = true) :
    runCallbacks s names = (s, none) := by
  induction names with
  | nil => rfl
  | cons n ns ih =>
    have : regionComplete s n = (s, none) := by
      unfold regionComplete
      cases hf : s.fmt <;> simp_all [Fmt.plain, Fmt.static]
    simp only [runCallbacks, this, ih]

/-- the state after `eat_chunk` up to (not including) the region_complete callbacks -/
def afterCapture (s : Insp) (c : Bytes) : Insp :=
  { s with total := s.total + c.length,
           regions := s.regions.map (fun p => (p.1, stepRegion c (s.total + c.length) p.2)) }

theorem lemma_eatChunk_static (s : Insp) (c : Bytes) (hs : s.fmt.static = true) (hf : s.finished = false) :
    eatChunk s c =
      runCallbacks (afterCapture s c)
        (((afterCapture s c).regions.filter (fun p => p.2.complete &&
            !((s.regions.filter (·.2.complete)).map (·.2.rid)).contains p.2.rid)).map (·.1)) := by
  obtain ⟨fmt, total, regions, nextRid, finished, checks, qi, dt, vt⟩ := s
  simp only at hs hf
  subst hf
  unfold eatChunk
  simp only [Bool.false_eq_true, if_false]
  rw [lemma_captureAll_nil]
  simp only
  rw [lemma_postProcess_static _ hs]
  simp only
  rw [lemma_followUp_none]
  · rfl
  · intro p hp
    simp only [List.mem_map] at hp
    obtain ⟨q, hq, rfl⟩ := hp
    simp only [lemma_stepRegion_rid, List.mem_map]
    exact ⟨q, hq, rfl⟩

theorem lemma_eatChunk_plain (s : Insp) (c : Bytes) (hs : s.fmt.plain = true) (hf : s.finished = false) :
    eatChunk s c = (afterCapture s c, none) := by
  have hst : s.fmt.static = true := by
    simp only [Fmt.plain, Bool.and_eq_true] at hs; exact hs.1
  rw [lemma_eatChunk_static s c hst hf]
  exact lemma_runCallbacks_plain _ _ hs

theorem lemma_feed_step (r : Region) (pos : Nat) (c : Bytes) (cs : List Bytes) :
    r.feed pos (c :: cs) = (stepRegion c (pos + c.length) r).feed (pos + c.length) cs := by
  simp [Region.feed, stepRegion]

/-- feeding a whole chunk list to an inspector of a plain format acts region by region -/
theorem lemma_feed_plain (chunks : List Bytes) : ∀ (s : Insp), s.fmt.plain = true → s.finished = false →
    feed s chunks =
      ({ s with total := s.total + chunks.flatten.length,
                regions := s.regions.map (fun p => (p.1, p.2.feed s.total chunks)) }, none) := by
  induction chunks with
  | nil => intro s _ _; simp [feed, Region.feed]
  | cons c cs ih =>
    intro s hs hf
    simp only [feed, lemma_eatChunk_plain s c hs hf]
    rw [ih (afterCapture s c) hs hf]
    simp only [afterCapture, List.map_map, List.flatten_cons, List.length_append, Nat.add_assoc]
    congr 2

end Oslo.Insp
