"""C17 - version helpers preserve ordering and PEP 440 semantics (oslo_utils/versionutils.py)."""
import itertools
import os
import re
import signal
import sys
import threading

import common
from common import Disagreement, Failure, hexs, req
from whitebox import HarnessBlind

ID = 'C17'
DRIVER = 'drv_C17'
PROOF_MODULES = ['OsloProofs.Props.C17']
LEVEL = 'proof'
RULE = ('conversion cases: component tuples of length 1..5 over {0,1,9,10,99,100,999,1000,random} rendered '
        'canonically, with leading zeros / signs / underscores / int() whitespace / Unicode decimal digits, with '
        'a|alpha|b|beta|rc suffixes, tuples and non-tuple inputs, integers for convert_version_to_str, plus a '
        'malformed stream (character mutation, marker debris, empty components, over-long digit strings); '
        'is_compatible cases: pairs of PEP 440 versions (epoch, release, pre/post/dev, local) x same_major; '
        'predicate cases: 1..3 comparisons over the six operators with random whitespace x candidate version, '
        'plus malformed predicates. A case is non-trivial when the implementation returns a value (not an '
        'exception) that depends on the input: a tuple/int with at least two components, a non-empty string, '
        'a compatibility verdict for two valid versions, a predicate verdict with every comparison parsed; '
        'distinct by (function, canonical input)')
TRUSTED_BASE = [
    'Lean 4 kernel; axioms audited per theorem (subset of propext, Classical.choice, Quot.sound)',
    'hand-written model OsloModel/Version.lean (int() for str, str.split, the suffix re.sub, the predicate regex, '
    'the three converters, is_compatible, VersionPredicate), tied to versionutils.py by this correspondence',
    'tables read from the running interpreter / the code into Generated/C17.lean: re \\s set, int() whitespace set, '
    'Unicode decimal-digit zero points, sys.get_int_max_str_digits(), the operator table of VersionPredicate '
    '(its dict of operator functions located by shape, else probed through satisfied_by on 1.0 < 1.5 < 2.0), '
    'the clause grammar as observed through VersionPredicate(...) on a fixed family of ~330 clause texts',
    'packaging.version is a parameter of the model (parse -> abstract value with a major number, six comparison '
    'operators); the harness passes, per case, validity, the dense rank of Version._key and .major, and checks '
    'on every case that the six operators of packaging agree with comparing that rank',
]
UNMODELLED = [
    'PEP 440 parsing and ordering themselves (packaging.version) - abstract parameter',
    'inputs that are not str / tuple-of-int (a tuple of str or float goes through reduce and returns a str/float)',
    'strings containing lone surrogates (not representable in the model\'s Char)',
    'the text of exception messages',
    'convert_version_to_str on a negative integer does not terminate (model: diverges; checked with a 50 ms alarm)',
]
ASSUMPTIONS = [
    'packaging.version.Version comparison operators derive from one total preorder (its _key); checked on every '
    'generated pair',
    'InvalidVersion is a subclass of ValueError (checked at run time)',
]

GEN_PATH = os.path.join(common.LEAN, 'OsloModel', 'Generated', 'C17.lean')
CMP_NAMES = {'lt', 'le', 'eq', 'gt', 'ge', 'ne'}


# --------------------------------------------------------------------------
# translator: tables -> Generated/C17.lean

def _int_ok(s):
    try:
        return int(s)
    except ValueError:
        return None


def char_tables():
    """the interpreter-level tables (no access to oslo_utils): usable even when the translator of the
    versionutils tables fails, so that the implementation-only search can still run"""
    allc = [c for c in range(0x110000) if not 0xD800 <= c < 0xE000]
    big = ''.join(map(chr, allc))
    re_space = [ord(x) for x in re.findall(r'\s', big)]
    re_digit = [ord(x) for x in re.findall(r'\d', big)]
    zeros = [c for c in re_digit if _int_ok(chr(c)) == 0]
    # every \d character is accepted by int() with value (code point - its zero), ten per block
    if sorted(z + i for z in zeros for i in range(10)) != re_digit or \
            any(_int_ok(chr(z + i)) != i for z in zeros for i in range(10)):
        raise RuntimeError('Unicode decimal digits are not aligned blocks of ten')
    if any(chr(c).isdecimal() != (c in set(re_digit)) for c in range(0x3100)):
        raise RuntimeError('re \\d and str.isdecimal differ')
    cand = sorted(set(range(0x3100)) | set(re_space))
    int_space = [c for c in cand if c not in set(re_digit) and chr(c) not in '+-_'
                 and _int_ok(chr(c) + '1') == 1 and _int_ok('1' + chr(c)) == 1 and _int_ok(chr(c)) is None]
    return {'re_space': re_space, 'int_space': int_space, 'zeros': zeros,
            'max_digits': sys.get_int_max_str_digits()}


# ---- private details of VersionPredicate, located by shape / derived by probing ------------------
# (pattern of harness/whitebox.py: pinned name first, then discovery, then the public API; a detail
# that cannot be had at all is HarnessBlind - never an implementation outcome)

_wb = {}
OP_TEXTS = ['<', '<=', '==', '>', '>=', '!=']
# satisfied_by on the lattice 1.0 < 1.5 < 2.0 against the bound 1.5 identifies the comparison
_VECTOR_NAME = {(True, False, False): 'lt', (True, True, False): 'le', (False, True, False): 'eq',
                (False, False, True): 'gt', (False, True, True): 'ge', (True, False, True): 'ne'}


def _is_operator_table(v):
    return isinstance(v, dict) and len(v) > 0 and all(
        isinstance(k, str) and getattr(f, '__name__', None) in CMP_NAMES and
        getattr(f, '__module__', '') in ('_operator', 'operator') for k, f in v.items())


def _is_clause_regex(v):
    if not isinstance(v, re.Pattern) or v.groups != 2:
        return False
    m = v.match('>=1.0')
    return bool(m) and m.groups() == ('>=', '1.0')


def _one(pinned, cands):
    if pinned is not None:
        return pinned
    return cands[0] if len(cands) == 1 else None


def clause_regex():
    """the compiled clause pattern (class attribute, else module level), or None"""
    if 'regex' not in _wb:
        m = vu()
        cls = m.VersionPredicate
        pinned = getattr(cls, '_PREDICATE_MATCH', None)
        pinned = pinned if isinstance(pinned, re.Pattern) else None
        found = _one(pinned, [v for v in vars(cls).values() if isinstance(v, re.Pattern)])
        if found is None:
            found = _one(None, [v for v in list(vars(cls).values()) + list(vars(m).values()) if _is_clause_regex(v)])
        _wb['regex'] = found
    return _wb['regex']


def probe_comparators():
    """operator text -> operator name, through the public API only"""
    VP = vu().VersionPredicate
    comp = []
    for op in OP_TEXTS:
        try:
            vp = VP(op + '1.5')
            vec = tuple(vp.satisfied_by(c) is True for c in ('1.0', '1.5', '2.0'))
        except Exception:
            continue            # this operator text is not accepted (any more): leave it out of the table
        if vec not in _VECTOR_NAME:
            raise RuntimeError('VersionPredicate(%r) behaves like none of the six comparisons on 1.0 < 1.5 < 2.0: %r'
                               % (op + '1.5', vec))
        comp.append((op, _VECTOR_NAME[vec]))
    return comp


def comparator_table():
    """[(operator text, operator.<name>)]: the code's own table if there is one (whatever it is called),
    otherwise what each operator text does on a small version lattice"""
    m = vu()
    cls = m.VersionPredicate
    pinned = getattr(cls, '_COMP_MAP', None)
    pinned = pinned if _is_operator_table(pinned) else None
    table = _one(pinned, [v for v in vars(cls).values() if _is_operator_table(v)])
    if table is None:
        table = _one(None, [v for v in vars(m).values() if _is_operator_table(v)])
    if table is not None:
        return [(k, f.__name__) for k, f in table.items()], 'table'
    return probe_comparators(), 'probed'


def _is_pair_list(v):
    P = pv()
    return isinstance(v, (list, tuple)) and len(v) > 0 and all(
        isinstance(x, (list, tuple)) and len(x) == 2 and isinstance(x[0], str) and isinstance(x[1], P.Version)
        for x in v)


def parsed_pairs(vp):
    """the (operator text, Version) pairs a VersionPredicate holds, or None when no attribute has that shape
    (then only the public verdicts are compared)"""
    if 'pairs' not in _wb:
        name = None
        try:
            probe = vu().VersionPredicate('>=1.0,<2')
            if _is_pair_list(getattr(probe, 'pred', None)):
                name = 'pred'
            else:
                hits = [k for k, v in vars(probe).items() if _is_pair_list(v) and len(v) == 2]
                name = hits[0] if len(hits) == 1 else None
        except Exception:
            name = None
        _wb['pairs'] = name
    if _wb['pairs'] is None:
        return None
    v = getattr(vp, _wb['pairs'], None)
    if v is not None and len(v) == 0:
        return []
    return list(v) if _is_pair_list(v) else None


PROBE_BOUND = '1.5'


def clause_probes():
    """[(clause text, accepted?)]: a fixed family of clauses around the bound 1.5 - every operator text and
    near-miss, whitespace of every kind in every position, trailing debris - and whether
    VersionPredicate(clause) constructs.  Read through the public API, so it does not matter how (or whether)
    the code spells its pattern; the obligation predicate_probes_are_modelled re-checks the model's matcher
    against it."""
    VP = vu().VersionPredicate
    ops = OP_TEXTS + ['', '=', '~=', '===', '<>', '=<', '=>', '!', '<<', '>>', '> =', '< =', '! =', '= =', '=!', '=='
                      '=', '>==', '<=>']
    texts = []
    for op in ops:
        for pre, mid, post in [('', '', ''), (' ', '', ''), ('', ' ', ''), ('', '', ' '), (' \t', '\n ', ' \r\n'),
                               ('\x1c', '\x1f', '\x85'), ('\xa0', '\u2003', '\u3000'), ('\u200b', '', ''),
                               ('', '\u200b', ''), ('', '', '\u200b'), ('x', '', ''), ('', '', ' 2'), ('', '', ' <2'),
                               ('', '', '\n\n'), ('\x0b\x0c', '', '\x0b\x0c'), ('', '', '\x00')]:
            texts.append(pre + op + mid + PROBE_BOUND + post)
    texts += [op + ws for op in OP_TEXTS for ws in ('', ' ')]          # operator without a version
    out, seen = [], set()
    for t in texts:
        if t in seen or ',' in t:
            continue
        seen.add(t)
        try:
            VP(t)
            ok = True
        except ValueError:
            ok = False
        out.append((t, ok))
    return out


def tables():
    t = char_tables()
    comp, how = comparator_table()
    t.update({'comp': comp, 'comp_how': how, 'probes': clause_probes()})
    return t


def lean_chars(s):
    """a Python str as a Lean `List Char` literal"""
    out = []
    for ch in s:
        if ch in "\\'":
            out.append("'\\%s'" % ch)
        elif 32 <= ord(ch) < 127:
            out.append("'%s'" % ch)
        else:
            out.append('Char.ofNat %d' % ord(ch))
    return '[' + ', '.join(out) + ']'


def generate():
    t = tables()
    nat_list = lambda l: '[' + ', '.join(map(str, l)) + ']'
    src = '''/-
GENERATED by harness/props/C17.py (generate) on every run - do not edit.
Values read from the running interpreter and from oslo_utils.versionutils.
-/
namespace Oslo.Version.Gen

/-- code points matched by `\\s` in a str pattern -/
def reSpace : List Nat := %s

/-- code points that int(str) strips at either end -/
def intSpace : List Nat := %s

/-- zero points of the Unicode decimal digits (`\\d`, accepted by int()): digit value = code point - zero -/
def decimalZeros : List Nat := %s

/-- sys.get_int_max_str_digits() (0 = unlimited) -/
def intMaxStrDigits : Nat := %d

/-- the operator table of VersionPredicate: key -> operator.<name> (the class's dict, located by shape; if
    there is none, what each operator text does on the lattice 1.0 < 1.5 < 2.0 through the public API) -/
def compMap : List (List Char × List Char) := [%s]

/-- the clause grammar observed through the public API: (clause text around the bound 1.5, does
    `VersionPredicate(text)` construct?) -/
def clauseProbes : List (List Char × Bool) := [%s]

end Oslo.Version.Gen
''' % (nat_list(t['re_space']), nat_list(t['int_space']), nat_list(t['zeros']), t['max_digits'],
       ', '.join('(%s, %s)' % (lean_chars(k), lean_chars(v)) for k, v in t['comp']),
       ',\n  '.join('(%s, %s)' % (lean_chars(k), 'true' if v else 'false') for k, v in t['probes']))
    common.write_if_changed(GEN_PATH, src)


# --------------------------------------------------------------------------
# the pinned public signatures (as on the clean tree - written down here, NOT read from the tree under
# test) and every legal way of calling them

REQUIRED = '<required>'
SIGNATURES = {
    'is_compatible': [('requested_version', REQUIRED), ('current_version', REQUIRED), ('same_major', True)],
    'convert_version_to_int': [('version', REQUIRED)],
    'convert_version_to_str': [('version_int', REQUIRED)],
    'convert_version_to_tuple': [('version_str', REQUIRED)],
    'VersionPredicate': [('predicate_str', REQUIRED)],          # the constructor
    'satisfied_by': [('version_str', REQUIRED)],                # method of VersionPredicate
}
# `same_major` is a truth value: anything truthy switches the major check on, anything falsy off
FLAG_VALUES = {True: [True, 1, 2, 'no', 'False', [0]], False: [False, 0, '', None, 0.0, []]}


def _forms(name):
    """{label: (n positional, keyword names in order, omitted names)} - the first n parameters positionally,
    the others by keyword in every order, optional ones also left out"""
    params = SIGNATURES[name]
    names = [n for n, _ in params]
    optional = [n for n, d in params if d is not REQUIRED]
    out = {}
    for npos in range(len(names), -1, -1):
        rest = names[npos:]
        omittable = [n for n in rest if n in optional]
        for k in range(len(omittable) + 1):
            for omitted in itertools.combinations(omittable, k):
                for kw in itertools.permutations([n for n in rest if n not in omitted]):
                    label = 'p%d' % npos + ('/' + ','.join(kw) if kw else '') + ('-' + ','.join(omitted) if omitted else '')
                    out[label] = (npos, list(kw), list(omitted))
    return out


FORMS = {name: _forms(name) for name in SIGNATURES}
DEFAULT_FORM = {name: 'p%d' % len(SIGNATURES[name]) for name in SIGNATURES}
DEFAULT_FORM['is_compatible'] = 'p2/same_major'
KW_FORM = {name: 'p0/' + SIGNATURES[name][0][0] for name in SIGNATURES if len(SIGNATURES[name]) == 1}


def applicable_forms(name, logical):
    """labels of the forms that can express these logical arguments (a parameter may only be left out when
    its logical value is the pinned default)"""
    defaults = dict(SIGNATURES[name])
    return [lab for lab, (_, _, omitted) in FORMS[name].items()
            if all(logical[n] is defaults[n] or (type(logical[n]) is type(defaults[n]) and logical[n] == defaults[n])
                   for n in omitted)]


def bind(name, form, logical):
    """(args, kwargs) of the call form"""
    npos, kw, _omitted = FORMS[name][form or DEFAULT_FORM[name]]
    names = [n for n, _ in SIGNATURES[name]]
    return [logical[n] for n in names[:npos]], {n: logical[n] for n in kw}


def show_call(name, form, logical):
    args, kwargs = bind(name, form, logical)
    return '%s(%s)' % (name, ', '.join([repr(a)[:70] for a in args] + ['%s=%s' % (k, repr(v)[:70]) for k, v in kwargs.items()]))


def compat_logical(case):
    return {'requested_version': as_caller_str(case['req'], case.get('strsub')),
            'current_version': as_caller_str(case['cur'], case.get('strsub')),
            'same_major': FLAG_VALUES[bool(case['same_major'])][case.get('flag', 0)]}


def call_compat(case):
    """is_compatible in the call form and flag spelling the case asks for (raises what the call raises)"""
    args, kwargs = bind('is_compatible', case.get('form'), compat_logical(case))
    return vu().is_compatible(*args, **kwargs)


def show_compat(case):
    return show_call('is_compatible', case.get('form'), compat_logical(case))


class CallerStr(str):
    """what a caller may hand in instead of a plain str: a str subclass (with state of its own)"""
    origin = 'caller'

    def __repr__(self):
        return 'CallerStr(%s)' % str.__repr__(self)


def as_caller_str(v, on):
    return CallerStr(v) if on and type(v) is str else v


def call1(target, name, value, kw=False, strsub=False):
    """a one-parameter public callable, positionally or by its pinned parameter name"""
    value = as_caller_str(value, strsub)
    if kw:
        return target(**{SIGNATURES[name][0][0]: value})
    return target(value)


_SUBCLASSES = {}


def predicate_class(kind):
    """VersionPredicate itself, or a subclass of it as an application may define: overriding nothing, or one
    public method by delegation to super()"""
    base = vu().VersionPredicate
    if not kind:
        return base
    key = (id(base), kind)
    if key not in _SUBCLASSES:
        if kind == 'plain':
            class Sub(base):
                pass
        elif kind == 'override-sat':
            class Sub(base):
                def satisfied_by(self, *a, **k):
                    return super().satisfied_by(*a, **k)
        else:
            class Sub(base):
                def __init__(self, *a, **k):
                    self.tag = 'application state'
                    super().__init__(*a, **k)
        Sub.__name__ = Sub.__qualname__ = 'Sub_' + kind.replace('-', '_')
        Sub.__module__ = __name__
        globals()[Sub.__name__] = Sub       # importable by name, as an application's class is (pickle needs that)
        _SUBCLASSES[key] = Sub
    return _SUBCLASSES[key]


def random_compat_form(rng, same_major):
    """(form label, flag index): mostly varied - each optional parameter positional / keyword / omitted,
    keyword order permuted, the flag as bool and as another truthy / falsy value"""
    forms = applicable_forms('is_compatible', {'requested_version': '', 'current_version': '', 'same_major': bool(same_major)})
    return rng.choice(forms), (0 if rng.random() < 0.6 else rng.randrange(len(FLAG_VALUES[bool(same_major)])))


# --------------------------------------------------------------------------
# running the implementation, canonical outputs

def vu():
    from oslo_utils import versionutils
    return versionutils


class _Unlimited:
    """lift the interpreter's int<->str digit limit around the harness's OWN conversions only"""

    def __enter__(self):
        self.old = sys.get_int_max_str_digits()
        sys.set_int_max_str_digits(0)

    def __exit__(self, *a):
        sys.set_int_max_str_digits(self.old)


def big_str(n):
    with _Unlimited():
        return str(n)


def big_int(s):
    with _Unlimited():
        return int(s)


class _Timeout(BaseException):
    pass


def _alarm(signum, frame):
    raise _Timeout()


def call_with_alarm(f, arg, seconds=0.05):
    """run f(arg); 'diverges' if it is still running after `seconds` (main thread only)"""
    if threading.current_thread() is not threading.main_thread():
        return None
    old = signal.signal(signal.SIGALRM, _alarm)
    try:
        signal.setitimer(signal.ITIMER_REAL, seconds)
        try:
            r = f(arg)
        finally:
            signal.setitimer(signal.ITIMER_REAL, 0)
        return ('value', r)
    except _Timeout:
        return ('diverges', None)
    finally:
        signal.signal(signal.SIGALRM, old)


OTHER_INPUTS = {'list': [1, 2, 3], 'int': 5, 'none': None, 'bytes': b'1.2', 'float': 1.5, 'dict': {1: 2}}


def canon_int_result(r):
    if r is None:
        return 'None'
    if type(r) is int:
        return 'int:' + big_str(r)
    return 'other:' + repr(r)[:60]


def impl_conv(case):
    """canonical outcome of one conversion case on the implementation"""
    m = vu()
    fn = case['fn']
    try:
        kw = bool(case.get('kw'))
        if fn == 'tuple':
            r = call1(m.convert_version_to_tuple, 'convert_version_to_tuple', case['s'], kw, case.get('strsub'))
            if type(r) is tuple and all(type(x) is int for x in r):
                return 'ok:' + (','.join(big_str(x) for x in r) or '-')
            return 'other:' + repr(r)[:60]
        if fn == 'int_s':
            return canon_int_result(call1(m.convert_version_to_int, 'convert_version_to_int', case['s'], kw, case.get('strsub')))
        if fn == 'int_t':
            return canon_int_result(call1(m.convert_version_to_int, 'convert_version_to_int', tuple(case['t']), kw))
        if fn == 'int_o':
            return canon_int_result(call1(m.convert_version_to_int, 'convert_version_to_int',
                                          OTHER_INPUTS[case['kind']], kw))
        if fn == 'str':
            n = case['n']
            if n < 0:
                got = call_with_alarm(m.convert_version_to_str, n)
                if got is None:
                    return 'skipped'
                if got[0] == 'diverges':
                    return 'diverges'
                r = got[1]
            else:
                r = call1(m.convert_version_to_str, 'convert_version_to_str', n, kw)
            return 'str:' + hexs(r) if type(r) is str else 'other:' + repr(r)[:60]
    except Exception as e:
        return type(e).__name__
    raise KeyError(fn)


def line_conv(case):
    fn = case['fn']
    if fn in ('tuple', 'int_s'):
        return req(fn, hexs(case['s']))
    if fn == 'int_t':
        return req(fn, ','.join(big_str(x) for x in case['t']) or '-')
    if fn == 'int_o':
        return req(fn)
    if fn == 'str':
        return req(fn, big_str(case['n']))
    raise KeyError(fn)


# ---- packaging as the parameter ------------------------------------------

def pv():
    import packaging.version
    return packaging.version


def parse_versions(strings):
    """{s: None | Version} and the dense rank of each valid one; checks the six operators against the rank"""
    P = pv()
    parsed = {}
    for s in strings:
        try:
            parsed[s] = P.Version(s)
        except P.InvalidVersion:
            parsed[s] = None
    valid = [v for v in parsed.values() if v is not None]
    uniq = []
    for v in sorted(valid):
        if not uniq or not (uniq[-1] == v):
            uniq.append(v)
    rank = {}
    for s, v in parsed.items():
        if v is not None:
            rank[s] = next(i for i, u in enumerate(uniq) if u == v)
    bad = None
    items = [(s, v) for s, v in parsed.items() if v is not None]
    for (s, a), (t, b) in itertools.product(items, repeat=2):
        ra, rb = rank[s], rank[t]
        if ((a < b), (a <= b), (a == b), (a > b), (a >= b), (a != b)) != \
                ((ra < rb), (ra <= rb), (ra == rb), (ra > rb), (ra >= rb), (ra != rb)):
            bad = (s, t)
    return parsed, rank, bad


def dict_field(parsed, rank):
    items = []
    for s, v in parsed.items():
        items.append('%s=%s' % (hexs(s), 'I' if v is None else '%d:%d' % (rank[s], v.major)))
    return ';'.join(items) or '-'


def impl_compat(case):
    try:
        r = call_compat(case)
        return 'bool:%d' % r if type(r) is bool else 'other:' + repr(r)[:60]
    except Exception as e:
        return type(e).__name__


def impl_pred(case, rank_of):
    """rank_of(Version) -> rank in this case's dictionary (for the white-box `pred` list)"""
    m = vu()
    try:
        vp = call1(predicate_class(case.get('subclass')), 'VersionPredicate', case['pred'], case.get('kw_init'),
                   case.get('strsub'))
    except Exception as e:
        return 'init:' + type(e).__name__
    pairs = parsed_pairs(vp)
    if pairs is None:           # no (operator text, Version) list to look at: public verdicts only
        wb = ''
    else:
        wb = '\tconds=' + (','.join('%s:%s' % (hexs(c), rank_of(v)) for c, v in pairs) or '-')
    try:
        r = call1(vp.satisfied_by, 'satisfied_by', case['ver'], case.get('kw'), case.get('strsub'))
        return ('bool:%d' % r if type(r) is bool else 'other:' + repr(r)[:60]) + wb
    except Exception as e:
        return 'sat:' + type(e).__name__ + wb


def same_outcome(impl, model):
    """model reply vs implementation outcome; without a located pair list only the public part counts"""
    if '\t' not in impl:
        model = model.split('\t')[0]
    return impl == model


def impl_match(piece):
    """white box, only for display in a replay: what the located clause regex does on the piece"""
    rx = clause_regex()
    if rx is None:
        return 'regex-not-located'
    r = rx.match(piece)
    return 'nomatch' if not r else 'm:%s:%s' % (hexs(r.group(1)), hexs(r.group(2)))


LOW_VERSION, HIGH_VERSION = '0.dev0', '9999!0'
LOW_STRUCT = {'epoch': 0, 'release': [0], 'pre': None, 'post': None, 'dev': 0, 'local': None}
HIGH_STRUCT = {'epoch': 9999, 'release': [0], 'pre': None, 'post': None, 'dev': None, 'local': None}


# --------------------------------------------------------------------------
# generators

POOL = [0, 1, 9, 10, 99, 100, 999]
MARKERS = ['a', 'alpha', 'b', 'beta', 'rc']
INT_WS = [' ', '\t', '\n', '\r', '\x0b', '\x0c', '\x85', '\xa0', ' ', '　']
JUNK = ['x', 'A', 'e', 'l', 'p', 'h', 't', 'r', 'c', 'a', 'b', '!', '/', ':', ',', ';', '\x1c', '\x1f', '\x00',
        '²', '½', 'Ⅳ', '−', '​', 'RC', 'Alpha', '..', '__', '_', '+', '-', ' ', '\n', '.']
_ZEROS = None


def zeros():
    global _ZEROS
    if _ZEROS is None:
        _ZEROS = char_tables()['zeros']
    return _ZEROS


def comp_value(rng):
    x = rng.random()
    if x < 0.55:
        return rng.choice(POOL)
    if x < 0.9:
        return rng.randrange(0, 1000)
    if x < 0.97:
        return rng.choice([1000, 1001, 1999, 2000, 999999, 10 ** 6])
    return rng.randrange(0, 10 ** rng.randrange(4, 25))


def comp_tuple(rng, in_domain=False):
    n = rng.randrange(1, 6)
    t = [rng.choice(POOL) if rng.random() < 0.6 else rng.randrange(0, 1000) for _ in range(n)] if in_domain \
        else [comp_value(rng) for _ in range(n)]
    if in_domain and t[0] == 0:
        t[0] = rng.choice([1, 9, 10, 99, 100, 999])
    return t


def uni_digits(text, rng):
    z = rng.choice(zeros())
    return ''.join(chr(z + ord(ch) - 48) if '0' <= ch <= '9' else ch for ch in text)


def decorate_component(v, rng):
    s = str(v)
    x = rng.random()
    if x < 0.2:
        s = '0' * rng.randrange(1, 4) + s
    elif x < 0.35 and len(s) > 1:
        i = rng.randrange(1, len(s))
        s = s[:i] + '_' + s[i:]
    elif x < 0.45:
        s = rng.choice('+-') + s
    if rng.random() < 0.2:
        s = uni_digits(s, rng)
    if rng.random() < 0.25:
        s = ''.join(rng.choice(INT_WS) for _ in range(rng.randrange(1, 3))) + s
    if rng.random() < 0.25:
        s = s + ''.join(rng.choice(INT_WS) for _ in range(rng.randrange(1, 3)))
    return s


def suffix(rng):
    d = str(rng.randrange(0, 1000))
    if rng.random() < 0.2:
        d = uni_digits(d, rng)
    return rng.choice(MARKERS) + d


def mutate(s, rng):
    k = rng.randrange(1, 3)
    for _ in range(k):
        i = rng.randrange(0, len(s) + 1)
        x = rng.random()
        if x < 0.6:
            s = s[:i] + rng.choice(JUNK) + s[i:]
        elif x < 0.8 and s:
            s = s[:i] + s[i + 1:]
        else:
            s = s[:i] + rng.choice(MARKERS) + (str(rng.randrange(0, 50)) if rng.random() < 0.6 else '') + s[i:]
    return s


def marker_string(rng):
    """a version text with a pre-release marker in one of the places where it is NOT a legal suffix, or just is:
    marker without a number (every marker), marker + number, marker in a non-last component, upper-case
    marker, marker as a whole component, two markers, number before the marker missing"""
    t = comp_tuple(rng)
    comps = [str(v) if rng.random() < 0.8 else decorate_component(v, rng) for v in t]
    m = rng.choice(MARKERS)
    num = str(rng.randrange(0, 100))
    i = rng.randrange(len(comps))
    how = rng.choice(['bare-last', 'bare-last', 'bare-last', 'numbered-last', 'bare-inner', 'numbered-inner',
                      'upper-bare', 'upper-numbered', 'only-marker-last', 'only-marker-numbered', 'only-marker-inner',
                      'double', 'marker-dot-number', 'bare-then-ws', 'prefix-marker', 'truncated', 'whole'])
    if how == 'bare-last':
        comps[-1] += m
    elif how == 'numbered-last':
        comps[-1] += m + num
    elif how == 'bare-inner':
        comps[i] += m
    elif how == 'numbered-inner':
        comps[i] += m + num
    elif how == 'upper-bare':
        comps[-1] += rng.choice([m.upper(), m.capitalize()])
    elif how == 'upper-numbered':
        comps[-1] += rng.choice([m.upper(), m.capitalize()]) + num
    elif how == 'only-marker-last':
        comps.append(m)
    elif how == 'only-marker-numbered':
        comps.append(m + num)
    elif how == 'only-marker-inner':
        comps.insert(i, m + (num if rng.random() < 0.5 else ''))
    elif how == 'double':
        comps[-1] += m + (num if rng.random() < 0.5 else '') + rng.choice(MARKERS) + (num if rng.random() < 0.5 else '')
    elif how == 'marker-dot-number':
        comps[-1] += m
        comps.append(num)
    elif how == 'bare-then-ws':
        comps[-1] += m + rng.choice(['\n', ' ', '\t', '\r\n'])
    elif how == 'prefix-marker':
        comps[-1] = m + comps[-1]
    elif how == 'truncated':
        comps[-1] += m[:-1] + (num if rng.random() < 0.5 else '') if len(m) > 1 else m + '_' + num
    else:
        return m + (num if rng.random() < 0.5 else ''), 'marker/whole'
    return '.'.join(comps), 'marker/' + how


def conversion_string(rng):
    """one (string, tag) of the conversion stream"""
    t = comp_tuple(rng)
    x = rng.random()
    if x < 0.22:
        return '.'.join(map(str, t)), 'canonical'
    if x < 0.44:
        return '.'.join(decorate_component(v, rng) for v in t), 'decorated'
    if x < 0.62:
        s = '.'.join(map(str, t)) if rng.random() < 0.6 else '.'.join(decorate_component(v, rng) for v in t)
        s += suffix(rng)
        if rng.random() < 0.25:
            s += rng.choice(['\n', '\n', '\n\n', '\r\n', ' '])
        return s, 'suffix'
    if x < 0.8:
        return marker_string(rng)
    s = '.'.join(map(str, t))
    if rng.random() < 0.4:
        s += suffix(rng)
    return mutate(s, rng), 'mutated'


def scaled(ctx, n):
    """case count of one generator family: about 40% in a child of the ambient sweep (eleven children run side by
    side with the same families), the full count in the main run"""
    return max(50, int(n * 0.4)) if getattr(ctx, 'ambient', None) else n


def gen_conversion_strings(ctx):
    """yield (string, tag)"""
    rng = ctx.rng
    n = scaled(ctx, 2500 if ctx.quick else 40000)
    for _ in range(n):
        yield conversion_string(rng)
    for m in MARKERS:           # every marker, written out
        for base in ('1', '1.3', '10.0.3', '2.0'):
            for tail in (m, m + '0', m + '1', m.upper(), m.upper() + '1', '.' + m, '.' + m + '1', m + '.1', m + m, m + '1' + m):
                yield base + tail, 'marker/fixed'
        yield m, 'marker/fixed'
        yield m + '1', 'marker/fixed'
    fixed = ['', '.', '..', '1.', '.1', ' ', '\n', '1\n', '1.2\n', '1.2rc1\n', '1.2rc1\n\n', '1.2rc1\r\n', 'rc1', '1rc', '1.rc1',
             '1.2rc1rc2', '1a2b3', '1.2alpha', '1.2alph1', '1.2beta1', '1.2bet1', '1.2c1', '1.2r1', '1.2a_1', '1.2_a1',
             '1.2a1_', '1.2a+1', '1.2 a1', '1.2a 1', '1.2a1 ', '-1', '--1', '+-1', '1.-0', '0', '00', '0.0', '1_0', '1__0',
             '_1', '1_', '1.0x10', '1e3', '1.2.3.4.5.6.7.8', '١.٢', '1.2rc٣', '1١', '1.2١a3',
             '²', '1.²', '\x1c1', '1\x1c', '\x851', '1\x00', '999.999.999', '1000.1000', 'v1.2', '1,2', '1;2']
    for s in fixed:
        yield s, 'fixed'
    lim = sys.get_int_max_str_digits()
    if lim:
        for k in ([lim, lim + 1] if ctx.quick else [lim - 1, lim, lim + 1, lim + 2]):
            yield '1' * k, 'digit-limit'
            yield '1.' + '0' * k, 'digit-limit'
            yield '-' + '7' * k + '.2', 'digit-limit'
            yield '3.' + '1_' * (k - 1) + '1', 'digit-limit'
            yield '2.' + '9' * (k - 1) + 'rc1', 'digit-limit'


def gen_tuples(ctx):
    """component tuples: exhaustive over the boundary pool up to a length, then random"""
    rng = ctx.rng
    maxlen = 3 if ctx.quick else 5
    for n in range(1, maxlen + 1):
        for t in itertools.product(POOL, repeat=n):
            yield list(t), 'exh<=%d' % maxlen
    for _ in range(scaled(ctx, 1500 if ctx.quick else 20000)):
        yield comp_tuple(rng, in_domain=rng.random() < 0.6), 'random'
    for t in ([], [0], [0, 0], [1, -1], [-1, 5], [-1], [1000], [1, 1000], [999, 999, 999, 999, 999], [10 ** 30, 1]):
        yield t, 'fixed'


# structured PEP 440 versions -----------------------------------------------

def gen_vstruct(rng, near=None):
    if near is not None and rng.random() < 0.7:
        v = {k: (list(x) if isinstance(x, list) else x) for k, x in near.items()}
        what = rng.choice(['release', 'pre', 'post', 'dev', 'epoch', 'local', 'zeros', 'same'])
        if what == 'release':
            i = rng.randrange(len(v['release']))
            v['release'][i] = max(0, v['release'][i] + rng.choice([-1, 1]))
        elif what == 'pre':
            v['pre'] = rng.choice([None, ['a', 0], ['a', 1], ['b', 1], ['rc', 1], ['rc', 2]])
        elif what == 'post':
            v['post'] = rng.choice([None, 0, 1, 2])
        elif what == 'dev':
            v['dev'] = rng.choice([None, 0, 1, 2])
        elif what == 'epoch':
            v['epoch'] = rng.choice([0, 1, 2])
        elif what == 'local':
            v['local'] = rng.choice([None, '1', 'abc', 'abc.1', '2.abc', '10', '1.0'])
        elif what == 'zeros':
            v['release'] = v['release'] + [0] * rng.randrange(1, 3)
        return v
    return {
        'epoch': rng.choice([0, 0, 0, 0, 1, 2]),
        'release': [rng.choice([0, 1, 2, 3, 9, 10, 11, 99, 2024]) for _ in range(rng.randrange(1, 5))],
        'pre': rng.choice([None, None, None, ['a', 0], ['a', 1], ['b', 1], ['b', 2], ['rc', 1], ['rc', 2]]),
        'post': rng.choice([None, None, None, 0, 1, 2]),
        'dev': rng.choice([None, None, None, 0, 1, 2]),
        'local': rng.choice([None, None, None, None, '1', 'abc', 'abc.1', '2.abc', '10']),
    }


def render_v(v, rng=None):
    """one PEP 440 spelling of the structured version (normal form if rng is None)"""
    r = rng.random if rng else (lambda: 1.0)
    s = ''
    if v['epoch'] or r() < 0.05:
        s += '%d!' % v['epoch']
    if r() < 0.05:
        s = 'v' + s
    s += '.'.join(map(str, v['release']))
    if v['pre'] is not None:
        letter, n = v['pre']
        if rng:
            letter = rng.choice({'a': ['a', 'alpha', 'A'], 'b': ['b', 'beta'], 'rc': ['rc', 'c', 'pre', 'RC']}[letter])
        s += (rng.choice(['', '.', '-', '_']) if rng else '') + letter + str(n)
    if v['post'] is not None:
        s += rng.choice(['.post%d', '-%d', '.rev%d', 'post%d', '.r%d']) % v['post'] if rng else '.post%d' % v['post']
    if v['dev'] is not None:
        s += (rng.choice(['.dev%d', 'dev%d', '-dev%d']) if rng else '.dev%d') % v['dev']
    if v['local'] is not None:
        s += '+' + (v['local'].replace('.', rng.choice('.-_')) if rng else v['local'])
    if rng and r() < 0.08:
        s = rng.choice([' ', '\t', '\n']) + s
    if rng and r() < 0.08:
        s = s + rng.choice([' ', '\n'])
    return s


NEG_INF, POS_INF = (0,), (2,)


def pep440_key(v):
    """PEP 440 ordering written from the specification (independent of packaging)"""
    rel = list(v['release'])
    while rel and rel[-1] == 0:
        rel.pop()
    if v['pre'] is None and v['post'] is None and v['dev'] is not None:
        pre = NEG_INF
    elif v['pre'] is None:
        pre = POS_INF
    else:
        pre = (1, {'a': 0, 'b': 1, 'rc': 2}[v['pre'][0]], v['pre'][1])
    post = NEG_INF if v['post'] is None else (1, v['post'])
    dev = POS_INF if v['dev'] is None else (1, v['dev'])
    if v['local'] is None:
        local = NEG_INF
    else:
        local = (1, tuple((1, int(p), '') if p.isdigit() else (0, 0, p.lower()) for p in v['local'].split('.')))
    return (v['epoch'], tuple(rel), pre, post, dev, local)


BAD_VERSIONS = ['', 'abc', '1..2', '1.0.', '=1', '1,0', '1 2', '1.0+', '!1', '١.٢', '1_0_', '1.0-', 'v', '>1']
OPS = ['<', '<=', '==', '>', '>=', '!=']
RE_WS = [' ', '\t', '\n', '\x0b', '\x0c', '\r', '\x1c', '\x1f', '\x85', '\xa0', ' ', '　']


def ws(rng, p=0.35):
    return ''.join(rng.choice(RE_WS) for _ in range(rng.randrange(1, 3))) if rng.random() < p else ''


def gen_compat_case(rng):
    a = gen_vstruct(rng)
    b = gen_vstruct(rng, near=a)
    if rng.random() < 0.5:
        a, b = b, a
    case = {'fn': 'compat', 'req': render_v(a, rng), 'cur': render_v(b, rng), 'same_major': rng.random() < 0.5,
            'req_struct': a, 'cur_struct': b}
    case['form'], case['flag'] = random_compat_form(rng, case['same_major'])
    case['strsub'] = rng.random() < 0.1
    x = rng.random()
    if x < 0.06:
        case['req'] = rng.choice(BAD_VERSIONS)
        case['req_struct'] = None
    elif x < 0.12:
        case['cur'] = rng.choice(BAD_VERSIONS)
        case['cur_struct'] = None
    return case


def gen_pred_case(rng):
    cand = gen_vstruct(rng)
    k = rng.randrange(1, 4)
    comps = []
    for _ in range(k):
        comps.append([rng.choice(OPS), gen_vstruct(rng, near=cand)])
    pieces = []
    for op, v in comps:
        vs = render_v(v, rng).strip()
        vs = ''.join(ch for ch in vs if not ch.isspace())
        pieces.append([ws(rng), op, ws(rng), vs, ws(rng)])
    case = {'fn': 'pred', 'comps': [[op, v] for op, v in comps], 'ver_struct': cand, 'ver': render_v(cand, rng),
            'malformed': None, 'kw_init': rng.random() < 0.2, 'kw': rng.random() < 0.2,
            'strsub': rng.random() < 0.1,
            'subclass': rng.choice([None, None, None, None, 'plain', 'override-sat', 'override-init'])}
    x = rng.random()
    if x < 0.3:
        i = rng.randrange(k)
        how = rng.choice(['noop', 'badop', 'nover', 'twover', 'badver', 'empty', 'trailing-comma', 'split-op', 'junk',
                          'op-only-eq', 'badcand', 'tilde', 'inner-comma'])
        p = pieces[i]
        if how == 'noop':
            p[1] = ''
        elif how == 'badop':
            p[1] = rng.choice(['=', '=<', '=>', '<>', '~=', '===', '!', '<<', '=!', '> ='])
        elif how == 'nover':
            p[3] = ''
        elif how == 'twover':
            p[3] = p[3] + rng.choice(RE_WS) + '1.0'
        elif how == 'badver':
            p[3] = rng.choice(['abc', '1..2', '1.0.', '١', '1.0+', 'x'])
        elif how == 'empty':
            pieces[i] = ['', '', ws(rng, 0.5), '', '']
        elif how == 'trailing-comma':
            pieces.append(['', '', '', '', ''])
        elif how == 'split-op':
            if len(p[1]) == 2:
                p[1] = p[1][0] + rng.choice(RE_WS) + p[1][1]
            else:
                p[1] = p[1] + rng.choice(RE_WS) + '='
        elif how == 'junk':
            p[0] = p[0] + rng.choice(['x', '1', '(', '​', '\x00'])
        elif how == 'op-only-eq':
            p[1], p[2], p[3] = rng.choice(['<=', '>=', '==', '!=']), '', ''
        elif how == 'badcand':
            case['ver'] = rng.choice(BAD_VERSIONS)
            case['ver_struct'] = None
        elif how == 'tilde':
            p[3] = '~' + p[3]
        elif how == 'inner-comma':
            p[3] = p[3] + ',' + p[3]
        case['malformed'] = how
    case['pred'] = ','.join(''.join(p) for p in pieces)
    return case


# --------------------------------------------------------------------------
# call sequences: one VersionPredicate object asked repeatedly, and repeated calls of the
# module functions with equal arguments (the answers may not depend on what was asked before)

def _exc_out(prefix, e):
    return {'out': prefix + type(e).__name__, 've': isinstance(e, ValueError)}


def run_calls(case):
    """Execute the calls of a sequence case on the implementation, in order, in THIS interpreter.
    `pred` (if any) is constructed once; every 'sat' call goes to that one object.
    Returns one {'out': canonical text, 've': raised a ValueError?} per call ('init:…' alone if the
    constructor raised) plus, last, the white-box pair list before/after when it can be located."""
    import copy
    import pickle
    m = vu()
    outs = []
    objs = []
    if case.get('pred') is not None:
        try:
            objs.append(call1(predicate_class(case.get('subclass')), 'VersionPredicate', case['pred'],
                              case.get('kw_init'), case.get('strsub')))
        except Exception as e:
            return [_exc_out('init:', e)]
    for c in case['calls']:
        op = c['op']
        try:
            if op == 'clone':       # a second object made from a (used) one; both stay in use
                src = objs[c.get('of', 0)]
                objs.append(copy.copy(src) if c['how'] == 'copy' else copy.deepcopy(src) if c['how'] == 'deepcopy'
                            else pickle.loads(pickle.dumps(src)))
                outs.append({'out': 'cloned'})
            elif op == 'sat':
                if c.get('obj', 0) >= len(objs):
                    outs.append({'out': 'no-object'})
                    continue
                r = call1(objs[c.get('obj', 0)].satisfied_by, 'satisfied_by', c['ver'], c.get('kw'), c.get('strsub'))
                outs.append({'out': 'bool:%d' % r if type(r) is bool else 'other:' + repr(r)[:60]})
            elif op == 'compat':
                r = call_compat(c)
                outs.append({'out': 'bool:%d' % r if type(r) is bool else 'other:' + repr(r)[:60]})
            else:
                outs.append({'out': impl_conv(dict(c, fn=op))})
                if outs[-1]['out'] in ('ValueError', 'TypeError') or outs[-1]['out'].endswith('Error'):
                    outs[-1]['ve'] = outs[-1]['out'] == 'ValueError'
        except Exception as e:
            outs.append(_exc_out('sat:' if op == 'sat' else 'clone:' if op == 'clone' else '', e))
    return outs


FRESH_BUDGET_S = 50.0          # wall clock for ALL fresh-interpreter work of one run (main run or one child)
_fresh_used = [0.0]


def fresh_budget_left():
    return FRESH_BUDGET_S - _fresh_used[0]


def run_calls_fresh(case, timeout=15):
    """the same in a fresh interpreter - the same tree (VERIF_REPO is inherited) and the same ambient
    configuration (ambient.fresh_interpreter_argv / setup_snippet; no-ops in the main run).
    None if that did not work or the run's budget for fresh interpreters is used up."""
    import json
    import subprocess
    import tempfile
    import time
    import ambient
    left = fresh_budget_left()
    if left <= 1.0:
        return None
    harness = os.path.join(common.VERIF, 'harness')
    script = ('import sys, json\nsys.path.insert(0, %r)\n' % harness +
              ambient.setup_snippet('import common\nfrom props import C17') +
              "print('\\n@@' + json.dumps(C17.run_calls(json.load(sys.stdin))))\n")
    pc = tempfile.mkdtemp(prefix='verif-c17-pyc')
    t0 = time.time()
    try:
        p = subprocess.run(ambient.fresh_interpreter_argv() + ['-X', 'pycache_prefix=' + pc, '-c', script],
                           input=json.dumps(case).encode(), stdout=subprocess.PIPE, stderr=subprocess.PIPE,
                           timeout=min(timeout, left), env=dict(os.environ, PYTHONDONTWRITEBYTECODE='1'))
        for line in p.stdout.decode('utf-8', 'replace').splitlines():
            if line.startswith('@@'):
                return json.loads(line[2:])
        return None
    except Exception:
        return None
    finally:
        _fresh_used[0] += time.time() - t0
        import shutil
        shutil.rmtree(pc, ignore_errors=True)


def _call_key(c):
    """equal LOGICAL arguments (the call form, the spelling of the flag and which copy of the predicate object
    is asked do not count)"""
    return repr(sorted((k, repr(v)) for k, v in c.items()
                       if not k.endswith('struct') and k not in ('form', 'flag', 'kw', 'obj', 'strsub')))


def _show_call(c):
    op = c['op']
    if op == 'clone':
        return 'object %d = %s(object %d)' % (c.get('new', 1), c['how'], c.get('of', 0))
    if op == 'sat':
        return 'object %d.satisfied_by(%s%r)' % (c.get('obj', 0), 'version_str=' if c.get('kw') else '', c['ver'])
    if op == 'compat':
        return show_compat(c)
    name = {'tuple': 'convert_version_to_tuple', 'int_s': 'convert_version_to_int', 'int_t': 'convert_version_to_int',
            'str': 'convert_version_to_str'}[op]
    arg = c.get('s', tuple(c['t']) if 't' in c else c.get('n'))
    return '%s(%s)' % (name, repr(arg)[:60])


def judge_calls(case, outs):
    """the property on a whole sequence: every call answers as the property says for ITS arguments, and calls
    with equal arguments answer equally, whatever was asked before.  None, or what fails."""
    if outs is None:
        return None
    calls = case['calls']
    P = pv()
    if len(outs) == 1 and outs[0]['out'].startswith('init:'):
        if case.get('malformed') and case['malformed'] != 'badcand':
            return None if outs[0].get('ve') else 'VersionPredicate(%r) raised %s, not a ValueError' % (
                case['pred'], outs[0]['out'][5:])
        if case.get('comps') is not None and not case.get('malformed'):
            return 'VersionPredicate(%r) raised %s' % (case['pred'], outs[0]['out'][5:])
        return None
    if case.get('malformed') and case['malformed'] != 'badcand' and any(c['op'] == 'sat' for c in calls):
        return 'malformed predicate %r (%s) accepted' % (case['pred'], case['malformed'])
    if len(outs) != len(calls):
        return None
    first = {}
    for k, (c, o) in enumerate(zip(calls, outs)):
        out = o['out']
        if c['op'] == 'clone' or out == 'no-object':
            continue
        want = None                     # expected canonical text, 'VE' for "must raise a ValueError", None = silent
        if c['op'] == 'sat' and case.get('comps') is not None:
            st = c.get('ver_struct')
            valid = True
            if st is None:
                try:
                    P.Version(c['ver'])
                except P.InvalidVersion:
                    valid = False
            if not valid:
                want = 'VE'
            else:
                kc = vkey(st, c['ver'])
                bound = (lambda v: vkey(v, None)) if st is not None else (lambda v: P.Version(render_v(v)))
                want = 'bool:%d' % all(OPF[op](kc, bound(v)) for op, v in case['comps'])
        elif c['op'] == 'compat':
            rs, cs = c.get('req_struct'), c.get('cur_struct')
            valid = True
            for st, text in ((rs, c['req']), (cs, c['cur'])):
                if st is None:
                    try:
                        P.Version(text)
                    except P.InvalidVersion:
                        valid = False
            if not valid:
                want = 'VE'
            else:
                want = 'bool:%d' % (vkey(cs, c['cur']) >= vkey(rs, c['req']) and
                                    (not c['same_major'] or vmajor(rs, c['req']) == vmajor(cs, c['cur'])))
        elif c['op'] == 'tuple':
            v = spec_verdict(c['s'])
            if v is not None:
                want = 'VE' if v[0] == 'raise' else 'ok:' + (','.join(big_str(x) for x in v[1]) or '-')
        elif c['op'] == 'int_s':
            v = spec_verdict(c['s'])
            if v is not None and v[0] == 'raise':
                want = 'VE'
        if want == 'VE':
            if not o.get('ve'):
                return 'call %d of %d, %s: gave %s, must raise ValueError' % (k + 1, len(calls), _show_call(c), out)
        elif want is not None and out != want:
            return 'call %d of %d, %s: gave %s, the property says %s' % (k + 1, len(calls), _show_call(c), out, want)
        key = _call_key(c)
        if key in first and outs[first[key]]['out'] != out:
            return 'call %d of %d, %s: gave %s, but call %d with the same arguments gave %s' % (
                k + 1, len(calls), _show_call(c), out, first[key] + 1, outs[first[key]]['out'])
        first.setdefault(key, k)
    return None


def gen_sat_sequence(rng, clones=True):
    """one predicate object and a sequence of candidates with immediate repeats, returns to earlier
    candidates, alternation between satisfying and failing ones and invalid candidates in between"""
    c = gen_pred_case(rng)
    for _ in range(5):
        if c['malformed'] in (None, 'badcand') or rng.random() < 0.1:
            break
        c = gen_pred_case(rng)
    pool = [v for _, v in c['comps']] + [gen_vstruct(rng, near=c['comps'][0][1]) for _ in range(3)]
    pool += [LOW_STRUCT, HIGH_STRUCT]
    if c.get('ver_struct'):
        pool.append(c['ver_struct'])
    texts = {}

    def pick():
        if rng.random() < 0.12:
            return {'op': 'sat', 'ver': rng.choice(BAD_VERSIONS), 'ver_struct': None}
        i = rng.randrange(len(pool))
        if i not in texts or rng.random() < 0.15:
            texts[i] = render_v(pool[i], rng if rng.random() < 0.5 else None)
        return {'op': 'sat', 'ver': texts[i], 'ver_struct': pool[i]}
    calls = []
    nobj = 1
    for _ in range(rng.randrange(3, 10)):
        x = rng.random()
        sat = [q for q in calls if q['op'] == 'sat']
        if sat and x < 0.35:
            new = dict(sat[-1])
        elif len(sat) > 1 and x < 0.55:
            new = dict(rng.choice(sat))
        else:
            new = pick()
        if clones and calls and nobj < 3 and rng.random() < 0.15:
            # copy / deepcopy / pickle round trip of the half-used object; both objects stay in use
            calls.append({'op': 'clone', 'how': rng.choice(['copy', 'deepcopy', 'pickle']), 'of': rng.randrange(nobj),
                          'new': nobj})
            nobj += 1
        new['obj'] = rng.randrange(nobj)
        new['kw'] = rng.random() < 0.15
        calls.append(new)
    return {'prop': 'seq', 'fn': 'seq', 'pred': c['pred'], 'comps': c['comps'], 'kw_init': rng.random() < 0.15,
            'strsub': c.get('strsub'), 'subclass': c.get('subclass'),
            'malformed': None if c['malformed'] == 'badcand' else c['malformed'], 'calls': calls}


def gen_call_sequence(rng):
    """repeated calls of the module functions over a small pool of arguments (equal arguments recur)"""
    pool = []
    for _ in range(rng.randrange(1, 4)):
        g = gen_compat_case(rng)
        pool.append({'op': 'compat', 'req': g['req'], 'cur': g['cur'], 'same_major': g['same_major'],
                     'req_struct': g['req_struct'], 'cur_struct': g['cur_struct']})
        if rng.random() < 0.5:      # the same two versions the other way round / with the other flag
            pool.append(dict(pool[-1], same_major=not g['same_major']) if rng.random() < 0.5 else
                        dict(pool[-1], req=g['cur'], cur=g['req'], req_struct=g['cur_struct'],
                             cur_struct=g['req_struct']))
    for _ in range(rng.randrange(1, 4)):
        sct = conversion_string(rng)[0]
        pool.append({'op': rng.choice(['tuple', 'int_s']), 's': sct})
        if rng.random() < 0.5:
            pool.append({'op': 'int_s' if pool[-1]['op'] == 'tuple' else 'tuple', 's': sct})
    t = comp_tuple(rng, in_domain=rng.random() < 0.7)
    pool.append({'op': 'int_t', 't': t})
    n = 0
    for x in t:
        n = n * 1000 + x
    pool.append({'op': 'str', 'n': n})
    calls = []
    for _ in range(rng.randrange(4, 11)):
        if calls and rng.random() < 0.3:
            new = dict(calls[-1])
        else:
            new = dict(rng.choice(pool))
        if new['op'] == 'compat':       # the same logical question in another call form / flag spelling
            new['form'], new['flag'] = random_compat_form(rng, new['same_major'])
        else:
            new['kw'] = rng.random() < 0.2
        calls.append(new)
    return {'prop': 'seq', 'fn': 'seq', 'pred': None, 'comps': None, 'malformed': None, 'calls': calls}


def seq_line(case, strings):
    parsed, rank, bad = parse_versions(strings)
    return req('predseq', hexs(case['pred']), ','.join(hexs(c['ver']) for c in case['calls'] if c['op'] == 'sat'),
               dict_field(parsed, rank)), parsed, rank, bad


def confirm_and_shrink_seq(ctx, case, budget=25.0):
    """Re-run a failing sequence in a fresh interpreter (same ambient configuration) and shrink it there,
    all within the run's wall-clock budget for fresh interpreters.  A failure that the fresh interpreter does
    not reproduce - or that cannot be re-run because the budget is spent - is still a concrete failing input
    of THIS process and configuration: it is then shrunk and reported as seen in-process.
    Returns (case, what, how it was confirmed)."""
    import time
    t_end = time.time() + min(budget, max(0.0, fresh_budget_left()))
    fresh = run_calls_fresh(case)
    why = judge_calls(case, fresh) if fresh is not None else None
    if why:
        def still(sub):
            if time.time() > t_end or fresh_budget_left() <= 1.0:
                return False
            return judge_calls(dict(case, calls=sub), run_calls_fresh(dict(case, calls=sub), timeout=10)) is not None
        calls = common.shrink_list(case['calls'], still, max_steps=60)
        small = dict(case, calls=calls)
        again = run_calls_fresh(small)
        return small, (judge_calls(small, again) if again is not None else None) or why, 'fresh interpreter'
    # in-process only
    t_end = time.time() + 10.0

    def still_here(sub):
        if time.time() > t_end:
            return False
        c = dict(case, calls=sub)
        return judge_calls(c, run_calls(c)) is not None
    calls = common.shrink_list(case['calls'], still_here, max_steps=200)
    small = dict(case, calls=calls)
    why_here = judge_calls(small, run_calls(small))
    if not why_here:
        small, why_here = case, judge_calls(case, run_calls(case))
    if not why_here:
        return None
    how = ('in-process only: a fresh interpreter in the same configuration does not reproduce it (it depends on '
           'what this process did before)' if fresh is not None else
           'in-process only: no fresh interpreter was available within the budget')
    return small, why_here, how


# --------------------------------------------------------------------------
# correspondence

def correspondence(ctx):
    out = []
    P = pv()
    if not issubclass(P.InvalidVersion, ValueError):
        out.append(Disagreement({'fn': 'assumption'}, 'InvalidVersion is not a ValueError', '-', where='assumption'))
    # ---- conversions -------------------------------------------------------
    cases = []
    for s, tag in gen_conversion_strings(ctx):
        cases.append(({'fn': 'tuple', 's': s}, 'tuple/' + tag))
        cases.append(({'fn': 'int_s', 's': s}, 'int_s/' + tag))
    for t, tag in gen_tuples(ctx):
        cases.append(({'fn': 'int_t', 't': t}, 'int_t/' + tag))
        if t and all(x >= 0 for x in t):
            n = 0
            for x in t:
                n = n * 1000 + x
            cases.append(({'fn': 'str', 'n': n}, 'str/' + tag))
            s = '.'.join(map(str, t))
            cases.append(({'fn': 'tuple', 's': s}, 'tuple/from-' + tag))
            cases.append(({'fn': 'int_s', 's': s}, 'int_s/from-' + tag))
    rng = ctx.rng
    for n in [0, 1, 999, 1000, 1001, 999999, 10 ** 6, 10 ** 6 - 1, 10 ** 9, 10 ** 30 + 1, 1000 ** 5 - 1, 1000 ** 5]:
        cases.append(({'fn': 'str', 'n': n}, 'str/fixed'))
    for _ in range(300 if ctx.quick else 5000):
        cases.append(({'fn': 'str', 'n': rng.randrange(0, 10 ** rng.randrange(1, 40))}, 'str/random'))
    for n in (-1, -1000, -123456789):
        cases.append(({'fn': 'str', 'n': n}, 'str/negative'))
    for kind in sorted(OTHER_INPUTS):
        cases.append(({'fn': 'int_o', 'kind': kind}, 'int_o/' + kind))
    for c, _ in cases:
        if rng.random() < 0.2:
            c['kw'] = True
        if 's' in c and rng.random() < 0.1:
            c['strsub'] = True
    for fn, arg in (('tuple', {'s': '1.2.3rc1'}), ('int_s', {'s': '1.2.3'}), ('int_t', {'t': [1, 2, 3]}),
                    ('str', {'n': 1002003}), ('int_o', {'kind': 'list'})):
        for kwf in (False, True):
            cases.append((dict({'fn': fn, 'kw': kwf}, **arg), fn + '/call-forms'))
    conv_replies = replies = ctx.driver.ask_many([line_conv(c) for c, _ in cases])
    for (case, tag), rep in zip(cases, replies):
        ctx.evaluations += 1
        ctx.count('corr/' + tag)
        impl = impl_conv(case)
        if impl == 'skipped':
            continue
        ctx.count('out/' + case['fn'] + '/' + impl.split(':')[0])
        if (impl.startswith('ok:') and ',' in impl) or (impl.startswith('int:') and len(impl) > 8) or \
                (impl.startswith('str:') and len(impl) > 6):
            ctx.nontrivial((case['fn'], case.get('s'), tuple(case.get('t', ())), case.get('n')))
        if len(impl) < 60:
            ctx.sample({'case': case, 'implementation': impl}, 3)
        if impl != rep:
            out.append(Disagreement(case, impl, rep))
        elif ctx.evaluations % 4 == 0 and not (case['fn'] == 'str' and case['n'] < 0):
            again_now = impl_conv(case)         # the same call once more, immediately
            if again_now != rep:
                out.append(Disagreement(dict(case, repeat='immediate'), again_now, rep))

    # ---- the clause grammar on single pieces, through the public API ----------------
    # the model says how it reads the piece; the implementation is then observed from outside:
    # the constructor's outcome and satisfied_by below / at / above the bound the model extracted
    pieces = []
    for _ in range(scaled(ctx, 1500 if ctx.quick else 20000)):
        c = gen_pred_case(rng)
        pieces += c['pred'].split(',')
    pieces += ['', ' ', '<', '<=', '<= ', '<==', '<=1', '< =1', '<=1 2', '=1', '==1', '== =1', '!=1\n', '\n>1\n\n', '>1\x1c',
               '\x1c>1', '>\x1c1', '>1\x1cx', '~=1', '>=<1', '1', '>', '>>1', '>=>=1', '　>=　1　']
    piece_cases = []
    for p, rep in zip(pieces, ctx.driver.ask_many([req('match', hexs(p)) for p in pieces])):
        ctx.count('corr/piece/' + rep.split(':')[0])
        if rep.startswith('m:'):
            bound = common.unhexs(rep.split(':')[2])
            for cand in (bound, LOW_VERSION, HIGH_VERSION):
                piece_cases.append({'fn': 'pred', 'pred': p, 'ver': cand, 'piece': True})
        else:
            piece_cases.append({'fn': 'pred', 'pred': p, 'ver': LOW_VERSION, 'piece': True})

    # ---- is_compatible and VersionPredicate ----------------------------------
    vcases = [gen_compat_case(rng) for _ in range(scaled(ctx, 3000 if ctx.quick else 40000))]
    pcases = [gen_pred_case(rng) for _ in range(scaled(ctx, 3000 if ctx.quick else 40000))]
    vcases += pcases
    # the same predicates seen from more candidates: at every bound, below all, above all
    for c in pcases[::3]:
        for st in [v for _, v in c['comps']] + [LOW_STRUCT, HIGH_STRUCT]:
            vcases.append(dict(c, ver=render_v(st), ver_struct=st, probe=True,
                               malformed=None if c['malformed'] == 'badcand' else c['malformed']))
    vcases += piece_cases
    for r, c, sm in [('1.0', '1.0', True), ('1.0', '1.0.0', True), ('1', '2', False), ('1', '2', True), ('2', '1', False),
                     ('1!0.1', '2.0', False), ('1.0', '1!1.0', True), ('0', '0.0.0', True), ('1.0rc1', '1.0', True),
                     ('1.0', '1.0rc1', True), ('1.0.dev1', '1.0a1', True), ('1.0.post1', '1.0', True),
                     ('1.0+abc', '1.0', True), ('1.0', '1.0+abc', True)]:
        vcases.append({'fn': 'compat', 'req': r, 'cur': c, 'same_major': sm})
    for r, c in [('1.0', '2.0'), ('2.0', '1.0'), ('1.5', '1.5'), ('1.0', '1!0.5'), ('x', '1.0')]:
        for sm in (True, False):
            for form in applicable_forms('is_compatible', {'requested_version': r, 'current_version': c, 'same_major': sm}):
                for flag in range(len(FLAG_VALUES[sm])):
                    vcases.append({'fn': 'compat', 'req': r, 'cur': c, 'same_major': sm, 'form': form, 'flag': flag})
    for kwi in (False, True):
        for kwc in (False, True):
            vcases.append({'fn': 'pred', 'pred': '>=1.0,<2', 'ver': '1.5', 'kw_init': kwi, 'kw': kwc})
    for p, v in [('>=1.0', '1.0'), ('>1.0', '1.0'), ('<=1.0', '1.0'), ('<1.0', '1.0'), ('==1.0', '1.0.0'),
                 ('!=1.0', '1.0.0'), ('>=1.0,<2.0', '1.5'), ('>=1.0,<2.0', '2.0'), (' >= 1.0 , != 1.5 , < 2 ', '1.5'),
                 ('<=', '1'), ('', '1'), (',', '1'), ('>=1.0,', '1'), ('>=1.0', 'x'), ('>=1.0 <2', '1')]:
        vcases.append({'fn': 'pred', 'pred': p, 'ver': v})
    infos, lines = [], []
    for case in vcases:
        if case['fn'] == 'compat':
            strings = [case['req'], case['cur']]
        else:
            strings = [case['ver']]
            rx = clause_regex()     # only a guess at what the model will ask for; it says `need:` otherwise
            for piece in (case['pred'].split(',') if rx is not None else []):
                m = rx.match(piece)
                if m and m.lastindex == 2:
                    strings.append(m.group(2))
        infos.append(strings)
        lines.append(vline(case, strings)[0])
    replies = ctx.driver.ask_many(lines)
    # second round for whatever the model asked for beyond the harness's guess
    again = [i for i, r in enumerate(replies) if r.startswith('need:')]
    for i in again:
        ctx.count('corr/second-round')
        infos[i] = infos[i] + [common.unhexs(h) for h in replies[i][5:].split(',')]
    if again:
        second = ctx.driver.ask_many([vline(vcases[i], infos[i])[0] for i in again])
        for i, r in zip(again, second):
            replies[i] = r
    for case, strings, rep in zip(vcases, infos, replies):
        ctx.evaluations += 1
        _, parsed, rank, bad = vline(case, strings)
        if bad:
            out.append(Disagreement(dict(case, pair=list(bad)), 'six operators disagree with the rank of _key', '-',
                                    where='assumption'))
        if case['fn'] == 'compat':
            impl = impl_compat(case)
            ctx.count('corr/compat/' + impl)
            ctx.count('corr/compat-form/' + case.get('form', 'default') + ('' if not case.get('flag') else '+flag-spelling'))
            if impl.startswith('bool'):
                ctx.nontrivial(('compat', case['req'], case['cur'], case['same_major']))
        else:
            def rank_of(v, parsed=parsed, rank=rank):
                for s, pvv in parsed.items():
                    if pvv is not None and pvv == v and str(pvv) == str(v):
                        return rank[s]
                for s, pvv in parsed.items():
                    if pvv is not None and pvv == v:
                        return rank[s]
                return '?'
            impl = impl_pred(case, rank_of)
            ctx.count('corr/pred/' + impl.split('\t')[0] + ('/malformed' if case.get('malformed') else '')
                      + ('/piece' if case.get('piece') else '/probe' if case.get('probe') else ''))
            if '\t' not in impl and not impl.startswith('init:'):
                ctx.count('corr/pred/public-only')
            if impl.startswith('bool'):
                ctx.nontrivial(('pred', case['pred'], case['ver']))
        ctx.sample({'case': {k: case[k] for k in case if not k.endswith('struct') and k != 'comps'},
                    'implementation': impl}, 6)
        if not same_outcome(impl, rep):
            out.append(Disagreement(case, impl, rep))
        elif case['fn'] == 'compat' and ctx.evaluations % 4 == 0:
            again_now = impl_compat(case)
            if again_now != rep:
                out.append(Disagreement(dict(case, repeat='immediate'), again_now, rep))
    # ---- history independence: repeats of the calls above, now and after everything else ----------
    for (case, tag), rep in list(zip(cases, conv_replies))[::5]:
        if case['fn'] == 'str' and case['n'] < 0:
            continue
        ctx.evaluations += 1
        ctx.count('corr/repeat/' + case['fn'])
        impl = impl_conv(case)
        if impl != rep:
            out.append(Disagreement(dict(case, repeat='delayed'), impl, rep))
    for case, strings, rep in list(zip(vcases, infos, replies))[::5]:
        if case['fn'] == 'compat':      # (predicates are repeated on ONE object in the sequences below)
            ctx.evaluations += 1
            ctx.count('corr/repeat/compat')
            impl = impl_compat(case)
            if impl != rep:
                out.append(Disagreement(dict(case, repeat='delayed'), impl, rep))

    # ---- one predicate object, many questions: call by call against the (stateless) model ----------
    seqs = [gen_sat_sequence(rng) for _ in range(scaled(ctx, 1500 if ctx.quick else 20000))]
    sinfo, slines = [], []
    rx = clause_regex()
    for case in seqs:
        strings = [c['ver'] for c in case['calls'] if c['op'] == 'sat']
        for piece in (case['pred'].split(',') if rx is not None else []):
            mm = rx.match(piece)
            if mm and mm.lastindex == 2:
                strings.append(mm.group(2))
        strings = list(dict.fromkeys(strings))
        sinfo.append(strings)
        slines.append(seq_line(case, strings)[0])
    sreplies = ctx.driver.ask_many(slines)
    again = [i for i, r in enumerate(sreplies) if r.startswith('need:')]
    for i in again:
        sinfo[i] = sinfo[i] + [common.unhexs(h) for h in sreplies[i][5:].split(',')]
    if again:
        for i, r in zip(again, ctx.driver.ask_many([seq_line(seqs[i], sinfo[i])[0] for i in again])):
            sreplies[i] = r
    for case, strings, rep in zip(seqs, sinfo, sreplies):
        ctx.evaluations += 1
        outs = run_calls(case)
        if len(outs) == len(case['calls']):
            # the model has one stateless object: copies answer like the original; making a copy must work
            impl = ';'.join(o['out'] for c, o in zip(case['calls'], outs) if c['op'] == 'sat')
            bad_clone = [o['out'] for c, o in zip(case['calls'], outs) if c['op'] == 'clone' and o['out'] != 'cloned']
            if bad_clone:
                impl += ';' + bad_clone[0]
            ctx.count('corr/seq/clones', sum(1 for c in case['calls'] if c['op'] == 'clone'))
        else:
            impl = ';'.join(o['out'] for o in outs)
        ctx.count('corr/seq/' + ('init-error' if impl.startswith('init:') else 'len%d' % min(len(outs), 9)))
        model = rep.split('\t')[0]
        if not impl.startswith('init:'):
            ctx.nontrivial(('seq', case['pred'], tuple(_show_call(c) for c in case['calls'])))
        ctx.sample({'case': {'pred': case['pred'], 'calls': [_show_call(c) for c in case['calls']]},
                    'implementation': impl}, 8)
        if impl != model:
            out.append(Disagreement(case, impl, model))
    if _wb.get('pairs', 0) is None:
        ctx.notes.append('no attribute of VersionPredicate holds (operator text, Version) pairs: parsed clauses were '
                         'compared through satisfied_by only')
    return out


def vline(case, strings):
    parsed, rank, bad = parse_versions(strings)
    d = dict_field(parsed, rank)
    if case['fn'] == 'compat':
        line = req('compat', hexs(case['req']), hexs(case['cur']), int(case['same_major']), d)
    else:
        line = req('pred', hexs(case['pred']), hexs(case['ver']), d)
    return line, parsed, rank, bad


# --------------------------------------------------------------------------
# failing-input search: the property stated directly on the implementation

import operator  # noqa: E402

OPF = {'<': operator.lt, '<=': operator.le, '==': operator.eq, '>': operator.gt, '>=': operator.ge, '!=': operator.ne}
NONNUMERIC = ['x', 'y', 'Z', '!', '/', ':', ';', '@', '#', 'é', '²', '½']


def _raises_valueerror(f, *a, **kw):
    try:
        r = f(*a, **kw)
    except ValueError:
        return None
    except Exception as e:
        return 'raised %s instead of ValueError' % type(e).__name__
    return 'returned %r instead of raising ValueError' % (r,)


def _try(f, *a, **kw):
    try:
        return f(*a, **kw)
    except Exception as e:
        return e


def vkey(struct, text):
    """ordering key: from the structure (PEP 440 as specified) or, for a bare string, from packaging"""
    return pep440_key(struct) if struct is not None else pv().Version(text)


def vmajor(struct, text):
    return struct['release'][0] if struct is not None else pv().Version(text).release[0]


_SUFFIXED = re.compile(r'(.*\d)(?:a|alpha|b|beta|rc)\d+', re.S)
_SUFFIXED_THEN_SPACE = re.compile(r'(.*\d)(?:a|alpha|b|beta|rc)\d+\s+', re.S)


def spec_verdict(s):
    """What the property says about converting the text `s`, written from its wording (not from the code):
    the text is split at the dots; a component is numeric when int() accepts it; the LAST component may in
    addition be <numeric text ending in a digit><a|alpha|b|beta|rc><one or more digits>, in which case marker and
    number are ignored; anything else has a non-numeric component and must raise ValueError.
    Returns ('raise',), ('tuple', [ints]) or None where the wording is silent (whitespace after a suffix)."""
    parts = s.split('.')
    last = parts[-1]
    mm = _SUFFIXED.fullmatch(last)
    if mm:
        parts = parts[:-1] + [mm.group(1)]
    elif _SUFFIXED_THEN_SPACE.fullmatch(last):
        return None
    vals = [_int_ok(p) for p in parts]
    if any(v is None for v in vals):
        return ('raise',)
    return ('tuple', vals)


def oracle(case):
    """None, or a sentence saying how the property fails on the implementation for this case"""
    m = vu()
    k = case['prop']
    if k == 'seq':
        return judge_calls(case, run_calls(case))
    kw = bool(case.get('kw'))
    kwn = lambda name: (name + '=' if kw else '') + ('<str subclass instance> ' if case.get('strsub') else '')
    if k == 'spec':
        s = case['s']
        verdict = spec_verdict(s)
        if verdict is None:
            return None
        if verdict[0] == 'raise':
            for f in (m.convert_version_to_tuple, m.convert_version_to_int):
                why = _raises_valueerror(call1, f, f.__name__, s, kw, case.get('strsub'))
                if why:
                    return '%s(%s%r) %s: a component is neither numeric nor a number followed by ' \
                           'a|alpha|b|beta|rc and digits' % (f.__name__, kwn(SIGNATURES[f.__name__][0][0]), s, why[:120])
            return None
        want = tuple(verdict[1])
        got = _try(call1, m.convert_version_to_tuple, 'convert_version_to_tuple', s, kw, case.get('strsub'))
        if got != want:
            return 'convert_version_to_tuple(%s%r) = %s, the components are %s' % (
                kwn('version_str'), s, repr(got)[:80], repr(want)[:80])
        gi = _try(call1, m.convert_version_to_int, 'convert_version_to_int', s, kw, case.get('strsub'))
        wi = _try(call1, m.convert_version_to_int, 'convert_version_to_int', want, kw)
        if type(gi) is not int or gi != wi:
            return 'convert_version_to_int(%s%r) = %s but of its component tuple %s' % (
                kwn('version'), s, repr(gi)[:60], repr(wi)[:60])
        return None
    if k == 'roundtrip':
        t = case['t']
        s = '.'.join(map(str, t))
        for label, arg in (('str', s), ('tuple', tuple(t))):
            i = _try(call1, m.convert_version_to_int, 'convert_version_to_int', arg, kw)
            if type(i) is not int:
                return 'convert_version_to_int(%s%r) gave %r' % (kwn('version'), arg, i)
            back = _try(call1, m.convert_version_to_str, 'convert_version_to_str', i, kw)
            if back != s:
                return 'convert_version_to_str(%sconvert_version_to_int(%s%r)) = %r, not %r' % (
                    kwn('version_int'), kwn('version'), arg, back, s)
        tt = _try(call1, m.convert_version_to_tuple, 'convert_version_to_tuple', s, kw)
        if tt != tuple(t):
            return 'convert_version_to_tuple(%s%r) = %r' % (kwn('version_str'), s, tt)
        return None
    if k == 'order':
        a, b = tuple(case['a']), tuple(case['b'])
        for conv in (lambda t: t, lambda t: '.'.join(map(str, t))):
            ia = _try(call1, m.convert_version_to_int, 'convert_version_to_int', conv(a), kw)
            ib = _try(call1, m.convert_version_to_int, 'convert_version_to_int', conv(b), kw)
            if type(ia) is not int or type(ib) is not int:
                return 'convert_version_to_int gave %r / %r' % (ia, ib)
            if (ia < ib) != (a < b) or (ia == ib) != (a == b) or (ia > ib) != (a > b):
                return 'tuples %r %s %r but integers %d %s %d' % (
                    a, '<' if a < b else '==' if a == b else '>', b, ia, '<' if ia < ib else '==' if ia == ib else '>', ib)
        return None
    if k == 'suffix':
        s, suf = case['s'], case['marker'] + case['digits'] + ('\n' if case.get('newline') else '')
        to_t = lambda x: _try(call1, m.convert_version_to_tuple, 'convert_version_to_tuple', x, kw)
        to_i = lambda x: _try(call1, m.convert_version_to_int, 'convert_version_to_int', x, kw)
        base_t, base_i = to_t(s), to_i(s)
        if not isinstance(base_t, tuple):
            return None
        got_t, got_i = to_t(s + suf), to_i(s + suf)
        if got_t != base_t:
            return 'convert_version_to_tuple(%r) = %r but without the suffix %r' % (s + suf, got_t, base_t)
        if got_i != base_i:
            return 'convert_version_to_int(%r) = %r but without the suffix %r' % (s + suf, got_i, base_i)
        return None
    if k == 'nonnumeric':
        s = case['s']
        for f in (m.convert_version_to_tuple, m.convert_version_to_int):
            why = _raises_valueerror(call1, f, f.__name__, s, kw, case.get('strsub'))
            if why:
                return '%s(%s%r) %s' % (f.__name__, kwn(SIGNATURES[f.__name__][0][0]), s, why)
        return None
    if k == 'compat':
        rs, cs = case.get('req_struct'), case.get('cur_struct')
        P = pv()
        invalid = False
        for st, text in ((rs, case['req']), (cs, case['cur'])):
            if st is None:
                try:
                    P.Version(text)
                except P.InvalidVersion:
                    invalid = True
        if invalid:
            why = _raises_valueerror(call_compat, case)
            return why and '%s %s' % (show_compat(case), why)
        want = vkey(cs, case['cur']) >= vkey(rs, case['req']) and \
            (not case['same_major'] or vmajor(rs, case['req']) == vmajor(cs, case['cur']))
        got = _try(call_compat, case)
        if got is not want:
            return '%s = %r, PEP 440 says %r (same_major %s)' % (
                show_compat(case), got, want, 'on' if case['same_major'] else 'off')
        return None
    if k == 'pred':
        if case.get('malformed'):
            try:
                vp = call1(predicate_class(case.get('subclass')), 'VersionPredicate', case['pred'], case.get('kw_init'),
                           case.get('strsub'))
                r = call1(vp.satisfied_by, 'satisfied_by', case['ver'], kw, case.get('strsub'))
            except ValueError:
                return None
            except Exception as e:
                return 'malformed predicate %r raised %s, not ValueError' % (case['pred'], type(e).__name__)
            return 'malformed predicate %r (%s) accepted: satisfied_by(%r) = %r' % (
                case['pred'], case['malformed'], case['ver'], r)
        cs = case.get('ver_struct')
        kc = vkey(cs, case['ver'])
        # one kind of key on both sides: the structural one, or packaging's when the candidate is a bare string
        bound = (lambda v: vkey(v, None)) if cs is not None else (lambda v: pv().Version(render_v(v)))
        want = all(OPF[op](kc, bound(v)) for op, v in case['comps'])
        try:
            got = call1(call1(predicate_class(case.get('subclass')), 'VersionPredicate', case['pred'],
                              case.get('kw_init'), case.get('strsub')).satisfied_by,
                        'satisfied_by', case['ver'], kw, case.get('strsub'))
        except Exception as e:
            got = e
        if got is not want:
            each = ['%s%s:%s' % (op, render_v(v), OPF[op](kc, bound(v))) for op, v in case['comps']]
            return '%s(%s%r).satisfied_by(%s%r) = %r, the comparisons give %s%s' % (
                predicate_class(case.get('subclass')).__name__,
                'predicate_str=' if case.get('kw_init') else '', case['pred'], kwn('version_str'), case['ver'], got,
                ' '.join(each), ' (arguments passed as instances of a str subclass)' if case.get('strsub') else '')
        return None
    raise KeyError(k)


def in_domain(t):
    return 1 <= len(t) and all(type(x) is int and 0 <= x <= 999 for x in t) and t[0] != 0


def gen_search_case(rng):
    c = _gen_search_case(rng)
    if c['prop'] in ('roundtrip', 'order', 'suffix', 'nonnumeric', 'spec') and rng.random() < 0.2:
        c['kw'] = True
    if c['prop'] in ('nonnumeric', 'spec') and rng.random() < 0.1:
        c['strsub'] = True
    return c


def _gen_search_case(rng):
    if rng.random() < 0.2:
        return gen_sat_sequence(rng) if rng.random() < 0.6 else gen_call_sequence(rng)
    x = rng.random()
    if x < 0.12:
        return {'prop': 'roundtrip', 't': comp_tuple(rng, in_domain=True)}
    if x < 0.3:
        return {'prop': 'spec', 's': conversion_string(rng)[0]}
    if x < 0.48:
        a = comp_tuple(rng, in_domain=True)
        if rng.random() < 0.3:
            a[0] = rng.choice(POOL)
        b = list(a)
        for _ in range(rng.randrange(0, 3)):
            i = rng.randrange(len(b))
            b[i] = min(999, max(0, rng.choice([b[i] + 1, b[i] - 1, 999, 0, rng.randrange(0, 1000), a[i]])))
        if rng.random() < 0.15:
            b = [rng.choice(POOL) for _ in a]
        return {'prop': 'order', 'a': a, 'b': b}
    if x < 0.57:
        t = comp_tuple(rng, in_domain=rng.random() < 0.7)
        d = str(rng.randrange(0, 1000))
        return {'prop': 'suffix', 's': '.'.join(map(str, t)), 'marker': rng.choice(MARKERS),
                'digits': uni_digits(d, rng) if rng.random() < 0.1 else d, 'newline': rng.random() < 0.15}
    if x < 0.65:
        s = '.'.join(map(str, comp_tuple(rng)))
        i = rng.randrange(0, len(s) + 1)
        return {'prop': 'nonnumeric', 's': s[:i] + rng.choice(NONNUMERIC) + s[i:]}
    if x < 0.82:
        c = gen_compat_case(rng)
        c['prop'] = 'compat'
        return c
    c = gen_pred_case(rng)
    c['prop'] = 'pred'
    return c


def seeds_to_cases(seeds):
    """turn disagreeing correspondence cases into property cases"""
    out = []
    for s in seeds:
        fn = s.get('fn')
        if s.get('prop'):
            out.append(s)
        elif fn in ('tuple', 'int_s'):
            txt = s['s']
            out.append({'prop': 'spec', 's': txt})
            mm = re.fullmatch(r'([0-9]+(?:\.[0-9]+)*)((a|alpha|b|beta|rc)([0-9]+)(\n?))?', txt)
            if mm:
                t = [int(x) for x in mm.group(1).split('.')]
                if in_domain(t) and '.'.join(map(str, t)) == mm.group(1):
                    out.append({'prop': 'roundtrip', 't': t})
                if mm.group(2):
                    out.append({'prop': 'suffix', 's': mm.group(1), 'marker': mm.group(3), 'digits': mm.group(4),
                                'newline': bool(mm.group(5))})
            else:
                if any(not (ch.isdecimal() or ch.isspace() or ch in '+-_.abcehlprt') for ch in txt):
                    out.append({'prop': 'nonnumeric', 's': txt})
        elif fn == 'int_t' and in_domain(s['t']):
            out.append({'prop': 'roundtrip', 't': s['t']})
            for i in range(len(s['t'])):
                for dlt in (-1, 1):
                    b = list(s['t'])
                    b[i] = min(999, max(0, b[i] + dlt))
                    out.append({'prop': 'order', 'a': s['t'], 'b': b})
        elif fn == 'str' and s['n'] > 0:
            n, t = s['n'], []
            while n:
                t.insert(0, n % 1000)
                n //= 1000
            out.append({'prop': 'roundtrip', 't': t})
        elif fn == 'seq':
            out.append(dict(s, prop='seq'))
        elif fn == 'compat':
            out.append(dict(s, prop='compat'))
        elif fn == 'pred' and 'comps' in s:
            out.append(dict(s, prop='pred'))
    return out


def fixed_cases():
    """small written-out is_compatible / predicate cases (also the targets of shrinking)"""
    out = []
    V = lambda *rel, **kw: dict({'epoch': 0, 'release': list(rel), 'pre': None, 'post': None, 'dev': None,
                                 'local': None}, **kw)
    for r, c in [(V(1, 0), V(1, 0)), (V(1, 0), V(1, 0, 0)), (V(1), V(2)), (V(2), V(1)), (V(1, 0), V(1, 1)),
                 (V(1, 0, pre=['rc', 1]), V(1, 0)), (V(1, 0), V(1, 0, pre=['rc', 1])), (V(1, 0), V(1, 0, post=1)),
                 (V(1, 0, dev=1), V(1, 0, pre=['a', 1])), (V(2, 0), V(0, 1, epoch=1))]:
        for sm in (True, False):
            out.append({'prop': 'compat', 'fn': 'compat', 'req': render_v(r), 'cur': render_v(c), 'same_major': sm,
                        'req_struct': r, 'cur_struct': c})
    # every legal call form of is_compatible x every spelling of the truth value, where the flag decides
    for r, c in [(V(1, 0), V(2, 0)), (V(2, 0), V(1, 0)), (V(1, 5), V(1, 5))]:
        for sm in (False, True):
            logical = {'requested_version': '', 'current_version': '', 'same_major': sm}
            for form in applicable_forms('is_compatible', logical):
                for flag in range(len(FLAG_VALUES[sm])):
                    out.append({'prop': 'compat', 'fn': 'compat', 'req': render_v(r), 'cur': render_v(c), 'same_major': sm,
                                'req_struct': r, 'cur_struct': c, 'form': form, 'flag': flag})
    for kwi in (False, True):
        for kwc in (False, True):
            out.append({'prop': 'pred', 'fn': 'pred', 'comps': [['>=', V(1, 5)], ['<', V(3)]], 'pred': '>=1.5,<3',
                        'ver': '2.0', 'ver_struct': V(2, 0), 'malformed': None, 'kw_init': kwi, 'kw': kwc})
    for op in OPS:
        for cand in (V(1, 0), V(1, 5), V(2, 0)):
            out.append({'prop': 'pred', 'fn': 'pred', 'comps': [[op, V(1, 5)]], 'pred': op + '1.5',
                        'ver': render_v(cand), 'ver_struct': cand, 'malformed': None})
    for cand in (V(1, 0), V(1, 5), V(2, 0), V(3)):
        out.append({'prop': 'pred', 'fn': 'pred', 'comps': [['>=', V(1, 5)], ['!=', V(2, 0)], ['<', V(3)]],
                    'pred': '>=1.5, !=2.0 ,<3', 'ver': render_v(cand), 'ver_struct': cand, 'malformed': None})
    for bad in ('', ',', '1.0', '>=', '>= 1.0 2', '=1.0', '~=1.0', '>=1.0,', '>=x'):
        out.append({'prop': 'pred', 'fn': 'pred', 'comps': [], 'pred': bad, 'ver': '1.0', 'ver_struct': V(1, 0),
                    'malformed': 'fixed'})
    return out


def shrink(case):
    """smaller case on which the oracle still fails"""
    k = case['prop']

    def fails(c):
        try:
            return oracle(c) is not None
        except Exception:
            return False
    if k == 'roundtrip':
        t = common.shrink_list(case['t'], lambda sub: in_domain(sub) and fails(dict(case, t=sub)))
        for i in range(len(t)):
            for v in (1 if i == 0 else 0, 1, 9, 10, 99, 100):
                c = t[:i] + [v] + t[i + 1:]
                if v < t[i] and in_domain(c) and fails(dict(case, t=c)):
                    t = c
                    break
        return dict(case, t=t)
    if k == 'order':
        a, b = list(case['a']), list(case['b'])
        i = 0
        while i < len(a) and len(a) > 1:
            c = dict(case, a=a[:i] + a[i + 1:], b=b[:i] + b[i + 1:])
            if fails(c):
                a, b = c['a'], c['b']
            else:
                i += 1
        return dict(case, a=a, b=b)
    if k == 'spec':
        chars = common.shrink_list(list(case['s']), lambda sub: fails(dict(case, s=''.join(sub))))
        return dict(case, s=''.join(chars))
    if k in ('compat', 'pred'):
        for c in fixed_cases():
            c = dict(c, **{f: case[f] for f in ('form', 'flag', 'kw', 'kw_init', 'strsub', 'subclass') if f in case})
            if c['prop'] == k and bool(c.get('malformed')) == bool(case.get('malformed')) and \
                    (k != 'compat' or c['same_major'] == case['same_major']) and fails(c):
                return c
    if k == 'pred' and not case.get('malformed') and len(case.get('comps', [])) > 1:
        for i in range(len(case['comps'])):
            op, v = case['comps'][i]
            c = dict(case, comps=[[op, v]], pred=op + render_v(v))
            if fails(c):
                return c
    return case


def search(ctx, seeds, full=False):
    rng = ctx.rng
    todo = seeds_to_cases(seeds[:300])
    n = (30000 if full else 4000) if ctx.quick else (400000 if full else 60000)
    fails, kinds = [], set()
    # the component boundary, always
    for a, b in [([1, 999], [2, 0]), ([1, 0], [1, 1]), ([999, 999], [999, 998]), ([9, 99, 999], [9, 100, 0]),
                 ([100], [99]), ([1, 0, 0], [1, 0, 0]), ([0, 999], [1, 0])]:
        todo.append({'prop': 'order', 'a': a, 'b': b})
    for t in ([999], [1, 0], [999, 999, 999, 999, 999], [1, 0, 0, 0, 0], [100, 10, 1], [1, 999, 0, 999]):
        todo.append({'prop': 'roundtrip', 't': t})
    todo += fixed_cases()
    for mk in MARKERS:
        for base in ('1', '1.3', '10.0.3'):
            for tail in (mk, mk + '1', mk.upper() + '1', '.' + mk, mk + '.1'):
                todo.append({'prop': 'spec', 's': base + tail})
    V1 = lambda *rel: {'epoch': 0, 'release': list(rel), 'pre': None, 'post': None, 'dev': None, 'local': None}
    for op, b in (('<', V1(2, 0, 0)), ('>=', V1(1, 5)), ('!=', V1(1, 5)), ('==', V1(1, 5))):
        cands = [V1(1, 0, 0), V1(2, 0, 0), V1(2, 0, 0), V1(1, 5), V1(1, 5), V1(1, 0, 0), V1(3), V1(3), V1(1, 5)]
        todo.append({'prop': 'seq', 'fn': 'seq', 'pred': op + render_v(b), 'comps': [[op, b]], 'malformed': None,
                     'calls': [{'op': 'sat', 'ver': render_v(c), 'ver_struct': c} for c in cands]})
    todo += [gen_search_case(rng) for _ in range(n)]
    n_seed_cases = len(seeds_to_cases(seeds[:300]))
    for case in todo:
        ctx.evaluations += 1
        ctx.count('search/' + case['prop'])
        try:
            why = oracle(case)
        except Exception as e:      # the oracle itself tripped over a case (harness side): not an outcome,
            # but it must stay visible - in the histogram, and the case itself in the notes
            idx = ctx.hist.get('search/oracle-error', 0)
            ctx.count('search/oracle-error')
            ctx.count('search/oracle-error/' + type(e).__name__)
            if idx < 5:
                shown = {k: v for k, v in case.items() if not k.endswith('struct') and k != 'comps'}
                ctx.notes.append('search: the oracle could not evaluate %s case %r (%s: %s) - harness error, the case '
                                 'was NOT judged' % ('a SEED' if todo.index(case) < n_seed_cases else 'a generated',
                                                     shown, type(e).__name__, str(e)[:120]))
            continue
        if why:
            kind = case['prop'] + ('/malformed' if case.get('malformed') else '')
            if kind in kinds and len(fails) >= 1:
                continue
            if case['prop'] == 'seq':
                # confirmed and shrunk in a fresh interpreter of the same configuration where possible
                got = confirm_and_shrink_seq(ctx, case)
                if not got:         # not even reproducible here a second time
                    ctx.count('search/seq-flaky')
                    continue
                ctx.count('search/seq-confirmed/' + got[2].split(':')[0].replace(' ', '-'))
                kinds.add(kind)
                fails.append(Failure(got[0], {'kind': kind, 'what': got[1], 'confirmed': got[2]}))
                if len(fails) >= 5:
                    break
                continue
            kinds.add(kind)
            small = shrink(case)
            fails.append(Failure(small, {'kind': kind, 'what': oracle(small) or why}))
            if len(fails) >= 5:
                break
    return fails


# --------------------------------------------------------------------------

def replay(ctx, payload):
    case = payload.get('failure', {}).get('case') or payload.get('case')
    if not case:
        print('nothing to replay: this file names the obligation that no longer checks:')
        print(payload.get('no_longer_checks'))
        return 0
    rc = 0
    if case.get('prop') == 'seq' or case.get('fn') == 'seq':
        return replay_seq(ctx, case)
    if case.get('prop'):
        why = oracle(case)
        print('case:', {k: v for k, v in case.items() if not k.endswith('struct')})
        print('property oracle on the implementation:', why or 'holds')
        rc = 1 if why else 0
        for c in seeds_to_model_cases(case):
            rc |= show_both(ctx, c)
    else:
        rc = show_both(ctx, case)
    return rc


def replay_seq(ctx, case):
    outs = run_calls_fresh(case) or run_calls(case)
    print('predicate:', repr(case.get('pred')))
    model = None
    if case.get('pred') is not None and all(c['op'] in ('sat', 'clone') for c in case['calls']):
        strings = list(dict.fromkeys(c['ver'] for c in case['calls'] if c['op'] == 'sat'))
        for _ in range(2):
            rep = ctx.driver.ask(seq_line(case, strings)[0])
            if not rep.startswith('need:'):
                break
            strings = strings + [common.unhexs(h) for h in rep[5:].split(',')]
        model = rep.split('\t')[0].split(';')
    nsat = 0
    for k, c in enumerate(case['calls']):
        o = outs[k]['out'] if k < len(outs) else (outs[0]['out'] if outs else '?')
        mtxt = ''
        if model is not None and c['op'] == 'sat':
            mtxt = ' model: ' + (model[nsat] if nsat < len(model) else model[0])
            nsat += 1
        print('call %d  %-60s implementation: %-22s%s' % (k + 1, _show_call(c), o, mtxt))
    why = judge_calls(case, outs)
    print('property oracle on the implementation (fresh interpreter):', why or 'holds')
    return 1 if why else 0


def seeds_to_model_cases(case):
    k = case['prop']
    if k == 'roundtrip':
        s = '.'.join(map(str, case['t']))
        n = 0
        for x in case['t']:
            n = n * 1000 + x
        return [{'fn': 'int_s', 's': s}, {'fn': 'int_t', 't': case['t']}, {'fn': 'str', 'n': n}, {'fn': 'tuple', 's': s}]
    if k == 'order':
        return [{'fn': 'int_t', 't': case['a']}, {'fn': 'int_t', 't': case['b']}]
    if k == 'suffix':
        s = case['s'] + case['marker'] + case['digits'] + ('\n' if case.get('newline') else '')
        return [{'fn': 'tuple', 's': case['s']}, {'fn': 'tuple', 's': s}]
    if k in ('nonnumeric', 'spec'):
        return [{'fn': 'tuple', 's': case['s']}, {'fn': 'int_s', 's': case['s']}]
    return [dict(case, fn=k)]


def show_both(ctx, case):
    fn = case['fn']
    if fn in ('compat', 'pred'):
        strings = [case['req'], case['cur']] if fn == 'compat' else [case['ver']]
        for _ in range(2):
            line, parsed, rank, _bad = vline(case, strings)
            rep = ctx.driver.ask(line)
            if not rep.startswith('need:'):
                break
            strings = strings + [common.unhexs(h) for h in rep[5:].split(',')]
        if fn == 'compat':
            impl = impl_compat(case)
        else:
            def rank_of(v):
                for s, pvv in parsed.items():
                    if pvv is not None and pvv == v:
                        return rank[s]
                return '?'
            impl = impl_pred(case, rank_of)
    elif fn == 'match':
        impl, rep = impl_match(case['piece']), ctx.driver.ask(req('match', hexs(case['piece'])))
    else:
        impl, rep = impl_conv(case), ctx.driver.ask(line_conv(case))
    shown = {k: v for k, v in case.items() if not k.endswith('struct') and k not in ('comps', 'prop')}
    print('case          :', shown)
    print('implementation:', impl[:300].replace('\t', ' '))
    print('model         :', rep[:300].replace('\t', ' '))
    return 0 if same_outcome(impl, rep) else 1


LEVEL_TEXT = ('Machine-checked proof (Lean 4) over a hand-written model of versionutils.py. Full strength, for every '
              'input: convert_version_to_str(convert_version_to_int(v)) = v for every dotted version / tuple with '
              'components in 0..999 and non-zero head, and the converse for every positive integer; for equal length '
              'the integers compare (<, =) exactly as the component tuples; an a|alpha|b|beta|rc suffix after a digit '
              'is removed (also before one final newline); a component with a non-numeric character, or an empty one, '
              'raises ValueError; VersionPredicate parses each comma-separated piece by the regex (soundness and '
              'completeness against a declarative grammar) and satisfied_by is the conjunction of all comparisons; '
              'a malformed predicate raises ValueError; the operator table and the clause grammar (both read from the '
              'running code, by shape or through the public API) map each operator text '
              'to the operator it denotes. Partial by nature: PEP 440 parsing/ordering is an abstract parameter '
              '(is_compatible and the predicate are proved relative to it; the harness checks on every case that '
              'packaging\'s six operators derive from one total preorder and, in the search, compares the '
              'implementation against PEP 440 ordering written from the specification).')
LEVEL_NOTE = ('Trusted: Lean kernel (axioms audited each run); the hand model and the tables read from the interpreter '
              '(re \\s, int() whitespace, Unicode decimal digits, int digit limit); packaging.version as a parameter; '
              'the correspondence harness.')
TECHNIQUE = 'Lean 4 theorems by induction over component lists / strings + model/implementation correspondence'
DESIGN_REF = 'DESIGN.md section 5, C17'
