"""Implementation-side runner for the inspector group: runs the real
format_inspector code and renders state / verdicts in exactly the canonical
form printed by lean/Drivers/Insp.lean."""
import io
import zlib

import common  # noqa: F401  (puts the repo on sys.path)
import whitebox


def fi():
    from oslo_utils.imageutils import format_inspector
    return format_inspector


ERRNAMES = {'ImageFormatError': 'ImageFormatError', 'error': 'error', 'KeyError': 'KeyError',
            'RuntimeError': 'RuntimeError', 'ValueError': 'ValueError', 'IndexError': 'ValueError',
            'Injected': 'RuntimeError'}


def errname(e):
    n = type(e).__name__
    return ERRNAMES.get(n, 'Other:' + n)


def show_region(name, r):
    ml = 'N' if r.min_length is None else str(r.min_length)
    return '%s:%d:%d:%s:%d:%d:%d' % (name, r.offset, r.length, ml, len(r.data),
                                      zlib.adler32(r.data) & 0xffffffff, 1 if r.complete else 0)


def show_state(i):
    return 'total=%d regions=[%s]' % (
        whitebox.total_count(i), ','.join(show_region(n, r) for n, r in whitebox.regions(i).items()))


def show_prop(f):
    try:
        v = f()
    except Exception as e:
        return 'EXC:' + errname(e)
    if isinstance(v, bool):
        return '1' if v else '0'
    return str(v)


def show_safety(i):
    F = fi()
    try:
        i.safety_check()
        return 'ok'
    except F.SafetyCheckFailed as e:
        return 'failed:' + '+'.join(e.failures)       # dict order = registration order
    except F.ImageFormatError:
        return 'refused'
    except Exception as e:
        return 'EXC:' + errname(e)


def show_verdict(i, raised):
    return 'match=%s complete=%s vsize=%s safety=%s raised=%s ctx=%d' % (
        show_prop(lambda: i.format_match), show_prop(lambda: i.complete),
        show_prop(lambda: i.virtual_size), show_safety(i), raised or '-',
        sum(i.context_info.values()))


def cut(data, sizes):
    out, pos = [], 0
    for n in sizes:
        out.append(data[pos:pos + n])
        pos += n
    return out


def run_insp(fmt, data, sizes, trace=False, query=None):
    """Feed `data` cut into `sizes` to a fresh inspector of `fmt` (wrapper discipline: not fed
    again after it raised), finish, and render.  `query(i)` is called after every chunk
    (intermediate queries must not disturb anything)."""
    F = fi()
    i = F.ALL_FORMATS[fmt]()
    raised = None
    tr = []
    for chunk in cut(data, sizes):
        try:
            i.eat_chunk(chunk)
        except Exception as e:
            raised = errname(e)
            if trace:
                tr.append(show_state(i) + ' err=' + raised)
            break
        if query:
            query(i)
        if trace:
            tr.append(show_state(i))
    i.finish()
    if trace:
        return '|'.join(tr) + '\t' + show_state(i) + '\t' + show_verdict(i, raised), i
    return show_state(i) + '\t' + show_verdict(i, raised), i


def poke(i):
    """the intermediate queries of C01: every public observer"""
    for f in (lambda: i.format_match, lambda: i.complete, lambda: i.virtual_size,
              lambda: i.actual_size, lambda: i.context_info, lambda: str(i)):
        try:
            f()
        except Exception:
            pass
    try:
        i.safety_check()
    except Exception:
        pass


class Src(io.BytesIO):
    pass


def show_fmt(w):
    F = fi()
    try:
        f = w.format
        fs = 'None' if f is None else str(f)
    except F.ImageFormatError:
        fs = 'EXC:ImageFormatError'
    except Exception as e:
        fs = 'EXC:' + errname(e)
    try:
        l = w.formats
        ls = 'None' if l is None else '[' + ','.join(sorted_fmt(str(x) for x in l)) + ']'
    except Exception as e:
        ls = 'EXC:' + errname(e)
    return fs + '/' + ls


def sorted_fmt(names):
    order = list(fi().ALL_FORMATS)
    return sorted(names, key=order.index)


def run_wrap(allowed, expected, data, sizes):
    """Read `data` through an InspectWrapper with reads of the given sizes."""
    F = fi()
    src = Src(data)
    w = F.InspectWrapper(src, expected_format=expected, allowed_formats=allowed or None)
    decisions = []
    end = 'done'
    for n in sizes:
        try:
            w.read(n)
        except F.ImageFormatError as e:
            # the expected inspector's own ImageFormatError and the wrapper's mismatch look alike;
            # tell them apart by the message
            end = 'mismatch' if 'does not match expected format' in str(e) else 'raised:ImageFormatError'
            break
        except Exception as e:
            end = 'raised:' + errname(e)
            break
        decisions.append(show_fmt(w))
    w.close()
    order = list(F.ALL_FORMATS)
    insps = sorted(whitebox.w_inspectors(w), key=lambda i: order.index(i.NAME))
    errd = whitebox.w_errored(w)
    per = ';'.join('%s%s %s' % (i.NAME, '!' if i in errd else '', show_verdict(i, None))
                   for i in insps)
    return '|'.join(decisions) + '\t' + end + '\t' + show_fmt(w) + '\t' + per, w


class Injected(RuntimeError):
    pass


def run_fault(allowed, expected, data, sizes, faults, iterator=False):
    """InspectWrapper with injected faults: inspector `name` raises on its k-th feed."""
    F = fi()
    faults = set(faults)
    chunks = cut(data, sizes)
    if iterator:
        src = iter(chunks)
    else:
        src = Src(data)
    w = F.InspectWrapper(src, expected_format=expected, allowed_formats=allowed or None)
    logs = {}
    state = {'chunk': 0}
    for i in whitebox.w_inspectors(w):
        logs[i.NAME] = []

        def make(i, real):
            feeds = [0]

            def eat(chunk):
                k = feeds[0]
                feeds[0] += 1
                logs[i.NAME].append(state['chunk'])
                if (i.NAME, k) in faults:
                    raise Injected('injected')
                return real(chunk)
            return eat
        i.eat_chunk = make(i, i.eat_chunk)
    out = []
    end = 'done'
    for n, c in zip(sizes, chunks):
        try:
            got = next(w) if iterator else w.read(n)
        except F.ImageFormatError as e:
            end = 'mismatch' if 'does not match expected format' in str(e) else 'raised:ImageFormatError'
            break
        except StopIteration:
            break
        except Exception as e:
            end = 'raised:' + errname(e)
            break
        out.append(got)
        state['chunk'] += 1
    consumed = sum(len(c) for c in chunks[:state['chunk'] + (0 if end == 'done' else 1)])
    w.close() if not iterator else whitebox.w_finish(w)
    order = list(F.ALL_FORMATS)
    insps = sorted(whitebox.w_inspectors(w), key=lambda i: order.index(i.NAME))
    errd = whitebox.w_errored(w)
    joined = b''.join(out)
    line = 'out=%d:%d chunks=%d end=%s' % (len(joined), zlib.adler32(joined) & 0xffffffff, len(out), end)
    per = ';'.join('%s%s:%s' % (i.NAME, '!' if i in errd else '',
                                ','.join(map(str, logs[i.NAME]))) for i in insps)
    return line + '\t' + per, {'out': joined, 'end': end, 'logs': logs, 'consumed': consumed,
                               'errored': {i.NAME for i in errd}}


def run_detect(data, tmpdir):
    """detect_file_format on a real file + the CLI's exit status (in-process main())."""
    import os
    import sys
    F = fi()
    path = os.path.join(tmpdir, 'img')
    with open(path, 'wb') as f:
        f.write(data)
    try:
        i = F.detect_file_format(path)
        head = '%s %s' % (i.NAME, show_verdict(i, None))
    except Exception as e:
        head = 'EXC:' + errname(e)
    from oslo_utils.imageutils import cli
    argv = sys.argv
    sys.argv = ['oslo.utils.imageutils', '-i', path]
    try:
        try:
            cli.main()
            code = 0
        except SystemExit as e:
            code = e.code if isinstance(e.code, int) else 1
        except Exception:
            code = 2              # uncaught exception: interpreter exits non-zero with a traceback
    finally:
        sys.argv = argv
    return head + '\texit=%d' % code


def content_field(data):
    """compact protocol encoding of a byte string (runs of one byte are compressed)"""
    if not data:
        return '-'
    parts, i, n = [], 0, len(data)
    lit = bytearray()
    while i < n:
        j = i
        while j < n and data[j] == data[i]:
            j += 1
        run = j - i
        if run >= 64:
            if lit:
                parts.append(bytes(lit).hex())
                lit = bytearray()
            parts.append('z%d' % run if data[i] == 0 else 'r%dx%02x' % (run, data[i]))
        else:
            lit += data[i:j]
        i = j
    if lit:
        parts.append(bytes(lit).hex())
    return '+'.join(parts)
