/-
Model of oslo_utils.strutils.mask_password (strutils.py:306-375) over the
generated tables (Generated/Mask.lean: `_SANITIZE_KEYS`, the per-key pattern
templates of `_SANITIZE_PATTERNS_2/_1/_WILDCARD`, the interpreter's `\s` set,
case-fold extras and `str.lower` table).

    for key in _SANITIZE_KEYS:
        if key in message.lower():                      -- str.lower, substring test,
            for pattern in _SANITIZE_PATTERNS_2[key]:   --   on the *current* message
                message = re.sub(pattern, r'\g<1>' + secret + r'\g<2>', message)
            for pattern in _SANITIZE_PATTERNS_1[key]:
                message = re.sub(pattern, r'\g<1>' + secret, message)
            for pattern in _SANITIZE_PATTERNS_WILDCARD[key]:
                message = re.sub(pattern, r'\g<1>', message)
    return message

`message` is a `str` here (the code first does `message = str(message)`; the
harness applies `str` before it calls the model).  `secret` is spliced into the
replacement *template*, so a secret containing a backslash is interpreted by
`re` (escapes, group references, or `re.error`); the model takes the secret as
literal text and the driver refuses secrets that contain a backslash.
-/
import OsloModel.FlatRegex
import OsloModel.Generated.Mask
namespace Oslo.Mask
open Oslo.Flat

/-- the class a key character compiles to (a LITERAL under the pattern's flags) -/
def keyCls (c : Char) : Cls :=
  let n := c.toNat
  if Gen.ignoreCase then
    if 97 ≤ n ∧ n ≤ 122 then
      ⟨false, (n - 32, n - 32) :: (n, n) :: ((Gen.foldExtra.lookup n).getD []).map (fun x => (x, x))⟩
    else if 65 ≤ n ∧ n ≤ 90 then
      ⟨false, (n, n) :: (n + 32, n + 32) :: ((Gen.foldExtra.lookup (n + 32)).getD []).map (fun x => (x, x))⟩
    else ⟨false, [(n, n)]⟩
  else ⟨false, [(n, n)]⟩

def keyItems (key : List Char) : List Item := key.map (fun c => ⟨keyCls c, 1, some 1⟩)

/-- `str.lower` of one character -/
def lowerChar (c : Char) : List Char :=
  match Gen.lowerTable.lookup c.toNat with
  | some l => l.map Char.ofNat
  | none => [c]

/-- `str.lower` (character by character; see the domain note in DESIGN.md section 4) -/
def pyLower : List Char → List Char
  | [] => []
  | c :: s => lowerChar c ++ pyLower s

/-- `key in text` -/
def isInfix (key : List Char) : List Char → Bool
  | [] => key.isEmpty
  | c :: s => key.isPrefixOf (c :: s) || isInfix key s

def rep2 : List RepTok := [.g1, .mask, .g2]
def rep1 : List RepTok := [.g1, .mask]
def repW : List RepTok := [.g1]

/-- apply one pattern list in order -/
def subAll (ts : List Template) (rep : List RepTok) (ki : List Item) (mask : List Char)
    (msg : List Char) : List Char :=
  ts.foldl (fun m t => subPat (t.inst ki) rep mask m) msg

/-- body of `if key in message.lower():` -/
def applyKey (key mask msg : List Char) : List Char :=
  let ki := keyItems key
  subAll Gen.patternsWildcard repW ki mask
    (subAll Gen.patterns1 rep1 ki mask
      (subAll Gen.patterns2 rep2 ki mask msg))

def maskStep (mask msg key : List Char) : List Char :=
  if isInfix key (pyLower msg) then applyKey key mask msg else msg

def maskWith (keys : List (List Char)) (mask msg : List Char) : List Char :=
  keys.foldl (maskStep mask) msg

/-- `mask_password(message, secret)` -/
def maskPassword (msg mask : List Char) : List Char :=
  maskWith Gen.sanitizeKeys mask msg

end Oslo.Mask
