/-
C01 for VHDX (theorem C01-6 of DESIGN.md): the verdict of the VHDX inspector is a function of the
streamed bytes, for every stream and every chunking, under the hypotheses `VhdxForward` and
`VhdxMetaSigOK` (the negations of the known-finding classes KF_D7 and KF_N4, where the statement
is false).
-/
import OsloProofs.Lemmas.VhdxSample
namespace Oslo.Insp

def vhdxVerdict (m complete : Bool) (vsize : Except Err Int) (raised : Option Err) : Verdict :=
  { fmtMatch := .ok m, complete := complete, vsize := vsize,
    safety := if complete && m then .ok else .refused, raised := raised }

/-- **whole-stream specification of the VHDX verdict** (transcription of `spec_vhdx` in
    notes/design-spec-vhdx-vmdk.py).  `findMetaRegionB` / `findMetaEntryB` are the two table walks
    as functions of the header bytes `s[192K : 256K]` and of the metadata bytes `s[mo : mo+64K]`.
    The branch `findMetaEntryB … = error` cannot occur under `VhdxMetaSigOK` (`lemma_entry_noerr`). -/
def specVhdx (s : Bytes) : Verdict :=
  let m := startsWith s (ascii "vhdxfile")
  if s.length < 262144 then vhdxVerdict m false (.ok 0) none else
  match findMetaRegionB (sliceOf s 196608 65536) with
  | .error e => vhdxVerdict m true (.ok 0) (some e)
  | .ok none => vhdxVerdict m true (.ok 0) none
  | .ok (some mo) =>
    match findMetaEntryB (sliceOf s mo 65536) with
    | .error e => vhdxVerdict m (decide ((sliceOf s mo 65536).length = 65536)) (.ok 0) (some e)
    | .ok none => vhdxVerdict m (decide ((sliceOf s mo 65536).length = 65536)) (.ok 0) none
    | .ok (some (ioff, ilen)) =>
      let vd := sliceOf s (mo + ioff) (min ilen 65536)
      if vd.length = min ilen 65536 then
        vhdxVerdict m true (match unpackLE 8 vd with | .ok n => .ok (n : Int) | .error e => .error e) none
      else vhdxVerdict m false (.ok 0) none

theorem lemma_startsWith_ident (q : Bytes) :
    startsWith (sliceOf q 0 32) (ascii "vhdxfile") = startsWith q (ascii "vhdxfile") := by
  have hl : (ascii "vhdxfile").length = 8 := by decide
  simp only [startsWith, hl, sliceOf, List.drop_zero, List.take_take]
  congr 2

theorem lemma_startsWith_prefix {q s : Bytes} (h : q <+: s) (hl : 8 ≤ q.length) :
    startsWith s (ascii "vhdxfile") = startsWith q (ascii "vhdxfile") := by
  have hl8 : (ascii "vhdxfile").length = 8 := by decide
  simp only [startsWith, hl8, lemma_take_prefix h 8 hl]

/-- the verdict of a VHDX inspector with the `null` check, read off its state -/
theorem lemma_verdict_vhdx (st : Insp) (r : Option Err) (ri : Region) (hf : st.fmt = .vhdx)
    (hc : st.checks = ["null"]) (hi : lookupR "ident" st.regions = some ri) :
    verdict (st, r) =
      { fmtMatch := .ok (startsWith ri.data (ascii "vhdxfile")), complete := st.complete,
        vsize := virtualSize st,
        safety := if st.complete && startsWith ri.data (ascii "vhdxfile") then .ok else .refused,
        raised := r } := by
  have hfm : formatMatch st = .ok (startsWith ri.data (ascii "vhdxfile")) := by
    unfold formatMatch
    rw [hf]
    simp only [Insp.region, hi]
    rfl
  unfold verdict safetyCheck
  simp only [hfm, hc, Verdict.mk.injEq, true_and, and_true]
  cases hcomp : st.complete
  · simp
  · cases hm : startsWith ri.data (ascii "vhdxfile")
    · simp
    · simp [runCheck, hf]

theorem lemma_verdict_A (q : Bytes) (r : Option Err) :
    verdict ((stA q).finish, r) =
      vhdxVerdict (startsWith q (ascii "vhdxfile")) (decide (262144 ≤ q.length)) (.ok 0) r := by
  rw [lemma_verdict_vhdx _ r (plainR 0 0 32 q) rfl rfl (by simp [stA, vst, Insp.finish, lookupR, Region.finish, plainR])]
  have hcomp : (stA q).finish.complete = decide (262144 ≤ q.length) := by
    simp only [stA, vst, Insp.finish, Insp.complete, List.map_cons, List.map_nil, List.all_cons, List.all_nil,
      Region.finish, plainR, Region.complete, Bool.false_eq_true, if_false, lemma_sliceOf_length, Bool.and_true]
    by_cases h : 262144 ≤ q.length <;> simp [h] <;> omega
  have hv : virtualSize (stA q).finish = .ok 0 := by
    simp [virtualSize, stA, vst, Insp.finish, lookupR]
  rw [hcomp, hv]
  simp only [vhdxVerdict, plainR, lemma_startsWith_ident]

theorem lemma_verdict_M (q : Bytes) (mo : Nat) (r : Option Err) (hl : 262144 ≤ q.length) :
    verdict ((stM q mo).finish, r) =
      vhdxVerdict (startsWith q (ascii "vhdxfile")) (decide ((sliceOf q mo 65536).length = 65536)) (.ok 0) r := by
  rw [lemma_verdict_vhdx _ r (plainR 0 0 32 q) rfl rfl (by simp [stM, vst, Insp.finish, lookupR, Region.finish, plainR])]
  have hcomp : (stM q mo).finish.complete = decide ((sliceOf q mo 65536).length = 65536) := by
    simp only [stM, vst, Insp.finish, Insp.complete, List.map_cons, List.map_nil, List.all_cons, List.all_nil,
      Region.finish, plainR, Region.complete, Bool.false_eq_true, if_false, lemma_sliceOf_length, Bool.and_true]
    by_cases h : min 65536 (q.length - mo) = 65536 <;> simp [h] <;> omega
  have hv : virtualSize (stM q mo).finish = .ok 0 := by
    simp [virtualSize, stM, vst, Insp.finish, lookupR]
  rw [hcomp, hv]
  simp only [vhdxVerdict, plainR, lemma_startsWith_ident]

theorem lemma_verdict_V (q : Bytes) (mo L vo vl : Nat) (r : Option Err) (hl : 262144 ≤ q.length)
    (hL : mo + L ≤ q.length) :
    verdict ((stV q mo L vo vl).finish, r) =
      if (sliceOf q vo vl).length = vl then
        vhdxVerdict (startsWith q (ascii "vhdxfile")) true
          (match unpackLE 8 (sliceOf q vo vl) with | .ok n => .ok (n : Int) | .error e => .error e) r
      else vhdxVerdict (startsWith q (ascii "vhdxfile")) false (.ok 0) r := by
  rw [lemma_verdict_vhdx _ r (plainR 0 0 32 q) rfl rfl (by simp [stV, vst, Insp.finish, lookupR, Region.finish, plainR])]
  have hcomp : (stV q mo L vo vl).finish.complete = decide ((sliceOf q vo vl).length = vl) := by
    simp only [stV, vst, Insp.finish, Insp.complete, List.map_cons, List.map_nil, List.all_cons, List.all_nil,
      Region.finish, plainR, Region.complete, Bool.false_eq_true, if_false, lemma_sliceOf_length, Bool.and_true]
    by_cases h : min vl (q.length - vo) = vl <;> simp [h] <;> omega
  have hv : virtualSize (stV q mo L vo vl).finish =
      if (sliceOf q vo vl).length = vl then
        (match unpackLE 8 (sliceOf q vo vl) with | .ok n => .ok (n : Int) | .error e => .error e)
      else .ok 0 := by
    simp only [virtualSize, stV, vst, Insp.finish, lookupR, List.map_cons, List.map_nil, String.reduceEq, if_false,
      if_true, Region.finish, plainR, Region.complete, Bool.false_eq_true]
    by_cases h : (sliceOf q vo vl).length = vl
    · have h' : vl = (sliceOf q vo vl).length := h.symm
      simp only [h, if_true]
      rw [if_neg (by simp)]
      cases unpackLE 8 (sliceOf q vo vl) <;> rfl
    · have h' : ¬ (vl = (sliceOf q vo vl).length) := fun e => h e.symm
      simp [h, h']
  rw [hcomp, hv]
  by_cases h : (sliceOf q vo vl).length = vl
  · simp only [h, if_true, decide_true, vhdxVerdict, plainR, lemma_startsWith_ident]
  · simp only [h, if_false, decide_false, vhdxVerdict, plainR, lemma_startsWith_ident]

theorem lemma_init_vhdx : Insp.init .vhdx = some (stA []) := by
  simp [Insp.init, Fmt.initChecks, Gen.vhdx_checks, Fmt.initRegions, Gen.vhdx_regions, mkRegions, stA, vst,
    plainR, sliceOf]

/-- between chunks the verdict of the state is the specification's verdict of the prefix streamed -/
theorem lemma_verdict_state (q : Bytes) (st : Insp) (h : VInv q st) :
    verdict (st.finish, none) = specVhdx q := by
  cases h with
  | early hlt =>
    rw [lemma_verdict_A]
    unfold specVhdx
    simp only [if_pos hlt, decide_eq_false (show ¬ 262144 ≤ q.length by omega)]
  | nometa hl hr =>
    rw [lemma_verdict_A]
    unfold specVhdx
    simp only [if_neg (show ¬ q.length < 262144 by omega), hr, decide_eq_true hl]
  | withMeta mo hl hr he =>
    rw [lemma_verdict_M q mo none hl]
    unfold specVhdx
    simp only [if_neg (show ¬ q.length < 262144 by omega), hr, he]
  | withVds mo ioff ilen L hl hr he hL =>
    rw [lemma_verdict_V q mo L _ _ none hl hL]
    unfold specVhdx
    simp only [if_neg (show ¬ q.length < 262144 by omega), hr, he]

/-- an inspector that stopped with an error at the prefix `q` has the specification's verdict of
    every extension of `q` -/
theorem lemma_verdict_err (s q : Bytes) (st : Insp) (e : Err) (hq : q <+: s) (h : VErr q st e) :
    verdict (st.finish, some e) = specVhdx s := by
  obtain ⟨hl, hr, rfl⟩ := h
  have hls := List.IsPrefix.length_le hq
  have hh : sliceOf s 196608 65536 = sliceOf q 196608 65536 := lemma_sliceOf_within hq _ _ (by omega)
  rw [lemma_verdict_A]
  unfold specVhdx
  simp only [if_neg (show ¬ s.length < 262144 by omega), hh, hr,
    lemma_startsWith_prefix hq (by omega), decide_eq_true hl]

/-- **vhdx_chunk_independent_partial** (C01-6) — for every stream and every chunking of it (empty
    chunks included), fed the way `InspectWrapper` feeds (an inspector that raised is not fed again)
    and then finished, the verdict of the VHDX inspector — `format_match`, `complete`,
    `virtual_size`, the `safety_check` outcome and the error raised while feeding — is the function
    `specVhdx` of the concatenated bytes.  Hypotheses (both decidable predicates on the stream):
    `VhdxForward` — the metadata-region pointer is ≥ 256 KiB and the size item that is found lies at or
    after the end of the metadata entry table; `VhdxMetaSigOK` — the metadata region, if 32 bytes of
    it are in the stream, starts with `metadata`.  Missing: streams outside the hypotheses
    (known findings KF_D7 and KF_N4), where the verdict does depend on the chunking. -/
theorem vhdx_chunk_independent_partial (s0 : Insp) (h0 : Insp.init .vhdx = some s0) (chunks : List Bytes)
    (hf : VhdxForward chunks.flatten) (hs : VhdxMetaSigOK chunks.flatten) :
    verdict (runChunks s0 chunks) = specVhdx chunks.flatten := by
  rw [lemma_init_vhdx] at h0
  simp only [Option.some.injEq] at h0
  subst h0
  obtain ⟨q, hq, hnext, hend⟩ := lemma_vinv_feed chunks.flatten hf hs chunks [] (stA [])
    (VInv.early (by simp)) (by simp)
  unfold runChunks
  cases hfeed : feed (stA []) chunks with
  | mk st e =>
    rw [hfeed] at hnext hend
    cases e with
    | some err => exact lemma_verdict_err _ q st err hq hnext
    | none =>
      have := hend rfl
      subst this
      exact lemma_verdict_state _ st hnext

/-- … hence two chunkings of the same bytes give the same verdict, component by component -/
theorem vhdx_verdict_eq_partial (s0 : Insp) (h0 : Insp.init .vhdx = some s0) (c1 c2 : List Bytes)
    (h : c1.flatten = c2.flatten) (hf : VhdxForward c1.flatten) (hs : VhdxMetaSigOK c1.flatten) :
    let v1 := verdict (runChunks s0 c1)
    let v2 := verdict (runChunks s0 c2)
    v1.fmtMatch = v2.fmtMatch ∧ v1.complete = v2.complete ∧ v1.vsize = v2.vsize ∧
    v1.safety = v2.safety ∧ v1.raised = v2.raised := by
  have e1 := vhdx_chunk_independent_partial s0 h0 c1 hf hs
  have e2 := vhdx_chunk_independent_partial s0 h0 c2 (h ▸ hf) (h ▸ hs)
  simp only [e1, e2, h, and_self]

/-- the same at every point of the feed (before `finish()`), as long as the inspector has not raised:
    what `format_match`, `complete`, `virtual_size` and `safety_check` answer after any chunk list is
    the specification's verdict of the bytes streamed so far -/
theorem vhdx_verdict_at_every_point_partial (s0 : Insp) (h0 : Insp.init .vhdx = some s0) (chunks : List Bytes)
    (hf : VhdxForward chunks.flatten) (hs : VhdxMetaSigOK chunks.flatten)
    (hok : (feed s0 chunks).2 = none) :
    verdict ((feed s0 chunks).1.finish, none) = specVhdx chunks.flatten := by
  rw [lemma_init_vhdx] at h0
  simp only [Option.some.injEq] at h0
  subst h0
  obtain ⟨q, hq, hnext, hend⟩ := lemma_vinv_feed chunks.flatten hf hs chunks [] (stA [])
    (VInv.early (by simp)) (by simp)
  have := hend hok
  subst this
  cases hfeed : feed (stA []) chunks with
  | mk st e =>
    rw [hfeed] at hnext hok
    simp only at hok
    subst hok
    exact lemma_verdict_state _ st hnext

/-- whether the inspector raises while being fed, and with what, does not depend on the chunking -/
theorem vhdx_raised_chunk_independent_partial (s0 : Insp) (h0 : Insp.init .vhdx = some s0) (c1 c2 : List Bytes)
    (h : c1.flatten = c2.flatten) (hf : VhdxForward c1.flatten) (hs : VhdxMetaSigOK c1.flatten) :
    (feed s0 c1).2 = (feed s0 c2).2 := by
  have e1 := vhdx_chunk_independent_partial s0 h0 c1 hf hs
  have e2 := vhdx_chunk_independent_partial s0 h0 c2 (h ▸ hf) (h ▸ hs)
  have : (verdict (runChunks s0 c1)).raised = (verdict (runChunks s0 c2)).raised := by rw [e1, e2, h]
  exact this

/-! ### the hypotheses are met -/

/-- streams that end before the header region is complete satisfy both hypotheses -/
theorem vhdx_hyps_of_short (s : Bytes) (h : s.length < 262144) : VhdxForward s ∧ VhdxMetaSigOK s := by
  have : vhdxMetaOff s = none := by unfold vhdxMetaOff; rw [if_pos h]
  constructor
  · unfold VhdxForward vhdxForwardB; rw [this]
  · unfold VhdxMetaSigOK vhdxMetaSigOKB; rw [this]

/-- streams whose region table is refused or names no metadata region satisfy both hypotheses -/
theorem vhdx_hyps_of_no_metadata (s : Bytes)
    (h : ∀ mo, findMetaRegionB (sliceOf s 196608 65536) ≠ .ok (some mo)) : VhdxForward s ∧ VhdxMetaSigOK s := by
  have : vhdxMetaOff s = none := by
    unfold vhdxMetaOff
    split
    · rfl
    · split
      · rename_i mo heq; exact absurd heq (h mo)
      · rfl
  constructor
  · unfold VhdxForward vhdxForwardB; rw [this]
  · unfold VhdxMetaSigOK vhdxMetaSigOKB; rw [this]

/-- every well-formed image (`VhdxImage`: byte-level description) satisfies both hypotheses -/
theorem vhdx_hyps_of_image (s : Bytes) (rc j mo mc i ioff : Nat) (h : VhdxImage s rc j mo mc i ioff) :
    VhdxForward s ∧ VhdxMetaSigOK s := lemma_image_hyps s rc j mo mc i ioff h

/-! non-vacuity: a short stream; and the concrete 262 216-byte image `vhdxSample` (signature, one-entry
    region table, one-entry metadata table, size item), for which the specification — hence the
    inspector under every chunking — answers: match, complete, the declared size, safety check passed. -/
example : VhdxForward (ascii "vhdxfile") ∧ VhdxMetaSigOK (ascii "vhdxfile") :=
  vhdx_hyps_of_short _ (by decide)

example (sz : Bytes) (hs : sz.length = 8) : VhdxForward (vhdxSample sz) ∧ VhdxMetaSigOK (vhdxSample sz) :=
  vhdx_hyps_of_image _ _ _ _ _ _ _ (lemma_sample_image sz hs)

/-- the specification on a stream whose walks find an 8-byte size item that is completely there -/
theorem lemma_spec_size (x : Bytes) (mo ioff : Nat) (sz : Bytes) (hs : sz.length = 8) (hl : 262144 ≤ x.length)
    (hr : findMetaRegionB (sliceOf x 196608 65536) = .ok (some mo))
    (he : findMetaEntryB (sliceOf x mo 65536) = .ok (some (ioff, 8)))
    (hvd : sliceOf x (mo + ioff) 8 = sz) :
    specVhdx x = vhdxVerdict (startsWith x (ascii "vhdxfile")) true (.ok (leNat sz : Nat)) none := by
  have m : min 8 65536 = 8 := by omega
  have hl' : ¬ x.length < 262144 := by omega
  unfold specVhdx
  simp only [if_neg hl', hr, he, m, hvd, hs, if_true, unpackLE]

theorem vhdx_sample_spec (sz : Bytes) (hs : sz.length = 8) :
    specVhdx (vhdxSample sz) = vhdxVerdict true true (.ok (leNat sz : Nat)) none := by
  have himg := lemma_sample_image sz hs
  have hr := lemma_image_region _ _ _ _ _ _ _ himg
  obtain ⟨he, _, _⟩ := lemma_image_entry _ _ _ _ _ _ _ himg
  have hlen := lemma_sample_length sz hs
  have hvd : sliceOf (vhdxSample sz) (262144 + 64) 8 = sz := by
    have h1 := lemma_vslice_sliceOf (vhdxSample sz) (262144 + 64) 8 0 8 (by omega)
    rw [lemma_sample_size sz hs] at h1
    have h2 : slice (sliceOf (vhdxSample sz) (262144 + 64) 8) 0 8 = sliceOf (vhdxSample sz) (262144 + 64) 8 := by
      simp only [slice, sliceOf, List.drop_zero, List.take_take, Nat.min_self]
    rw [← h2]; exact h1
  have := lemma_spec_size (vhdxSample sz) 262144 64 sz hs (by omega) hr he hvd
  rw [lemma_sample_magic] at this
  exact this

example (s0 : Insp) (h0 : Insp.init .vhdx = some s0) (chunks : List Bytes)
    (h : chunks.flatten = vhdxSample [0, 0, 0, 64, 0, 0, 0, 0]) :
    verdict (runChunks s0 chunks) = vhdxVerdict true true (.ok 1073741824) none := by
  have hyp := vhdx_hyps_of_image _ _ _ _ _ _ _ (lemma_sample_image [0, 0, 0, 64, 0, 0, 0, 0] rfl)
  rw [vhdx_chunk_independent_partial s0 h0 chunks (h ▸ hyp.1) (h ▸ hyp.2), h, vhdx_sample_spec _ rfl]
  rfl

end Oslo.Insp
