/-
VHDX: one `eat_chunk` computed exactly on the four shapes a VHDX inspector's region table can
have between chunks (ident+header / +metadata / +metadata(stopped)+vds), every region holding the
stream slice at its offset.
-/
import OsloProofs.Lemmas.VhdxBytes
import OsloProofs.Lemmas.Engine
import OsloProofs.Lemmas.Fmt
namespace Oslo.Insp

/-- a plain region (no `min_length`) that holds exactly the slice of the prefix `p` at its offsets -/
def plainR (rid off len : Nat) (p : Bytes) : Region :=
  { rid := rid, offset := off, length := len, minLength := none, data := sliceOf p off len,
    isEnd := false, endDone := false }

/-- a region as `new_region` creates it -/
def freshR (rid off len : Nat) : Region :=
  { rid := rid, offset := off, length := len, minLength := none, data := [], isEnd := false, endDone := false }

theorem lemma_plainR_complete (rid off len : Nat) (p : Bytes) :
    (plainR rid off len p).complete = decide (len ≤ p.length - off) := by
  simp only [plainR, Region.complete, Bool.false_eq_true, if_false, lemma_sliceOf_length]
  by_cases h : len ≤ p.length - off <;> simp [h] <;> omega

theorem lemma_step_plainR (rid off len : Nat) (p c : Bytes) :
    stepRegion c (p.length + c.length) (plainR rid off len p) = plainR rid off len (p ++ c) := by
  unfold stepRegion
  cases hc : (plainR rid off len p).complete
  · have := lemma_capture_step (plainR rid off len p) p c rfl rfl
    simp only [plainR, Bool.not_false, Bool.or_true, if_true] at this ⊢
    exact this
  · rw [lemma_plainR_complete] at hc
    simp only [decide_eq_true_eq] at hc
    have : sliceOf p off len = sliceOf (p ++ c) off len := by
      apply lemma_prefix_eq_of_length (lemma_sliceOf_prefix p c off len)
      rw [lemma_sliceOf_length, lemma_sliceOf_length, List.length_append]
      omega
    simp only [plainR, Bool.not_true, Bool.or_self, Bool.false_eq_true, if_false, this]

theorem lemma_fresh_plainR (rid off len : Nat) (p : Bytes) (h : p.length ≤ off) :
    freshR rid off len = plainR rid off len p := by
  simp only [freshR, plainR, sliceOf, List.drop_eq_nil_of_le h, List.take_nil]

/-- stopping a region at what it holds -/
theorem lemma_trunc_plainR (rid off len : Nat) (p : Bytes) :
    { plainR rid off len p with length := (plainR rid off len p).data.length } =
      plainR rid off (sliceOf p off len).length p := by
  simp only [plainR, sliceOf, Region.mk.injEq, true_and, and_true]
  rw [List.take_eq_take_iff]
  simp only [List.length_take, List.length_drop]
  omega

/-- a VHDX inspector that has not finished -/
def vst (t : Nat) (regs : List (String × Region)) (k : Nat) : Insp :=
  { fmt := .vhdx, total := t, regions := regs, nextRid := k, finished := false, checks := ["null"],
    qcowInfo := none, descText := none, vmdkType := formatNotFound }

theorem lemma_postProcess_vhdx (s : Insp) (h : s.fmt = .vhdx) : postProcess s = vhdxPostProcess s := by
  unfold postProcess; rw [h]

theorem lemma_runCallbacks_vhdx (names : List String) (s : Insp) (h : s.fmt = .vhdx) :
    runCallbacks s names = (s, none) := by
  induction names with
  | nil => rfl
  | cons n ns ih =>
    have : regionComplete s n = (s, none) := by
      unfold regionComplete; rw [h]
    simp only [runCallbacks, this, ih]

/-- `eat_chunk` of a VHDX inspector: capture, post-process, the `while new_regions` loop -/
theorem lemma_eatChunk_vhdx (t k : Nat) (regs : List (String × Region)) (c : Bytes) :
    eatChunk (vst t regs k) c =
      match vhdxPostProcess (vst (t + c.length) (regs.map (fun p => (p.1, stepRegion c (t + c.length) p.2))) k) with
      | (s3, some e) => (s3, some e)
      | (s3, none) => followUp 8 s3 c (regs.map (·.2.rid)) := by
  unfold eatChunk
  simp only [vst, Bool.false_eq_true, if_false]
  rw [lemma_captureAll_nil]
  simp only
  rw [lemma_postProcess_vhdx _ rfl]
  have f3 := lemma_vhdxPP_fmt (vst (t + c.length) (regs.map (fun p => (p.1, stepRegion c (t + c.length) p.2))) k)
  simp only [vst] at f3
  generalize vhdxPostProcess _ = r at f3 ⊢
  obtain ⟨s3, e3⟩ := r
  cases e3 with
  | some e => rfl
  | none =>
    simp only at f3 ⊢
    have f4 := lemma_followUp_fmt 8 s3 c (regs.map (·.2.rid))
    generalize followUp 8 s3 c (regs.map (·.2.rid)) = r4 at f4 ⊢
    obtain ⟨s4, e4⟩ := r4
    cases e4 with
    | some e => rfl
    | none => exact lemma_runCallbacks_vhdx _ s4 (f4.trans f3)

theorem lemma_captureAll_only (s : Insp) (c : Bytes) (only : List String) (hne : only.isEmpty = false) :
    s.captureAll c only = { s with regions := s.regions.map (fun p =>
      (p.1, if only.contains p.1 then stepRegion c s.total p.2 else p.2)) } := by
  unfold Insp.captureAll stepRegion
  congr 1
  apply List.map_congr_left
  intro p _
  rw [hne, Bool.false_or]
  cases only.contains p.1 <;> simp
  split <;> rfl

/-! ### post-processing on the three shapes -/

theorem lemma_pp_A (t k : Nat) (ri rh : Region) :
    vhdxPostProcess (vst t [("ident", ri), ("header", rh)] k) =
      if rh.complete then
        match findMetaRegionB rh.data with
        | .error e => (vst t [("ident", ri), ("header", rh)] k, some e)
        | .ok none => (vst t [("ident", ri), ("header", rh)] k, none)
        | .ok (some off) =>
          (vst t [("ident", ri), ("header", rh), ("metadata", freshR k off 65536)] (k + 1), none)
      else (vst t [("ident", ri), ("header", rh)] k, none) := by
  have hl : lookupR "header" (vst t [("ident", ri), ("header", rh)] k).regions = some rh := by
    simp [vst, lookupR]
  unfold vhdxPostProcess
  rw [lemma_findMetaRegion_eq _ rh hl]
  simp only [Insp.region, Insp.hasRegion, vst, lookupR]
  cases hc : rh.complete
  · simp [hc]
  · simp only [hc, String.reduceEq, if_false, Option.isSome_none, Bool.not_false, Bool.and_self, if_true]
    cases findMetaRegionB rh.data with
    | error e => rfl
    | ok o =>
      cases o with
      | none => rfl
      | some off => simp [Insp.newRegion, Insp.hasRegion, lookupR, freshR]

theorem lemma_pp_M (t k : Nat) (ri rh rm : Region) :
    vhdxPostProcess (vst t [("ident", ri), ("header", rh), ("metadata", rm)] k) =
      match findMetaEntryB rm.data with
      | .error e => (vst t [("ident", ri), ("header", rh), ("metadata", rm)] k, some e)
      | .ok none => (vst t [("ident", ri), ("header", rh), ("metadata", rm)] k, none)
      | .ok (some (ioff, ilen)) =>
        (vst t [("ident", ri), ("header", rh), ("metadata", { rm with length := rm.data.length }),
                ("vds", freshR k (rm.offset + ioff) (min ilen 65536))] (k + 1), none) := by
  have hm : lookupR "metadata" (vst t [("ident", ri), ("header", rh), ("metadata", rm)] k).regions = some rm := by
    simp [vst, lookupR]
  unfold vhdxPostProcess
  rw [lemma_findMetaEntry_eq _ rm hm]
  simp only [Insp.region, Insp.hasRegion, vst, lookupR, String.reduceEq, if_false, if_true,
    Option.isSome_some, Option.isSome_none, Bool.not_true, Bool.and_false, Bool.false_eq_true,
    Bool.not_false, Bool.and_self]
  cases findMetaEntryB rm.data with
  | error e => rfl
  | ok o =>
    cases o with
    | none => rfl
    | some x =>
      obtain ⟨ioff, ilen⟩ := x
      simp [vhdxAddVds, Insp.updRegion, Insp.newRegion, Insp.hasRegion, lookupR, freshR, Gen.vhdxMetaTableMax]

theorem lemma_pp_V (t k : Nat) (ri rh rm rv : Region) :
    vhdxPostProcess (vst t [("ident", ri), ("header", rh), ("metadata", rm), ("vds", rv)] k) =
      (vst t [("ident", ri), ("header", rh), ("metadata", rm), ("vds", rv)] k, none) := by
  unfold vhdxPostProcess
  simp [Insp.region, Insp.hasRegion, vst, lookupR]

/-! ### the `while new_regions` loop, one round -/

theorem lemma_followUp_succ (fuel : Nat) (s : Insp) (c : Bytes) (seen : List Nat) :
    followUp (fuel + 1) s c seen =
      (if (s.regions.filter (fun p => !seen.contains p.2.rid)).isEmpty then (s, none) else
       match postProcess (s.captureAll c ((s.regions.filter (fun p => !seen.contains p.2.rid)).map (·.1))) with
       | (s2, some e) => (s2, some e)
       | (s2, none) => followUp fuel s2 c (seen ++ (s.regions.filter (fun p => !seen.contains p.2.rid)).map (·.2.rid))) := by
  rw [followUp]
  rfl

theorem lemma_capture_only_meta (t k : Nat) (a b m : Region) (c : Bytes) :
    (vst t [("ident", a), ("header", b), ("metadata", m)] k).captureAll c ["metadata"] =
      vst t [("ident", a), ("header", b), ("metadata", stepRegion c t m)] k := by
  rw [lemma_captureAll_only _ _ _ rfl]
  simp [vst]

theorem lemma_capture_only_vds (t k : Nat) (a b m v : Region) (c : Bytes) :
    (vst t [("ident", a), ("header", b), ("metadata", m), ("vds", v)] k).captureAll c ["vds"] =
      vst t [("ident", a), ("header", b), ("metadata", m), ("vds", stepRegion c t v)] k := by
  rw [lemma_captureAll_only _ _ _ rfl]
  simp [vst]

/-! ### the three shapes between chunks -/

def stA (q : Bytes) : Insp :=
  vst q.length [("ident", plainR 0 0 32 q), ("header", plainR 1 196608 65536 q)] 2

def stM (q : Bytes) (mo : Nat) : Insp :=
  vst q.length [("ident", plainR 0 0 32 q), ("header", plainR 1 196608 65536 q),
                ("metadata", plainR 2 mo 65536 q)] 3

def stV (q : Bytes) (mo L vo vl : Nat) : Insp :=
  vst q.length [("ident", plainR 0 0 32 q), ("header", plainR 1 196608 65536 q),
                ("metadata", plainR 2 mo L q), ("vds", plainR 3 vo vl q)] 4

/-- what happens once the metadata region has been presented the current chunk: the entry walk, and
    if it finds the size item, the creation and first capture of the `vds` region -/
def metaTail (fuel : Nat) (q c : Bytes) (mo : Nat) : Insp × Option Err :=
  match vhdxPostProcess (stM q mo) with
  | (s2, some e) => (s2, some e)
  | (s2, none) => followUp fuel s2 c [0, 1, 2]

theorem lemma_metaTail_err (fuel : Nat) (q c : Bytes) (mo : Nat) (e : Err)
    (h : findMetaEntryB (sliceOf q mo 65536) = .error e) : metaTail fuel q c mo = (stM q mo, some e) := by
  have hd : (plainR 2 mo 65536 q).data = sliceOf q mo 65536 := rfl
  unfold metaTail stM
  rw [lemma_pp_M, hd, h]

theorem lemma_metaTail_none (fuel : Nat) (q c : Bytes) (mo : Nat)
    (h : findMetaEntryB (sliceOf q mo 65536) = .ok none) : metaTail fuel q c mo = (stM q mo, none) := by
  have hd : (plainR 2 mo 65536 q).data = sliceOf q mo 65536 := rfl
  unfold metaTail stM
  rw [lemma_pp_M, hd, h]
  simp only
  apply lemma_followUp_none
  intro p hp
  simp only [vst, List.mem_cons, List.not_mem_nil, or_false] at hp
  rcases hp with rfl | rfl | rfl <;> simp [plainR]

theorem lemma_metaTail_some (n : Nat) (p c : Bytes) (mo ioff ilen : Nat)
    (h : findMetaEntryB (sliceOf (p ++ c) mo 65536) = .ok (some (ioff, ilen))) (hf : p.length ≤ mo + ioff) :
    metaTail (n + 2) (p ++ c) c mo =
      (stV (p ++ c) mo (sliceOf (p ++ c) mo 65536).length (mo + ioff) (min ilen 65536), none) := by
  have hd : (plainR 2 mo 65536 (p ++ c)).data = sliceOf (p ++ c) mo 65536 := rfl
  have ho : (plainR 2 mo 65536 (p ++ c)).offset = mo := rfl
  unfold metaTail stM
  rw [lemma_pp_M, hd, h]
  simp only
  rw [← hd, lemma_trunc_plainR, ho, lemma_fresh_plainR 3 (mo + ioff) (min ilen 65536) p hf, lemma_followUp_succ]
  have hfr : (vst (p ++ c).length [("ident", plainR 0 0 32 (p ++ c)), ("header", plainR 1 196608 65536 (p ++ c)),
        ("metadata", plainR 2 mo (sliceOf (p ++ c) mo 65536).length (p ++ c)),
        ("vds", plainR 3 (mo + ioff) (min ilen 65536) p)] (3 + 1)).regions.filter
          (fun x => !([0, 1, 2] : List Nat).contains x.2.rid) =
      [("vds", plainR 3 (mo + ioff) (min ilen 65536) p)] := by
    simp [vst, plainR, List.filter]
  rw [hfr]
  simp only [List.isEmpty_cons, Bool.false_eq_true, if_false, List.map_cons, List.map_nil]
  rw [lemma_capture_only_vds, List.length_append, lemma_step_plainR, lemma_postProcess_vhdx _ rfl, lemma_pp_V]
  simp only
  rw [lemma_followUp_none]
  · simp only [stV, List.length_append, hd, Nat.reduceAdd]
  · intro x hx
    simp only [vst, List.mem_cons, List.not_mem_nil, or_false] at hx
    rcases hx with rfl | rfl | rfl | rfl <;> simp [plainR]

/-! ### one `eat_chunk` from each shape -/

theorem lemma_stepA (p c : Bytes) :
    ([("ident", plainR 0 0 32 p), ("header", plainR 1 196608 65536 p)] : List (String × Region)).map
        (fun x => (x.1, stepRegion c (p.length + c.length) x.2)) =
      [("ident", plainR 0 0 32 (p ++ c)), ("header", plainR 1 196608 65536 (p ++ c))] := by
  simp only [List.map_cons, List.map_nil, lemma_step_plainR]

theorem lemma_eat_A_early (p c : Bytes) (h : (p ++ c).length < 262144) :
    eatChunk (stA p) c = (stA (p ++ c), none) := by
  unfold stA
  rw [lemma_eatChunk_vhdx, lemma_stepA, lemma_pp_A]
  have hc : (plainR 1 196608 65536 (p ++ c)).complete = false := by
    rw [lemma_plainR_complete]; simp only [List.length_append] at h ⊢; simp; omega
  simp only [hc, Bool.false_eq_true, if_false, List.length_append]
  apply lemma_followUp_none
  intro x hx
  simp only [vst, List.mem_cons, List.not_mem_nil, or_false] at hx
  rcases hx with rfl | rfl <;> simp [plainR]

theorem lemma_eat_A_err (p c : Bytes) (e : Err) (h : 262144 ≤ (p ++ c).length)
    (hr : findMetaRegionB (sliceOf (p ++ c) 196608 65536) = .error e) :
    eatChunk (stA p) c = (stA (p ++ c), some e) := by
  have hd : (plainR 1 196608 65536 (p ++ c)).data = sliceOf (p ++ c) 196608 65536 := rfl
  unfold stA
  rw [lemma_eatChunk_vhdx, lemma_stepA, lemma_pp_A]
  have hc : (plainR 1 196608 65536 (p ++ c)).complete = true := by
    rw [lemma_plainR_complete]; simp only [List.length_append] at h ⊢; simp; omega
  simp only [hc, if_true, hd, hr, List.length_append]

theorem lemma_eat_A_none (p c : Bytes) (h : 262144 ≤ (p ++ c).length)
    (hr : findMetaRegionB (sliceOf (p ++ c) 196608 65536) = .ok none) :
    eatChunk (stA p) c = (stA (p ++ c), none) := by
  have hd : (plainR 1 196608 65536 (p ++ c)).data = sliceOf (p ++ c) 196608 65536 := rfl
  unfold stA
  rw [lemma_eatChunk_vhdx, lemma_stepA, lemma_pp_A]
  have hc : (plainR 1 196608 65536 (p ++ c)).complete = true := by
    rw [lemma_plainR_complete]; simp only [List.length_append] at h ⊢; simp; omega
  simp only [hc, if_true, hd, hr, List.length_append]
  apply lemma_followUp_none
  intro x hx
  simp only [vst, List.mem_cons, List.not_mem_nil, or_false] at hx
  rcases hx with rfl | rfl <;> simp [plainR]

theorem lemma_eat_A_some (p c : Bytes) (mo : Nat) (h : 262144 ≤ (p ++ c).length)
    (hr : findMetaRegionB (sliceOf (p ++ c) 196608 65536) = .ok (some mo)) (hf : p.length ≤ mo) :
    eatChunk (stA p) c = metaTail 7 (p ++ c) c mo := by
  have hd : (plainR 1 196608 65536 (p ++ c)).data = sliceOf (p ++ c) 196608 65536 := rfl
  unfold stA
  rw [lemma_eatChunk_vhdx, lemma_stepA, lemma_pp_A]
  have hc : (plainR 1 196608 65536 (p ++ c)).complete = true := by
    rw [lemma_plainR_complete]; simp only [List.length_append] at h ⊢; simp; omega
  simp only [hc, if_true, hd, hr]
  rw [lemma_fresh_plainR 2 mo 65536 p hf, lemma_followUp_succ]
  have hfr : (vst (p.length + c.length) [("ident", plainR 0 0 32 (p ++ c)), ("header", plainR 1 196608 65536 (p ++ c)),
        ("metadata", plainR 2 mo 65536 p)] (2 + 1)).regions.filter
          (fun x => !(([("ident", plainR 0 0 32 p), ("header", plainR 1 196608 65536 p)] :
              List (String × Region)).map (·.2.rid)).contains x.2.rid) =
      [("metadata", plainR 2 mo 65536 p)] := by
    simp [vst, plainR, List.filter]
  rw [hfr]
  simp only [List.isEmpty_cons, Bool.false_eq_true, if_false, List.map_cons, List.map_nil]
  rw [lemma_capture_only_meta, lemma_step_plainR, lemma_postProcess_vhdx _ rfl]
  unfold metaTail stM
  simp only [List.length_append, plainR, List.cons_append, List.nil_append]

theorem lemma_eat_M (p c : Bytes) (mo : Nat) :
    eatChunk (stM p mo) c = metaTail 8 (p ++ c) c mo := by
  unfold stM
  rw [lemma_eatChunk_vhdx]
  simp only [List.map_cons, List.map_nil, lemma_step_plainR]
  unfold metaTail stM
  simp only [List.length_append, plainR]

theorem lemma_eat_V (p c : Bytes) (mo L vo vl : Nat) :
    eatChunk (stV p mo L vo vl) c = (stV (p ++ c) mo L vo vl, none) := by
  unfold stV
  rw [lemma_eatChunk_vhdx]
  simp only [List.map_cons, List.map_nil, lemma_step_plainR]
  rw [lemma_pp_V]
  simp only [List.length_append]
  apply lemma_followUp_none
  intro x hx
  simp only [vst, List.mem_cons, List.not_mem_nil, or_false] at hx
  rcases hx with rfl | rfl | rfl | rfl <;> simp [plainR]

end Oslo.Insp
